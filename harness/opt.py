"""
Running the real optimizers (QR / CCQR / GQR) with taps, and encoding the run for the Lean
model (`replay`, `rank`, `perm` requests).
"""
from __future__ import annotations

import numpy as np

from . import common as C
from . import gen


class OptCase:
    """One optimizer configuration on one basis matrix."""

    def __init__(self, B, kind="qr", costs=None, gqr=None, meta=None):
        self.B = np.array(B, dtype=float)
        self.kind = kind            # 'qr' | 'ccqr' | 'gqr'
        self.costs = None if costs is None else np.array(costs, dtype=float)
        self.gqr = gqr or {}        # keyword arguments for GQR.fit
        self.meta = meta or {}

    def describe(self):
        d = {"kind": self.kind, "B": self.B.tolist(), "meta": self.meta}
        if self.costs is not None:
            d["costs"] = self.costs.tolist()
        if self.gqr:
            d["gqr"] = {k: (np.asarray(v).tolist() if isinstance(v, (np.ndarray, list)) else v)
                        for k, v in self.gqr.items()}
        return d

    @staticmethod
    def from_desc(d):
        g = dict(d.get("gqr") or {})
        for k in ("idx_constrained", "all_sensors"):
            if k in g and g[k] is not None:
                g[k] = np.array(g[k], dtype=int)
        return OptCase(np.array(d["B"], dtype=float), d["kind"], d.get("costs"), g, d.get("meta"))

    # -- real code ---------------------------------------------------------------
    def make_optimizer(self):
        from pysensors.optimizers import CCQR, GQR, QR
        if self.kind == "qr":
            return QR(), {}
        if self.kind == "ccqr":
            return CCQR(sensor_costs=None if self.costs is None else self.costs.copy()), {}
        if self.kind == "gqr":
            kw = {}
            for k, v in self.gqr.items():
                kw[k] = v.copy() if isinstance(v, np.ndarray) else v
            if self.meta.get("np_ints"):
                # counts that come out of numpy (np.arange, argmax, …) are numpy integers, not Python ints
                for k_ in ("n_sensors", "n_const_sensors"):
                    if isinstance(kw.get(k_), int):
                        kw[k_] = (np.int64 if self.meta["np_ints"] == 64 else np.int32)(kw[k_])
            rc = self.meta.get("region_container")
            if rc and isinstance(kw.get("idx_constrained"), np.ndarray) and kw["idx_constrained"].size >= 1:
                # the region as it comes out of other numpy calls: np.nonzero(mask) is a 1-tuple, a window of the pixel-index grid
                # is 2-D, a hand-written region is a list.  The rule reads it through np.isin only, i.e. as a set of indices.
                L = kw["idx_constrained"]
                if rc == "tuple1":
                    kw["idx_constrained"] = (L,)
                elif rc == "2d":
                    kw["idx_constrained"] = L.reshape(2, -1) if (L.size % 2 == 0 and L.size >= 4 and self.B.shape[0] % 2) else L.reshape(1, -1)
                elif rc == "list":
                    kw["idx_constrained"] = [int(x) for x in L]
                elif rc == "dup":
                    # two overlapping windows chained with np.concatenate: some indices occur twice (still the same SET of sensors)
                    kw["idx_constrained"] = np.concatenate([L, L[: max(1, L.size // 2)]])
            if self.meta.get("all_sensors_head") and isinstance(kw.get("all_sensors"), np.ndarray) and kw.get("n_sensors"):
                # only the head of the unconstrained ranking is handed over (all the rule ever reads of it when its first N entries
                # already decide the counts)
                kw["all_sensors"] = kw["all_sensors"][: int(kw["n_sensors"])].copy()
            if self.omits_all_sensors():
                kw.pop("all_sensors", None)       # the keyword is optional where the rule can do without the unconstrained ranking
            return GQR(), kw
        raise ValueError(self.kind)

    _toggle = [0]

    def omits_all_sensors(self):
        """`predetermined` never reads the unconstrained ranking; `exact_n` with an allowance ≥ 1 treats a missing ranking as
        "no region sensor ranked yet" and forces the region picks at the end (with allowance 0 it would hand over to max_n,
        which cannot do without the ranking)"""
        g = self.gqr
        if self.kind != "gqr" or not self.meta.get("omit_all_sensors"):
            return False
        o = g.get("constraint_option")
        return o == "predetermined" or (o == "exact_n" and int(g.get("n_const_sensors", 0)) >= 1 and g.get("n_sensors") not in (None, 0))

    def run_real(self):
        """Returns dict(ranking, offsets, dlens(list per step) , taps...).
        Every third case (recorded in meta['prefit'], so replays reproduce it) the optimizer object has already been
        fitted once on other data of the same width: a fit is a function of its arguments and hyper-parameters only."""
        opt, kw = self.make_optimizer()
        n, m = self.B.shape
        k = min(n, m)
        res = {"n": n, "m": m, "k": k, "tap_unavailable": False}
        if "prefit" not in self.meta:
            OptCase._toggle[0] += 1
            t = OptCase._toggle[0]
            self.meta["prefit"] = ("none" if t % 3 else ["same", "unconstrained", "other_option"][(t // 3) % 3])
        pf = self.meta["prefit"]
        pf = {True: "same", False: "none"}.get(pf, pf)
        if pf != "none" and n >= 1:
            # the object's earlier life: a fit on other data with the same keywords, the natural two-stage use of GQR (first
            # unconstrained, then constrained), or an earlier fit under another constraint option
            kw0 = {k_: (v.copy() if isinstance(v, np.ndarray) else v) for k_, v in kw.items()}
            if self.kind == "gqr" and not kw.get("constraint_option") and pf in ("other_option", "unconstrained") and n >= 2:
                # an unconstrained GQR fit on an object that was used WITH a constraint before: GQR keeps its keywords, so the
                # judged fit says constraint_option="" explicitly (nothing of the earlier rule may survive)
                kw0 = {"idx_constrained": np.arange(max(1, n // 2)), "n_sensors": min(k, 2), "n_const_sensors": 0,
                       "all_sensors": np.arange(n), "constraint_option": ["max_n", "exact_n", "predetermined"][n % 3]}
                kw = dict(kw, constraint_option="")
            elif self.kind == "gqr" and pf == "unconstrained":
                kw0 = {}
            elif self.kind == "gqr" and pf == "other_option" and kw0.get("constraint_option"):
                opts = [o for o in ("max_n", "exact_n", "predetermined") if o != kw0["constraint_option"]]
                kw0["constraint_option"] = opts[len(self.B) % 2]
            try:
                opt.fit(self.B[::-1].copy(), **kw0)
            except Exception:
                opt, kw = self.make_optimizer()
        Bc = self.B.copy()
        if self.meta.get("dtype") in ("int64", "int32") and np.array_equal(np.round(Bc), Bc):
            Bc = Bc.astype(self.meta["dtype"])       # integer-valued data stored as integers (the Identity basis keeps that dtype)
        if self.meta.get("dtype") in ("float32", "float16"):
            # entries are small integers / dyadic (callers check exact representability): the same matrix, stored narrower.
            # CCQR / GQR work on a copy of at least single precision (result_type(dtype, float32)).
            Bc = Bc.astype(self.meta["dtype"])
        if self.kind == "qr":
            opt.fit(Bc)
            r = np.array(opt.get_sensors()).tolist()
            res["ranking"] = r
            if gen.is_perm(r, n):
                res["offsets"], _ = gen.offsets_from_ranking(r, n, k)
            res["dlens"] = None
        elif self.kind == "ccqr":
            with gen.tap_ccqr() as tap:
                opt.fit(Bc)
            r = np.array(opt.get_sensors()).tolist()
            res["ranking"] = r
            protocol_ok = (not tap.unavailable) and len(tap.steps) == k and all(len(s[0]) == n - j for j, s in enumerate(tap.steps))
            if protocol_ok and gen.is_perm(r, n):
                # the tapped offsets must also be the ones that produce the returned ranking (a refactoring that pivots on a reduced
                # set of columns keeps the call protocol but not its meaning: the trace is then read off the ranking itself)
                offs_r, _ = gen.offsets_from_ranking(r, n, k)
                protocol_ok = offs_r == [s[1] for s in tap.steps]
            if not protocol_ok:
                res["tap_unavailable"] = True
                if gen.is_perm(r, n):
                    res["offsets"], _ = gen.offsets_from_ranking(r, n, k)
                res["dlens"] = None
            else:
                res["offsets"] = [s[1] for s in tap.steps]
                res["dlens"] = [s[0] for s in tap.steps]
                res["step_costs"] = [s[2] for s in tap.steps]
        else:
            with gen.tap_gqr() as tap:
                opt.fit(Bc, **kw)
            r = np.array(opt.get_sensors()).tolist()
            res["ranking"] = r
            if tap.unavailable or len(tap.steps) != k:
                res["tap_unavailable"] = True
                if gen.is_perm(r, n):
                    res["offsets"], _ = gen.offsets_from_ranking(r, n, k)
                res["dlens"] = None
            else:
                try:
                    res["offsets"] = gen.offsets_from_piv_history([s["piv"] for s in tap.steps], r, k)
                except ValueError:
                    res["offsets"] = None
                res["dlens"] = [s["before"] for s in tap.steps]
                res["zeros"] = [[(b != 0 and a == 0) for b, a in zip(s["before"], s["after"])] for s in tap.steps]
                res["pivs"] = [s["piv"] for s in tap.steps]
        res["B_unchanged"] = bool(np.array_equal(Bc.astype(float), self.B))
        return res

    # -- Lean model ---------------------------------------------------------------
    def cfg_tokens(self):
        g = self.gqr
        opt = {"": "none", None: "none", "max_n": "max_n", "exact_n": "exact_n",
               "predetermined": "predetermined"}[g.get("constraint_option", "") if self.kind == "gqr" else ""]
        L = [int(x) for x in (g.get("idx_constrained", []) if self.kind == "gqr" else [])]
        s = int(g.get("n_const_sensors", 0)) if self.kind == "gqr" else 0
        A = [int(x) for x in (g.get("all_sensors", []) if self.kind == "gqr" else [])]
        if self.omits_all_sensors():
            A = []
        ns = g.get("n_sensors", None) if self.kind == "gqr" else None
        return f"{opt} {C.enc_nats(L)} {s} {C.enc_nats(A)} {C.enc_optnat(ns)}"

    def costs_tokens(self):
        n = self.B.shape[0]
        if self.kind == "ccqr" and self.costs is not None:
            return C.enc_rats(self.costs.tolist())
        return C.enc_rats([0] * n)

    def req_replay(self, offsets, deltas, verbose=False):
        """deltas: one acceptance budget per step (a single value is repeated)"""
        if not isinstance(deltas, (list, tuple)):
            deltas = [deltas]
        return f"replay{'v' if verbose else ''} {C.enc_mat(self.B)} {self.costs_tokens()} {self.cfg_tokens()} {C.enc_rats(deltas)} {C.enc_nats(offsets)}"

    def req_rank(self):
        return f"rank {C.enc_mat(self.B)} {self.costs_tokens()} {self.cfg_tokens()}"

    def req_perm(self, offsets):
        n, m = self.B.shape
        return f"perm {n} {min(n, m)} {C.enc_nats(offsets)}"


def parse_replay(resp):
    """'ok p.. | v v v' -> (p list, verdict dicts)"""
    if not resp.startswith("ok "):
        return None, None
    left, _, right = resp[3:].partition("|")
    p = [int(x) for x in left.split()]
    vs = []
    for tok in right.split():
        parts = tok.split(",")
        ok, ch, n2, msk, best, uniq = parts[:6]
        v = {"ok": ok == "1", "chosen": int(ch), "n2": C.dec_rat(n2), "masked": msk == "1",
             "best": int(best), "uniq": uniq == "1"}
        if len(parts) > 6:
            v["cand_n2"] = [C.dec_rat(x) for x in parts[6].split(":")] if parts[6] else []
        vs.append(v)
    return p, vs


def scale_of(B):
    """largest initial sensor-row norm, rounded up to a power of two (exact Fraction); 1 for the zero matrix"""
    from fractions import Fraction
    mx = max((sum(C.frac(x) ** 2 for x in row) for row in B.tolist()), default=Fraction(0))
    if mx == 0:
        return Fraction(1)
    s = Fraction(1)
    while s * s < mx:
        s *= 2
    while (s / 2) * (s / 2) >= mx:
        s /= 2
    return s


def gen_gqr_kwargs(rng, B, feasible=None, overfill=False):
    """Random GQR keyword set on basis B (n×m). `feasible`: True → feasible (N,s) only,
    False → arbitrary but inside the code's own domain, None → mix.  `overfill`: the region holds several of the
    unconstrained top-N sensors and the allowance is smaller (some must be pushed out) – feasible."""
    from pysensors.optimizers import QR
    n, m = B.shape
    k = min(n, m)
    A = np.array(QR().fit(B.copy()).get_sensors()).copy()
    opt = rng.choice(["max_n", "exact_n", "predetermined"])
    if overfill and k >= 3 and n >= 5:
        N = rng.randint(3, k)
        t = rng.randint(2, min(N, n - N + 1, 4)) if min(N, n - N + 1, 4) >= 2 else 0
        if t:
            top = rng.sample(A[:N].tolist(), t)
            extra = [c for c in A[N:].tolist() if rng.random() < 0.3]
            L = sorted(set(top) | set(extra))
            s_ = rng.randint(0, t - 1)
            if N - s_ <= n - len(L):
                return {"idx_constrained": np.array(L, dtype=int), "n_sensors": N, "n_const_sensors": s_,
                        "all_sensors": A, "constraint_option": opt}
    size = rng.randint(0, n)
    L = sorted(rng.sample(range(n), size))
    N = rng.randint(1, k)
    if feasible is None:
        feasible = rng.random() < 0.7
    if feasible:
        lo = max(0, N - (n - len(L)))
        hi = min(N, len(L))
        if lo > hi:
            return None
        s = rng.randint(lo, hi)
    else:
        s = rng.randint(0, min(n, N + 1))
    return {"idx_constrained": np.array(L, dtype=int), "n_sensors": N, "n_const_sensors": s,
            "all_sensors": A, "constraint_option": opt}
