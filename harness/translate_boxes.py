"""
C13, second tie (translation): the membership tests of the two box helpers are regenerated from the CURRENT source into
the expression language of `lean/PsVerif/Model/GeomExpr.lean` and proved equal to the conditions the model's
`boxIndices` / `dfBoxIndices` filter with (`Generated/Boxes.lean`); the statements around the loops (unravel, the two
append lists, the transposed ravel; dropna and the row loop) are compared with the skeleton the model was written from.
"""
from __future__ import annotations

import ast
import os

from .translate_shapes import Fn, Untranslatable, CLOSE

GRID_AFTER = [
    "constrained_sensorsx = np.array(constrained_sensorsx)",
    "constrained_sensorsy = np.array(constrained_sensorsy)",
    "constrained_sensors_array = np.stack((constrained_sensorsy, constrained_sensorsx), axis=1)",
    "constrained_sensors_tuple = np.transpose(constrained_sensors_array)",
    "if len(constrained_sensorsx) == 0:\n    idx_constrained = []\nelse:\n    idx_constrained = np.ravel_multi_index(constrained_sensors_tuple, (nx, ny))",
    "return idx_constrained",
]
GRID_BEFORE = ["n_features = len(all_sensors)", "a = np.unravel_index(all_sensors, (nx, ny))", "constrained_sensorsx = []", "constrained_sensorsy = []"]
GRID_BODY = ["constrained_sensorsx.append(a[0][i])", "constrained_sensorsy.append(a[1][i])"]
DF_BEFORE = ["if df.isnull().values.any():\n    df = df.dropna()", "x = df[X_axis].to_numpy()", "n_features = x.shape[0]", "y = df[Y_axis].to_numpy()",
             "idx_constrained = []"]
DF_BODY = ["idx_constrained.append(i)"]
DF_AFTER = ["return idx_constrained"]


class BoxFn(Fn):
    def __init__(self, mode):
        super().__init__("box", {}, False)
        self.mode = mode
        for p in ("x_min", "x_max", "y_min", "y_max"):
            self.env[p] = ("ge", f'(.par "{p}")')

    def ge(self, e):
        t = ast.unparse(e)
        if self.mode == "grid" and t in ("a[0][i]", "a[1][i]"):
            return '(.par "a0")' if t == "a[0][i]" else '(.par "a1")'
        if self.mode == "df" and t in ("x[i]", "y[i]"):
            return ".x" if t == "x[i]" else ".y"
        return super().ge(e)


def translate(fn_node, mode):
    body = [s for s in fn_node.body if not (isinstance(s, ast.Expr) and isinstance(s.value, ast.Constant))]
    loops = [i for i, s in enumerate(body) if isinstance(s, ast.For)]
    if len(loops) != 1:
        raise Untranslatable("expected exactly one loop")
    k = loops[0]
    loop = body[k]
    if ast.unparse(loop.target) != "i" or ast.unparse(loop.iter) != "range(n_features)" or loop.orelse or len(loop.body) != 1 \
            or not isinstance(loop.body[0], ast.If) or loop.body[0].orelse:
        raise Untranslatable("loop of an unexpected form")
    before, after, inner = (GRID_BEFORE, GRID_AFTER, GRID_BODY) if mode == "grid" else (DF_BEFORE, DF_AFTER, DF_BODY)
    got_before = [ast.unparse(s) for s in body[:k]][-len(before):]
    if got_before != before:
        raise Untranslatable(f"statements before the loop differ from the modelled skeleton: {got_before}")
    if [ast.unparse(s) for s in body[k + 1:]] != after:
        raise Untranslatable("statements after the loop differ from the modelled skeleton")
    if [ast.unparse(s) for s in loop.body[0].body] != inner:
        raise Untranslatable("loop body differs from the modelled skeleton")
    return BoxFn(mode).gb(loop.body[0].test)


def analyse(repo):
    tree = ast.parse(open(os.path.join(str(repo), "pysensors", "utils", "_constraints.py")).read())
    fns = {n.name: n for n in tree.body if isinstance(n, ast.FunctionDef)}
    sites = []
    for sid, fname, mode in (("Box", "get_constrained_sensors_indices", "grid"), ("DfBox", "get_constrained_sensors_indices_dataframe", "df")):
        site = {"site": sid, "function": f"pysensors/utils/_constraints.py::{fname}", "found": False, "theorem": f"box_{sid}"}
        try:
            if fname not in fns:
                raise Untranslatable("function not found")
            g = translate(fns[fname], mode)
            if mode == "grid":
                site["lean"] = (f"def cond_{sid} : GB := {g}\n"
                                f"theorem box_{sid} (env : ShEnv) (p : Pt) : cond_{sid}.holds env p ↔ specBoxCond env = true := by\n"
                                f"  simp [cond_{sid}, GB.holds, GE.eval, specBoxCond] <;> {CLOSE}\n"
                                f"theorem indices_{sid} (xmin xmax ymin ymax : Rat) (n : Nat) (rk : List Nat) :\n"
                                f"    (rk.filter fun s => cond_{sid}.eval (boxEnv xmin xmax ymin ymax n s) {{ x := 0, y := 0 }}).map (fun s => (s % n) * n + s / n)\n"
                                f"      = boxIndices xmin xmax ymin ymax n rk :=\n"
                                f"  translated_box cond_{sid} box_{sid} xmin xmax ymin ymax n rk\n")
            else:
                site["lean"] = (f"def cond_{sid} : GB := {g}\n"
                                f"theorem box_{sid} (env : ShEnv) (p : Pt) : cond_{sid}.holds env p ↔ specDfBoxCond env p = true := by\n"
                                f"  simp [cond_{sid}, GB.holds, GE.eval, specDfBoxCond] <;> {CLOSE}\n")
            site["found"] = True
        except Untranslatable as e:
            site["why"] = str(e)
        sites.append(site)
    return sites


def emit(sites, out_path):
    parts = ["/- GENERATED by harness/translate_boxes.py from pysensors/utils/_constraints.py – do not edit. -/",
             "import PsVerif.Props.C13", "import Mathlib.Tactic.Tauto", "namespace PsVerif.Gen", "open PsVerif", ""]
    for s in sites:
        parts.append(f"/-- {s['function']} -/" if s["found"] else f"-- {s['function']}: NOT TRANSLATABLE ({s.get('why')})")
        if s["found"]:
            parts.append(s["lean"])
    parts.append("end PsVerif.Gen\n")
    text = "\n".join(parts)
    out_path = str(out_path)
    if not os.path.exists(out_path) or open(out_path).read() != text:
        open(out_path, "w").write(text)
    return sites


if __name__ == "__main__":
    import sys
    for s in analyse(sys.argv[1] if len(sys.argv) > 1 else "/repo"):
        print("==", s["site"], s["found"], s.get("why")); print(s.get("lean", ""))
