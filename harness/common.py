"""
Shared machinery of the pysensors verification harness.

* imports pysensors from $PYSENSORS_REPO (default /repo) -- the *working tree*, nothing installed;
* runs the Lean proof gate (lake build + axiom audit, cached by source hash);
* talks to the Lean model driver over the line protocol;
* writes evidence / replay files and prints VIOLATION / KNOWN-FINDING lines.
"""
from __future__ import annotations

import hashlib
import json
import os
import random
import re
import subprocess
import sys
import time
import warnings
from fractions import Fraction
from pathlib import Path

VERIF = Path(__file__).resolve().parent.parent
LEAN = Path(os.environ.get("VERIF_LEAN_DIR", str(VERIF / "lean")))     # override: development tools that run several checks at once
REPO = Path(os.environ.get("PYSENSORS_REPO", "/repo")).resolve()
DRIVER = LEAN / ".lake" / "build" / "bin" / "driver"
ALLOWED_AXIOMS = {"propext", "Classical.choice", "Quot.sound"}
FORBIDDEN_TOKENS = [
    "sorry", "admit", "native_decide", "bv_decide", "implemented_by", "unsafe ",
    "maxHeartbeats 0", "ofReduceBool",
]

if str(REPO) not in sys.path:
    sys.path.insert(0, str(REPO))
warnings.filterwarnings("ignore")
os.environ.setdefault("PYTHONWARNINGS", "ignore")


class HarnessError(Exception):
    """A failure of the machinery itself (exit 2, never 1)."""


# --------------------------------------------------------------------------- encoding

def frac(x) -> Fraction:
    """Exact rational value of a Python/numpy number (floats are converted exactly)."""
    if isinstance(x, Fraction):
        return x
    if isinstance(x, (int,)):
        return Fraction(x)
    try:
        import numpy as np
        if isinstance(x, np.integer):
            return Fraction(int(x))
        if isinstance(x, np.floating):
            return Fraction(float(x))
    except ImportError:
        pass
    return Fraction(x)


def enc_rat(x) -> str:
    f = frac(x)
    return str(f.numerator) if f.denominator == 1 else f"{f.numerator}/{f.denominator}"


def enc_list(xs, enc=str) -> str:
    xs = list(xs)
    return " ".join([str(len(xs))] + [enc(x) for x in xs])


def enc_nats(xs) -> str:
    return enc_list([int(x) for x in xs])


def enc_rats(xs) -> str:
    return enc_list(xs, enc_rat)


def enc_mat(B) -> str:
    rows = [list(r) for r in B]
    n = len(rows)
    m = len(rows[0]) if n else 0
    return " ".join([str(n), str(m)] + [enc_rat(x) for r in rows for x in r])


def enc_optnat(x) -> str:
    return "None" if x is None else str(int(x))


def dec_rat(s: str) -> Fraction:
    return Fraction(s)


# --------------------------------------------------------------------------- lean side

def _run(cmd, cwd=None, timeout=3600, env=None):
    return subprocess.run(cmd, cwd=cwd, capture_output=True, text=True, timeout=timeout, env=env)


def lean_sources_hash() -> str:
    h = hashlib.sha256()
    files = sorted(
        p for p in LEAN.rglob("*.lean") if ".lake" not in p.parts and "wip" not in p.parts
    ) + [LEAN / "lakefile.toml"]
    for p in files:
        h.update(str(p.relative_to(LEAN)).encode())
        h.update(p.read_bytes())
    return h.hexdigest()


def cached_lean_audit(audit_file: str):
    """`lake env lean Audit/<file>` (prints the axioms of generated theorems), cached under .lake by the hash of ALL Lean sources
    (generated files included): returns (returncode, output)."""
    cache = LEAN / ".lake" / "gen_audit_cache.json"
    h = lean_sources_hash()
    data = {}
    if cache.exists():
        try:
            data = json.loads(cache.read_text())
        except Exception:
            data = {}
    ent = data.get(audit_file)
    if ent and ent.get("hash") == h and ent.get("rc") == 0:
        return 0, ent["out"]
    r = _run(["lake", "env", "lean", f"Audit/{audit_file}"], cwd=LEAN, timeout=3600)
    out = r.stdout + r.stderr
    if r.returncode == 0:
        data[audit_file] = {"hash": h, "rc": 0, "out": out}
        cache.parent.mkdir(parents=True, exist_ok=True)
        cache.write_text(json.dumps(data))
    return r.returncode, out


def strip_comments(src: str) -> str:
    # remove block comments (possibly nested) and line comments
    out, depth, i = [], 0, 0
    while i < len(src):
        if src.startswith("/-", i):
            depth += 1
            i += 2
        elif src.startswith("-/", i) and depth > 0:
            depth -= 1
            i += 2
        elif depth > 0:
            i += 1
        elif src.startswith("--", i):
            j = src.find("\n", i)
            i = len(src) if j < 0 else j
        else:
            out.append(src[i])
            i += 1
    return "".join(out)


def forbidden_token_hits() -> list[str]:
    hits = []
    for p in sorted(LEAN.rglob("*.lean")):
        if ".lake" in p.parts or "wip" in p.parts:
            continue
        body = strip_comments(p.read_text())
        for t in FORBIDDEN_TOKENS:
            if t in body:
                hits.append(f"{p.relative_to(LEAN)}: {t.strip()}")
        if re.search(r"^\s*axiom\s", body, flags=re.M):
            hits.append(f"{p.relative_to(LEAN)}: axiom")
    return hits


def props_theorems() -> dict[str, list[str]]:
    """property id -> theorem names declared in lean/PsVerif/Props/<id>.lean"""
    res = {}
    for p in sorted((LEAN / "PsVerif" / "Props").glob("C*.lean")):
        body = strip_comments(p.read_text())
        names = re.findall(r"^\s*(?:protected\s+)?theorem\s+([A-Za-z_][\w.']*)", body, flags=re.M)
        # a property may have several theorem files: Props/C01.lean, Props/C01Life.lean, … all belong to C01
        res.setdefault(p.stem[:3], []).extend(names)
    return res


def props_modules(pid: str) -> list[str]:
    return ["PsVerif.Props." + p.stem for p in sorted((LEAN / "PsVerif" / "Props").glob(pid + "*.lean"))]


def write_audit_file() -> Path:
    thms = props_theorems()
    lines = ["import PsVerif", ""]
    for pid, names in thms.items():
        lines.append(f"-- {pid}")
        for n in names:
            lines.append(f"#print axioms PsVerif.{n}")
    path = LEAN / "Audit" / "All.lean"
    path.parent.mkdir(exist_ok=True)
    text = "\n".join(lines) + "\n"
    if not path.exists() or path.read_text() != text:
        path.write_text(text)
    return path


def lake_build(targets=("PsVerif", "driver")) -> tuple[bool, str]:
    r = _run(["lake", "build", *targets], cwd=LEAN, timeout=7200)
    return r.returncode == 0, (r.stdout + r.stderr)


def run_audit(force=False) -> dict:
    """Returns {'hash':…, 'theorems': {name: [axioms]}, 'forbidden': [...]}; cached by hash."""
    cache = LEAN / ".lake" / "audit_cache.json"
    write_audit_file()
    h = lean_sources_hash()
    if cache.exists() and not force:
        try:
            data = json.loads(cache.read_text())
            if data.get("hash") == h:
                return data
        except Exception:
            pass
    r = _run(["lake", "env", "lean", "Audit/All.lean"], cwd=LEAN, timeout=7200)
    out = r.stdout + r.stderr
    if r.returncode != 0:
        raise HarnessError("axiom audit failed to elaborate:\n" + out[-3000:])
    theorems = {}
    for m in re.finditer(
        r"'PsVerif\.([^']+)' (?:depends on axioms: \[([^\]]*)\]|does not depend on any axioms)",
        out.replace("\n ", " ").replace("\n", " "),
    ):
        axs = [a.strip() for a in (m.group(2) or "").split(",") if a.strip()]
        theorems[m.group(1)] = axs
    data = {"hash": h, "theorems": theorems, "forbidden": forbidden_token_hits(),
            "at": time.strftime("%Y-%m-%dT%H:%M:%SZ", time.gmtime())}
    cache.parent.mkdir(parents=True, exist_ok=True)
    cache.write_text(json.dumps(data, indent=1))
    return data


class ProofGate:
    """Result of the proof gate for one property."""

    def __init__(self, pid: str, tier: str):
        self.pid = pid
        t0 = time.time()
        ok, log = lake_build()
        self.build_ok = ok
        self.build_log = log
        self.theorems = {}
        self.bad = []
        self.forbidden = []
        self.leanchecker = None
        if ok:
            data = run_audit(force=False)
            names = props_theorems().get(pid, [])
            self.theorems = {n: data["theorems"].get(n) for n in names}
            self.forbidden = data["forbidden"]
            for n, axs in self.theorems.items():
                if axs is None or not set(axs) <= ALLOWED_AXIOMS:
                    self.bad.append(n)
            if tier == "thorough" and os.environ.get("VERIF_SKIP_LEANCHECKER") != "1":
                r = _run(["lake", "env", "leanchecker", *props_modules(pid)], cwd=LEAN,
                         timeout=7200)
                self.leanchecker = (r.returncode == 0)
                if r.returncode != 0:
                    self.bad.append("leanchecker:" + (r.stdout + r.stderr)[-500:])
        self.wall = time.time() - t0

    @property
    def ok(self):
        return self.build_ok and not self.bad and not self.forbidden and len(self.theorems) > 0

    def obligations(self):
        return len(self.theorems)

    def discharged(self):
        return sum(1 for n, a in self.theorems.items() if a is not None and set(a) <= ALLOWED_AXIOMS)

    def checker_cmd(self):
        c = "cd lean && lake build PsVerif driver && lake env lean Audit/All.lean"
        if self.leanchecker is not None:
            c += " && lake env leanchecker " + " ".join(props_modules(self.pid))
        return c

    def describe_failure(self):
        if not self.build_ok:
            return "lake build failed: " + self.build_log[-1500:]
        return f"theorems with missing/non-standard axioms: {self.bad}; forbidden tokens: {self.forbidden}"


class Driver:
    """Batch interface to the compiled Lean model driver."""

    def __init__(self):
        if not DRIVER.exists():
            ok, log = lake_build(("driver",))
            if not ok:
                raise HarnessError("cannot build Lean driver:\n" + log[-3000:])
        self.calls = 0

    def ask(self, lines: list[str]) -> list[str]:
        if not lines:
            return []
        for ln in lines:
            if "\n" in ln:
                raise HarnessError("newline inside request")
        inp = "\n".join(lines) + "\n"
        r = subprocess.run([str(DRIVER)], input=inp, capture_output=True, text=True, timeout=3600)
        if r.returncode != 0:
            raise HarnessError(f"driver crashed rc={r.returncode}: {r.stderr[-2000:]}")
        out = r.stdout.split("\n")
        if out and out[-1] == "":
            out.pop()
        if len(out) != len(lines):
            raise HarnessError(f"driver answered {len(out)} lines for {len(lines)} requests")
        self.calls += len(lines)
        return out

    def ask1(self, line: str) -> str:
        return self.ask([line])[0]


# --------------------------------------------------------------------------- run context

class Violation:
    def __init__(self, pid, kind, what, data, broken=None):
        self.pid = pid
        self.kind = kind          # 'concrete' | 'no-failing-input-found'
        self.what = what          # short human text
        self.data = data          # json-able replay payload
        self.broken = broken      # theorem / correspondence relation that no longer checks


class Ctx:
    """Per-run context: seed, tier, counters, violations, evidence."""

    def __init__(self, pid: str, tier: str, seed: int):
        self.pid = pid
        self.tier = tier
        self.seed = seed
        self.rng = random.Random((seed * 1000003) ^ int(hashlib.sha256(pid.encode()).hexdigest()[:8], 16))
        self.t0 = time.time()
        self.evaluations = 0
        self.nontrivial = set()
        self.samples = []
        self.dist = {}
        self.violations: list[Violation] = []
        self.known_hits: list[str] = []
        self.notes = []
        self.impl_traces = 0
        self.extra = {}
        self._driver = None

    @property
    def driver(self) -> Driver:
        if self._driver is None:
            self._driver = Driver()
        return self._driver

    @property
    def thorough(self):
        return self.tier == "thorough"

    def scale(self, quick: int, thorough: int) -> int:
        return thorough if self.thorough else quick

    def count(self, key, n=1):
        self.dist[key] = self.dist.get(key, 0) + n

    def sample(self, s, limit=6):
        if len(self.samples) < limit:
            self.samples.append(s)

    def nontriv(self, key):
        self.nontrivial.add(key if isinstance(key, (str, int, tuple)) else json.dumps(key, sort_keys=True, default=str))

    def np_rng(self, salt=0):
        import numpy as np
        return np.random.default_rng([self.seed, salt, int(hashlib.sha256(self.pid.encode()).hexdigest()[:8], 16)])

    def violation(self, kind, what, data, broken=None):
        self.violations.append(Violation(self.pid, kind, what, data, broken))


def load_known_findings():
    p = VERIF / "known_findings.json"
    if not p.exists():
        return []
    return json.loads(p.read_text()).get("findings", [])


def jsonable(x):
    try:
        import numpy as np
        if isinstance(x, np.ndarray):
            return x.tolist()
        if isinstance(x, (np.integer,)):
            return int(x)
        if isinstance(x, (np.floating,)):
            return float(x)
        if isinstance(x, (np.bool_,)):
            return bool(x)
    except ImportError:
        pass
    if isinstance(x, Fraction):
        return str(x)
    if isinstance(x, dict):
        return {str(k): jsonable(v) for k, v in x.items()}
    if isinstance(x, (list, tuple, set)):
        return [jsonable(v) for v in x]
    if isinstance(x, (str, int, float, bool)) or x is None:
        return x
    return repr(x)


def write_replay(ctx: Ctx, v: Violation) -> str:
    d = VERIF / "replays"
    d.mkdir(exist_ok=True)
    payload = {
        "property": v.pid, "kind": v.kind, "seed": ctx.seed, "tier": ctx.tier, "what": v.what,
        "broken": v.broken, "data": jsonable(v.data),
        "cmd": f"./check {v.pid} --replay replays/<this file>",
        "repo": str(REPO),
    }
    blob = json.dumps(payload, indent=1, sort_keys=True)
    name = f"{v.pid}-{hashlib.sha256(blob.encode()).hexdigest()[:12]}.json"
    (d / name).write_text(blob)
    return f"replays/{name}"


def write_evidence(ctx: Ctx, gate: ProofGate | None, level: str, rule: str, trusted: list[str],
                   assumptions: list[str], explanation: str | None = None, exhaustive=False):
    cov = {
        "evaluations": int(ctx.evaluations),
        "distinct_nontrivial": len(ctx.nontrivial),
        "rule": rule,
        "samples": jsonable(ctx.samples) or ["(no case was generated)"],
        "traces_validated_against_impl": int(ctx.impl_traces),
        "input_distribution": jsonable(ctx.dist),
        "exhaustive": bool(exhaustive),
        "notes": ctx.notes,
        "known_findings_hit": ctx.known_hits,
    }
    if gate is not None:
        extra_ob = int(ctx.extra.get("generated_obligations", 0))
        extra_ok = extra_ob if ctx.extra.get("generated_build_ok", False) else 0
        cov.update({
            "obligations": gate.obligations() + extra_ob,
            "discharged": gate.discharged() + extra_ok,
            "checker_cmd": gate.checker_cmd(),
            "trusted_base": trusted,
            "theorems": {n: a for n, a in gate.theorems.items()},
            "leanchecker_ok": gate.leanchecker,
            "lean_sources_sha256": lean_sources_hash(),
        })
    if explanation:
        cov["explanation"] = explanation
    cov.update(jsonable(ctx.extra))
    ev = {
        "property_id": ctx.pid, "tier": ctx.tier, "seed": int(ctx.seed), "level": level,
        "coverage": cov, "assumptions": assumptions,
        "wall_s": round(time.time() - ctx.t0, 2), "violations": len(ctx.violations),
    }
    d = Path(os.environ.get("VERIF_EVIDENCE_DIR", str(VERIF / "evidence")))   # override: development sweeps only
    d.mkdir(parents=True, exist_ok=True)
    (d / f"{ctx.pid}.json").write_text(json.dumps(ev, indent=1, sort_keys=True) + "\n")
    return ev
