"""
C02 — signals in the span of the basis are reconstructed exactly.

Lean: `Model/Recon.lean` (certifying exact solvers) + theorems in `Props/C02.lean` (normal equations with
independent sensor rows ⇒ coefficients recovered ⇒ `B c = B a`; greedy pivots of C03 are independent).
Correspondence: for fitted models and every n_sensors ∈ [n_modes, n_features], real `predict(x[S])` for
`x = B a` against the exact model (which must return exactly `x`) within a budget proportional to the
conditioning of the selected sensor rows.
"""
from __future__ import annotations

from fractions import Fraction

import numpy as np

from .. import common as C
from .. import recon

LEVEL = "proof"
RULE = ("fitted SSPOR (Identity / SVD / RandomProjection / prefit-Identity bases × QR, CCQR, GQR) with exactly "
        "full-column-rank basis matrix; every n_sensors in [n_modes, n_features]; coefficient vectors single and batched; "
        "non-trivial when n_sensors < n_features and the signal is non-zero; distinct by (basis, optimizer, shape, "
        "n_sensors, ranking)")
TRUSTED = [
    "Lean 4.33 kernel; axioms propext, Classical.choice, Quot.sound",
    "certifying exact solver Model/Recon.lean (accepts a solution only after exact multiplication check)",
    "LAPACK gesv / gelsd via scipy.linalg.solve / lstsq: contract 'returns the (least-squares) solution'; rounding "
    "is budgeted: |error| ≤ 1e-7·(1+‖x‖)·κ(selected rows), cases with κ > 1e6 skipped and counted",
]
ASSUMPTIONS = ["'up to rounding error proportional to conditioning' is validated numerically, not proved (no IEEE-754 model)"]


def check_model(ctx, fm, idx):
    rng = ctx.rng
    model, B, desc = fm["model"], fm["B"], fm["desc"]
    n, m = B.shape
    if m > n:
        ctx.count("skipped_wide_basis")
        return
    if recon.rank_exact(B) != m:
        ctx.count("skipped_rank_deficient_basis")
        return
    ranking = np.array(model.get_all_sensors()).tolist()
    batch = rng.choice([1, 1, 2, 3])
    A = [recon.dyadic_vec(rng, m) for _ in range(batch)]           # batch × m
    Bq = [[C.frac(x) for x in row] for row in B.tolist()]
    Xq = [[sum(Bq[i][l] * a[l] for l in range(m)) for i in range(n)] for a in A]   # batch × n, exact
    Xf = np.array([[float(v) for v in row] for row in Xq])
    exact_budgeted = m <= 4 or desc["basis"] == "identity"
    for ns in range(m, n + 1):
        S = ranking[:ns]
        M = B[S, :]
        ctx.evaluations += 1
        if desc["opt"] != "qr" and recon.rank_exact(B, S) != m:
            ctx.count("skipped_selected_rows_rank_deficient(constrained optimizer)")
            continue
        if desc["opt"] == "qr" and recon.rank_exact(B, S) != m:
            ctx.violation("concrete", f"QR: the first {ns} ranked rows of a full-column-rank basis matrix are rank deficient",
                          {"signature": "qr-selected-rows-rank-deficient", "case": desc, "n_sensors": ns, "ranking": ranking, "index": idx})
            return
        kap = recon.kappa(M)
        # "up to rounding error proportional to the conditioning of the selected sensor rows": a backward-stable solver leaves a relative
        # error of about k·eps·κ in the coefficients; budget 2e-14·k·κ (≈ 90 eps·k·κ), judged while that is below 5 %.
        # (first version: 1e-7·κ with κ ≤ 1e6 – loose enough to hide a solver whose error grows like eps·κ², e.g. normal equations)
        rel = 2e-14 * kap * max(M.shape)          # ≈ 90·eps·k·κ (the worst clean-tree run over 2 700 judged systems used 1.2 % of it)
        if not kap < recon.KAPPA_HARD or rel > 5e-2:
            ctx.count("skipped_ill_conditioned")
            continue
        if kap > 1e5:
            ctx.count("judged_ill_conditioned(κ>1e5)")
        model.set_number_of_sensors(ns)
        one_d = batch == 1 and rng.random() < 0.5
        meas = Xf[0, S] if one_d else Xf[:, S]
        try:
            P = np.asarray(model.predict(meas))
        except Exception as e:
            ctx.violation("concrete", f"predict raised {type(e).__name__}: {e} for an in-span signal with n_sensors={ns}",
                          {"signature": "predict-raises-in-span", "case": desc, "n_sensors": ns, "index": idx})
            return
        want = Xf[0] if one_d else Xf
        cnorm = max((abs(float(v)) for a in A for v in a), default=0.0)
        scale = float(np.linalg.norm(B, 2)) * cnorm * np.sqrt(m) + 1e-300
        err = float(np.max(np.abs(P - want))) if P.shape == want.shape else float("inf")
        ctx.extra["worst_normalised_error"] = max(ctx.extra.get("worst_normalised_error", 0.0), err / (scale * rel) if rel else 0.0)
        if err > scale * rel and not (cnorm == 0 and err == 0):
            ctx.violation("concrete",
                          f"in-span signal not reconstructed: max error {err:.3e} with n_sensors={ns} (κ={kap:.2e}, shape {P.shape} vs {want.shape})",
                          {"signature": "in-span-signal-not-reconstructed", "case": desc, "n_sensors": ns, "coefficients": [[str(v) for v in a] for a in A],
                           "observed_error": err, "budget": scale * rel, "ranking": ranking, "index": idx})
            return
        if ns < n and np.any(Xf != 0):
            ctx.nontriv((desc["basis"], desc["opt"], (n, m), ns, tuple(S)))
        # exact model: must return exactly x (this is theorem recon_exact instantiated; a model/model check) and
        # the real output must agree with it
        if exact_budgeted and rng.random() < 0.35:
            Y = [[Xq[b][s] for b in range(batch)] for s in S]
            R = recon.exact_predict(ctx, B, S, Y)
            ctx.impl_traces += 1
            if R is None:
                raise C.HarnessError("exact model found no solution although the selected rows have full column rank")
            Rq = [[R[i][b] for i in range(n)] for b in range(batch)]
            if Rq != Xq:
                raise C.HarnessError("exact model does not reproduce an in-span signal (model bug)")
    ctx.sample({"basis": desc["basis"], "opt": desc["opt"], "shape": [n, m], "ranking": ranking,
                "coefficients": [[str(v) for v in a] for a in A]}, limit=4)


def run(ctx: C.Ctx):
    from .. import shapes_static, translate_recon
    shapes_static.run_with_translation(ctx, translate_recon, "Recon", "reconstruction-formula", lambda: _run(ctx),
                                       "regenerated from SSPOR.predict / _square_predict / _rectangular_predict: dispatch and formulas = predictExact")


def _run(ctx: C.Ctx):
    rng = ctx.rng
    # user-supplied bases with non-orthonormal modes (every sensor count from n_modes up to ALL locations is judged)
    for idx in range(ctx.scale(15, 150)):
        fm = recon.gen_custom_model(ctx, rng)
        if fm is None:
            continue
        ctx.count("custom_non_orthonormal_basis")
        check_model(ctx, fm, 3 * 10 ** 6 + idx)
    for idx in range(ctx.scale(70, 1200)):
        fm = recon.gen_model(ctx, rng, want_tall=True)
        if fm is None:
            ctx.count("fit_rejected")
            continue
        ctx.count(f"{fm['desc']['basis']}/{fm['desc']['opt']}")
        check_model(ctx, fm, idx)
    # a cost-constrained placement confined to a cluster of almost co-located sensors: selected rows ill-conditioned, basis not
    for idx in range(ctx.scale(25, 300)):
        fm = recon.gen_model(ctx, rng, want_tall=True, force_cluster=True)
        if fm is None:
            continue
        ctx.count("clustered_placement")
        check_model(ctx, fm, 2 * 10 ** 6 + idx)
    # training data stored as integers (counts, raw images): Identity keeps that dtype in its basis matrix
    for idx in range(ctx.scale(25, 300)):
        fm = recon.gen_model(ctx, rng, bases=["identity"], opts=["qr"], want_tall=True, force_dtype=rng.choice(["int64", "int32", "uint8"]))
        if fm is None:
            continue
        ctx.count("integer_training_data")
        check_model(ctx, fm, 10 ** 6 + idx)
    # localised modes + a model constructed with fewer sensors than modes (the count is raised by the setters afterwards): the
    # leading n_basis_modes entries of the ranking must still be the optimizer's
    for idx in range(ctx.scale(40, 400)):
        fm = recon.gen_model(ctx, rng, bases=["identity", "identity", "svd"], opts=["qr"], want_tall=True, force_localized=True)
        if fm is None:
            continue
        ctx.count("localised_modes_small_ctor_count")
        check_model(ctx, fm, 2 * 10 ** 6 + idx)
    ctx.extra["worst_normalised_error"] = float(ctx.extra.get("worst_normalised_error", 0.0))


def replay(ctx: C.Ctx, payload):
    fm = recon.rebuild(payload["data"]["case"])
    check_model(ctx, fm, 0)
    print("# replayed:", payload.get("what"))
