"""
C17 — scores and error metrics equal their definitions.

Lean: theorems in `Props/C17.lean` (score/relative-error/determinant definitions over exact arithmetic:
‖(d−p)/‖d‖‖ = ‖d−p‖/‖d‖, det(MᵀM) ≥ 0, gather = selection-matrix product; reconstruction_error is
frame-preserving in the SSPOR machine) + `determinantModel`, `predictExact` of Model/Recon.lean.
Correspondence: real `score`, `reconstruction_error`, `relative_reconstruction_error`, `determinant` against
recomputation through the public `predict`, the definitions, and the exact rational determinant.
"""
from __future__ import annotations

import copy
from fractions import Fraction

import numpy as np

from .. import common as C
from .. import oracles, recon

LEVEL = "proof"
RULE = ("fitted SSPOR × test batches × sensor_range lists × custom score callables; (sensors, basis) pairs with at least "
        "as many sensors as modes for the determinant; non-trivial when the reconstruction error is non-zero / the "
        "determinant is non-zero; distinct by (basis, optimizer, shape, n_sensors, sensor_range)")
TRUSTED = [
    "Lean 4.33 kernel; axioms propext, Classical.choice, Quot.sound",
    "exact determinant and reconstruction of Model/Recon.lean",
    "numpy.linalg.det / norm, scipy lstsq/solve: float results compared with budgets (1e-9 relative for metrics computed "
    "from the same prediction, conditioning-scaled for determinants)",
]
ASSUMPTIONS = ["floating-point rounding is budgeted, not modelled"]


def rmse(a, b):
    return float(np.sqrt(np.mean((a - b) ** 2)))


def close(a, b, rel=1e-9, abs_=1e-12):
    return abs(a - b) <= abs_ + rel * max(abs(a), abs(b))


def check_model(ctx, fm, idx):
    rng = ctx.rng
    model, B, desc, X = fm["model"], fm["B"], fm["desc"], fm["X"]
    n, m = B.shape
    ranking = np.array(model.get_all_sensors()).tolist()
    ns = rng.randint(1, n)
    model.set_number_of_sensors(ns)
    k = rng.randint(1, 4)
    Xt = np.array([[rng.randint(-12, 12) / 2 for _ in range(n)] for _ in range(k)])
    if rng.random() < 0.3:
        Xt = X.copy()
    if rng.random() < 0.12:
        # a long record whose length is not a round number, with the errors concentrated at its end (a score computed
        # piecewise must weight the pieces by their length)
        L = rng.choice([1025, 1030, 2049, 2500, 4097, 513, 257])
        base_rows = np.array([[rng.randint(-4, 4) / 2 for _ in range(n)] for _ in range(3)])
        Xt = base_rows[np.arange(L) % 3].copy()
        Xt[-rng.randint(1, 5):] += np.array([[rng.randint(8, 40) for _ in range(n)]], dtype=float)
        ctx.count("long_test_batch")
    S = ranking[:ns]
    base = {"case": desc, "n_sensors": ns, "x_test": (Xt.tolist() if len(Xt) <= 16 else {"rows": len(Xt), "first": Xt[:3].tolist(), "last": Xt[-5:].tolist()}),
            "ranking": ranking, "index": idx}
    ctx.evaluations += 1
    # ---- score ---------------------------------------------------------------------------------
    try:
        pred = np.asarray(model.predict(Xt[:, S]))
    except Exception:
        ctx.count("predict_raises(singular)")
        return
    if not np.all(np.isfinite(pred)):
        ctx.count("non_finite_prediction")
        return
    try:
        sc = float(model.score(Xt))
    except Exception as e:
        ctx.violation("concrete", f"score raised {type(e).__name__}: {e}", {"signature": "score-raises", **base})
        return
    want = -rmse(pred, Xt)
    if not close(sc, want):
        ctx.violation("concrete", f"score {sc!r} is not minus the RMSE {want!r} between data and its reconstruction",
                      {"signature": "score-definition", **base, "observed": sc, "required": want})
        return
    seen = {}

    def custom(y_true, y_pred, **kw):
        seen["true"], seen["pred"], seen["kw"] = np.array(y_true), np.array(y_pred), kw
        return 42.5

    out = model.score(Xt, score_function=custom, score_kws={"flag": 7})
    if out != 42.5 or not np.array_equal(seen.get("true"), Xt) or not np.array_equal(seen.get("pred"), pred) or seen.get("kw") != {"flag": 7}:
        ctx.violation("concrete", "custom score function is not applied to (data, reconstruction) with its keywords",
                      {"signature": "score-custom-function", **base})
        return
    # the caller re-uses its data buffer (a noise sweep writing each noisy record into the same array): a score is a function of the
    # data it is given NOW, whatever was scored before under the same array object
    buf = Xt.copy()
    try:
        model.score(buf)
        buf *= rng.choice([0.5, 2.0, -1.0])
        buf[0] += np.array([rng.randint(1, 6) for _ in range(n)], dtype=float)
        sc2 = float(model.score(buf))
        want2 = -rmse(np.asarray(model.predict(buf[:, S])), buf)
        ctx.count("score_after_inplace_update_of_the_same_array")
        if not close(sc2, want2):
            ctx.violation("concrete", f"score of an array that was updated in place since it was last scored is {sc2!r}, minus the RMSE "
                                      f"of its reconstruction is {want2!r}",
                          {"signature": "score-definition:stale-after-inplace-update", **base, "observed": sc2, "required": want2})
            return
    except Exception as e:
        ctx.violation("concrete", f"score raised {type(e).__name__}: {e}", {"signature": "score-raises", **base})
        return
    if want != 0:
        ctx.nontriv(("score", desc["basis"], desc["opt"], (n, m), ns))
    # ---- reconstruction_error -------------------------------------------------------------------
    rtype = rng.choice(["default", "list", "array"])
    if rtype == "default":
        sr = None
        ks = list(range(1, min(ns, n) + 1))
    else:
        ks = sorted(rng.sample(range(1, n + 1), rng.randint(1, min(4, n))))
        if rng.random() < 0.3:
            rng.shuffle(ks)
        sr = ks if rtype == "list" else np.array(ks)
    before = (model.n_sensors, np.array(model.get_selected_sensors()).tolist(), np.array(model.get_all_sensors()).tolist())
    try:
        err = np.asarray(model.reconstruction_error(Xt, sensor_range=sr))
    except Exception as e:
        if any(kk == m and np.linalg.matrix_rank(B[ranking[:kk], :]) < m for kk in ks):
            ctx.count("reconstruction_error_singular_square")
            return
        ctx.violation("concrete", f"reconstruction_error raised {type(e).__name__}: {e}",
                      {"signature": "reconstruction-error-raises", **base, "sensor_range": ks})
        return
    after = (model.n_sensors, np.array(model.get_selected_sensors()).tolist(), np.array(model.get_all_sensors()).tolist())
    if before != after:
        ctx.violation("concrete", f"reconstruction_error changed the model: n_sensors/selection {before[:2]} → {after[:2]}",
                      {"signature": "reconstruction-error-changes-model", **base, "sensor_range": ks})
        return
    # the same sweep when it cannot be completed (a score callable that rejects one count, a test batch with a missing value):
    # the caller catches the error – the model's own sensor count must still be what it was
    if rng.random() < 0.5 and len(ks) >= 1:
        calls = {"n": 0}
        fail_at = rng.randint(1, len(ks))

        def picky(y_true, y_pred):
            calls["n"] += 1
            if calls["n"] == fail_at:
                raise RuntimeError("score undefined for this sensor count")
            return 0.0

        Xbad = Xt.copy()
        how = rng.choice(["score_raises", "nan_in_batch"])
        try:
            if how == "score_raises":
                model.reconstruction_error(Xt, sensor_range=sr, score=picky)
            else:
                Xbad[0, ranking[0]] = np.nan
                model.reconstruction_error(Xbad, sensor_range=sr)
        except Exception:
            pass
        ctx.count("reconstruction_error_interrupted:" + how)
        after2 = (model.n_sensors, np.array(model.get_selected_sensors()).tolist(), np.array(model.get_all_sensors()).tolist())
        if before != after2:
            ctx.violation("concrete", f"a reconstruction_error sweep that ended in an exception ({how}) changed the model: n_sensors/selection "
                                      f"{before[:2]} → {after2[:2]}",
                          {"signature": "reconstruction-error-changes-model", **base, "sensor_range": ks, "interrupted_by": how})
            return
    if err.shape != (len(ks),):
        ctx.violation("concrete", f"reconstruction_error returned shape {err.shape} for {len(ks)} requested counts",
                      {"signature": "reconstruction-error-shape", **base, "sensor_range": ks})
        return
    for j, kk in enumerate(ks):
        m2 = copy.deepcopy(model)
        m2.set_number_of_sensors(kk)
        try:
            pk = np.asarray(m2.predict(Xt[:, ranking[:kk]]))
        except Exception:
            continue
        if not np.all(np.isfinite(pk)):
            continue
        wantk = rmse(pk, Xt)
        kap = recon.kappa(B[ranking[:kk], :])
        if not kap < recon.KAPPA_MAX:
            continue
        if not close(float(err[j]), wantk, rel=1e-7):
            ctx.violation("concrete",
                          f"reconstruction_error entry for k={kk} is {float(err[j])!r}, the RMSE with the first {kk} ranked sensors is {wantk!r}",
                          {"signature": "reconstruction-error-definition", **base, "sensor_range": ks, "k": kk,
                           "observed": float(err[j]), "required": wantk})
            return
        if wantk != 0:
            ctx.nontriv(("recerr", desc["basis"], desc["opt"], (n, m), tuple(ks)))
    ctx.sample({"basis": desc["basis"], "opt": desc["opt"], "shape": [n, m], "n_sensors": ns, "score": sc,
                "sensor_range": ks, "errors": [float(e) for e in err]}, limit=3)


def recon_kappa(M):
    from .. import recon as _r
    return _r.kappa(np.asarray(M, dtype=float))


def check_metrics(ctx, idx):
    from pysensors.utils import determinant, relative_reconstruction_error
    rng = ctx.rng
    # relative_reconstruction_error = 100·‖d − p‖ / ‖d‖
    shape = (rng.randint(1, 4), rng.randint(1, 6))
    d = np.array([[rng.randint(-12, 12) / 2 for _ in range(shape[1])] for _ in range(shape[0])])
    p = d + np.array([[rng.randint(-4, 4) / 4 for _ in range(shape[1])] for _ in range(shape[0])])
    if rng.random() < 0.3:
        d, p = d[0], p[0]
    # storage type and magnitude of the full-state data (images are uint8, counts int16/int32, large or tiny physical
    # units): the same numbers, so the same relative error.  The prediction stays float64, as `predict` returns it.
    dk = rng.choice(["float64", "float64", "uint8", "int16", "int32", "float32", "huge", "tiny"])
    if dk in ("uint8", "int16", "int32"):
        lo, hi = {"uint8": (0, 255), "int16": (-3000, 3000), "int32": (-70000, 70000)}[dk]
        di = np.array([[rng.randint(lo, hi) for _ in range(np.size(d))]]).reshape(np.shape(d))
        p = di + (p - d)
        d = di.astype(dk)
    elif dk == "float32":
        d32 = d.astype(np.float32)
        p = d32.astype(float) + (p - d)
        d = d32
    elif dk in ("huge", "tiny"):
        f = 2.0 ** (400 if dk == "huge" else -400)         # far from 1 but squares still representable
        d, p = d * f, p * f
    ctx.count("relerr_data:" + dk)
    ctx.evaluations += 1
    if np.linalg.norm(np.asarray(d, dtype=float)) != 0:
        got = float(relative_reconstruction_error(d, p))
        df = [C.frac(v) for v in np.ravel(d)]
        pf = [C.frac(v) for v in np.ravel(p)]
        num2 = sum((a - b) ** 2 for a, b in zip(df, pf))
        den2 = sum(a * a for a in df)
        want = 100 * float(num2 / den2) ** 0.5
        # float32 data: numpy takes ‖d‖ in single precision (rounding, not a different definition)
        if not close(got, want, rel=1e-5 if dk == "float32" else 1e-9):
            ctx.violation("concrete", f"relative_reconstruction_error {got!r} ≠ 100·‖d−p‖/‖d‖ = {want!r}",
                          {"signature": "relative-error-definition", "data": d.tolist(), "data_dtype": str(d.dtype), "prediction": p.tolist(), "index": idx})
            return
        if want != 0:
            ctx.nontriv(("relerr", shape, got))
    # determinant
    n, r = rng.randint(1, 7), rng.randint(1, 4)
    r = min(r, n)
    Bm = np.array([[rng.randint(-4, 4) for _ in range(r)] for _ in range(n)], dtype=float)
    if rng.random() < 0.3:
        Bm = Bm / 4
    unit_e = 0
    if rng.random() < 0.3:
        # other units (powers of two: exact): a determinant of r sensor rows scales like units^r and is soon very small or very large –
        # still an ordinary double, and still THE determinant (an intermediate det(ΘᵀΘ) would need units^2r)
        unit_e = rng.choice([-200, -160, -100, -80, -60, -30, 30, 60, 150])
        Bm = Bm * 2.0 ** unit_e
        ctx.count("determinant_units_2^%d" % unit_e)
    p_cnt = rng.randint(r, n)
    if unit_e and rng.random() < 0.7:
        p_cnt = r
    sensors = rng.sample(range(n), p_cnt)
    ctx.evaluations += 1
    got = float(determinant(np.array(sensors), n, Bm))
    rp = ctx.driver.ask1(f"det {C.enc_mat(Bm.tolist())} {C.enc_nats(sensors)}")
    ctx.impl_traces += 1
    if not rp.startswith("ok"):
        raise C.HarnessError("det model: " + rp)
    want = Fraction(rp.split()[1])
    # independent oracle
    T = [[C.frac(v) for v in Bm[s]] for s in sensors]
    orc = abs(oracles.det_exact(T)) if p_cnt == r else abs(oracles.det_exact(oracles.matmul(oracles.transpose(T), T)))
    if orc != want:
        raise C.HarnessError(f"determinant: Lean model {want} vs Fraction oracle {orc}")
    scale = max(1.0, float(np.prod([np.linalg.norm(Bm[s]) + 1 for s in sensors])) if p_cnt == r else float(np.linalg.norm(Bm[sensors]) ** (2 * r)) + 1)
    # relative judgement as well (the absolute one is blind to small determinants): LU with partial pivoting gives |det| to about
    # r·eps·κ relative (κ² for det(ΘᵀΘ)); budget 1e-11·r·κ^(1|2), judged while below 1 % and while the exact value is a normal double
    rel_bad = False
    if want > Fraction(10) ** 300 or (want != 0 and want < Fraction(1, 10 ** 300)):
        ctx.count("determinant_outside_double_range(skipped)")      # e.g. det(ΘᵀΘ) of a tall system in extreme units: not a double at all
        return
    wf = float(want)
    if want != 0 and 1e-290 < wf < 1e290:
        kap = recon_kappa(Bm[sensors])
        relb = 1e-11 * r * (kap if p_cnt == r else kap ** 2)
        if relb < 1e-2 and (p_cnt == r or 1e-290 < wf ** 0.5):
            rel_bad = abs(got - wf) > relb * wf
            ctx.count("determinant_judged_relatively")
    if abs(got - float(want)) > 1e-9 * scale or rel_bad:
        ctx.violation("concrete",
                      f"determinant({sensors}) = {got!r}, exact value {'|det(Θ)|' if p_cnt == r else 'det(ΘᵀΘ)'} = {float(want)!r}",
                      {"signature": "determinant-definition", "basis_matrix": Bm.tolist(), "sensors": sensors, "observed": got,
                       "required": str(want), "index": idx})
        return
    if want != 0:
        ctx.nontriv(("det", (n, r), tuple(sensors)))


def run(ctx: C.Ctx):
    from .. import shapes_static, translate_metrics
    shapes_static.run_with_translation(ctx, translate_metrics, "Metrics", "metric-definition", lambda: _run(ctx),
                                       "regenerated from SSPOR.score / reconstruction_error / utils.relative_reconstruction_error / utils.determinant")


def _run(ctx: C.Ctx):
    rng = ctx.rng
    for idx in range(ctx.scale(120, 2000)):
        fm = recon.gen_model(ctx, rng, want_tall=rng.random() < 0.8)
        if fm is None:
            ctx.count("fit_rejected")
            continue
        ctx.count(f"{fm['desc']['basis']}/{fm['desc']['opt']}")
        check_model(ctx, fm, idx)
    for idx in range(ctx.scale(200, 3000)):
        check_metrics(ctx, idx)


def replay(ctx: C.Ctx, payload):
    d = payload["data"]
    if "case" in d:
        fm = recon.rebuild(d["case"])
        check_model(ctx, fm, 0)
    print("# replayed:", payload.get("what"))
