"""
C06 — constrained selection stays greedy among permitted sensors; reduces to QR / CCQR.

Same generators and runs as C05.  Judged here: (a) own-class maximality of each of the first N picks in the
exact model along the real trace; (b) constraint already met by the unconstrained ranking ⇒ first N = QR's;
(c) allowance 0 ⇒ first N = CCQR with a prohibitive cost on every region sensor.
"""
from __future__ import annotations

from fractions import Fraction

import numpy as np

from .. import common as C
from .. import gen, greedy, oracles
from ..opt import OptCase, scale_of
from . import c05

LEVEL = "proof"
RULE = ("generic full-rank B × region × feasible (N, s) × option; non-trivial when the constraint is active or the "
        "case is one of the two reductions; distinct by (option, shape, L, N, s, trace)")
TRUSTED = c05.TRUSTED
ASSUMPTIONS = c05.ASSUMPTIONS + ["reductions are compared only where every exact greedy choice is unique by more than the step budget (1e-12·scale·conditioning)"]


def own_class_ok(case, res, J, N):
    """exact check along the real trace: pick j has the largest residual among unchosen sensors of its class.
    Uses the Lean model's exact candidate norms (cand_n2) – returns first failing step or None."""
    L = set(case.meta["L"])
    n = case.B.shape[0]
    p = list(range(n))
    for j in range(N):
        v = J.verdicts[j]
        cands = p[j:]
        off = res["offsets"][j]
        q = cands[off]
        n2 = v["cand_n2"]
        qn = n2[off]
        # within δ: √qn ≥ √x − δ
        for c, x in zip(cands, n2):
            if (c in L) == (q in L) and not oracles.score_ge(qn, Fraction(0), x, J.deltas[j]):
                return j, q, c
        i = j + off
        p[j], p[i] = p[i], p[j]
    return None


def run(ctx: C.Ctx):
    from .. import shapes_static, translate_householder
    c05.with_translated_masks(ctx, lambda: shapes_static.run_with_translation(
        ctx, translate_householder, "Householder", "Householder-loop", lambda: _run(ctx),
        "regenerated from GQR.fit / CCQR.fit: pivot rule on the masked norms, reflector steps, order of the array operations"))


def _run(ctx: C.Ctx):
    rng = ctx.rng
    from pysensors.optimizers import CCQR, QR
    todo = []
    for idx in range(ctx.scale(260, 5000)):
        case = c05.gen_e2e(ctx, rng)
        if case is None:
            continue
        # bias towards the two reductions
        r = rng.random()
        N, L = case.meta["N"], case.meta["L"]
        n = case.B.shape[0]
        if r < 0.25 and (n - len(L)) >= N:
            case.gqr["n_const_sensors"] = 0
            case.meta["s"] = 0
        if rng.random() < 0.15 and not case.meta.get("omit_all_sensors"):
            # a prior ranking that belongs to ANOTHER matrix of the same size (a GQR object keeps its keywords between fits, e.g. across
            # update_n_basis_modes): the masks are then computed from that prior – and within each class the choice is still greedy
            # on THIS matrix (clause 1 has no premise about the prior; the two reductions do, and are not judged here)
            other = gen.gen_generic_matrix(rng, n, case.B.shape[1])
            case.gqr["all_sensors"] = np.array(QR().fit(other).get_sensors()).copy()
            case.meta["foreign_prior"] = True
            ctx.count("e2e:prior_ranking_of_another_matrix")
        ctx.evaluations += 1
        ctx.count("e2e:" + case.meta["opt"])
        res = case.run_real()
        todo.append((idx, case, res))
    Js = greedy.judge_batch(ctx, [(c, r) for _, c, r in todo])
    for (idx, case, res), J in zip(todo, Js):
        N, s, L, opt = case.meta["N"], case.meta["s"], case.meta["L"], case.meta["opt"]
        if not c05.judge_gqr_case(ctx, case, res, J, idx, "gqr"):
            continue
        A = case.gqr["all_sensors"].tolist()
        if case.meta.get("foreign_prior"):
            # with a prior that belongs to another matrix the rule's ban list is whatever that prior makes it; what remains true – and is
            # judged – is the title's claim: the pick is the largest residual among the sensors the rule PERMITS at that step (the exact
            # model's mask, the object of gqr_own_class_max).  (First version judged in/out-of-region classes here and raised a false
            # alarm on the clean tree: a banned region sensor may well have the larger residual.)
            if J.rejected_step is not None and J.rejected_step < N:
                v = J.verdicts[J.rejected_step]
                ctx.violation("concrete",
                              f"GQR {opt} with a prior ranking of another matrix: step {J.rejected_step} picks sensor {v['chosen']} although a permitted "
                              f"sensor has a larger residual (ranking {res['ranking']})",
                              {"signature": f"permitted-class-max:{opt}", "case": case.describe(), "observed": res["ranking"], "step": J.rejected_step,
                               "index": idx})
            else:
                ctx.nontriv(("foreign-prior", opt, case.B.shape, tuple(L), N, s))
            continue
        # (a) own-class maximality
        bad = own_class_ok(case, res, J, N)
        if bad is not None:
            j, q, c = bad
            # confirm with the independent MGS oracle
            st = oracles.MGS(case.B)
            for t in range(j):
                st.eliminate(res["ranking"][t])
            if oracles.score_ge(st.norm2(q), Fraction(0), st.norm2(c), J.deltas[j]):
                raise C.HarnessError("own-class check: Lean norms and MGS oracle disagree")
            ctx.violation("concrete",
                          f"GQR {opt}: step {j} picks sensor {q} although sensor {c} of the same class has a larger residual",
                          {"signature": f"own-class-max:{opt}", "case": case.describe(), "observed": res["ranking"], "step": j,
                           "required": "largest residual among unchosen sensors of its own class", "index": idx})
            continue
        active = res["ranking"][:N] != A[:N]
        if active:
            ctx.nontriv((opt, case.B.shape, tuple(L), N, s, tuple(res["ranking"][:N])))
        # uniqueness of exact choices (needed for the two reductions)
        uniq = all(v["uniq"] for v in J.verdicts[:N])
        # (b) inactive constraint ⇒ QR ranking
        met, _ = c05.counts_ok(opt, A, L, N, s)
        if met:
            ctx.count("reduction_qr")
            # uniqueness of the *unconstrained* greedy choices
            qc = OptCase(case.B, "qr")
            offs, _ = gen.offsets_from_ranking(A, len(A), min(case.B.shape))
            Jq = greedy.judge_batch(ctx, [(qc, {"offsets": offs, "ranking": A})])[0]
            if all(v["uniq"] for v in Jq.verdicts[:N]):
                if res["ranking"][:N] != A[:N]:
                    ctx.violation("concrete",
                                  f"GQR {opt}: the unconstrained ranking already satisfies the constraint but the first N={N} sensors "
                                  f"{res['ranking'][:N]} differ from QR's {A[:N]}",
                                  {"signature": f"inactive-constraint-differs-from-qr:{opt}", "case": case.describe(), "observed": res["ranking"],
                                   "required": A[:N], "index": idx})
                else:
                    ctx.nontriv(("qr-reduction", opt, case.B.shape, tuple(L), N, s))
        # (c) s = 0 ⇒ CCQR with prohibitive cost on the region
        if s == 0 and uniq:
            ctx.count("reduction_ccqr")
            n = case.B.shape[0]
            big = float(4 * scale_of(case.B))
            costs = np.zeros(n)
            costs[list(L)] = big
            cc = np.array(CCQR(sensor_costs=costs).fit(case.B.copy()).get_sensors()).tolist()
            if cc[:N] != res["ranking"][:N]:
                # only a finding if CCQR's own choices are exact-unique too
                ccase = OptCase(case.B, "ccqr", costs=costs)
                cres = ccase.run_real()
                Jc = greedy.judge_batch(ctx, [(ccase, cres)])[0]
                if all(v["uniq"] for v in Jc.verdicts[:N]) and Jc.rejected_step is None:
                    ctx.violation("concrete",
                                  f"GQR {opt} with allowance 0: first N={N} sensors {res['ranking'][:N]} differ from CCQR(prohibitive) {cc[:N]}",
                                  {"signature": f"s0-differs-from-ccqr:{opt}", "case": case.describe(), "observed": res["ranking"],
                                   "required": cc[:N], "index": idx})
            else:
                ctx.nontriv(("ccqr-reduction", opt, case.B.shape, tuple(L), N))
        ctx.sample({"gqr": {"opt": opt, "L": L, "N": N, "s": s}, "B": case.B.tolist(), "ranking": res["ranking"], "qr": A}, limit=4)


def replay(ctx: C.Ctx, payload):
    d = payload["data"]
    case = OptCase.from_desc(d["case"])
    res = case.run_real()
    J = greedy.judge_batch(ctx, [(case, res)])[0]
    N = case.meta["N"]
    bad = own_class_ok(case, res, J, N)
    print("# ranking", res["ranking"], "own-class violation:", bad)
    if bad is not None:
        ctx.violation("concrete", "own-class maximality violated", {"signature": f"own-class-max:{case.meta['opt']}", "case": case.describe(), "observed": res["ranking"]})
