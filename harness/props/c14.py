"""
C14 — selected sensors are always the leading part of the ranking; setters are last-wins and never
touch the ranking.

Lean: `Model/Sspor.lean` state machine; theorems in `Props/C14.lean` (selected_eq_take, setN_preserves_ranking,
setters_last_wins, ctor_fit_eq_fit_set).  Correspondence: histories on the real SSPOR vs the Lean machine after
every call.  Oracle for the search: a fresh model constructed with the final value, same data and seed.
"""
from __future__ import annotations

import numpy as np

from .. import common as C
from .. import models
from .. import sspor_hist as H

LEVEL = "proof"
RULE = ("histories fit; then 1–8 (thorough 1–20) calls from {set_number_of_sensors, set_n_sensors (valid and invalid "
        "values), get_selected_sensors, predict, score}; non-trivial when at least one valid setter changes n_sensors; "
        "distinct by (basis, optimizer, data shape, op-kind sequence, values)")
TRUSTED = [
    "Lean 4.33 kernel; axioms propext, Classical.choice, Quot.sound",
    "hand-written state machine Model/Sspor.lean tied to SSPOR by comparing the observable projection after every call",
    "optimizer ranking and basis entries are parameters of the machine (taken from the real run)",
]
ASSUMPTIONS = ["deterministic pipeline: same data, configuration and seed give bitwise equal fits (checked by C16)"]


def gen_case(ctx, rng, big=False):
    basis = rng.choice(models.BASIS_KINDS)
    ne, nf = rng.randint(2, ctx.scale(7, 10)), rng.randint(2, ctx.scale(8, 12))
    if big:
        # more than 127 / 255 modes: counts given as narrow numpy integers (np.int8, np.uint8, np.int16) are still just numbers
        basis = "identity"
        ne = rng.randint(130, 140); nf = ne + rng.randint(2, 8)
    X = np.array([[rng.randint(-6, 6) for _ in range(nf)] for _ in range(ne)], dtype=float)
    if big:
        X += np.eye(ne, nf) * 20
    if basis == "identity":
        nm = None if rng.random() < 0.4 else rng.randint(1, ne)
    elif basis == "svd":
        nm = rng.randint(1, min(ne, nf))
    else:
        nm = rng.randint(1, ne + 1)
    ctor = None if rng.random() < 0.5 else rng.randint(1, nf)
    opt = rng.choice(["qr", "ccqr", "gqr"])
    seed = rng.choice([0, 1, 3, 9])
    ops = []
    for _ in range(rng.randint(1, ctx.scale(8, 20))):
        k = rng.choice(["set", "set", "get", "predict", "score", "failing_sweep"])
        if not big and rng.random() < 0.08:
            # the sensors are re-ranked in between without touching the basis (fit on the fitted basis, or fewer modes of it): the fresh
            # model the history is compared with goes through the same re-rankings – only the setter calls are replaced by its constructor
            ops.append(("rerank", rng.choice(["prefit", "modes"]), rng.randint(1, 3)))
            continue
        if k == "set":
            v = rng.choice(H.INVALID_COUNTS + [nf + 1, nf + 7]) if rng.random() < 0.3 else rng.randint(1, nf)
            if isinstance(v, int) and v > 0 and rng.random() < (0.6 if big else 0.25):
                kinds = [np.int64, np.int32] + ([np.int16] if v < 2 ** 15 else []) + ([np.int8] if v < 128 else []) + ([np.uint8] if v < 256 else [])
                v = (np.int8 if (big and v < 128) else (np.int16 if big else rng.choice(kinds)))(v)
            ops.append(("set", v, rng.randint(0, 1)))
        elif k in ("predict", "score") and rng.random() < 0.4:
            # documented pass-through keywords of the solver (scipy.linalg.solve / lstsq); `overwrite_a` only ever concerns a
            # temporary copy of the sensor rows
            ops.append((k, rng.choice([{"overwrite_a": True}, {"check_finite": False}, {"overwrite_a": True, "check_finite": False}])))
        else:
            ops.append((k,))
    if big:
        ops += [("set", np.int8(rng.randint(1, 127)), rng.randint(0, 1)), ("predict",), ("score",)]
    fit_kws = None
    if opt == "gqr" and not big and nf >= 3 and rng.random() < 0.6:
        # GQR's region keywords travel through SSPOR.fit; the sensor budget GQR plans with is ITS keyword (default: all sensors),
        # never the model's own n_sensors – otherwise the ranking would depend on how n_sensors was chosen
        L = sorted(rng.sample(range(nf), rng.randint(1, nf - 1)))
        o = rng.choice(["exact_n", "max_n", "predetermined", "exact_n"])
        perm = list(range(nf)); rng.shuffle(perm)
        fit_kws = {"idx_constrained": L, "n_const_sensors": rng.randint(0, min(len(L), 3)), "all_sensors": perm, "constraint_option": o}
        if o == "predetermined" or rng.random() < 0.3:
            fit_kws["n_sensors"] = rng.randint(1, nf)
        if rng.random() < 0.7:
            # a small count chosen in the constructor, another one through the setters afterwards
            ctor = rng.randint(1, max(1, min(ne, nf) - 1))
            ops.append(("set", rng.choice([v for v in range(1, nf + 1) if v != ctor]), rng.randint(0, 1)))
    return {"basis": basis, "n_modes": nm, "ctor": ctor, "opt": opt, "seed": seed, "X": X, "ops": ops, "fit_kws": fit_kws,
            "shared_optimizer": (fit_kws is None and rng.random() < 0.3)}


def _kws(case):
    kw = case.get("fit_kws") or {}
    return {k: (np.array(v, dtype=int) if isinstance(v, list) else v) for k, v in kw.items()}


def build(case, n_sensors):
    from pysensors.reconstruction import SSPOR
    return SSPOR(basis=models.make_basis(case["basis"], case["n_modes"]), optimizer=H.make_optimizer(case["opt"]),
                 n_sensors=n_sensors)


def _rerank_modes(model, op):
    """fewer modes of the fitted basis: current width minus 0..2, at least 1 (decided by the op alone and the model's width)"""
    return max(1, int(model.basis_matrix_.shape[1]) - (op[2] - 1))


def _rerank(model, case, op, X):
    if op[1] == "prefit":
        model.fit(X.copy(), quiet=True, prefit_basis=True, seed=case["seed"], **_kws(case))
    else:
        model.update_n_basis_modes(_rerank_modes(model, op), quiet=True)


def snapshot(model, X):
    sel = np.array(model.get_selected_sensors()).copy()
    out = {"sel": sel.tolist(), "ns": int(model.n_sensors), "rank": np.array(model.get_all_sensors()).tolist()}
    try:
        out["pred"] = np.asarray(model.predict(X[:, sel]))
    except Exception as e:
        out["pred"] = "E:" + H.err_kind(e) + ":" + str(e)[:60]
    try:
        out["score"] = float(model.score(X))
    except Exception as e:
        out["score"] = "E:" + H.err_kind(e)
    return out


def same(a, b):
    if isinstance(a, np.ndarray) and isinstance(b, np.ndarray):
        return a.shape == b.shape and bool(np.array_equal(a, b, equal_nan=True))
    if isinstance(a, float) and isinstance(b, float):
        return a == b or (a != a and b != b)
    if isinstance(a, str) and isinstance(b, str):
        return a.split(":")[:2] == b.split(":")[:2]
    return type(a) == type(b) and a == b


def check_case(ctx, case, idx):
    X = case["X"]
    nf = X.shape[1]
    desc = {k: (v.tolist() if isinstance(v, np.ndarray) else v) for k, v in case.items() if k != "ops"}
    desc["ops"] = [[op[0]] + [repr(x) for x in op[1:]] for op in case["ops"]]
    model = build(case, case["ctor"])
    try:
        model.fit(X.copy(), quiet=True, seed=case["seed"], **_kws(case))
    except ValueError:
        ctx.count("fit_rejected")
        return
    if case.get("fit_kws"):
        ctx.count("gqr_region_keywords:" + case["fit_kws"]["constraint_option"])
    if case.get("shared_optimizer"):
        # the optimizer object is shared with another model that is fitted afterwards (one CCQR(costs) re-used across bases or sensor
        # budgets): this model's ranking and selection are its own, whatever the shared optimizer ranked last
        from pysensors.reconstruction import SSPOR
        X2 = (np.arange(X.size, dtype=float).reshape(X.shape)[:, ::-1] * 7) % 11 - 5
        try:
            SSPOR(basis=models.make_basis("identity", None), optimizer=model.optimizer).fit(X2, quiet=True, seed=5)
            ctx.count("optimizer_object_shared_with_a_later_model")
        except Exception:
            pass
    rank0 = np.array(model.get_all_sensors()).tolist()
    final = model.n_sensors
    changed = False
    reranks = []
    hist_ops = [("fit", 0, False, case["seed"])]
    for op in case["ops"]:
        if op[0] == "set":
            before = model.n_sensors
            try:
                (model.set_number_of_sensors if op[2] == 0 else model.set_n_sensors)(op[1])
                final = int(op[1])
                changed = changed or final != before
            except Exception:
                if model.n_sensors != before:
                    ctx.violation("concrete", f"rejected setter value {op[1]!r} changed n_sensors {before} → {model.n_sensors}",
                                  {"signature": "rejected-setter-mutates", "case": desc, "index": idx})
                    return
            hist_ops.append(op)
        elif op[0] == "rerank":
            try:
                _rerank(model, case, op, X)
            except Exception:
                ctx.count("rerank_rejected")
                return
            ctx.count("rerank:" + op[1])
            reranks.append(op)
            rank0 = np.array(model.get_all_sensors()).tolist()
            hist_ops.append(("fit", 0, True, case["seed"]) if op[1] == "prefit" else ("upd", _rerank_modes(model, op), None))
            continue
        elif op[0] == "get":
            model.get_selected_sensors(); model.get_all_sensors(); _ = model.selected_sensors
        elif op[0] == "failing_sweep":
            # read-only calls that end in an exception the caller catches (a scorer that refuses, a sweep past the sensors):
            # they are not setters – the sensor count and the selection stay what the setters made them
            class _Refuse(Exception):
                pass

            def refuse(*a, **k):
                raise _Refuse()
            for call in (lambda: model.reconstruction_error(X, score=refuse), lambda: model.score(X, score_function=refuse),
                         lambda: model.reconstruction_error(X, sensor_range=[1, nf + 3])):
                ns_before, sel_before = model.n_sensors, np.array(model.get_selected_sensors()).tolist()
                try:
                    call()
                except Exception:
                    pass
                if model.n_sensors != ns_before or np.array(model.get_selected_sensors()).tolist() != sel_before:
                    ctx.violation("concrete", f"a read-only call that ended in an exception changed n_sensors {ns_before} → {model.n_sensors} "
                                              f"(selection {sel_before} → {np.array(model.get_selected_sensors()).tolist()})",
                                  {"signature": "failed-read-only-call-changes-selection", "case": desc, "index": idx})
                    return
        elif op[0] == "predict":
            try:
                model.predict(X[:, model.get_selected_sensors()], **(op[1] if len(op) > 1 else {}))
            except Exception:
                pass
        else:
            try:
                model.score(X, **({"solve_kws": op[1]} if len(op) > 1 else {}))
            except Exception:
                pass
        rk = np.array(model.get_all_sensors()).tolist()
        if rk != rank0:
            ctx.violation("concrete", f"ranking changed by {op[0]}: {rank0} → {rk}",
                          {"signature": "setter-or-getter-changes-ranking", "case": desc, "index": idx})
            return
        sel = np.array(model.get_selected_sensors()).tolist()
        if sel != rk[: model.n_sensors] or len(sel) != model.n_sensors:
            ctx.violation("concrete", f"selected sensors {sel} are not the first n_sensors={model.n_sensors} entries of {rk}",
                          {"signature": "selection-not-leading-part", "case": desc, "index": idx})
            return
    got = snapshot(model, X)
    fresh = build(case, final)
    try:
        fresh.fit(X.copy(), quiet=True, seed=case["seed"], **_kws(case))
    except Exception as e:
        # the history's model holds this count after accepted setter calls; a fresh model with the same count must exist too
        ctx.violation("concrete", f"a fresh model built with n_sensors={final} cannot be fitted ({type(e).__name__}: {e}) although the "
                                  f"setter history ended with that count",
                      {"signature": "setter-history-count-rejected-by-fresh-model", "case": desc, "index": idx})
        return
    try:
        for op in reranks:
            _rerank(fresh, case, op, X)
    except Exception as e:
        ctx.violation("concrete", f"a fresh model built with n_sensors={final} rejects a re-ranking the history's model accepted ({type(e).__name__}: {e})",
                      {"signature": "setter-history-rerank-rejected-by-fresh-model", "case": desc, "index": idx})
        return
    ref = snapshot(fresh, X)
    # predictions are those of the model's OWN current ranking and basis matrix (least squares on the selected rows) – whatever was
    # predicted, scored or re-ranked before
    try:
        Bm = np.array(model.basis_matrix_, dtype=float)
        sel_ = got["sel"]
        if isinstance(got["pred"], np.ndarray) and len(sel_) and np.all(np.isfinite(Bm)):
            Bs = Bm[sel_, :]
            cond = np.linalg.cond(Bs)
            if cond < 1e6:
                want_pred = (Bm @ np.linalg.lstsq(Bs, X[:, sel_].T.astype(float), rcond=None)[0]).T
                tol = 1e-7 * (1 + float(np.max(np.abs(want_pred)))) * cond
                if got["pred"].shape != want_pred.shape or not np.allclose(got["pred"], want_pred, atol=tol, rtol=0):
                    ctx.violation("concrete", f"after the history, predict with the {len(sel_)} selected sensors is not the least-squares reconstruction "
                                              f"from the model's own basis matrix and selection (max deviation "
                                              f"{float(np.max(np.abs(got['pred'] - want_pred))) if got['pred'].shape == want_pred.shape else 'shape'})",
                                  {"signature": "setter-history-predictions-not-of-current-selection", "case": desc, "index": idx})
                    return
    except np.linalg.LinAlgError:
        pass
    if any(op[1] == "modes" for op in reranks):
        # update_n_basis_modes re-shuffles the unranked tail with a fresh random seed: only the ranked leading part is comparable
        lead = min(np.array(model.basis_matrix_).shape)
        for d_ in (got, ref):
            d_["rank"] = d_["rank"][:lead]
            d_["sel"] = d_["sel"][:lead]
            if d_["ns"] > lead:
                d_["pred"] = d_["score"] = "tail-dependent"
    diffs = [k for k in ("sel", "ns", "rank", "pred", "score") if not same(got[k], ref[k])]
    if diffs:
        ctx.violation("concrete",
                      f"after the setter history the model differs from a fresh model built with n_sensors={final} in {diffs}",
                      {"signature": "setter-history-differs-from-fresh:" + ",".join(diffs), "case": desc,
                       "observed": {k: got[k] for k in ("sel", "ns")}, "required": {k: ref[k] for k in ("sel", "ns")}, "index": idx})
        return
    if changed:
        ctx.nontriv((case["basis"], case["opt"], X.shape, tuple(o[0] for o in case["ops"]), tuple(repr(o[1]) for o in case["ops"] if o[0] == "set")))
    ctx.sample({"basis": case["basis"], "opt": case["opt"], "shape": list(X.shape), "ctor": case["ctor"],
                "ops": desc["ops"], "final_selected": got["sel"]}, limit=4)
    # Lean machine on the setter sub-history
    h = H.History(case["basis"], case["n_modes"], case["ctor"], case["opt"], [X], hist_ops)
    return h


def run(ctx: C.Ctx):
    from .. import shapes_static, translate_ranking
    shapes_static.run_with_translation(ctx, translate_ranking, "Ranking", "ranking-pipeline", lambda: _run(ctx),
                                       "regenerated from SSPOR.fit / predict / get_selected_sensors: tail shuffle = tailShuffle σ m, reads = selectLead n_sensors")


def _run(ctx: C.Ctx):
    rng = ctx.rng
    hs = []
    for idx in range(ctx.scale(200, 3000)):
        case = gen_case(ctx, rng)
        ctx.evaluations += 1
        ctx.count(f"{case['basis']}/{case['opt']}")
        h = check_case(ctx, case, idx)
        if h is not None:
            hs.append((idx, h))
    for idx in range(ctx.scale(5, 30)):
        case = gen_case(ctx, rng, big=True)
        ctx.evaluations += 1
        ctx.count("big_identity_model")
        check_case(ctx, case, 10 ** 6 + idx)
    machine_compare(ctx, hs, "C14")


def machine_compare(ctx, hs, tag, search=None):
    """`search(idx, h, i)`: when the real object and the machine part ways at call `i`, the owning check looks for a concrete
    failing input on the history cut right after that call (True = found and reported)"""
    outs = []
    reqs = []
    for idx, h in hs:
        _, out = H.run_real(h)
        outs.append(out)
        reqs.append(H.to_request(h, out))
    resp = ctx.driver.ask(reqs)
    for (idx, h), out, rp in zip(hs, outs, resp):
        ctx.impl_traces += 1
        d = H.compare(out, H.parse_model(rp))
        if d is not None:
            i, key, msg = d
            if search is not None:
                n0 = len([v for v in ctx.violations if v.kind == "concrete"])
                try:
                    search(idx, h, i)
                except Exception:
                    pass
                if len([v for v in ctx.violations if v.kind == "concrete"]) > n0:
                    continue
            ctx.violation("no-failing-input-found", f"SSPOR vs Lean machine: call {i} ({h.ops[i] if i < len(h.ops) else 'ctor'}) {key}: {msg}",
                          {"signature": f"sspor-machine:{key}", "history": h.describe(), "call": i, "index": idx},
                          broken=f"correspondence Model/Sspor.lean ↔ SSPOR ({key}); theorems of Props/{tag}.lean are about the model")


def replay(ctx: C.Ctx, payload):
    d = payload["data"]
    if "history" in d:
        h = H.history_from_desc(d["history"])
        machine_compare(ctx, [(0, h)], "C14")
    else:
        c = d["case"]
        case = {"basis": c["basis"], "n_modes": c["n_modes"], "ctor": c["ctor"], "opt": c["opt"], "seed": c["seed"],
                "X": np.array(c["X"], dtype=float), "ops": [tuple([op[0]] + [H._ev(x) for x in op[1:]]) for op in c["ops"]],
                "fit_kws": c.get("fit_kws"), "shared_optimizer": c.get("shared_optimizer")}
        check_case(ctx, case, 0)
    print("# replayed:", payload.get("what"))
