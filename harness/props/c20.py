"""
C20 — no call modifies the caller's arrays or the stored basis.

Lean: `Model/Alias.lean` (alias IR, may-alias check, buffer semantics); `Props/C20.lean` proves `analysis_sound` once.
The per-function obligations are REGENERATED from /repo's current source on every run by
`harness/translate_alias.py` into `lean/PsVerif/Generated/Alias.lean` (`theorem safe_f : prog_f.check = true := by
decide +kernel`) and re-checked by `lake build PsVerif.Generated.Alias`.  Correspondence / search: every public
entry point is called with byte snapshots of its arguments and again with read-only arrays; shares_memory probes
validate the translator's view / fresh table.
"""
from __future__ import annotations

import copy
import re
import subprocess

import numpy as np

from .. import common as C
from .. import models
from .. import translate_alias as T

LEVEL = "proof"
GATE_MAY_BREAK_FROM_SOURCE = True
RULE = ("static: one generated obligation per package function that contains an in-place write (plotting helpers "
        "excluded); dynamic: every public entry point of SSPOR, SSPOC, the bases, the three optimizers and the constraint "
        "helpers × argument sets, each called with byte snapshots and with read-only arrays, over short call sequences; "
        "non-trivial when the call receives at least one non-empty array; distinct by (entry point, argument shapes)")
TRUSTED = [
    "Lean 4.33 kernel; axioms propext, Quot.sound (analysis_sound), kernel evaluation for the generated `decide +kernel` obligations",
    "translator harness/translate_alias.py: its table classifying numpy expressions as view / fresh / write and the assumption "
    "that numpy / scipy / scikit-learn / pandas routines do not write into their inputs (validated by read-only arguments and "
    "np.shares_memory probes on every run)",
    "flow-insensitive, name-based call resolution (homonymous methods are merged): sound but imprecise",
]
ASSUMPTIONS = ["documented in/out parameter `dlens` of the mask functions is excluded from the protected set",
               "a write that stores the value already present is invisible to the byte snapshots"]


# --------------------------------------------------------------------------- static part

def static_part(ctx):
    fns = T.analyse(C.REPO)
    table = T.emit(fns, C.LEAN / "PsVerif" / "Generated" / "Alias.lean")
    ctx.extra["generated_obligations"] = len(table)
    ctx.extra["generated_functions"] = [t["function"] for t in table]
    for t in table[:3]:
        ctx.sample({"generated_program": t["function"], "protected": [t["vars"][str(i)] for i in range(t["n_protected"])],
                    "statements": t["n_stmts"], "writes_through": t["writes"]}, limit=3)
    r = subprocess.run(["lake", "build", "PsVerif.Generated.Alias"], cwd=C.LEAN, capture_output=True, text=True, timeout=3600)
    ctx.extra["generated_build_ok"] = r.returncode == 0
    offenders = []
    if r.returncode != 0:
        for fn in fns:
            bad = T.python_check(fn)
            if bad:
                offenders.append({"function": fn.qual, "writes_through": [{"variable": v, "may_alias": roots} for v, roots in bad]})
        if not offenders:
            raise C.HarnessError("generated alias obligations fail to build but the Python mirror finds no offender:\n" + (r.stdout + r.stderr)[-1500:])
    return offenders, len(table)


# --------------------------------------------------------------------------- dynamic part

def snap(v):
    import pandas as pd
    if isinstance(v, np.ndarray):
        # metadata is part of the caller's array too: an in-place reshape / re-stride / byte-swap writes no element
        return ("nd", v.shape, v.strides, v.dtype.str, bool(v.flags.writeable), v.tobytes())
    if isinstance(v, pd.DataFrame):
        return ("df", v.shape, tuple(v.columns), v.to_numpy(copy=True).tobytes(), tuple(v.index))
    if isinstance(v, (list, tuple)):
        return ("seq", tuple(snap(x) for x in v))
    if isinstance(v, dict):
        return ("dict", tuple((k, snap(x)) for k, x in v.items()))
    return ("val", repr(v))


def freeze(v):
    if isinstance(v, np.ndarray):
        v.setflags(write=False)
    elif isinstance(v, (list, tuple)):
        for x in v:
            freeze(x)
    elif isinstance(v, dict):
        for x in v.values():
            freeze(x)


class Sweep:
    def __init__(self, ctx):
        self.ctx = ctx

    def call(self, name, make_args, fn, extra_watch=None):
        """make_args() -> (args tuple, kwargs dict); fn(*args, **kwargs). extra_watch() -> object whose bytes must not change."""
        ctx = self.ctx
        ctx.evaluations += 1
        ctx.count("entry:" + name.split("(")[0])
        args, kw = make_args()
        before = snap((args, kw))
        wb = snap(extra_watch()) if extra_watch else None
        try:
            fn(*args, **kw)
            status = "ok"
        except Exception as e:
            status = "E:" + type(e).__name__
        shapes = tuple(a.shape for a in list(args) + list(kw.values()) if isinstance(a, np.ndarray))
        if any(np.size(a) > 0 for a in list(args) + list(kw.values()) if isinstance(a, np.ndarray)):
            ctx.nontriv((name, shapes))
        if snap((args, kw)) != before:
            changed = [i for i, (a, b) in enumerate(zip(before[1][0][1], snap((args, kw))[1][0][1])) if a != b]
            ctx.violation("concrete", f"{name} modified its caller's argument(s) (positional indices {changed} or keywords)",
                          {"signature": "argument-mutated:" + name.split("(")[0], "entry": name, "status": status})
            return
        if extra_watch and snap(extra_watch()) != wb:
            ctx.violation("concrete", f"{name} modified the stored basis matrix",
                          {"signature": "stored-basis-mutated:" + name.split("(")[0], "entry": name})
            return
        # second run with read-only arrays
        args2, kw2 = make_args()
        freeze((args2, kw2))
        try:
            fn(*args2, **kw2)
        except ValueError as e:
            if "read-only" in str(e) or "readonly" in str(e):
                ctx.count("readonly_rejected")
                ctx.violation("concrete", f"{name} attempts an in-place write into a caller-supplied array ({e})",
                              {"signature": "readonly-write:" + name.split("(")[0], "entry": name, "error": str(e)})
        except Exception:
            pass


def dynamic_part(ctx):
    import pandas as pd
    from pysensors.basis import SVD, Custom, Identity, RandomProjection
    from pysensors.classification import SSPOC
    from pysensors.optimizers import CCQR, GQR, QR
    from pysensors.reconstruction import SSPOR
    import pysensors.utils as U
    import pysensors.utils._norm_calc as NC
    rng = ctx.rng
    S = Sweep(ctx)
    for rep in range(ctx.scale(3, 40)):
        ne, nf = rng.randint(3, 6), rng.randint(4, 9)
        X = np.array([[rng.randint(-6, 6) for _ in range(nf)] for _ in range(ne)], dtype=float)
        if rep % 3 == 1:
            X[:, rng.randrange(nf)] = 0          # zero sensor row of the basis (zero-residual branch)
        B = X.T.copy()
        n, m = B.shape
        costs = np.array([rng.randint(-6, 6) / 2 for _ in range(n)])
        A = np.array(QR().fit(B.copy()).get_sensors()).copy()
        L = np.array(sorted(rng.sample(range(n), rng.randint(1, n - 1))), dtype=int)
        N = rng.randint(1, min(n, m)); s = rng.randint(0, min(N, len(L)))
        # ---- optimizers
        S.call("QR.fit(B)", lambda: ((B.copy(),), {}), lambda b: QR().fit(b))
        S.call("CCQR.fit(B)", lambda: ((B.copy(),), {}), lambda b: CCQR().fit(b))
        S.call("CCQR(costs).fit(B)", lambda: ((B.copy(), costs.copy()), {}), lambda b, c: CCQR(sensor_costs=c).fit(b))
        S.call("GQR.fit(B)", lambda: ((B.copy(),), {}), lambda b: GQR().fit(b))
        for opt in ("max_n", "exact_n", "predetermined"):
            S.call(f"GQR.fit(B, {opt})", lambda: ((B.copy(),), {"idx_constrained": L.copy(), "n_sensors": N, "n_const_sensors": s,
                                                                 "all_sensors": A.copy(), "constraint_option": opt}),
                   lambda b, **kw: GQR().fit(b, **kw))
        # memory layouts: column-major basis matrices and single-mode bases (both C- and F-contiguous)
        BF = np.asfortranarray(B)
        for nm_, mk_ in (("QR", QR), ("CCQR", CCQR), ("GQR", GQR)):
            S.call(f"{nm_}.fit(B column-major)", lambda: ((np.asfortranarray(B.copy()),), {}), lambda b, mk_=mk_: mk_().fit(b))
            S.call(f"{nm_}.fit(B single mode)", lambda: ((B[:, :1].copy(),), {}), lambda b, mk_=mk_: mk_().fit(b))
            S.call(f"{nm_}.fit(x.T of C-ordered data)", lambda: ((X.copy(),), {}), lambda x, mk_=mk_: mk_().fit(x.T))
        S.call("GQR.fit(B column-major, max_n)", lambda: ((np.asfortranarray(B.copy()),), {"idx_constrained": L.copy(), "n_sensors": N, "n_const_sensors": s,
                                                                                          "all_sensors": A.copy(), "constraint_option": "max_n"}),
               lambda b, **kw: GQR().fit(b, **kw))
        # refit of one optimizer object on the same matrix (call sequences)
        oc = CCQR(sensor_costs=costs.copy())
        S.call("CCQR.fit;fit(B)", lambda: ((B.copy(),), {}), lambda b: (oc.fit(b), oc.fit(b)))
        # ---- mask functions (dlens is the documented in/out argument)
        for f in (NC.max_n, NC.exact_n, NC.predetermined):
            j = rng.randint(0, n - 1)
            S.call(f"_norm_calc.{f.__name__}", lambda: ((L.copy(), None, np.arange(n), j, s), {"all_sensors": A.copy(), "n_sensors": N}),
                   lambda lin, _d, piv, jj, ss, **kw: f(lin, np.ones(n - jj), piv, jj, ss, **kw))
        # ---- SSPOR over a short call sequence
        for bk in models.BASIS_KINDS:
            nm = min(3, ne, nf)
            for ok in ("qr", "ccqr", "gqr"):
                mk = {"qr": QR, "ccqr": CCQR, "gqr": GQR}[ok]
                model = SSPOR(basis=models.make_basis(bk, nm), optimizer=mk())
                S.call(f"SSPOR[{bk},{ok}].fit(x)", lambda: ((X.copy(),), {}), lambda x: model.fit(x, quiet=True, seed=1))
                if not hasattr(model, "ranked_sensors_"):
                    continue
                watch = lambda: (model.basis_matrix_, model.basis.basis_matrix_)
                sel = np.array(model.get_selected_sensors())
                S.call(f"SSPOR[{bk},{ok}].predict(y)", lambda: ((X[:, sel].copy(),), {}), lambda y: model.predict(y), watch)
                S.call(f"SSPOR[{bk},{ok}].predict(y1d)", lambda: ((X[0, sel].copy(),), {}), lambda y: model.predict(y), watch)
                S.call(f"SSPOR[{bk},{ok}].score(x)", lambda: ((X.copy(),), {}), lambda x: model.score(x), watch)
                S.call(f"SSPOR[{bk},{ok}].reconstruction_error(x, range)", lambda: ((X.copy(), np.array([1, 2])), {}),
                       lambda x, r: model.reconstruction_error(x, sensor_range=r), watch)
                S.call(f"SSPOR[{bk},{ok}].optimizer.fit(stored basis)", lambda: ((), {}), lambda: model.optimizer.fit(model.basis_matrix_), watch)
                S.call(f"SSPOR[{bk},{ok}].update_n_basis_modes(2)", lambda: ((), {}), lambda: model.update_n_basis_modes(2), lambda: model.basis.basis_matrix_)
                S.call(f"SSPOR[{bk},{ok}].update_n_basis_modes(k, x)", lambda: ((X.copy(),), {}), lambda x: model.update_n_basis_modes(min(ne, nf, 4), x, quiet=True))
                S.call(f"SSPOR[{bk},{ok}].set_number_of_sensors", lambda: ((), {}), lambda: model.set_number_of_sensors(2), watch)
        # square reconstruction path (as many sensors as modes): measurements in every layout the caller may hold
        for bk in models.BASIS_KINDS:
            nm = min(3, ne, nf)
            msq = SSPOR(basis=models.make_basis(bk, nm), optimizer=QR(), n_sensors=nm).fit(X.copy(), quiet=True, seed=1)
            selq = np.array(msq.get_selected_sensors())
            wq = lambda: (msq.basis_matrix_, msq.basis.basis_matrix_)
            S.call(f"SSPOR[{bk},square].predict(y 2-D C)", lambda: ((np.ascontiguousarray(X[:, selq]),), {}), lambda y: msq.predict(y), wq)
            S.call(f"SSPOR[{bk},square].predict(y 2-D F)", lambda: ((np.asfortranarray(X[:, selq]),), {}), lambda y: msq.predict(y), wq)
            S.call(f"SSPOR[{bk},square].predict(y 1-D)", lambda: ((X[0, selq].copy(),), {}), lambda y: msq.predict(y), wq)
            S.call(f"SSPOR[{bk},square].predict(y one row)", lambda: ((X[:1, selq].copy(),), {}), lambda y: msq.predict(y), wq)
            S.call(f"SSPOR[{bk},square].score(x)", lambda: ((X.copy(),), {}), lambda x: msq.score(x), wq)
            S.call(f"SSPOR[{bk},square].reconstruction_error(x)", lambda: ((X.copy(), np.array([nm])), {}),
                   lambda x, r: msq.reconstruction_error(x, sensor_range=r), wq)
        # SSPOR handing GQR its keyword arrays (region list – possibly empty – and the unconstrained ranking), several seeds
        for Lk, Lv in (("region", L), ("empty region", np.array([], dtype=int))):
            for opt in ("max_n", "exact_n", "predetermined"):
                for sd in (1, 5):
                    mg = SSPOR(basis=Identity(n_basis_modes=min(2, ne)), optimizer=GQR())
                    Ag = np.array(QR().fit(X.T[:, : min(2, ne)].copy()).get_sensors()).copy()
                    S.call(f"SSPOR[identity,gqr].fit(x, {opt}, {Lk})",
                           lambda: ((X.copy(),), {"idx_constrained": Lv.copy(), "n_sensors": min(2, ne), "n_const_sensors": min(1, len(Lv)),
                                                  "all_sensors": Ag.copy(), "constraint_option": opt}),
                           lambda x, **kw: mg.fit(x, quiet=True, seed=sd, **kw))
        # prefit basis shared between objects: sensor selection must not corrupt it
        b = Identity(n_basis_modes=min(3, ne)).fit(X.copy())
        S.call("SSPOR(prefit).fit", lambda: ((X.copy(),), {}), lambda x: SSPOR(basis=b, optimizer=CCQR()).fit(x, prefit_basis=True, quiet=True, seed=0),
               lambda: b.basis_matrix_)
        # ---- bases
        for bk in models.BASIS_KINDS:
            bb = models.make_basis(bk, min(3, ne, nf))
            S.call(f"{bk}.fit(X)", lambda: ((X.copy(),), {}), lambda x: bb.fit(x))
            S.call(f"{bk}.matrix_representation(copy)", lambda: ((), {}), lambda: bb.matrix_representation(n_basis_modes=2, copy=True), lambda: bb.basis_matrix_)
            S.call(f"{bk}.matrix_inverse()", lambda: ((), {}), lambda: bb.matrix_inverse(n_basis_modes=2), lambda: bb.basis_matrix_)
        Uq = np.linalg.qr(B + np.eye(n, m))[0]
        S.call("Custom(U).fit()", lambda: ((Uq.copy(),), {}), lambda u: Custom(u, n_basis_modes=min(2, m)).fit().matrix_representation())
        # ---- SSPOC
        Xc, yc = models.gen_classification(rng, n_classes=rng.choice([2, 3]), n_features=nf)
        for bk in models.BASIS_KINDS:
            mc = SSPOC(basis=models.make_basis(bk, None if bk == "identity" else 3), n_sensors=3)
            S.call(f"SSPOC[{bk}].fit(x, y)", lambda: ((Xc.copy(), yc.copy()), {}), lambda x, y: mc.fit(x, y, quiet=True))
            # labels and data as other code holds them: column / row vectors (files from MATLAB / HDF5), integer and float labels,
            # column-major data – accepted or rejected, the caller's objects stay as they were (values AND shape / strides)
            for yn, ymk in (("column", lambda: yc.copy().reshape(-1, 1)), ("row", lambda: yc.copy().reshape(1, -1)),
                            ("float", lambda: yc.astype(float)), ("list", lambda: yc.tolist()),
                            ("column F", lambda: np.asfortranarray(yc.copy().reshape(-1, 1)))):
                mcy = SSPOC(basis=models.make_basis(bk, None if bk == "identity" else 3), n_sensors=3)
                S.call(f"SSPOC[{bk}].fit(x, y {yn})", lambda ymk=ymk: ((np.asfortranarray(Xc.copy()), ymk()), {}),
                       lambda x, y, mcy=mcy: mcy.fit(x, y, quiet=True))
            if not hasattr(mc, "sensor_coef_"):
                continue
            S.call(f"SSPOC[{bk}].predict", lambda: ((Xc[:, mc.selected_sensors].copy(),), {}), lambda x: mc.predict(x))
            S.call(f"SSPOC[{bk}].update_sensors(n, xy)", lambda: ((Xc.copy(), yc.copy()), {}), lambda x, y: mc.update_sensors(n_sensors=2, xy=(x, y), quiet=True))
            S.call(f"SSPOC[{bk}].update_sensors(thr)", lambda: ((), {}), lambda: mc.update_sensors(threshold=0.0, quiet=True))
            S.call(f"SSPOC[{bk}].update_n_basis_modes", lambda: ((Xc.copy(), yc.copy()), {}), lambda x, y: mc.update_n_basis_modes(2, (x, y), quiet=True))
        # a user-supplied mode matrix (Custom basis, fitted beforehand) shared by a classification model: the caller's U – an ordinary
        # C-ordered array, all its columns in use, so its transpose is Fortran-ordered – and the stored basis must survive sensor selection
        for ncls_ in (2, 3):
            Xk, yk = models.gen_classification(rng, n_classes=ncls_, n_features=nf)
            Uc = np.ascontiguousarray(np.linalg.qr(np.array([[rng.randint(-5, 5) for _ in range(3)] for _ in range(nf)], dtype=float) + np.eye(nf, 3))[0])
            bc = Custom(Uc, n_basis_modes=3).fit()
            S.call(f"SSPOC[custom prefit, {ncls_} classes].fit(x, y)", lambda: ((Xk.copy(), yk.copy()), {}),
                   lambda x, y: SSPOC(basis=bc, n_sensors=2).fit(x, y, prefit_basis=True, quiet=True), lambda: (Uc, bc.basis_matrix_))
        # ---- constraint helpers and metrics
        side = rng.randint(2, 4)
        rk = np.array(rng.sample(range(side * side), side * side))
        info = np.zeros((2, side * side))
        S.call("get_constrained_sensors_indices", lambda: ((rk.copy(),), {}), lambda a: U.get_constrained_sensors_indices(0, side - 1, 0, 1, side, side, a))
        df = pd.DataFrame({"x": [float(rng.randint(0, 5)) for _ in range(8)], "y": [float(rng.randint(0, 5)) for _ in range(8)],
                           "z": [float(rng.randint(0, 5)) for _ in range(8)], "f": [1.0] * 8})
        df.iloc[2, 0] = np.nan
        S.call("get_constrained_sensors_indices_dataframe", lambda: ((df.copy(),), {}),
               lambda d: U.get_constrained_sensors_indices_dataframe(0, 3, 0, 3, d, X_axis="x", Y_axis="y"))
        S.call("get_coordinates_from_indices", lambda: ((rk[:3].copy(), info.copy()), {}), lambda i, inf: U.get_coordinates_from_indices(i, inf))
        S.call("get_indices_from_coordinates", lambda: ((np.array([0, 1]), np.array([1, 0])), {}), lambda a, b: U.get_indices_from_coordinates((a, b), (side, side)))
        S.call("Circle.get_constraint_indices", lambda: ((rk.copy(), info.copy()), {}),
               lambda a, inf: U.Circle(center_x=1, center_y=1, radius=1, loc="in", data=inf).get_constraint_indices(a, inf))
        dfc = df.dropna().reset_index(drop=True)
        # frames as they come out of a clean-up pipeline: rows dropped / sorted / filtered, so the row labels are not 0..n-1 (the labels
        # are part of the caller's frame – snap() records the index)
        for fname, fr in (("rows dropped", df.dropna()), ("sorted", dfc.sort_values("x", kind="stable")), ("labelled", dfc.set_index(np.arange(len(dfc)) * 3 + 5))):
            nfr = len(fr)
            S.call(f"get_coordinates_from_indices(dataframe, {fname})", lambda fr=fr, nfr=nfr: ((np.arange(min(3, nfr)), fr.copy()), {}),
                   lambda i, d: U.get_coordinates_from_indices(i, d, X_axis="x", Y_axis="y", Z_axis="z", Field="f"))
            S.call(f"Circle.get_constraint_indices(dataframe, {fname})", lambda fr=fr, nfr=nfr: ((np.arange(nfr), fr.copy()), {}),
                   lambda a, d: U.Circle(center_x=2, center_y=2, radius=2, loc="in", data=d, X_axis="x", Y_axis="y", Field="f").get_constraint_indices(a, d))
            S.call(f"get_constrained_sensors_indices_dataframe({fname})", lambda fr=fr: ((fr.copy(),), {}),
                   lambda d: U.get_constrained_sensors_indices_dataframe(0, 3, 0, 3, d, X_axis="x", Y_axis="y"))
        S.call("Cylinder.get_constraint_indices", lambda: ((np.arange(len(dfc)), dfc.copy()), {}),
               lambda a, d: U.Cylinder(center_x=2, center_y=2, center_z=2, radius=2, height=2, loc="in", data=d, X_axis="x", Y_axis="y", Z_axis="z", Field="f").get_constraint_indices(a, d))
        S.call("Polygon.get_constraint_indices", lambda: ((rk.copy(), info.copy(), [(0, 0), (3, 0), (3, 3), (0, 3)]), {}),
               lambda a, inf, vs: U.Polygon(xy_coords=vs, loc="out", data=inf).get_constraint_indices(a, inf))
        S.call("UserDefinedConstraints(equation)", lambda: ((rk.copy(), info.copy()), {}),
               lambda a, inf: U.UserDefinedConstraints(a, data=inf, equation="x + y <= 2").constraint())
        S.call("determinant", lambda: ((np.array(A[: m].tolist()), B.copy()), {}), lambda t, b: U.determinant(t, n, b))
        S.call("relative_reconstruction_error", lambda: ((X.copy(), X.copy() + 0.5), {}), lambda d, p: U.relative_reconstruction_error(d, p))
        S.call("validate_input", lambda: ((X.copy(), list(range(nf))), {}), lambda x, sn: U.validate_input(x, sn))
        S.call("constrained_binary_solve", lambda: ((np.arange(3, dtype=float), np.eye(3, 5)), {}), lambda w, psi: U.constrained_binary_solve(w, psi, quiet=True))


def probes(ctx):
    """validate the translator's view / fresh classification on the expressions the package actually uses"""
    a = np.arange(12, dtype=float).reshape(3, 4)
    idx = np.array([2, 0])
    table = [
        ("a.conj().T", a.conj().T, True), ("a.T", a.T, True), ("a[1:, 1:]", a[1:, 1:], True), ("a[:, 1]", a[:, 1], True),
        ("a.reshape(4,3)", a.reshape(4, 3), True), ("np.asarray(a)", np.asarray(a), True), ("np.transpose(a)", np.transpose(a), True),
        ("a.copy()", a.copy(), False), ("a.conj().T.copy()", a.conj().T.copy(), False), ("a[:, [0, 1]]", a[:, [0, 1]], False),
        ("a[idx]", a[idx], False), ("a[:, 1] / 2", a[:, 1] / 2, False), ("np.sqrt(a)", np.sqrt(a), False), ("a.astype(float)", a.astype(float), False),
        ("np.array(a)", np.array(a), False), ("np.abs(a)", np.abs(a), False), ("a @ a.T", a @ a.T, False),
    ]
    for expr, val, is_view in table:
        ctx.evaluations += 1
        ctx.count("probe")
        shares = bool(np.shares_memory(a, val))
        # soundness direction: the table may call a fresh value a view, never the reverse
        if shares and not is_view:
            raise C.HarnessError(f"translator table classifies `{expr}` as fresh but it shares memory with its operand")


def run(ctx: C.Ctx):
    offenders, n_oblig = static_part(ctx)
    probes(ctx)
    n_before = len(ctx.violations)
    dynamic_part(ctx)
    found_concrete = any(v.kind == "concrete" for v in ctx.violations[n_before:])
    if offenders and not found_concrete:
        ctx.violation("no-failing-input-found",
                      "generated alias obligation(s) no longer check: " + "; ".join(o["function"] for o in offenders[:6]),
                      {"signature": "alias-obligation:" + offenders[0]["function"], "offenders": offenders},
                      broken="theorem(s) safe_" + ", safe_".join(T.lean_ident(o["function"]) for o in offenders[:6]) + " (PsVerif/Generated/Alias.lean)")
    elif offenders:
        ctx.notes.append("static offenders: " + "; ".join(o["function"] for o in offenders[:10]))


def replay(ctx: C.Ctx, payload):
    run(ctx)
