"""
C10 — sparse sensor weights reproduce the full-state discriminant.

Lean: theorems in `Props/C10.lean` – `binary_offset` (an exact fit of the centred system maps the sensor weights
through the basis onto the classifier's weights up to one common offset) and `group_lasso_kkt_sufficient` (the KKT
certificate implies global optimality of the row-sparse objective).  The minimisers themselves are computed by
scikit-learn (OrthogonalMatchingPursuit, MultiTaskLasso): this check certifies the REAL output numerically and checks
the glue (argument order, α = l1_penalty, transposes, shapes).  Claimed as partial.
"""
from __future__ import annotations

import numpy as np

from .. import common as C
from .. import models

LEVEL = "other"
EXPLANATION = ("Numeric certificate on the real SSPOC output plus Lean theorems that the certificate suffices. Binary: "
               "spread of (Ψ s − w) ≤ 1e-8·‖w‖ (one common offset) and nnz(s) ≤ n_basis_modes. Multiclass: shape "
               "(n_features × n_classes), duality gap of the centred group-lasso problem for α = l1_penalty within 20× the solver tolerance, "
               "objective not improved by random / coordinate perturbations. The solvers are scikit-learn's (trusted); what is "
               "proved in Lean is that an exact centred fit yields the offset identity and that KKT implies optimality.")
RULE = ("generic binary and multiclass training sets (≥ 2 basis modes) × Identity / SVD / RandomProjection × l1_penalty values; "
        "non-trivial when the weight vector/matrix has at least one non-zero and one zero row; distinct by (basis, classes, shape, "
        "l1_penalty, support)")
TRUSTED = [
    "Lean 4.33 kernel; axioms propext, Classical.choice, Quot.sound (theorems of Props/C10.lean)",
    "scikit-learn OrthogonalMatchingPursuit / MultiTaskLasso / LinearDiscriminantAnalysis compute the minimisers (NOT verified); "
    "their output is certified numerically on every sample",
]
ASSUMPTIONS = ["the duality gap is accepted up to 20 × MultiTaskLasso's default tol=1e-4 × ‖W_c‖²"]


def objective(Psi, W, S, alpha, centred=True):
    r = Psi.shape[0]
    Xc = Psi - Psi.mean(axis=0) if centred else Psi
    Wc = W - W.mean(axis=0) if centred else W
    R = Wc - Xc @ S
    return 0.5 / r * float(np.sum(R * R)) + alpha * float(np.sum(np.sqrt(np.sum(S * S, axis=1))))


def check(ctx, idx):
    from pysensors.classification import SSPOC
    rng = ctx.rng
    ncls = rng.choice([2, 2, 3, 4])
    X, y = models.gen_classification(rng, n_classes=ncls, n_features=rng.randint(3, ctx.scale(8, 12)), per_class=rng.randint(5, 9))
    if rng.random() < 0.25:
        # the units of the measurements are arbitrary (powers of two: still exact): the classifier's weights scale inversely
        e = rng.choice([-40, -30, -20, 20, 30, 40])
        X = X * 2.0 ** e
        ctx.count("data_scaled_2^%d" % e)
    nf = X.shape[1]
    bk = rng.choice(models.BASIS_KINDS + ["custom_int", "custom_float"])
    nm = None if bk == "identity" else rng.randint(2, min(X.shape[0], nf))
    custom_U = None
    if bk.startswith("custom"):
        # a user-supplied mode matrix (pysensors.basis.Custom, fitted beforehand): ±1 / 0 entries of full column rank,
        # stored with an integer or a float64 dtype – the same numbers, hence the same basis
        for _ in range(20):
            custom_U = np.array([[rng.choice([-1, 1, 1, 0]) for _ in range(nm)] for _ in range(nf)], dtype=np.int64)
            if np.linalg.matrix_rank(custom_U) == nm and np.linalg.cond(custom_U.astype(float)) < 50:
                break
        else:
            bk, custom_U = "svd", None
        if custom_U is not None and bk == "custom_float":
            custom_U = custom_U.astype(float)
    alpha = rng.choice([0.01, 0.05, 0.1, 0.3, 1.0])
    # documented optimizer keywords are forwarded to the solver: for two classes the fit is still exact (without an
    # intercept the common offset is simply 0); for more classes the objective is the un-centred one
    kws = {}
    if rng.random() < 0.4:
        kws["fit_intercept"] = False
    if ncls == 2 and rng.random() < 0.3:
        kws["precompute"] = rng.choice([True, False])
    if ncls > 2 and rng.random() < 0.35:
        alpha = ("near_max", rng.choice([0.5, 0.6, 0.75, 0.9, 0.97, 1.05]))      # a penalty just below / above the value that zeroes every row
    run_case(ctx, idx, X, y, ncls, bk, nm, alpha, kws, custom_U)


def run_case(ctx, idx, X, y, ncls, bk, nm, alpha, kws, custom_U):
    from pysensors.classification import SSPOC
    rng = ctx.rng
    nf = X.shape[1]
    centred = kws.get("fit_intercept", True)
    if isinstance(alpha, (tuple, list)):
        # resolve "near_max": the smallest penalty for which the all-zero matrix is optimal is max_j ‖(Ψcᵀ Wc)_j‖₂ / r
        try:
            if custom_U is not None:
                from pysensors.basis import Custom
                pm = SSPOC(basis=Custom(custom_U.copy(), n_basis_modes=nm).fit(), l1_penalty=0.1, n_sensors=min(2, nf))
                pm.fit(X.copy(), y.copy(), quiet=True, refit=False, prefit_basis=True, **{k: v for k, v in kws.items() if k != "prefit_basis"})
            else:
                pm = SSPOC(basis=models.make_basis(bk, nm), l1_penalty=0.1, n_sensors=min(2, nf))
                pm.fit(X.copy(), y.copy(), quiet=True, refit=False, **kws)
            Psi0 = np.asarray(pm.basis_matrix_inverse_); W0 = np.squeeze(pm.classifier.coef_).T
            Xc0 = Psi0 - Psi0.mean(axis=0) if centred else Psi0
            Wc0 = W0 - W0.mean(axis=0) if centred else W0
            amax = float(np.max(np.sqrt(np.sum((Xc0.T @ Wc0) ** 2, axis=1)))) / Psi0.shape[0]
        except Exception:
            amax = 0.0
        if not amax > 0:
            ctx.count("near_max_unresolved")
            return
        ctx.count("l1_penalty_near_alpha_max(×%s)" % alpha[1])
        alpha = float(alpha[1]) * amax
    base = {"X": X.tolist(), "y": y.tolist(), "basis": bk, "n_modes": nm, "l1_penalty": alpha, "index": idx,
            "fit_kwargs": dict(kws)}
    ctx.evaluations += 1
    ctx.count(f"{bk}/{'binary' if ncls == 2 else 'multi'}{'' if centred else '/no_intercept'}")
    if custom_U is not None:
        from pysensors.basis import Custom
        base["custom_U"] = custom_U.tolist()
        kws["prefit_basis"] = True
        model = SSPOC(basis=Custom(custom_U.copy(), n_basis_modes=nm).fit(), l1_penalty=alpha, n_sensors=min(2, nf))
    else:
        model = SSPOC(basis=models.make_basis(bk, nm), l1_penalty=alpha, n_sensors=min(2, nf))
    how = ctx.rng.choice(["ctor", "ctor", "set_params", "clone_set_params", "attribute"])
    if custom_U is not None and how != "ctor":
        how = "attribute"            # (a Custom basis does not support get_params – outside every property here)
    if not isinstance(alpha, (int, float)):
        how = "ctor"
    if how != "ctor":
        # the sparsity weight as a hyper-parameter search sets it (clone + set_params) or as a user changes it before a fit: the
        # weight in effect is l1_penalty at the time of the fit
        other = 0.37 if abs(float(alpha) - 0.37) > 1e-9 else 0.11
        kw0 = dict(basis=model.basis, l1_penalty=other, n_sensors=min(2, nf))
        model = SSPOC(**kw0)
        if how == "set_params":
            model.set_params(l1_penalty=alpha)
        elif how == "clone_set_params":
            from sklearn.base import clone
            model = clone(model).set_params(l1_penalty=alpha)
        else:
            model.l1_penalty = alpha
        ctx.count("l1_penalty_set_after_construction:" + how)
    import pysensors.utils._optimizers as om
    seen = []
    orig_mtl = om.MultiTaskLasso

    class TapMTL(orig_mtl):
        def fit(self, X_, y_):
            out = super().fit(X_, y_)
            seen.append(self)
            return out

    om.MultiTaskLasso = TapMTL
    try:
        model.fit(X.copy(), y.copy(), quiet=True, refit=False, **kws)
    except Exception as e:
        ctx.count("fit_failed:" + type(e).__name__)
        return
    finally:
        om.MultiTaskLasso = orig_mtl
    if ctx.rng.random() < 0.6:
        # another model of the same problem shape is trained afterwards (the next fold, the next label coding): this model's sensor
        # weights are its own – they neither move nor stop minimising ITS objective
        held = np.array(model.sensor_coef_, copy=True)
        try:
            if custom_U is not None:
                from pysensors.basis import Custom
                other = SSPOC(basis=Custom(custom_U.copy(), n_basis_modes=nm).fit(), l1_penalty=alpha, n_sensors=min(2, nf))
            else:
                other = SSPOC(basis=models.make_basis(bk, nm), l1_penalty=alpha, n_sensors=min(2, nf))
            labels = sorted(set(y.tolist()))
            y2 = np.array([labels[(labels.index(v) + 1) % len(labels)] for v in y.tolist()])
            other.fit(X[::-1].copy(), y2[::-1].copy() if ctx.rng.random() < 0.5 else y2, quiet=True, refit=False, **kws)
            ctx.count("another_model_of_the_same_shape_trained_afterwards")
        except Exception:
            ctx.count("second_model_failed")
        if np.shape(held) != np.shape(model.sensor_coef_) or not np.array_equal(held, np.asarray(model.sensor_coef_)):
            ctx.violation("concrete", f"SSPOC ({bk}, {ncls} classes, l1_penalty={alpha}): training ANOTHER model of the same problem shape changed this "
                                      f"model's sensor weights (max change {float(np.max(np.abs(held - np.asarray(model.sensor_coef_)))) if np.shape(held) == np.shape(model.sensor_coef_) else 'shape'})",
                          {"signature": "sensor-weights:changed-by-a-later-model", **base})
            return
    if ncls > 2 and seen:
        mtl = seen[-1]
        if getattr(mtl, "n_iter_", 0) >= mtl.max_iter:
            ctx.count("solver_not_converged(skipped)")
            return
        if abs(mtl.alpha - alpha) > 0:
            ctx.violation("concrete", f"MultiTaskLasso was run with alpha={mtl.alpha}, not l1_penalty={alpha}",
                          {"signature": "sensor-weights:alpha-not-passed", **base})
            return
    Psi = np.asarray(model.basis_matrix_inverse_)          # r × n_features
    r = Psi.shape[0]
    if r < 2:
        return
    s = np.asarray(model.sensor_coef_)
    w = np.squeeze(model.classifier.coef_).T

    def bad(sig, msg, **kw):
        ctx.violation("concrete", f"SSPOC ({bk}, {ncls} classes, l1_penalty={alpha}): {msg}", {"signature": "sensor-weights:" + sig, **base, **kw})

    if ncls == 2:
        if s.shape != (nf,):
            return bad("shape", f"binary sensor weight vector has shape {s.shape}, expected ({nf},)")
        nnz = int(np.count_nonzero(s))
        if nnz > r:
            return bad("support", f"{nnz} non-zero sensors exceed n_basis_modes = {r}")
        d = Psi @ s - w
        spread = float(np.ptp(d))
        nw = float(np.linalg.norm(w)) + 1e-300
        kap = np.linalg.cond(Psi[:, s != 0]) if nnz else 1.0
        if kap < 1e8 and spread > 1e-8 * nw * max(1.0, kap):
            return bad("offset", f"Ψ·s − w is not one common offset: spread {spread:.3e} (‖w‖ = {nw:.3e})", spread=spread)
        if 0 < nnz < nf:
            ctx.nontriv((bk, 2, X.shape, tuple(np.nonzero(s)[0].tolist())))
    else:
        if s.shape != (nf, ncls):
            return bad("shape", f"multiclass weight matrix has shape {s.shape}, expected one row per sensor and one column per class {(nf, ncls)}")
        W = w                                         # r × c
        if W.shape != (r, ncls):
            return
        Xc = Psi - Psi.mean(axis=0) if centred else Psi
        Wc = W - W.mean(axis=0) if centred else W
        R = Wc - Xc @ s
        norms = np.sqrt(np.sum(s * s, axis=1))
        # duality gap of the group-lasso problem with sparsity weight α = l1_penalty (scikit-learn's own stopping
        # quantity, recomputed here from the returned weights): ½‖Wc − Xc S‖² + α·r·Σ‖S_j‖
        l1_reg = alpha * r
        XtA = Xc.T @ R
        dual_norm = float(np.max(np.sqrt(np.sum(XtA * XtA, axis=1)))) if nf else 0.0
        R2 = float(np.sum(R * R))
        if dual_norm > l1_reg:
            const = l1_reg / dual_norm
            gap = 0.5 * (R2 + R2 * const * const)
        else:
            const = 1.0
            gap = R2
        gap += l1_reg * float(np.sum(norms)) - const * float(np.sum(R * Wc))
        budget = 20 * 1e-4 * float(np.sum(Wc * Wc)) + 1e-12
        if gap > budget:
            return bad("duality-gap", f"the weights do not minimise the group-lasso objective with sparsity weight l1_penalty={alpha}: duality gap {gap:.3e} > {budget:.3e}", gap=gap)
        f0 = objective(Psi, W, s, alpha, centred)
        nrng = ctx.np_rng(idx)
        for t in range(12):
            P = s.copy()
            if t % 2 == 0:
                P = P + nrng.normal(scale=10.0 ** -nrng.integers(1, 4), size=P.shape)
            else:
                j = int(nrng.integers(0, nf))
                P[j] = P[j] * nrng.uniform(0, 1.5) + (nrng.normal(scale=0.05, size=ncls) if nrng.random() < 0.5 else 0)
            if objective(Psi, W, P, alpha, centred) < f0 - (budget / r + 1e-9 * (1 + abs(f0))):
                return bad("not-minimal", f"a perturbation lowers the group-lasso objective ({objective(Psi, W, P, alpha, centred):.6g} < {f0:.6g})")
        if 0 < int(np.count_nonzero(norms)) < nf:
            ctx.nontriv((bk, ncls, X.shape, alpha, tuple(np.nonzero(norms)[0].tolist())))
    ctx.sample({"basis": bk, "classes": ncls, "shape": list(X.shape), "l1_penalty": alpha, "r": r,
                "support": np.nonzero(s if s.ndim == 1 else np.sum(np.abs(s), axis=1))[0].tolist()}, limit=4)


def corpus(ctx):
    """minimised past failures first"""
    import glob, json
    for f in sorted(glob.glob(str(C.VERIF / "corpus" / "C10" / "*.json"))):
        d = json.load(open(f))["case"]
        X, y = np.array(d["X"], dtype=float), np.array(d["y"])
        U = None if d.get("custom_U") is None else np.array(d["custom_U"], dtype=float if d["basis"] == "custom_float" else np.int64)
        ctx.count("corpus")
        run_case(ctx, -1, X, y, len(set(y.tolist())), d["basis"], d["n_modes"], d["l1_penalty"],
                 {k: v for k, v in d.get("fit_kwargs", {}).items() if k != "prefit_basis"}, U)


def run(ctx: C.Ctx):
    from .. import shapes_static, translate_classification
    shapes_static.run_with_translation(ctx, translate_classification, "Classification", "classification-pipeline", lambda: _run(ctx),
                                       "regenerated from SSPOC.predict / fit / update_sensors: dispatch = Sspoc.predictKind, training data, solver calls, refit block")


def _run(ctx: C.Ctx):
    corpus(ctx)
    for idx in range(ctx.scale(70, 700)):
        check(ctx, idx)


def replay(ctx: C.Ctx, payload):
    print("# C10 cases derive from (seed, index); re-run ./check C10 with VERIF_SEED =", payload.get("seed"))
    run(ctx)
