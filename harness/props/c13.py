"""
C13 — box, coordinate and user-defined constraint helpers map sensors correctly.

Lean: `Model/Geometry.lean` (boxIndices, dfBoxIndices, ravelF / gridPt, moduleName); theorems in `Props/C13.lean`.
Correspondence: exact differential on `get_constrained_sensors_indices`, `…_dataframe`,
`get_coordinates_from_indices`, `get_indices_from_coordinates`, `UserDefinedConstraints` (equation and file),
`load_functional_constraints` with real temporary files named `<identifier>.py`.
"""
from __future__ import annotations

import itertools
import os
import shutil
import sys
import tempfile
from fractions import Fraction

import numpy as np

from .. import common as C

LEVEL = "proof"
RULE = ("square grids n ∈ [1, 8] × boxes (integer and half-integer bounds, inside/outside/overlapping the grid) × full "
        "sensor permutations; dataframes with and without missing values; index↔coordinate round trips; equations / "
        "functions of (x, y); identifier file names (all strings ≤ 3 chars over {a,p,y,_,1} that are identifiers, plus "
        "random ones); non-trivial when the selected set is neither empty nor everything; distinct by input")
TRUSTED = [
    "Lean 4.33 kernel; axioms propext, Quot.sound, Classical.choice",
    "hand-written model Model/Geometry.lean tied to _constraints.py by exact differential testing",
    "numpy unravel_index / ravel_multi_index, pandas dropna / to_numpy, Python eval / __import__ (parameters)",
]
ASSUMPTIONS = ["temporary files are created under a scratch directory that is removed afterwards"]

EQS = [("x + y <= 4", lambda x, y: x + y <= 4), ("x**2 + y**2 <= 9", lambda x, y: x * x + y * y <= 9), ("x == y", lambda x, y: x == y),
       ("(x - 2)*(y - 1) > 0", lambda x, y: (x - 2) * (y - 1) > 0), ("x % 2 == 0", lambda x, y: x % 2 == 0)]
FNS = [("return x - y", lambda x, y: x - y), ("return 3 - (x + y)", lambda x, y: 3 - (x + y)), ("return x*y - 4", lambda x, y: x * y - 4),
       ("return (x - 2)**2 - 1", lambda x, y: (x - 2) ** 2 - 1),
       # fractional values (dyadic: exact): negative values between -1 and 0 are negative
       ("return (x - y) / 4 - 0.125", lambda x, y: (x - y) / 4 - 0.125), ("return 0.25 * x - 0.75", lambda x, y: 0.25 * x - 0.75),
       ("return (x * y - 3) / 8", lambda x, y: (x * y - 3) / 8), ("return ((x - 2)**2 + (y - 1)**2) ** 0.5 - 2.5", lambda x, y: ((x - 2) ** 2 + (y - 1) ** 2) ** 0.5 - 2.5),
       ("return -0.5 + 0 * x", lambda x, y: -0.5), ("return 0.5 + 0 * x", lambda x, y: 0.5),
       # functions that vanish ON the boundary as IEEE -0.0 (a distance with a minus sign): zero is not negative, whatever its sign bit
       ("return -abs(x - 2.0)", lambda x, y: -abs(x - 2.0)), ("return -1.0 * abs(x - y)", lambda x, y: -1.0 * abs(x - y)),
       ("return -((x - 1.0)**2 + (y - 2.0)**2) * (x + 1.0)", lambda x, y: -((x - 1.0) ** 2 + (y - 2.0) ** 2) * (x + 1.0))]


def box_part(ctx, count):
    import pysensors.utils as U
    rng = ctx.rng
    reqs, metas = [], []
    for idx in range(count):
        n = rng.randint(1, ctx.scale(8, 12))
        b = lambda: rng.choice([rng.randint(-1, n), rng.randint(0, 2 * n) / 2])
        xs = sorted([b(), b()]); ys = sorted([b(), b()])
        if xs[0] == xs[1]:
            xs[1] += 1
        if ys[0] == ys[1]:
            ys[1] += 1
        rk = list(range(n * n)); rng.shuffle(rk)
        ctx.evaluations += 1
        ctx.count("box")
        out = U.get_constrained_sensors_indices(xs[0], xs[1], ys[0], ys[1], n, n, np.array(rk))
        real = [int(v) for v in np.asarray(out).tolist()] if len(out) else []
        # the property's set: pixels t with x = t mod n, y = t div n inside the closed box
        want_set = sorted(t for t in range(n * n) if xs[0] <= t % n <= xs[1] and ys[0] <= t // n <= ys[1])
        if sorted(real) != want_set:
            ctx.violation("concrete", f"box [{xs[0]},{xs[1]}]×[{ys[0]},{ys[1]}] on a {n}×{n} grid returns {sorted(real)}, the pixels in the box are {want_set}",
                          {"signature": "box-set", "args": {"x": xs, "y": ys, "n": n, "ranking": rk}, "observed": real, "required": want_set, "index": idx})
            continue
        if 0 < len(real) < n * n:
            ctx.nontriv(("box", n, tuple(xs), tuple(ys)))
        reqs.append(f"box {C.enc_rat(xs[0])} {C.enc_rat(xs[1])} {C.enc_rat(ys[0])} {C.enc_rat(ys[1])} {n} {C.enc_nats(rk)}")
        metas.append((idx, {"x": xs, "y": ys, "n": n, "ranking": rk}, real))
        ctx.sample({"box": {"x": xs, "y": ys, "n": n}, "returned": real[:10]}, limit=2)
    for (idx, args, real), rp in zip(metas, ctx.driver.ask(reqs)):
        ctx.impl_traces += 1
        model = [int(v) for v in rp.split()[1:]]
        if model != real:
            ctx.violation("no-failing-input-found", f"box helper returns {real} (order), Lean boxIndices {model}",
                          {"signature": "box-order-correspondence", "args": args, "observed": real, "model": model, "index": idx},
                          broken="correspondence boxIndices ↔ get_constrained_sensors_indices (order of the result)")


def dfbox_part(ctx, count):
    import pandas as pd
    import pysensors.utils as U
    rng = ctx.rng
    reqs, metas = [], []
    for idx in range(count):
        n = rng.randint(0, ctx.scale(12, 25))
        val = lambda: None if rng.random() < 0.15 else rng.randint(-8, 24) / 4
        rows = [(val(), val(), val()) for _ in range(n)]
        df = pd.DataFrame({"a": [np.nan if r[0] is None else r[0] for r in rows], "b": [np.nan if r[1] is None else r[1] for r in rows],
                           "c": [np.nan if r[2] is None else r[2] for r in rows]}, dtype=float)
        xs = sorted([rng.randint(-4, 20) / 4, rng.randint(-4, 20) / 4]); ys = sorted([rng.randint(-4, 20) / 4, rng.randint(-4, 20) / 4])
        # index of the frame: the helper promises row POSITIONS, whatever the labels are
        ik = rng.choice(["range", "range", "shifted", "shuffled_labels", "strings"])
        if n and ik == "shifted":
            df.index = range(100, 100 + n)
        elif n and ik == "shuffled_labels":
            lab = list(range(n)); rng.shuffle(lab); df.index = lab
        elif n and ik == "strings":
            df.index = [f"s{i}" for i in range(n)]
        ctx.evaluations += 1
        ctx.count("dfbox" + ("_nan" if any(None in r for r in rows) else "") + ":" + ik)
        before = df.copy()
        real = list(U.get_constrained_sensors_indices_dataframe(xs[0], xs[1], ys[0], ys[1], df, X_axis="a", Y_axis="b"))
        if not before.equals(df):
            ctx.violation("concrete", "dataframe box helper modified its input dataframe", {"signature": "dfbox-mutates", "index": idx})
            continue
        kept = [r for r in rows if None not in r]          # dropna drops rows with ANY missing value
        want = [i for i, r in enumerate(kept) if xs[0] <= r[0] < xs[1] and ys[0] <= r[1] < ys[1]]
        if real != want:
            ctx.violation("concrete", f"dataframe box [{xs[0]},{xs[1]})×[{ys[0]},{ys[1]}) returns {real}, rows (after dropna) in the half-open box are {want}",
                          {"signature": "dfbox-set", "rows": rows, "box": [xs, ys], "observed": real, "required": want, "index": idx})
            continue
        if 0 < len(real) < len(kept):
            ctx.nontriv(("dfbox", tuple(xs), tuple(ys), len(kept)))
        enc = lambda v: "None" if v is None else C.enc_rat(v)
        # the model sees (x, y) of rows that dropna keeps or not: a row is incomplete when any column is missing
        mrows = [(r[0], r[1]) if None not in r else (None, None) for r in rows]
        reqs.append(f"dfbox {C.enc_rat(xs[0])} {C.enc_rat(xs[1])} {C.enc_rat(ys[0])} {C.enc_rat(ys[1])} {len(mrows)} " + " ".join(f"{enc(a)} {enc(b)}" for a, b in mrows))
        metas.append((idx, real))
    for (idx, real), rp in zip(metas, ctx.driver.ask(reqs)):
        ctx.impl_traces += 1
        if [int(v) for v in rp.split()[1:]] != real:
            ctx.violation("no-failing-input-found", f"dataframe box: real {real} vs Lean dfBoxIndices {rp}",
                          {"signature": "dfbox-correspondence", "index": idx}, broken="correspondence dfBoxIndices")


def coords_part(ctx, count):
    import pysensors.utils as U
    rng = ctx.rng
    for idx in range(count):
        side = rng.randint(1, ctx.scale(9, 14))
        info = np.zeros((rng.randint(1, 3), side * side))
        k = rng.randint(1, min(10, side * side))
        ids = np.array(rng.sample(range(side * side), k))
        ctx.evaluations += 1
        ctx.count("coords_roundtrip")
        xs, ys = U.get_coordinates_from_indices(ids, info)
        want = [(int(i) % side, int(i) // side) for i in ids]
        if list(zip(np.asarray(xs).tolist(), np.asarray(ys).tolist())) != want:
            ctx.violation("concrete", f"get_coordinates_from_indices({ids.tolist()}) on a {side}×{side} grid = {list(zip(xs, ys))}, expected x=idx mod side, y=idx div side: {want}",
                          {"signature": "coords-from-indices", "ids": ids.tolist(), "side": side, "index": idx})
            continue
        back = np.asarray(U.get_indices_from_coordinates((xs, ys), (side, side))).tolist()
        if back != ids.tolist():
            ctx.violation("concrete", f"index→coordinate→index round trip gives {back} for {ids.tolist()}",
                          {"signature": "coords-roundtrip", "ids": ids.tolist(), "side": side, "index": idx})
            continue
        x0, y0 = rng.randrange(side), rng.randrange(side)
        i0 = int(U.get_indices_from_coordinates((np.array([x0]), np.array([y0])), (side, side))[0])
        c0 = U.get_coordinates_from_indices(np.array([i0]), info)
        if (int(c0[0][0]), int(c0[1][0])) != (x0, y0) or i0 != x0 + y0 * side:
            ctx.violation("concrete", f"coordinate→index→coordinate round trip: ({x0},{y0}) → {i0} → {c0}",
                          {"signature": "coords-roundtrip", "xy": [x0, y0], "side": side, "index": idx})
            continue
        if side > 1:
            ctx.nontriv(("coords", side, tuple(ids.tolist())))


def user_defined_part(ctx, count, scratch):
    import pysensors.utils as U
    rng = ctx.rng
    for idx in range(count):
        side = rng.randint(2, 6)
        info = np.zeros((2, side * side))
        rk = list(range(side * side)); rng.shuffle(rk)
        ctx.evaluations += 1
        # the sensor permutation as the caller happens to store it (argsort gives int64, compact storage uses unsigned types)
        rdt = rng.choice(["int64", "int64", "int32", "uint32", "uint16", "uint8", "int16"])
        rk_arr = np.array(rk, dtype=rdt)
        ctx.count("ranking_dtype:" + rdt)
        if rng.random() < 0.5:
            eq, f = rng.choice(EQS)
            ctx.count("equation")
            obj = U.UserDefinedConstraints(rk_arr, data=info, equation=eq)
            got, _ = obj.constraint()
            want = [s for s in rk if f(s % side, s // side)]
            if rng.random() < 0.5 and [int(g) for g in got] == want:
                # the same constraint object asked again after the caller refreshed its ranking buffer in place (re-ranked sensors
                # written into the array the object was built with): the equation is evaluated for the sensors as they are NOW
                rk2 = list(rk); rng.shuffle(rk2)
                rk_arr[:] = np.array(rk2, dtype=rdt)
                try:
                    got, _ = obj.constraint()
                except Exception as e:
                    ctx.violation("concrete", f"equation constraint raised {type(e).__name__} when asked again after the ranking array was updated in place",
                                  {"signature": "equation-polarity:after-inplace-ranking-update", "ranking": rk2, "side": side, "index": idx})
                    continue
                rk = rk2
                want = [s for s in rk if f(s % side, s // side)]
                ctx.count("equation_asked_again_after_inplace_ranking_update")
            what = f"equation '{eq}' marks {got}, sensors where it is true: {want}"
            sig = "equation-polarity"
        else:
            body, f = rng.choice(FNS)
            name = gen_identifier(rng)
            ctx.count("file")
            path = os.path.join(scratch, name + ".py")
            with open(path, "w") as fh:
                fh.write(f"def {name}(x, y, **kw):\n    {body}\n")
            sys.modules.pop(name, None)
            try:
                obj = U.UserDefinedConstraints(rk_arr, data=info, file=path)
                got, _ = obj.constraint()
            except Exception as e:
                ctx.violation("concrete", f"file constraint in '{name}.py' could not be loaded/evaluated: {type(e).__name__}: {e}",
                              {"signature": "loader-module-name", "file": name + ".py", "index": idx})
                continue
            finally:
                sys.modules.pop(name, None)
                if scratch in sys.path:
                    sys.path.remove(scratch)
            want = [s for s in rk if f(s % side, s // side) < 0]
            what = f"file constraint '{body}' marks {got}, sensors where the function is negative: {want}"
            sig = "file-polarity"
        if [int(g) for g in got] != want:
            ctx.violation("concrete", what, {"signature": sig, "ranking": rk, "side": side, "index": idx})
        elif 0 < len(want) < len(rk):
            ctx.nontriv((sig, side, tuple(want)))


def user_defined_df_part(ctx, count):
    """equation constraints on dataframes: `x` and `y` of the equation are the sensor's coordinates in the columns NAMED as X_axis / Y_axis –
    whatever else the frame carries (a 3-D point cloud constrained in its x–z plane has a column called y that is not the Y axis)"""
    import pandas as pd
    import pysensors.utils as U
    rng = ctx.rng
    for idx in range(count):
        n = rng.randint(3, 12)
        pts = [(rng.randint(0, 12) / 2, rng.randint(0, 12) / 2, rng.randint(0, 12) / 2) for _ in range(n)]
        lay = rng.choice(["plain", "xz_plane", "zy_plane", "renamed_with_plain_decoys", "swapped"])
        cols = {"x": [p[0] for p in pts], "y": [p[1] for p in pts], "z": [p[2] for p in pts]}
        if lay == "plain":
            X_axis, Y_axis = "x", "y"
        elif lay == "xz_plane":
            X_axis, Y_axis = "x", "z"
        elif lay == "zy_plane":
            X_axis, Y_axis = "z", "y"
        elif lay == "swapped":
            X_axis, Y_axis = "y", "x"
        else:
            cols = {"X_mm": cols["x"], "Y_mm": cols["y"], "x": [7.5 - v for v in cols["y"]], "y": [2 * v + 1 for v in cols["x"]]}
            X_axis, Y_axis = "X_mm", "Y_mm"
        cols["f"] = [1.0] * n
        names = list(cols)
        rng.shuffle(names)
        df = pd.DataFrame({k: cols[k] for k in names})
        rk = list(range(n)); rng.shuffle(rk)
        eq, f = rng.choice(EQS)
        ctx.evaluations += 1
        ctx.count("equation_on_dataframe:" + lay)
        try:
            obj = U.UserDefinedConstraints(np.array(rk), data=df, equation=eq, X_axis=X_axis, Y_axis=Y_axis, Field="f")
            got, _ = obj.constraint()
        except Exception as e:
            ctx.violation("concrete", f"equation constraint on a dataframe raised {type(e).__name__}: {e}",
                          {"signature": "equation-dataframe-raises", "layout": lay, "points": pts, "ranking": rk, "equation": eq, "index": idx})
            continue
        want = [s for s in rk if f(cols[X_axis][s], cols[Y_axis][s])]
        if [int(g) for g in got] != want:
            ctx.violation("concrete", f"equation '{eq}' on a dataframe (X_axis={X_axis!r}, Y_axis={Y_axis!r}, columns {names}) marks "
                                      f"{[int(g) for g in got]}, sensors where it is true: {want}",
                          {"signature": "equation-polarity:dataframe", "layout": lay, "points": pts, "ranking": rk, "equation": eq, "index": idx})
        elif 0 < len(want) < n:
            ctx.nontriv(("eq-df", lay, eq, tuple(want)))


def gen_identifier(rng):
    alphabet = "apy_1bz"
    while True:
        n = rng.randint(1, 7)
        s = "".join(rng.choice(alphabet) for _ in range(n))
        if s.isidentifier() and s not in ("py", "yp") and not _shadows(s):
            return s


def _shadows(name):
    import importlib.util
    try:
        return importlib.util.find_spec(name) is not None
    except Exception:
        return True


def loader_part(ctx, scratch):
    """the function is loaded from any file named <identifier>.py"""
    import pysensors.utils as U
    rng = ctx.rng
    names = []
    for L in (1, 2, 3):
        for t in itertools.product("apy_1", repeat=L):
            s = "".join(t)
            if s.isidentifier() and not _shadows(s):
                names.append(s)
    if not ctx.thorough:
        rng.shuffle(names)
        names = names[:40] + ["happy", "python_fn", "yp", "py", "p", "y", "pypy", "my_constraint"]
    names += [gen_identifier(rng) for _ in range(ctx.scale(20, 200))]
    names = [n for n in dict.fromkeys(names) if not _shadows(n)]
    reqs = []
    for name in names:
        ctx.evaluations += 1
        ctx.count("loader")
        path = os.path.join(scratch, name + ".py")
        with open(path, "w") as fh:
            fh.write(f"def {name}(x, y, **kw):\n    return 12345\n")
        sys.modules.pop(name, None)
        try:
            fn = U.load_functional_constraints(path)
            ok = callable(fn) and fn(0, 0) == 12345 and fn.__name__ == name
            err = None
        except Exception as e:
            ok, err = False, f"{type(e).__name__}: {e}"
        finally:
            sys.modules.pop(name, None)
            while scratch in sys.path:
                sys.path.remove(scratch)
            os.remove(path)
        if not ok:
            ctx.violation("concrete", f"function in '{name}.py' is not loaded ({err})",
                          {"signature": "loader-module-name", "file": name + ".py"})
            continue
        if any(ch in ".py" for ch in (name[0], name[-1])):
            ctx.nontriv(("loader", name))
        reqs.append((name, f"modname {name}.py"))
    for (name, _), rp in zip(reqs, ctx.driver.ask([r[1] for r in reqs])):
        ctx.impl_traces += 1
        if rp != f"ok {name}":
            ctx.violation("no-failing-input-found", f"Lean moduleName('{name}.py') = {rp!r}",
                          {"signature": "modname-correspondence", "file": name + ".py"}, broken="correspondence moduleName ↔ os.path.splitext")


def loader_sequences(ctx, scratch, count):
    """several loads in one session, from several directories, without any clean-up in between (as a user's script
    does): every path must yield the function defined in THAT file.  Each identifier is imported at most once per
    sequence (Python's own module cache, which would legitimately return the first module of a name, stays out of it),
    but the same file name may exist in several directories."""
    import pysensors.utils as U
    rng = ctx.rng
    serial = [0]
    for idx in range(count):
        ndirs = rng.randint(2, 3)
        dirs = []
        for d in range(ndirs):
            dp = os.path.join(scratch, f"seq{idx}_{d}")
            os.makedirs(dp, exist_ok=True)
            dirs.append(dp)
        names = []
        while len(names) < rng.randint(3, 6):
            serial[0] += 1
            nm = f"{gen_identifier(rng)}_{serial[0]}"
            if not _shadows(nm):
                names.append(nm)
        # every name exists in every directory, with a different constant
        const = {}
        for d, dp in enumerate(dirs):
            for k, nm in enumerate(names):
                const[(d, nm)] = 1000 * (d + 1) + k
                with open(os.path.join(dp, nm + ".py"), "w") as fh:
                    fh.write(f"def {nm}(x, y, **kw):\n    return {const[(d, nm)]}\n")
        plan = [(rng.randrange(ndirs), nm) for nm in names]
        ctx.evaluations += 1
        ctx.count("loader_sequence")
        bad = None
        try:
            for step, (d, nm) in enumerate(plan):
                try:
                    fn = U.load_functional_constraints(os.path.join(dirs[d], nm + ".py"))
                    got = fn(0, 0)
                except Exception as e:
                    got = f"{type(e).__name__}: {e}"
                if got != const[(d, nm)]:
                    bad = (step, d, nm, got)
                    break
        finally:
            for nm in names:
                sys.modules.pop(nm, None)
            sys.path[:] = [q for q in sys.path if not q.startswith(scratch)]
        if bad:
            step, d, nm, got = bad
            ctx.violation("concrete", f"load #{step} asked for directory {d}'s '{nm}.py' (returns {const[(d, nm)]}) and got a function returning {got!r}; "
                                      f"loads so far: {[(dd, n) for dd, n in plan[:step + 1]]}",
                          {"signature": "loader-wrong-file", "plan": plan, "index": idx})
        elif len({d for d, _ in plan}) > 1:
            ctx.nontriv(("loader_sequence", tuple(d for d, _ in plan)))


def run(ctx: C.Ctx):
    from .. import shapes_static, translate_boxes
    offenders, table = shapes_static.static_part(ctx, T=translate_boxes, stem="Boxes")
    n_before = len(ctx.violations)
    _dynamic(ctx)
    if offenders:
        why = {t["site"]: t.get("why") for t in table if not t["found"]}
        names = ", ".join("box_" + o + (f" (untranslatable: {why[o]})" if why.get(o) else "") for o in offenders)
        if any(v.kind == "concrete" for v in ctx.violations[n_before:]):
            ctx.notes.append("generated box theorems that no longer check: " + names)
        else:
            ctx.violation("no-failing-input-found",
                          "generated box theorem(s) no longer check: " + names + " – the differential run on the real helpers found no wrong answer",
                          {"signature": "box-obligation:" + offenders[0], "offenders": offenders, "why": why},
                          broken="theorem(s) " + ", ".join("PsVerif.Gen.box_" + o for o in offenders) + " (PsVerif/Generated/Boxes.lean, regenerated "
                                 "from pysensors/utils/_constraints.py)")


def _dynamic(ctx):
    scratch = tempfile.mkdtemp(prefix="psverif_c13_")
    try:
        box_part(ctx, ctx.scale(150, 3000))
        dfbox_part(ctx, ctx.scale(120, 2000))
        coords_part(ctx, ctx.scale(120, 2000))
        user_defined_part(ctx, ctx.scale(60, 600), scratch)
        user_defined_df_part(ctx, ctx.scale(60, 600))
        loader_part(ctx, scratch)
        loader_sequences(ctx, scratch, ctx.scale(40, 400))
    finally:
        shutil.rmtree(scratch, ignore_errors=True)


def replay(ctx: C.Ctx, payload):
    d = payload["data"]
    import pysensors.utils as U
    if "args" in d:
        a = d["args"]
        out = U.get_constrained_sensors_indices(a["x"][0], a["x"][1], a["y"][0], a["y"][1], a["n"], a["n"], np.array(a["ranking"]))
        print("# box returns", list(out))
    elif "file" in d:
        scratch = tempfile.mkdtemp(prefix="psverif_c13_")
        try:
            name = d["file"][:-3]
            with open(os.path.join(scratch, d["file"]), "w") as fh:
                fh.write(f"def {name}(x, y, **kw):\n    return 12345\n")
            try:
                U.load_functional_constraints(os.path.join(scratch, d["file"]))
                print("# loaded")
            except Exception as e:
                print("# load failed:", e)
                ctx.violation("concrete", f"'{d['file']}' not loaded", {"signature": "loader-module-name", "file": d["file"]})
        finally:
            shutil.rmtree(scratch, ignore_errors=True)
    else:
        print("# this case derives from (seed, index): re-running the whole check with VERIF_SEED =", payload.get("seed"))
        run(ctx)
