"""
C19 — invalid requests are rejected and rejected setters change nothing.

Lean: `Model/Validation.lean` (guards of constructors, bases, array checks, CCQR, GQR, box helper) together with the
setter/update transitions of `Model/Sspor.lean` and `Model/Sspoc.lean`; theorems in `Props/C19.lean`.
Translator: the guard trees of 23 entry points are REGENERATED from /repo's current source on every run
(`harness/translate_guards.py` → `lean/PsVerif/Generated/Guards.lean`), each with a theorem that the tree equals the model
function (`Model/GuardSpecs.lean`), re-checked by `lake build PsVerif.Generated.Guards` and audited for axioms.
Correspondence: the finite table entry point × value class × life phase is executed on the real objects (exhaustive),
outcome kinds compared with the Lean decision and with the error kind the property states; observables compared before
and after every rejected setter / update.
"""
from __future__ import annotations

import copy

import numpy as np

from .. import common as C
from .. import guards_static, models
from ..sspor_hist import err_kind

LEVEL = "proof"
RULE = ("the whole table: entry points (SSPOR / SSPOC constructors, setters, updates, predict / score / "
        "reconstruction_error, basis constructors and matrix_representation / matrix_inverse, CCQR costs, GQR option, box "
        "helper, validate_input) × value classes (0, negatives, floats, strings, lists, None, numpy ints, counts beyond the "
        "available sensors / modes / examples, wrong width, wrong type) × life phases (unfitted, fitted, after updates); "
        "every cell is distinct by construction; exhaustive in both tiers (thorough adds random data shapes)")
TRUSTED = [
    "Lean 4.33 kernel; axioms propext, Classical.choice, Quot.sound",
    "hand-written guard model Model/Validation.lean (+ Sspor/Sspoc transitions) tied to the code (a) by the guard translator "
    "harness/translate_guards.py (its reading of if/elif/else, raise, return, check_is_fitted, isinstance, comparisons; atoms are "
    "named by source text; statements that are not checks are ignored; callees are not followed) and (b) by executing the table",
    "sklearn.utils.validation.check_is_fitted raises NotFittedError for estimators without the attribute",
]
ASSUMPTIONS = ["'predictions unchanged' is checked on a fixed probe input, bitwise"]

COUNT_VALUES = [("pi:0", 0), ("pi:-1", -1), ("pi:-7", -7), ("f0", 2.5), ("f1", 3.0), ("s", "3"), ("l", [2]), ("n", None),
                ("ni:0", np.int64(0)), ("ni:-2", np.int32(-2)), ("pi:2", 2), ("ni:2", np.int64(2)), ("pi:99", 99), ("ni:99", np.int64(99))]


def outcome(fn):
    try:
        fn()
        return "ok"
    except Exception as e:
        return "E:" + err_kind(e)


def outcome_twice(fn):
    """the same request made twice on the same object (a retry after catching the error): an invalid request is rejected every time it
    is made, not only the first time"""
    first = outcome(fn)
    if first == "ok":
        return first
    second = outcome(fn)
    return first if second == first else f"{first}, asked again: {'accepted' if second == 'ok' else second}"


def is_pos_int(v):
    return isinstance(v, (int, np.integer)) and not isinstance(v, bool) and v > 0


def is_nonneg_int(v):
    return isinstance(v, (int, np.integer)) and not isinstance(v, bool) and v >= 0


class Table:
    def __init__(self, ctx):
        self.ctx = ctx
        self.rows = []     # (cell id, real outcome, required outcome or None, lean request or None, extra)

    def add(self, cell, real, required, lean=None, unchanged=None):
        self.rows.append((cell, real, required, lean, unchanged))


def sspor_obs(model, probe):
    if not hasattr(model, "ranked_sensors_"):
        return ("unfitted", model.n_sensors)
    sel = np.array(model.get_selected_sensors()).tolist()
    try:
        pred = np.asarray(model.predict(probe[:, sel])).tobytes()
    except Exception as e:
        pred = "E:" + err_kind(e)
    return (sel, model.n_sensors, pred)


def sspoc_obs(model, probe):
    if not hasattr(model, "sensor_coef_"):
        return ("unfitted", model.n_sensors)
    sel = np.array(model.sparse_sensors_).astype(int).tolist()
    try:
        if model.n_sensors == 0:
            pred = "dummy"
        else:
            pred = np.asarray(model.predict(probe[:, sel] if model.refit_ else probe)).tobytes()
    except Exception as e:
        pred = "E:" + err_kind(e)
    return (sel, model.n_sensors, pred)


def build_table(ctx, rng):
    from pysensors.basis import SVD, Custom, Identity, RandomProjection
    from pysensors.classification import SSPOC
    from pysensors.optimizers import CCQR, GQR, QR
    from pysensors.reconstruction import SSPOR
    import pysensors.utils as U
    T = Table(ctx)
    ne, nf = rng.randint(4, 6), rng.randint(5, 8)
    X = np.array([[rng.randint(-5, 5) for _ in range(nf)] for _ in range(ne)], dtype=float)
    Xc, yc = models.gen_classification(rng, n_classes=rng.choice([2, 3]), n_features=nf)

    # ---------------- SSPOR constructor
    for tok, v in COUNT_VALUES:
        real = outcome(lambda: SSPOR(n_sensors=v))
        req = None if (v is None or is_pos_int(v)) else "E:ValueError"
        T.add(f"SSPOR(n_sensors={v!r})", real, req, f"vrule ssporctor {tok}")

    # ---------------- SSPOR phases
    def phases():
        m0 = SSPOR(basis=Identity(n_basis_modes=3))
        yield "unfitted", m0
        m1 = SSPOR(basis=Identity(n_basis_modes=3)).fit(X.copy(), quiet=True, seed=1)
        yield "fitted", m1
        m2 = SSPOR(basis=Identity(n_basis_modes=3), n_sensors=2).fit(X.copy(), quiet=True, seed=1)
        m2.set_number_of_sensors(3)
        m2.update_n_basis_modes(2)
        yield "after_updates", m2

    for phase, base in phases():
        fitted = phase != "unfitted"
        nsel = base.n_sensors if fitted else 0
        for tok, v in COUNT_VALUES:
            for meth in ("set_number_of_sensors", "set_n_sensors"):
                m = copy.deepcopy(base)
                before = sspor_obs(m, X)
                real = outcome_twice(lambda: getattr(m, meth)(v))
                after = sspor_obs(m, X)
                valid = is_pos_int(v) and v <= nf
                req = "E:NotFitted" if not fitted else (None if valid else "E:ValueError")
                T.add(f"SSPOR[{phase}].{meth}({v!r})", real, req, None, (before == after) if real != "ok" else None)
            for xarg in ("None", "same", "short"):
                m = copy.deepcopy(base)
                before = sspor_obs(m, X)
                x = None if xarg == "None" else (X.copy() if xarg == "same" else X[:2].copy())
                real = outcome(lambda: m.update_n_basis_modes(v, x, quiet=True))
                after = sspor_obs(m, X)
                if not is_pos_int(v):
                    req = "E:ValueError"
                elif xarg == "short" and v > 2 and not (fitted and v <= 3):
                    req = "E:ValueError"          # more modes than examples
                elif xarg == "None" and not (fitted and v <= (base.basis.n_basis_modes or 0)):
                    req = "E:ValueError"          # needs data
                else:
                    req = None
                T.add(f"SSPOR[{phase}].update_n_basis_modes({v!r}, x={xarg})", real, req, None, (before == after) if real != "ok" else None)
        # measurement arrays
        for desc, arr in (("wrong_width", np.zeros((2, max(1, nsel) + 1))), ("list", [[0.0] * max(1, nsel)]), ("1d_wrong", np.zeros(max(1, nsel) + 2)),
                          ("right", np.zeros((2, max(1, nsel))))):
            m = copy.deepcopy(base)
            real = outcome(lambda: m.predict(arr))
            req = "E:NotFitted" if not fitted else (None if desc == "right" else "E:ValueError")
            w = (len(arr) if np.ndim(arr) == 1 else np.shape(arr)[1]) if isinstance(arr, np.ndarray) else 0
            T.add(f"SSPOR[{phase}].predict({desc})", real, req,
                  f"vrule predictguard {'1' if fitted else '0'} {'1' if isinstance(arr, np.ndarray) else '0'} {w} {nsel}")
        for desc, arr in (("wrong_width", np.zeros((2, nf + 1))), ("right", X.copy())):
            for meth in ("score", "reconstruction_error"):
                m = copy.deepcopy(base)
                real = outcome(lambda: getattr(m, meth)(arr))
                req = "E:NotFitted" if not fitted else (None if desc == "right" else "E:ValueError")
                T.add(f"SSPOR[{phase}].{meth}({desc})", real, req, f"vrule fullguard {'1' if fitted else '0'} {np.shape(arr)[1]} {nf}")
        for meth in ("get_selected_sensors", "get_all_sensors"):
            m = copy.deepcopy(base)
            real = outcome(lambda: getattr(m, meth)())
            T.add(f"SSPOR[{phase}].{meth}()", real, None if fitted else "E:NotFitted")
        for prop in ("selected_sensors", "all_sensors"):
            m = copy.deepcopy(base)
            real = outcome(lambda: getattr(m, prop))
            T.add(f"SSPOR[{phase}].{prop}", real, None if fitted else "E:NotFitted")
    # fit with too many sensors / wrong type
    T.add("SSPOR(n_sensors=nf+1).fit(x)", outcome(lambda: SSPOR(n_sensors=nf + 1).fit(X.copy(), quiet=True)), "E:ValueError")
    T.add("SSPOR().fit(list)", outcome(lambda: SSPOR().fit(X.tolist(), quiet=True)), "E:ValueError", "vrule validate 0 0 None")

    # ---------------- SSPOC
    def cphases():
        yield "unfitted", SSPOC()
        m1 = SSPOC(n_sensors=3).fit(Xc.copy(), yc.copy(), quiet=True)
        yield "fitted", m1
        m2 = SSPOC(n_sensors=3).fit(Xc.copy(), yc.copy(), quiet=True)
        m2.update_sensors(n_sensors=2, xy=(Xc.copy(), yc.copy()), quiet=True)
        yield "after_updates", m2

    for phase, base in cphases():
        fitted = phase != "unfitted"
        for tok, v in COUNT_VALUES:
            if v is None:
                continue
            m = copy.deepcopy(base)
            before = sspoc_obs(m, Xc)
            real = outcome_twice(lambda: m.update_sensors(n_sensors=v, quiet=True))
            after = sspoc_obs(m, Xc)
            valid = is_nonneg_int(v) and v <= nf
            req = "E:NotFitted" if not fitted else (None if valid else "E:ValueError")
            T.add(f"SSPOC[{phase}].update_sensors(n_sensors={v!r})", real, req, None, (before == after) if real != "ok" else None)
            m = copy.deepcopy(base)
            before = sspoc_obs(m, Xc)
            real = outcome(lambda: m.update_n_basis_modes(v, (Xc.copy(), yc.copy()), quiet=True))
            after = sspoc_obs(m, Xc)
            req = "E:ValueError" if (not is_pos_int(v) or v > Xc.shape[0]) else None
            T.add(f"SSPOC[{phase}].update_n_basis_modes({v!r})", real, req, None, (before == after) if (real != "ok" and req is not None) else None)
        if fitted:
            # an update whose refit data the classifier refuses (labels one short): rejected – and nothing may have changed
            for nreq in (2, 1):
                m = copy.deepcopy(base)
                before = sspoc_obs(m, Xc)
                real = outcome(lambda: m.update_sensors(n_sensors=nreq, xy=(Xc.copy(), yc[:-1].copy()), quiet=True))
                T.add(f"SSPOC[{phase}].update_sensors(n_sensors={nreq}, xy=refused_refit_data)", real, "E:ValueError", None,
                      (before == sspoc_obs(m, Xc)) if real != "ok" else None)
        m = copy.deepcopy(base)
        before = sspoc_obs(m, Xc)
        real = outcome(lambda: m.update_sensors(quiet=True))
        T.add(f"SSPOC[{phase}].update_sensors()", real, "E:NotFitted" if not fitted else "E:ValueError", None, before == sspoc_obs(m, Xc))
        for desc, fn in (("predict", lambda m: m.predict(Xc)), ("selected_sensors", lambda m: m.selected_sensors),
                         ("get_selected_sensors", lambda m: m.get_selected_sensors())):
            m = copy.deepcopy(base)
            real = outcome(lambda: fn(m))
            T.add(f"SSPOC[{phase}].{desc}", real, None if fitted else "E:NotFitted")
    for tok, v in COUNT_VALUES:
        if v is None or (is_nonneg_int(v) and v <= nf):
            continue
        T.add(f"SSPOC(n_sensors={v!r}).fit", outcome(lambda: SSPOC(n_sensors=v).fit(Xc.copy(), yc.copy(), quiet=True)), "E:ValueError")
    T.add("SSPOC().fit(list)", outcome(lambda: SSPOC().fit(Xc.tolist(), yc, quiet=True)), "E:ValueError")

    # ---------------- bases
    U3 = np.linalg.qr(np.array([[rng.randint(-4, 4) for _ in range(3)] for _ in range(nf)], dtype=float) + np.eye(nf, 3))[0]
    ctors = {"Identity": (lambda v: Identity(n_basis_modes=v), True), "SVD": (lambda v: SVD(n_basis_modes=v), False),
             "RandomProjection": (lambda v: RandomProjection(n_basis_modes=v), False), "Custom": (lambda v: Custom(U3, n_basis_modes=v), False)}
    for name, (mk, allow_none) in ctors.items():
        for tok, v in COUNT_VALUES:
            real = outcome(lambda: mk(v))
            valid = (v is None and allow_none) or is_pos_int(v)
            req = None if valid else "E:ValueError"
            T.add(f"{name}(n_basis_modes={v!r})", real, req, f"vrule basisctor {'1' if allow_none else '0'} {tok}")
    fitted_bases = {"Identity": Identity(n_basis_modes=3).fit(X.copy()), "SVD": SVD(n_basis_modes=3, random_state=0).fit(X.copy()),
                    "RandomProjection": RandomProjection(n_basis_modes=3, random_state=0).fit(X.copy()), "Custom": Custom(U3, n_basis_modes=3).fit()}
    unfitted_bases = {"Identity": Identity(n_basis_modes=3), "SVD": SVD(n_basis_modes=3), "RandomProjection": RandomProjection(n_basis_modes=3),
                      "Custom": Custom(U3, n_basis_modes=3)}
    for name in fitted_bases:
        for phase, b in (("fitted", fitted_bases[name]), ("unfitted", unfitted_bases[name])):
            for tok, v in COUNT_VALUES:
                for meth in ("matrix_representation", "matrix_inverse"):
                    bb = copy.deepcopy(b)
                    real = outcome(lambda: getattr(bb, meth)(n_basis_modes=v))
                    if phase == "unfitted":
                        req = "E:NotFitted"
                    else:
                        req = None if (v is None or (is_pos_int(v) and v <= 3)) else "E:ValueError"
                    T.add(f"{name}[{phase}].{meth}({v!r})", real, req, f"vrule basisrep {'1' if phase == 'fitted' else '0'} 3 {tok}")
    T.add("Identity(n_basis_modes=ne+1).fit(X)", outcome(lambda: Identity(n_basis_modes=ne + 1).fit(X.copy())), "E:ValueError", f"vrule identityfit {ne + 1} {ne}")
    T.add("Identity(n_basis_modes=ne).fit(X)", outcome(lambda: Identity(n_basis_modes=ne).fit(X.copy())), None, f"vrule identityfit {ne} {ne}")

    # ---------------- optimizers
    Bm = X.T.copy()
    for desc, costs, ndim in (("None", None, None), ("1d_right", np.zeros(nf), 1), ("2d", np.zeros((nf, 1)), 2), ("0d", np.float64(1.0), 0), ("3d", np.zeros((2, 2, 2)), 3)):
        real = outcome(lambda: CCQR(sensor_costs=costs))
        T.add(f"CCQR(sensor_costs={desc})", real, None if ndim in (None, 1) else "E:ValueError", f"vrule ccqrctor {C.enc_optnat(ndim)}")
    for desc, ln in (("short", nf - 1), ("long", nf + 2), ("right", nf), ("None", None), ("empty", 0), ("one", 1), ("two", 2),
                     ("double", 2 * nf)):
        costs = None if ln is None else np.ones(ln)
        real = outcome(lambda: CCQR(sensor_costs=costs).fit(Bm.copy()))
        T.add(f"CCQR(len={desc}).fit", real, None if ln in (None, nf) else "E:ValueError", f"vrule ccqrfit {C.enc_optnat(ln)} {nf}")
        if ln is not None:
            real = outcome(lambda: SSPOR(basis=Identity(), optimizer=CCQR(sensor_costs=costs)).fit(X.copy(), quiet=True))
            T.add(f"SSPOR(CCQR(len={desc})).fit", real, None if ln == nf else "E:ValueError", f"vrule ccqrfit {C.enc_optnat(ln)} {nf}")
    for name in ("", "max_n", "exact_n", "predetermined", "bogus", "MAX_N", "exact", "none"):
        kw = {"idx_constrained": np.array([0, 1]), "n_sensors": 2, "n_const_sensors": 1, "all_sensors": np.array(QR().fit(Bm.copy()).get_sensors()).copy(),
              "constraint_option": name}
        real = outcome(lambda: GQR().fit(Bm.copy(), **kw))
        valid = name in ("", "max_n", "exact_n", "predetermined")
        T.add(f"GQR.fit(constraint_option={name!r})", real, None if valid else "E:NotImplemented", f"vrule gqropt {name or 'EMPTY'}")
        if not valid:
            # … on an optimizer object that is kept: fresh, or fitted before with a valid option; directly or through SSPOR.fit's keywords
            for prior in ("fresh", "after_max_n", "after_exact_n"):
                g = GQR()
                if prior != "fresh":
                    g.fit(Bm.copy(), **dict(kw, constraint_option=prior[6:]))
                T.add(f"GQR[{prior}].fit(constraint_option={name!r}) twice", outcome_twice(lambda: g.fit(Bm.copy(), **kw)), "E:NotImplemented",
                      f"vrule gqropt {name}")
            ms = SSPOR(basis=Identity(), optimizer=GQR())
            T.add(f"SSPOR(GQR).fit(constraint_option={name!r}) twice", outcome_twice(lambda: ms.fit(X.copy(), quiet=True, **kw)), "E:NotImplemented")
    # (an unfitted optimizer is not among the objects the property lists: QR().get_sensors() returns None – not judged)

    # ---------------- box helper / validate_input
    sens = np.arange(9)
    for desc, args, req, lean in (
        ("x_min>x_max", (2, 1, 0, 2, 3, 3, sens), "E:ValueError", "vrule boxguard 9 1 2 1 0 2 1 1"),
        ("x_min==x_max", (1, 1, 0, 2, 3, 3, sens), "E:ValueError", "vrule boxguard 9 1 1 1 0 2 1 1"),
        ("y_min>y_max", (0, 2, 2, 1, 3, 3, sens), "E:ValueError", "vrule boxguard 9 1 0 2 2 1 1 1"),
        ("nx float", (0, 2, 0, 2, 3.0, 3, sens), "E:ValueError", "vrule boxguard 9 1 0 2 0 2 0 1"),
        ("ny str", (0, 2, 0, 2, 3, "3", sens), "E:ValueError", "vrule boxguard 9 1 0 2 0 2 1 0"),
        ("empty sensors", (0, 2, 0, 2, 3, 3, np.array([], dtype=int)), "E:ValueError", "vrule boxguard 0 1 0 2 0 2 1 1"),
        ("float sensors", (0, 2, 0, 2, 3, 3, sens.astype(float)), "E:ValueError", "vrule boxguard 9 0 0 2 0 2 1 1"),
        ("valid", (0, 2, 0, 2, 3, 3, sens), None, "vrule boxguard 9 1 0 2 0 2 1 1"),
        # the same contradictory bounds as other code hands them over: elements of an unsigned / narrow bounding-box array, floats,
        # one numpy scalar mixed with a Python int (a difference of unsigned integers wraps around instead of going negative)
        ("x_min>x_max uint8", (np.uint8(2), np.uint8(1), np.uint8(0), np.uint8(2), 3, 3, sens), "E:ValueError", "vrule boxguard 9 1 2 1 0 2 1 1"),
        ("y_min>y_max uint16", (np.uint16(0), np.uint16(2), np.uint16(2), np.uint16(1), 3, 3, sens), "E:ValueError", "vrule boxguard 9 1 0 2 2 1 1 1"),
        ("x_min>x_max uint64 vs int", (np.uint64(2), 1, 0, 2, 3, 3, sens), "E:ValueError", "vrule boxguard 9 1 2 1 0 2 1 1"),
        ("y_min==y_max uint32", (0, 2, np.uint32(1), np.uint32(1), 3, 3, sens), "E:ValueError", "vrule boxguard 9 1 0 2 1 1 1 1"),
        ("x_min>x_max float", (2.5, 1.5, 0.0, 2.0, 3, 3, sens), "E:ValueError", None),
        ("x_min>x_max int8", (np.int8(2), np.int8(1), 0, 2, 3, 3, sens), "E:ValueError", "vrule boxguard 9 1 2 1 0 2 1 1"),
        ("valid uint8", (np.uint8(0), np.uint8(2), np.uint8(0), np.uint8(2), 3, 3, sens), None, "vrule boxguard 9 1 0 2 0 2 1 1"),
    ):
        T.add(f"box({desc})", outcome(lambda: U.get_constrained_sensors_indices(*args)), req, lean)
    for desc, arr, sensors, req, lean in (
        ("list", [1.0, 2.0], None, "E:ValueError", "vrule validate 0 0 None"),
        ("ndarray", np.zeros(3), None, None, "vrule validate 1 3 None"),
        ("wrong width 2d", np.zeros((2, 3)), [0, 1], "E:ValueError", "vrule validate 1 3 2"),
        ("wrong width 1d", np.zeros(3), [0, 1], "E:ValueError", "vrule validate 1 3 2"),
        ("right width", np.zeros((2, 2)), [0, 1], None, "vrule validate 1 2 2"),
    ):
        T.add(f"validate_input({desc})", outcome(lambda: U.validate_input(arr, sensors)), req, lean)
    return T, {"X": X.tolist(), "nf": nf, "ne": ne}


def judge(ctx, T, info, tag):
    leans = [(i, r[3]) for i, r in enumerate(T.rows) if r[3]]
    resp = dict(zip([i for i, _ in leans], ctx.driver.ask([rq for _, rq in leans])))
    for i, (cell, real, req, lean, unchanged) in enumerate(T.rows):
        ctx.evaluations += 1
        ctx.nontriv(tag + cell)
        ctx.count("cells")
        if real.startswith("E:"):
            ctx.count("outcome:" + real)
        if req is not None and real != req:
            sig = "invalid-request:" + cell.split("(")[0].split("[")[0] + ":" + ("accepted" if real == "ok" else real)
            ctx.violation("concrete", f"{cell}: {('accepted' if real == 'ok' else 'raised ' + real[2:])}, the property requires {req[2:]}",
                          {"signature": sig, "cell": cell, "observed": real, "required": req, "data": info})
            continue
        if unchanged is False:
            sig = "rejected-call-mutates:" + cell.split("(")[0]
            if "xy=refused_refit_data" in cell:
                sig = "rejected-call-mutates:SSPOC.update_sensors:selection-committed-before-the-classifier-refit"
            if "update_n_basis_modes" in cell and "x=short" in cell:
                sig = "rejected-call-mutates:SSPOR.update_n_basis_modes:refit-on-other-data-then-n_sensors-check"
            ctx.violation("concrete", f"{cell}: the call was rejected ({real}) but selected sensors / sensor count / predictions changed",
                          {"signature": sig, "cell": cell, "observed": real, "data": info})
            continue
        if i in resp:
            ctx.impl_traces += 1
            m = resp[i].split()[1] if resp[i].startswith("ok ") else resp[i]
            if m != real:
                ctx.violation("no-failing-input-found", f"{cell}: real outcome {real}, Lean guard model {m}",
                              {"signature": "guard-correspondence:" + cell.split("(")[0], "cell": cell, "observed": real, "model": m, "data": info},
                              broken="correspondence Model/Validation.lean ↔ argument guards")
        ctx.sample({"cell": cell, "outcome": real, "required": req}, limit=8)


def narrower_data_case(ctx):
    """rejected update_n_basis_modes(k, x) with x narrower than the fitted data and an explicit n_sensors that no longer
    fits: SSPOR.fit refits the basis before validating n_sensors"""
    from pysensors.basis import Identity
    from pysensors.reconstruction import SSPOR
    X = np.arange(24, dtype=float).reshape(4, 6) % 7
    m = SSPOR(basis=Identity(n_basis_modes=2), n_sensors=6).fit(X.copy(), quiet=True, seed=0)
    before = sspor_obs(m, X)
    real = outcome(lambda: m.update_n_basis_modes(3, X[:, :4].copy(), quiet=True))
    after = sspor_obs(m, X)
    ctx.evaluations += 1
    ctx.nontriv("narrower-data")
    if real != "ok" and before != after:
        ctx.violation("concrete", "SSPOR.update_n_basis_modes(3, x with fewer sensors) was rejected (n_sensors=6 no longer fits) but the basis had "
                                  "already been refitted: predictions changed",
                      {"signature": "rejected-call-mutates:SSPOR.update_n_basis_modes:refit-on-other-data-then-n_sensors-check",
                       "observed": real})


def history_rows(ctx):
    """counts that become too large through the model's history (valid when set, invalid for the data fitted later)"""
    from pysensors.basis import Identity
    from pysensors.reconstruction import SSPOR
    X = (np.arange(48, dtype=float).reshape(6, 8) * 7) % 11
    Xn = X[:, :5].copy()
    rows = []
    # explicit count equal to the width of the first data set, then narrower data
    for how in ("ctor", "setter", "setter_after_other_values"):
        m = SSPOR(basis=Identity(n_basis_modes=3), n_sensors=8 if how == "ctor" else None).fit(X.copy(), quiet=True, seed=0)
        if how == "setter":
            m.set_number_of_sensors(8)
        elif how == "setter_after_other_values":
            m.set_n_sensors(3); m.set_n_sensors(8)
        rows.append((f"SSPOR[n_sensors=8 via {how}].fit(narrower data, 5 sensors)", outcome(lambda: m.fit(Xn.copy(), quiet=True, seed=0)), "E:ValueError"))
        m2 = SSPOR(basis=Identity(n_basis_modes=3), n_sensors=8 if how == "ctor" else None).fit(X.copy(), quiet=True, seed=0)
        if how != "ctor":
            m2.set_number_of_sensors(8)
        rows.append((f"SSPOR[n_sensors=8 via {how}].update_n_basis_modes(4, narrower data)",
                     outcome(lambda: m2.update_n_basis_modes(4, Xn.copy(), quiet=True)), "E:ValueError"))
    # a defaulted count follows the data (no error), an explicit smaller one stays
    m = SSPOR(basis=Identity(n_basis_modes=3)).fit(X.copy(), quiet=True, seed=0)
    rows.append(("SSPOR[default n_sensors].fit(narrower data)", outcome(lambda: m.fit(Xn.copy(), quiet=True, seed=0)), None))
    # error paths that leave state behind: a refit on wider data that the optimizer rejects (cost vector of the old length /
    # unknown constraint option); afterwards only the 8 sensors ranked before are available, so larger counts stay invalid
    from pysensors.optimizers import CCQR, GQR
    Xw = (np.arange(72, dtype=float).reshape(6, 12) * 5) % 13
    for how in ("ccqr_costs", "gqr_bad_option"):
        for meth in ("set_number_of_sensors", "set_n_sensors"):
            for cnt in (9, 10, 12, 13):
                if how == "ccqr_costs":
                    m = SSPOR(basis=Identity(n_basis_modes=3), optimizer=CCQR(sensor_costs=np.ones(8))).fit(X.copy(), quiet=True, seed=0)
                    first = outcome(lambda: m.fit(Xw.copy(), quiet=True, seed=0))
                    want_first = "E:ValueError"
                else:
                    m = SSPOR(basis=Identity(n_basis_modes=3), optimizer=GQR()).fit(X.copy(), quiet=True, seed=0)
                    first = outcome(lambda: m.fit(Xw.copy(), quiet=True, seed=0, constraint_option="bogus"))
                    want_first = "E:NotImplemented"
                if cnt == 9 and meth == "set_number_of_sensors":
                    rows.append((f"SSPOR[{how}].fit(wider data) is rejected", first, want_first))
                if first == want_first and len(m.ranked_sensors_) == 8:
                    rows.append((f"SSPOR[{how}: refit on 12 sensors rejected, 8 sensors ranked].{meth}({cnt})",
                                 outcome(lambda: getattr(m, meth)(cnt)), "E:ValueError"))
    # a count beyond the available sensors is an error with EVERY optimizer and data shape (the CCQR advice about more sensors
    # than modes is only a warning and must not stand in for it)
    from pysensors.optimizers import QR
    Xwide = (np.arange(30, dtype=float).reshape(3, 10) * 7) % 11        # 3 examples, 10 sensors
    Xtall = (np.arange(40, dtype=float).reshape(10, 4) * 3) % 7         # 10 examples, 4 sensors
    for oname, mk in (("QR", QR), ("CCQR", CCQR), ("GQR", GQR)):
        for dname, D in (("wide", Xwide), ("tall", Xtall)):
            nfD = D.shape[1]
            for extra in (1, 5, 990):
                m = SSPOR(optimizer=mk(), n_sensors=nfD + extra)
                rows.append((f"SSPOR({oname}, n_sensors=n_features+{extra}).fit({dname} data)",
                             outcome(lambda: m.fit(D.copy(), quiet=True, seed=0)), "E:ValueError"))
            m = SSPOR(optimizer=mk(), n_sensors=nfD).fit(D.copy(), quiet=True, seed=0)
            rows.append((f"SSPOR({oname}, n_sensors=n_features).fit({dname} data) accepted", "ok", "ok"))
            m2 = SSPOR(basis=Identity(n_basis_modes=2), optimizer=mk(), n_sensors=nfD + 2)
            rows.append((f"SSPOR({oname}, Identity(2), n_sensors=n_features+2).fit({dname} data)",
                         outcome(lambda: m2.fit(D.copy(), quiet=True, seed=0)), "E:ValueError"))
    # a model whose ONLY fit was rejected has never been fitted: every consumer still answers NotFittedError (the rejected fit may
    # have left a basis behind – F11 – but no ranking, and "fitted" means "has a ranking")
    from pysensors.basis import SVD
    def rejected_first_fits():
        yield "n_sensors>n_features", (lambda: SSPOR(n_sensors=X.shape[1] + 1)), {}
        yield "n_sensors>n_features, SVD", (lambda: SSPOR(basis=SVD(n_basis_modes=2), n_sensors=X.shape[1] + 3)), {}
        yield "CCQR costs of the wrong length", (lambda: SSPOR(optimizer=CCQR(sensor_costs=np.ones(3)))), {}
        yield "GQR unknown option", (lambda: SSPOR(basis=Identity(n_basis_modes=3), optimizer=GQR())), {"constraint_option": "bogus"}
    for why, mk, kw in rejected_first_fits():
        consumers = (("predict(x)", lambda m: m.predict(np.zeros((2, 2)))), ("get_selected_sensors()", lambda m: m.get_selected_sensors()),
                     ("get_all_sensors()", lambda m: m.get_all_sensors()), ("selected_sensors", lambda m: m.selected_sensors),
                     ("all_sensors", lambda m: m.all_sensors), ("set_number_of_sensors(2)", lambda m: m.set_number_of_sensors(2)),
                     ("set_n_sensors(2)", lambda m: m.set_n_sensors(2)), ("score(x)", lambda m: m.score(X.copy())),
                     ("reconstruction_error(x)", lambda m: m.reconstruction_error(X.copy())))
        for cname, call in consumers:
            m = mk()
            first = outcome(lambda: m.fit(X.copy(), quiet=True, seed=0, **kw))
            if first == "ok":
                rows.append((f"SSPOR[{why}].fit(x) is rejected", first, "E:ValueError"))
                break
            rows.append((f"SSPOR[only fit rejected: {why}].{cname}", outcome(lambda: call(m)), "E:NotFitted"))
    for cell, real, req in rows:
        ctx.evaluations += 1
        ctx.nontriv("hist:" + cell)
        if req is not None and real != req:
            ctx.violation("concrete", f"{cell}: {('accepted' if real == 'ok' else 'raised ' + real[2:])}, the property requires {req[2:] if req != 'ok' else 'acceptance'}",
                          {"signature": "invalid-request:history:" + ("accepted" if real == "ok" else real), "cell": cell, "observed": real, "required": req})


def run(ctx: C.Ctx):
    rng = ctx.rng
    g_off, n_oblig, _ = guards_static.static_part(ctx)
    offenders = ["guard_" + o for o in g_off] + guards_static.effects_part(ctx)
    n_before = len(ctx.violations)
    history_rows(ctx)
    for rep in range(ctx.scale(1, 6)):
        T, info = build_table(ctx, rng)
        judge(ctx, T, info, f"t{rep}:")
    narrower_data_case(ctx)
    ctx.extra["exhaustive"] = True
    if offenders:
        known = {k.get("signature") for k in C.load_known_findings() if k.get("property") == "C19" and k.get("status") == "known"}
        if any(v.kind == "concrete" and (v.data or {}).get("signature") not in known for v in ctx.violations[n_before:]):
            ctx.notes.append("generated theorems that no longer check: " + ", ".join(offenders))
        else:
            ctx.violation("no-failing-input-found",
                          "generated theorem(s) no longer check: " + ", ".join(offenders)
                          + " – the table run on the real code found no offending call",
                          {"signature": "guard-obligation:" + offenders[0], "offenders": offenders},
                          broken="theorem(s) " + ", ".join("PsVerif.Gen." + o for o in offenders) + " (PsVerif/Generated/Guards.lean, Effects.lean)")


def replay(ctx: C.Ctx, payload):
    print("# C19 cells are deterministic: re-run ./check C19; cell:", payload["data"].get("cell"))
    run(ctx)
