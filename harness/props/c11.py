"""
C11 — bases return consistent mode matrices and inverses.

Lean: theorems in `Props/C11.lean` (column-prefix law of `matrix_representation`, the bound check (`basisRep`),
orthonormal modes ⇒ transpose is a left inverse and rank-≤k data are reproduced, Gram-inverse form of the
pseudo-inverse is a left inverse for full column rank).  Correspondence: exact (bitwise) for slicing, Identity,
copy=True/False and repeatability; numeric (1e-8) for orthonormality, reproduction, pinv.
"""
from __future__ import annotations

from fractions import Fraction

import numpy as np

from .. import common as C
from .. import models, oracles

LEVEL = "proof"
RULE = ("training matrices (integer, low-rank, tall, wide) × Identity / SVD / RandomProjection / Custom × every admissible "
        "n_basis_modes × every requested k ≤ n_basis_modes (and k+1 rejected) × copy=True/False; non-trivial when the basis has "
        "at least two modes and k < n_basis_modes; distinct by (basis, shape, n_modes, k)")
TRUSTED = [
    "Lean 4.33 kernel; axioms propext, Classical.choice, Quot.sound",
    "scikit-learn TruncatedSVD / GaussianRandomProjection and numpy.linalg.pinv numerics (parameters): orthonormality, "
    "reproduction and pinv identities are validated numerically with tolerance 1e-8·scale",
]
ASSUMPTIONS = ["pinv left-inverse clause is judged only when the mode matrix has full column rank (exact rank check)"]


def check_basis(ctx, kind, X, nm, idx, layout=None):
    from pysensors.basis import SVD, Custom, Identity, RandomProjection
    rng = ctx.rng
    ne, nf = X.shape
    base = {"basis": kind, "X": X.tolist(), "n_modes": nm, "index": idx}
    ctx.evaluations += 1
    ctx.count(kind)
    if kind == "custom":
        Uq = np.linalg.qr(X.T + np.eye(nf, ne))[0][:, : max(1, min(ne, nf))]
        nm = min(nm or Uq.shape[1], Uq.shape[1])
        b = Custom(Uq.copy(), n_basis_modes=nm).fit()
    else:
        b = models.make_basis(kind, nm, random_state=3)
        if rng.random() < 0.5:
            # history: the same basis object was fitted on other data and queried before (nothing may be remembered)
            X0 = np.array([[rng.randint(-6, 6) for _ in range(nf)] for _ in range(ne)], dtype=float)
            base["X0"] = X0.tolist()
            try:
                b.fit(X0.copy())
                for k in range(1, (b.n_basis_modes or 1) + 1):
                    b.matrix_representation(n_basis_modes=k)
                    b.matrix_inverse(n_basis_modes=k)
                b.matrix_inverse()
                ctx.count("reused_instance")
            except ValueError:
                pass
            if kind == "identity" and nm is None:
                b = models.make_basis(kind, nm, random_state=3)      # Identity() freezes its default (known finding of C15)
        # memory layout of the caller's array (values identical): C order, Fortran order, a transposed view, a strided view
        layout = layout or rng.choice(["C", "C", "F", "T", "strided"])
        base["layout"] = layout
        Xin = laid_out(X, layout)
        if kind == "identity":
            # Identity keeps what it is given: the storage type of the examples, including integers a float64 cannot hold
            # (time stamps in ns, counters, hashes) – "reproduces the first training examples exactly"
            dt = rng.choice(["float64", "float64", "int64", "int32", "uint8", "float32", "big_int64", "big_int64"])
            base["dtype"] = dt
            if dt == "big_int64":
                Xin = laid_out((np.round(X).astype(np.int64) + 1700000000000000000 + np.arange(X.size, dtype=np.int64).reshape(X.shape) * 1001), layout)
            elif dt == "uint8":
                Xin = laid_out(np.abs(np.round(X)).astype(np.uint8), layout)
            elif dt != "float64":
                Xin = laid_out(np.round(X).astype(dt), layout)
            X = np.array(Xin, copy=True)       # what was handed over, in its own dtype
            ctx.count("identity_dtype:" + dt)
        ctx.count("layout:" + layout)
        try:
            b.fit(Xin)
        except ValueError:
            ctx.count("fit_rejected")
            return
        # the caller goes on using its own array: a fitted basis is a function of the data at fit time
        Xin[...] = Xin * 0 + 7
        if kind == "svd" and rng.random() < 0.3:
            # the estimator methods the basis inherits from scikit-learn are public too: projecting other data (transform) or running
            # the inherited fit_transform on another batch must leave modes and inverse consistent with each other (whichever batch
            # they then belong to: only the clauses that do not name the training data are judged afterwards)
            Xo = np.array([[rng.randint(-6, 6) for _ in range(nf)] for _ in range(ne)], dtype=float)
            try:
                b.transform(Xo.copy())
                if rng.random() < 0.7:
                    b.fit_transform(Xo.copy())
                    base["inherited_fit_transform"] = Xo.tolist()
                ctx.count("svd_inherited_estimator_calls")
            except Exception:
                pass
    full = np.array(b.matrix_representation())
    nmodes = b.n_basis_modes
    cols_expected = min(nmodes, ne) if kind == "svd" else nmodes

    def bad(sig, msg, **kw):
        ctx.violation("concrete", f"{kind}: {msg}", {"signature": "basis:" + sig, **base, **kw})

    if full.shape != (nf, cols_expected):
        return bad("shape", f"matrix_representation() has shape {full.shape}, expected one row per sensor and one column per retained mode {(nf, cols_expected)}")
    # prefix law, bound check, copy semantics
    for k in range(1, nmodes + 1):
        # the requested count as it comes out of numpy code (np.arange, argmax, searchsorted …) or as a Python int
        kk = [k, np.int64(k), np.int32(k), np.intp(k)][(k + idx) % 4]
        try:
            Mk = b.matrix_representation(n_basis_modes=kk)
            b.matrix_inverse(n_basis_modes=kk)
        except Exception as e:
            return bad("admissible-k-rejected", f"asking for k={k} ≤ {nmodes} modes as {type(kk).__name__} is rejected ({type(e).__name__}: {e})", k=k)
        if not np.array_equal(np.array(Mk), full[:, :k]):
            return bad("prefix", f"matrix_representation({k}) is not the first {k} columns of the full matrix", k=k)
        Mc = b.matrix_representation(n_basis_modes=k, copy=True)
        if not np.array_equal(Mc, full[:, :k]) or np.shares_memory(Mc, b.basis_matrix_):
            return bad("copy", f"matrix_representation({k}, copy=True) is not an independent copy", k=k)
        if Mk.size and not np.shares_memory(Mk, b.basis_matrix_):
            ctx.count("copy_false_returns_copy")
        if k < nmodes and nmodes >= 2:
            ctx.nontriv((kind, X.shape, nmodes, k))
    for over in (nmodes + 1, nmodes + 5):
        try:
            b.matrix_representation(n_basis_modes=over)
            return bad("bound", f"asking for {over} modes of a basis fitted with {nmodes} is not rejected", k=over)
        except ValueError:
            pass
        try:
            b.matrix_inverse(n_basis_modes=over)
            return bad("bound", f"matrix_inverse({over}) of a basis with {nmodes} modes is not rejected", k=over)
        except ValueError:
            pass
    scale = 1 + float(np.max(np.abs(X)))
    tol = 1e-8 * scale * max(X.shape)
    if kind == "identity":
        want = X[:nmodes, :].T
        # compared value by value as exact Python numbers (numpy would first round big integers to float64 on both sides)
        if full.shape != want.shape or any(Fraction(a) != Fraction(b) for a, b in zip(np.asarray(full).ravel().tolist(), want.ravel().tolist())):
            return bad("identity-exact", "Identity does not reproduce the first training examples exactly")
        inv = b.matrix_inverse()
        if not np.array_equal(inv, np.eye(nf)):
            return bad("identity-inverse", "Identity.matrix_inverse() is not the identity matrix")
    elif kind in ("svd", "custom"):
        G = full.T @ full
        if not np.allclose(G, np.eye(full.shape[1]), atol=1e-8):
            return bad("orthonormal", f"modes are not orthonormal (max deviation {np.max(np.abs(G - np.eye(full.shape[1]))):.2e})")
        for k in range(1, full.shape[1] + 1):
            inv = b.matrix_inverse(n_basis_modes=k)
            if not np.array_equal(np.array(inv), full[:, :k].T):
                return bad("inverse-transpose", f"matrix_inverse({k}) is not the transpose of the first {k} modes", k=k)
        if kind == "svd" and "inherited_fit_transform" not in base:
            # data of rank ≤ k are reproduced exactly by k modes
            r = oracles.rank_of(oracles.fmat(X))
            k = full.shape[1]
            if r <= k:
                rec = X @ full @ full.T
                if not np.allclose(rec, X, atol=tol):
                    return bad("reproduce", f"rank-{r} data are not reproduced by {k} SVD modes (error {np.max(np.abs(rec - X)):.2e})")
    elif kind == "rp":
        comp = b.components_
        want = X.T @ comp.T
        if not np.allclose(full, want, atol=tol):
            return bad("rp-combination", "RandomProjection modes are not the training examples combined by the projection matrix")
        b2 = models.make_basis(kind, nm, random_state=3).fit(laid_out(X, base.get("layout", "C")))
        if not np.array_equal(np.array(b2.matrix_representation()), full):
            return bad("rp-repeat", "RandomProjection with a fixed random_state does not repeat")
        for k in range(1, nmodes + 1):
            Bk = full[:, :k]
            if oracles.rank_of(oracles.fmat(np.round(Bk, 12))) < k or np.linalg.cond(Bk) > 1e8:
                ctx.count("rp_rank_deficient_modes(guard only)")
                continue
            inv = b.matrix_inverse(n_basis_modes=k)
            # a pseudo-inverse computed from an SVD is a left inverse up to eps·κ; budget 1e-11·κ·k (≈ 45000 eps·κ·k).
            # (the first version allowed 1e-7·κ, which hid a normal-equations inverse whose error grows like eps·κ²)
            if inv.shape != (k, nf) or not np.allclose(inv @ Bk, np.eye(k), rtol=0, atol=1e-11 * np.linalg.cond(Bk) * k):
                return bad("rp-left-inverse", f"matrix_inverse({k}) is not a left inverse of the mode matrix", k=k)
    ctx.sample({"basis": kind, "shape": list(X.shape), "n_basis_modes": nmodes, "matrix_shape": list(full.shape)}, limit=5)


def laid_out(X, layout):
    """a fresh array with X's values in the given memory layout"""
    ne, nf = X.shape
    if layout == "F":
        return np.asfortranarray(X.copy())
    if layout == "T":
        return np.ascontiguousarray(X.T.copy()).T
    if layout == "strided":
        big = np.zeros((2 * ne, 2 * nf)); big[::2, ::2] = X
        return big[::2, ::2]
    return X.copy()


def run(ctx: C.Ctx):
    from .. import shapes_static, translate_bases
    shapes_static.run_with_translation(ctx, translate_bases, "Bases", "basis-glue", lambda: _run(ctx),
                                       "regenerated from pysensors/basis: what fit stores, matrix_representation = first k columns, how each inverse is formed")


def _run(ctx: C.Ctx):
    rng = ctx.rng
    for idx in range(ctx.scale(150, 2500)):
        kind = rng.choice(["identity", "svd", "rp", "rp", "custom"])
        tk = rng.choice(["int", "eighths", "low_rank", "int", "graded_examples"])
        if kind == "rp" and rng.random() < 0.5:
            tk = "graded_examples"           # ill-conditioned mode matrices: the inverse must still be a left inverse
        X, xk = models.gen_training(rng, n_examples=rng.randint(1, ctx.scale(7, 10)), n_features=rng.randint(1, ctx.scale(9, 14)), kind=tk)
        ne, nf = X.shape
        if kind == "identity":
            nm = None if rng.random() < 0.3 else rng.randint(1, ne)
        elif kind == "svd":
            nm = rng.randint(1, min(ne, nf))
        elif kind == "rp":
            nm = rng.randint(1, ne + 2)
        else:
            nm = rng.randint(1, max(1, min(ne, nf)))
        check_basis(ctx, kind, X, nm, idx)


def replay(ctx: C.Ctx, payload):
    d = payload["data"]
    check_basis(ctx, d["basis"], np.array(d["X"], dtype=float), d["n_modes"], 0, layout=d.get("layout"))
    print("# replayed:", payload.get("what"))
