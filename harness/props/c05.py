"""
C05 — region constraints bound the number of selected sensors inside the region.
C06 shares the generators and the runs (see c06.py).

Lean: `Model/NormCalc.lean` (the three mask functions as written) + generic greedy run; theorems in
`Props/C05.lean`.  Correspondence: (i) function level – the real `max_n` / `exact_n` / `predetermined`
against the Lean masks, bit for bit; (ii) end to end – real GQR / SSPOR(GQR) pivot traces replayed in the
exact model with the mask model, tapped zero patterns compared per step, region counts judged.
"""
from __future__ import annotations

import itertools

import numpy as np

from .. import common as C
from .. import gen, greedy, models
from ..opt import OptCase

LEVEL = "proof"
RULE = ("(i) argument tuples (L, piv, j, s, A, N) for the three mask functions, non-trivial when the mask is "
        "neither empty nor full; (ii) generic full-rank B × region × every feasible (N, s) × option through GQR and "
        "SSPOR(GQR), non-trivial when the constraint is active (constrained ranking differs from QR's first N); "
        "distinct by (option, shape, L, N, s, trace)")
TRUSTED = [
    "Lean 4.33 kernel; axioms propext, Classical.choice, Quot.sound",
    "hand-written model Model/NormCalc.lean tied to pysensors.utils._norm_calc by bit-exact differential testing",
    "exact Gram model tied to GQR.fit by ε-acceptance of tapped traces and per-step zero patterns",
    "LAPACK geqp3 supplies the unconstrained ranking A (checked to be greedy by C03)",
]
ASSUMPTIONS = [
    "feasibility as stated in the property: |L| ≥ s, n − |L| ≥ N − s, N ≤ min(n, m), no candidate with exactly "
    "zero residual during the first N steps (checked exactly on every end-to-end case; others are skipped and counted)",
]

OPTIONS = ["max_n", "exact_n", "predetermined"]


def real_mask_fn(name):
    import pysensors.utils._norm_calc as nc
    return getattr(nc, name)


def function_level(ctx, count, exhaustive_n=None):
    rng = ctx.rng
    cases = []
    if exhaustive_n:
        for n in range(1, exhaustive_n + 1):
            for Lmask in range(2 ** n):
                L = [i for i in range(n) if Lmask >> i & 1]
                for A in itertools.permutations(range(n)):
                    for N in range(0, n + 1):
                        for s in range(0, n + 1):
                            for j in range(0, n):
                                # candidates p[j:] : the set matters, not the order; take A-independent arrangement
                                piv = list(range(n))
                                for opt in OPTIONS:
                                    for ns in ([N] if N > 0 else [0, None]):
                                        if opt == "predetermined" and ns is None:
                                            continue
                                        cases.append((opt, L, piv, j, s, list(A), ns))
    else:
        for _ in range(count):
            n = rng.randint(1, ctx.scale(8, 12))
            L = sorted(rng.sample(range(n), rng.randint(0, n)))
            A = list(range(n)); rng.shuffle(A)
            piv = list(range(n)); rng.shuffle(piv)
            j = rng.randint(0, n - 1)
            s = rng.randint(0, n)
            r = rng.random()
            ns = None if r < 0.08 else (0 if r < 0.16 else rng.randint(1, n))
            opt = rng.choice(OPTIONS)
            if opt == "predetermined" and ns is None:
                ns = rng.randint(0, n)
            cases.append((opt, L, piv, j, s, A, ns))
    reqs = []
    for (opt, L, piv, j, s, A, ns) in cases:
        reqs.append(f"mask {opt} {C.enc_nats(L)} {s} {C.enc_nats(A)} {C.enc_optnat(ns)} {j} {C.enc_nats(piv)}")
    resp = ctx.driver.ask(reqs)
    for idx, ((opt, L, piv, j, s, A, ns), rp) in enumerate(zip(cases, resp)):
        ctx.evaluations += 1
        ctx.count("mask:" + opt)
        n = len(piv)
        dl = np.arange(1, n - j + 1, dtype=float)
        f = real_mask_fn(opt)
        try:
            out = f(np.array(L, dtype=int), dl.copy(), np.array(piv), j, s, all_sensors=np.array(A), n_sensors=ns,
                    dlens_old=dl.copy(), nx=None, ny=None, r=1)
            real = "".join("1" if x == 0 else "0" for x in out)
        except Exception as e:
            real = "raise:" + type(e).__name__
        model = rp.split()[1] if rp.startswith("ok ") else ("" if rp == "ok" else rp)
        if rp == "domain":
            ctx.count("mask_out_of_domain")
            continue
        if real != model:
            ctx.violation("no-failing-input-found",
                          f"{opt}(L={L}, piv={piv}, j={j}, s={s}, A={A}, N={ns}) zero pattern {real}, Lean mask model {model}",
                          {"signature": f"mask-correspondence:{opt}", "args": {"opt": opt, "L": L, "piv": piv, "j": j, "s": s, "A": A, "n_sensors": ns},
                           "observed": real, "model": model, "index": idx},
                          broken=f"correspondence {opt} ↔ NormCalc.{opt}Zeros (theorems of Props/C05.lean are about the model)")
        if "1" in model and "0" in model:
            ctx.nontriv(("mask", opt, tuple(L), tuple(piv[j:]), s, tuple(A), ns))
        ctx.sample({"mask_call": {"opt": opt, "L": L, "piv": piv, "j": j, "s": s, "A": A, "n_sensors": ns}, "zeros": real}, limit=2)


def gen_e2e(ctx, rng):
    """generic full-rank B, region, feasible (N, s), option"""
    from pysensors.optimizers import QR
    n = rng.randint(3, ctx.scale(9, 16))
    m = rng.randint(2, ctx.scale(7, 12))
    B = gen.gen_generic_matrix(rng, n, m)
    k = min(n, m)
    graded = k >= 3 and rng.random() < 0.2
    if graded:
        # nearly low rank: a rank-r integer core plus generic entries 2^-e times smaller – residual norms fall by
        # a factor 2^e at step r, where the float code's norms must still be those of the trailing block
        r = rng.randint(1, k - 2)
        e = rng.choice([24, 30, 36, 44])
        U = gen.gen_generic_matrix(rng, n, r, -4, 4); V = gen.gen_generic_matrix(rng, r, m, -4, 4)
        B = U @ V + gen.gen_generic_matrix(rng, n, m) * 2.0 ** (-e)
        ctx.count("e2e:nearly_low_rank")
    scaled = False
    if not graded and rng.random() < 0.2:
        scaled = True
        e = rng.choice([-70, -60, -52, -40, 40, 60])         # no magnitude is special
        B = B * 2.0 ** e
        ctx.count("e2e:scaled_2^%d" % e)
    A = np.array(QR().fit(B.copy()).get_sensors()).copy()
    L = sorted(rng.sample(range(n), rng.randint(0, n)))
    N = rng.randint(r + 1, k) if graded else rng.randint(1, k)
    lo, hi = max(0, N - (n - len(L))), min(N, len(L))
    if lo > hi:
        return None
    s = rng.randint(lo, hi)
    opt = rng.choice(OPTIONS)
    kw = {"idx_constrained": np.array(L, dtype=int), "n_sensors": N, "n_const_sensors": s, "all_sensors": A,
          "constraint_option": opt}
    meta = {"opt": opt, "N": N, "s": s, "L": L}
    if opt == "predetermined" and rng.random() < 0.4:
        # (only `predetermined`: C05/C06 speak of GQR *given* the unconstrained ranking; `exact_n` without it cannot count the
        # region sensors already ranked and promises nothing – that configuration is exercised by C18 only)
        meta["omit_all_sensors"] = True
    if rng.random() < 0.35:
        meta["np_ints"] = rng.choice([64, 32])
    if len(L) >= 1 and rng.random() < 0.3:
        meta["region_container"] = rng.choice(["tuple1", "2d", "list", "dup", "dup"])
    if not graded and not scaled and rng.random() < 0.2:
        # (not combined with the extreme units above: squared norms must stay inside the narrower type's range – that is a limit of
        # the storage type, not of the algorithm; seed 2 of the first sweep produced 2^-90-sized float32 entries and a false alarm)
        # the same matrix stored in half / single precision (8-bit intensities: entries ≥ 256 whose squares leave the half-precision
        # range; tiny amplitudes): GQR works on a copy of at least single precision
        dt = rng.choice(["float16", "float16", "float32"])
        e = rng.choice([0, 8, 8, -13] if dt == "float16" else [0, 20, -20])
        Bs = np.array(kw_B(B)) * 2.0 ** e          # float16 input is lifted to float32 by GQR: squares of 2^-13-sized entries are fine there
        if np.all(np.isfinite(Bs.astype(dt))) and np.array_equal(Bs.astype(dt).astype(float), Bs):
            B = Bs
            meta["dtype"] = dt
            ctx.count(f"e2e:basis_dtype:{dt}·2^{e}")
    return OptCase(B, "gqr", gqr=kw, meta=meta)


def kw_B(B):
    return B


def counts_ok(opt, ranking, L, N, s):
    lead = ranking[:N]
    Ls = set(L)
    cnt = sum(1 for x in lead if x in Ls)
    if opt == "max_n":
        return cnt <= s, cnt
    if opt == "exact_n":
        return cnt == s, cnt
    ok = all(x not in Ls for x in lead[: N - s]) and all(x in Ls for x in lead[N - s:])
    return ok, cnt


def feasible_exact(J, N):
    """no candidate with exactly zero residual during the first N steps (exact model)"""
    for v in (J.verdicts or [])[:N]:
        if any(x == 0 for x in v.get("cand_n2", [])):
            return False
    return True


def judge_gqr_case(ctx, case, res, J, idx, label, want_counts=True):
    """shared by C05 and C06: replay acceptance, zero-pattern tap, counts. returns True if the case was usable"""
    ctx.impl_traces += 1
    N, s, L, opt = case.meta["N"], case.meta["s"], case.meta["L"], case.meta["opt"]
    if not J.domain:
        ctx.count("out_of_domain")
        return False
    if not feasible_exact(J, N):
        ctx.count("skipped_zero_residual_candidate")
        return False
    # tapped zero pattern vs the Lean mask along the real permutation history
    if res.get("zeros") is not None:
        masks = greedy.model_masks(ctx, case, res)
        if masks is not None:
            for j, (z, pv) in enumerate(zip(res["zeros"], res["pivs"])):
                real_set = {c for c, b in zip(pv[j:], z) if b}
                # a candidate whose float norm is already 0.0 cannot show whether it was zeroed
                visible = {c for c, f in zip(pv[j:], res["dlens"][j]) if f != 0}
                if real_set != (masks[j] & visible):
                    ctx.violation("no-failing-input-found",
                                  f"{label}: step {j} real zeroed set {sorted(real_set)} vs mask model {sorted(masks[j])}",
                                  {"signature": f"zero-pattern:{opt}", "case": case.describe(), "step": j, "index": idx},
                                  broken="correspondence GQR.fit mask application ↔ GqrCfg.mask")
                    break
    return True


def tie_deviation(ctx, case, res, J, N):
    """True iff the real trace leaves the supplied unconstrained ranking A at a step j < N where A[j] was NOT zeroed
    and A[j] and the real pick have exactly equal residual norms: GQR broke an exact tie differently from the
    ranking it was given (hypothesis `GqrSetup.hA` of the theorems fails for this input)."""
    A = case.gqr["all_sensors"].tolist()
    r = res["ranking"]
    masks = greedy.model_masks(ctx, case, res)
    n = case.B.shape[0]
    p = list(range(n))
    for j in range(N):
        cands = p[j:]
        if r[j] != A[j]:
            if masks is None or A[j] in masks[j] or A[j] not in cands:
                return False
            n2 = dict(zip(cands, J.verdicts[j]["cand_n2"]))
            a, b = n2.get(A[j]), n2.get(r[j])
            if a is None or b is None:
                return False
            # equal up to the acceptance budget: |√a − √b| ≤ δ  (decided exactly)
            from ..oracles import score_ge
            from fractions import Fraction
            return score_ge(a, Fraction(0), b, J.deltas[j]) and score_ge(b, Fraction(0), a, J.deltas[j])
        i = p.index(r[j], j)
        p[j], p[i] = p[i], p[j]
    return False


def corpus_cases():
    import glob, json, os
    out = []
    for f in sorted(glob.glob(str(C.VERIF / "corpus" / "C05" / "*.json"))):
        out.append((os.path.basename(f), OptCase.from_desc(json.load(open(f))["case"])))
    return out


def with_translated_masks(ctx, body):
    """second tie of C05 / C06: the mask functions are recompiled from the current source into Lean and proved equal to the model
    (harness/translate_normcalc.py → Generated/NormCalc.lean); then the differential part `body` runs.  A generated theorem that no
    longer checks, with no wrong answer found on the real code, ends in `no-failing-input-found`."""
    from .. import shapes_static, translate_normcalc
    offenders, table = shapes_static.static_part(ctx, T=translate_normcalc, stem="NormCalc")
    n_before = len(ctx.violations)
    body()
    if offenders:
        why = {t["site"]: t.get("why") for t in table if not t["found"]}
        names = ", ".join("normcalc_" + o + (f" (untranslatable: {why[o]})" if why.get(o) else "") for o in offenders)
        known = {k.get("signature") for k in C.load_known_findings() if k.get("status") == "known"}
        if any(v.kind == "concrete" and (v.data or {}).get("signature") not in known for v in ctx.violations[n_before:]):
            ctx.notes.append("generated mask-function theorems that no longer check: " + names)
        else:
            ctx.violation("no-failing-input-found",
                          "generated mask-function theorem(s) no longer check: " + names + " – the differential run on the real code found no wrong answer",
                          {"signature": "normcalc-obligation:" + offenders[0], "offenders": offenders, "why": why},
                          broken="theorem(s) " + ", ".join("PsVerif.Gen.normcalc_" + o for o in offenders) + " (PsVerif/Generated/NormCalc.lean, "
                                 "recompiled from pysensors/utils/_norm_calc.py)")


def run(ctx: C.Ctx, want="C05"):
    with_translated_masks(ctx, lambda: _run(ctx, want))


def _run(ctx: C.Ctx, want="C05"):
    rng = ctx.rng
    if ctx.thorough:
        function_level(ctx, 0, exhaustive_n=3)
        ctx.notes.append("mask functions enumerated exhaustively for n ≤ 3 (all L, A, N, s, j; candidate order fixed)")
    function_level(ctx, ctx.scale(2500, 40000))
    # ---- end to end ---------------------------------------------------------------------
    todo = []
    for name, case in corpus_cases():
        ctx.evaluations += 1
        ctx.count("corpus")
        todo.append((name, case, case.run_real()))
    for idx in range(ctx.scale(220, 5000)):
        case = gen_e2e(ctx, rng)
        if case is None:
            continue
        ctx.evaluations += 1
        ctx.count("e2e:" + case.meta["opt"])
        res = case.run_real()
        todo.append((idx, case, res))
    Js = greedy.judge_batch(ctx, [(c, r) for _, c, r in todo])
    for (idx, case, res), J in zip(todo, Js):
        N, s, L, opt = case.meta["N"], case.meta["s"], case.meta["L"], case.meta["opt"]
        if not judge_gqr_case(ctx, case, res, J, idx, "gqr"):
            continue
        ok, cnt = counts_ok(opt, res["ranking"], L, N, s)
        A = case.gqr["all_sensors"].tolist()
        if not ok:
            sig = f"region-count:{opt}"
            if tie_deviation(ctx, case, res, J, N):
                sig = "region-count:supplied-ranking-breaks-an-exact-tie-differently"
            ctx.violation("concrete",
                          f"GQR {opt}: first N={N} sensors {res['ranking'][:N]} contain {cnt} region sensors (region {L}, allowance s={s})",
                          {"signature": sig, "case": case.describe(), "observed": res["ranking"],
                           "required": {"max_n": f"≤ {s}", "exact_n": f"= {s}", "predetermined": f"first {N-s} outside, last {s} inside"}[opt], "index": idx})
        if res["ranking"][:N] != A[:N]:
            ctx.nontriv((opt, case.B.shape, tuple(L), N, s, tuple(res["ranking"][:N])))
            ctx.count("constraint_active")
        ctx.sample({"gqr": {"opt": opt, "L": L, "N": N, "s": s, "A": A}, "B": case.B.tolist(), "ranking": res["ranking"]}, limit=5)
    sspor_part(ctx)


def sspor_part(ctx):
    """the same counts hold for the sensors selected by an SSPOR model that uses GQR"""
    from pysensors.basis import Identity
    from pysensors.optimizers import GQR, QR
    from pysensors.reconstruction import SSPOR
    rng = ctx.rng
    n_base = ctx.scale(80, 1500)
    for idx in range(n_base + ctx.scale(40, 400)):
        forced = idx >= n_base
        nf = rng.randint(3, ctx.scale(9, 14))
        ne = rng.randint(2, ctx.scale(6, 10))
        if forced:
            # many sensors, a handful of raw snapshots one of which is very quiet (numpy's rank tolerance grows with the number of sensors:
            # 2^-46 of the largest singular value here, while residuals of 2^-49 are still far above rounding)
            nf, ne = rng.randint(40, 64), rng.randint(2, 4)
        X = gen.gen_generic_matrix(rng, ne, nf)
        bk = "identity" if forced else rng.choice(["identity", "svd", "rp"])
        nm = rng.randint(2, models.admissible_modes(bk, ne, nf)) if models.admissible_modes(bk, ne, nf) >= 2 else 1
        if forced:
            nm = ne
        seed = rng.randint(0, 50)
        faint = forced or (bk == "identity" and rng.random() < 0.5)
        if faint:
            # raw snapshots of very different amplitude (one or two very quiet ones among the modes): the basis matrix has full rank but
            # is rank deficient by numpy's default tolerance – the counts are a matter of which sensors may be picked, not of their norms
            for i in rng.sample(range(min(nm, ne)), rng.randint(1, min(2, min(nm, ne) - 1)) if min(nm, ne) > 1 else 1):
                X[i] = X[i] * 2.0 ** -rng.choice([47, 48, 49])
            ctx.count("sspor-gqr:very_quiet_snapshots_among_the_modes")
        try:
            base = SSPOR(basis=models.make_basis(bk, nm), optimizer=QR()).fit(X.copy(), quiet=True, seed=seed)
        except ValueError:
            continue
        Bm = np.array(base.basis_matrix_)
        k = min(Bm.shape)
        A = np.array(base.get_all_sensors()).copy()
        L = sorted(rng.sample(range(nf), rng.randint(0, nf)))
        N = k if (faint and rng.random() < 0.7) else rng.randint(1, k)
        lo, hi = max(0, N - (nf - len(L))), min(N, len(L))
        if lo > hi:
            continue
        s = rng.randint(lo, hi)
        opt = rng.choice(OPTIONS)
        ctx.evaluations += 1
        ctx.count(f"sspor-gqr:{bk}/{opt}")
        kw = {"idx_constrained": np.array(L, dtype=int), "n_sensors": N, "n_const_sensors": s, "all_sensors": A,
              "constraint_option": opt}
        model = SSPOR(basis=models.make_basis(bk, nm), optimizer=GQR(), n_sensors=N)
        try:
            model.fit(X.copy(), quiet=True, seed=seed, **kw)
        except ValueError:
            continue
        sel = np.array(model.get_selected_sensors()).tolist()
        full = np.array(model.get_all_sensors()).tolist()
        # feasibility (no zero residual) judged exactly on the model's own basis matrix
        case = OptCase(np.array(model.basis_matrix_, dtype=float), "gqr", gqr=kw, meta={"opt": opt, "N": N, "s": s, "L": L})
        offs, _ = gen.offsets_from_ranking(full, nf, min(case.B.shape)) if gen.is_perm(full, nf) else (None, None)
        if offs is None:
            continue
        J = greedy.judge_batch(ctx, [(case, {"offsets": offs, "ranking": full})])[0]
        if not J.domain or not feasible_exact(J, N):
            ctx.count("skipped_zero_residual_candidate")
            continue
        if faint:
            # "no candidate has exactly zero residual" for the floating-point run: when even the best permitted candidate's residual is
            # below 2^-50 of the largest row norm, every permitted candidate may be exactly 0.0 there (unit roundoff 2^-53 times a
            # small constant) – such cases are left out
            from fractions import Fraction
            top2 = max(sum(C.frac(v) ** 2 for v in row) for row in case.B.tolist())
            if any((not v.get("cand_n2")) or v["best"] >= len(v["cand_n2"]) or v["cand_n2"][v["best"]] < top2 * Fraction(1, 2 ** 100)
                   for v in (J.verdicts or [])[:N]):
                ctx.count("skipped_residual_below_rounding_level")
                continue
            ctx.count("sspor-gqr:numerically_rank_deficient_basis_judged")
        ok, cnt = counts_ok(opt, sel, L, N, s) if len(sel) == N else (False, -1)
        if not ok:
            sig = f"sspor-region-count:{opt}"
            if tie_deviation(ctx, case, {"ranking": full, "offsets": offs}, J, N):
                sig = "region-count:supplied-ranking-breaks-an-exact-tie-differently"
            ctx.violation("concrete",
                          f"SSPOR(GQR {opt}): selected sensors {sel} contain {cnt} region sensors (region {L}, N={N}, s={s})",
                          {"signature": sig, "case": {"X": X.tolist(), "basis": bk, "n_modes": nm, "seed": seed,
                                                                               "L": L, "N": N, "s": s, "opt": opt, "A": A.tolist()},
                           "observed": sel, "index": idx})
        elif sel != A.tolist()[:N]:
            ctx.nontriv(("sspor", opt, tuple(L), N, s, tuple(sel)))


def replay(ctx: C.Ctx, payload):
    d = payload["data"]
    if "args" in d:
        a = d["args"]
        f = real_mask_fn(a["opt"])
        n = len(a["piv"])
        dl = np.arange(1, n - a["j"] + 1, dtype=float)
        out = f(np.array(a["L"], dtype=int), dl, np.array(a["piv"]), a["j"], a["s"], all_sensors=np.array(a["A"]), n_sensors=a["n_sensors"])
        real = "".join("1" if x == 0 else "0" for x in out)
        rp = ctx.driver.ask1(f"mask {a['opt']} {C.enc_nats(a['L'])} {a['s']} {C.enc_nats(a['A'])} {C.enc_optnat(a['n_sensors'])} {a['j']} {C.enc_nats(a['piv'])}")
        print("# real", real, "model", rp)
        if rp.split()[-1] != real:
            ctx.violation("no-failing-input-found", "mask correspondence still broken", {"signature": f"mask-correspondence:{a['opt']}", "args": a}, broken="mask correspondence")
    elif "case" in d and "kind" in d["case"]:
        case = OptCase.from_desc(d["case"])
        res = case.run_real()
        N, s, L, opt = case.meta["N"], case.meta["s"], case.meta["L"], case.meta["opt"]
        ok, cnt = counts_ok(opt, res["ranking"], L, N, s)
        print("# ranking", res["ranking"], "count", cnt, "ok", ok)
        if not ok:
            ctx.violation("concrete", "region count violated", {"signature": f"region-count:{opt}", "case": case.describe(), "observed": res["ranking"]})
