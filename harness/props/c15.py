"""
C15 — refitting and mode updates leave no trace of earlier fits.

Lean: `Model/Sspor.lean`; theorems in `Props/C15.lean` (fit_is_reset…, update_modes_prefix).  Correspondence:
histories of fit / update_n_basis_modes / set_number_of_sensors over datasets of equal and different widths and
lengths on the real SSPOR vs the Lean machine after every call; optimizers refitted on matrices of different
shapes.  Oracle for the search: a from-scratch reference (fresh basis with the final settings fitted on the final
data, `matrix_representation(k)`, fresh optimizer).
"""
from __future__ import annotations

import numpy as np

from .. import common as C
from .. import gen, models
from .. import sspor_hist as H
from .. import models
from .c14 import machine_compare

LEVEL = "proof"
RULE = ("histories of 1–8 (thorough 1–20) calls from {fit(dataset, prefit, seed), update_n_basis_modes(k, x|None), "
        "set_number_of_sensors} over 1–3 datasets of different widths/lengths, plus optimizer refit sequences; "
        "non-trivial when the history contains at least two successful fits; distinct by (basis, optimizer, shapes, "
        "op sequence)")
TRUSTED = [
    "Lean 4.33 kernel; axioms propext, Classical.choice, Quot.sound",
    "hand-written state machine Model/Sspor.lean tied to SSPOR by comparing the observable projection after every call",
    "scikit-learn TruncatedSVD / GaussianRandomProjection are deterministic for a fixed random_state (used by the reference)",
]
ASSUMPTIONS = ["'final settings' = constructor arguments overridden by the last successful set_number_of_sensors / "
               "update_n_basis_modes; 'final data' = training set of the last call that fitted the basis"]


def reference(h: H.History, real_out):
    """what a fresh object configured with the final settings and fitted on the final data would show.
    Returns dict or None when the history never produced a fitted model / ended in a rejected fit."""
    nm_setting = h.n_modes
    snm = None                 # SSPOR.n_basis_modes
    final_data = None
    basis_fitted = False
    basis_nm_attr = h.n_modes
    last_fit_ok = False
    # state of the freshly constructed object: a rejected FIRST call may already have changed it
    try:
        from pysensors.reconstruction import SSPOR
        prev_obs = H.observe(SSPOR(basis=models.make_basis(h.basis, h.n_modes), optimizer=H.make_optimizer(h.opt), n_sensors=h.ctor_ns))
    except Exception:
        prev_obs = None
    basis_data = None          # what the basis OBJECT was last fitted on (by the model or behind its back)
    stale = False              # the basis was fitted behind the model's back and the model has not re-ranked since
    for op_index, (op, (status, obs)) in enumerate(zip(h.ops, real_out)):
        ok = status == "ok"
        if op[0] == "copy":
            if not ok:
                return None
            prev_obs = obs
            continue
        if op[0] == "bfit":
            if not ok:
                return None          # a rejected outside fit may leave the basis half-refitted: state is not claimed
            basis_data = h.datasets[op[1]]
            stale = True
            prev_obs = obs
            continue
        if not ok and op[0] in ("fit", "upd") and prev_obs is not None and any(
                obs[k] != prev_obs[k] for k in ("bm", "bnm", "snm", "rank", "ns")):
            # a *rejected* call that nevertheless changed the object (C19's business): no C15 claim afterwards
            return None
        prev_obs = obs
        if op[0] == "fit":
            _, di, prefit, seed = op
            if ok:
                if not prefit:
                    basis_data = h.datasets[di]
                    basis_fitted = True
                final_data = basis_data
                stale = False
                last_fit_ok = True
            else:
                last_fit_ok = False
                if not prefit:
                    return None          # a rejected fit may leave the basis refitted: state is not claimed
        elif op[0] == "upd":
            _, v, di = op
            if ok:
                snm = int(v)
                # did this call refit the basis (path 3)?  yes iff basis.n_basis_modes is now v and data was given
                if di is not None and obs["bnm"] == int(v) and (obs["bm"] is not None) and obs["bm"][0] == h.datasets[di].shape[1] \
                        and _path3(h, op_index, real_out):
                    nm_setting = int(v)
                    basis_data = h.datasets[di]
                final_data = basis_data
                stale = False
                last_fit_ok = True
            else:
                pass
    if final_data is None or not last_fit_ok or stale:
        return None
    b = models.make_basis(h.basis, nm_setting)
    try:
        b.fit(final_data.copy())
        B = b.matrix_representation(n_basis_modes=snm)
    except Exception as e:
        return {"error": H.err_kind(e)}
    opt = H.make_optimizer(h.opt)
    rk = np.array(opt.fit(np.array(B)).get_sensors()).tolist()
    return {"B": np.array(B), "lead": rk[: min(B.shape)], "nf": B.shape[0], "X": final_data}


def _path3(h, idx, real_out):
    """whether the update call at `op` went through the refit branch: decided by replaying the branch condition
    on the observations *before* the call"""
    op = h.ops[idx]
    prev = real_out[idx - 1][1] if idx > 0 else None
    v = int(op[1])
    if prev is None or prev["bm"] is None:
        return True
    bnm_before = prev["bnm"]
    return not (bnm_before is not None and v <= bnm_before)


def _predict_probe(h):
    """read-only calls interleaved with the history: predict / score / reconstruction_error with the current selection
    (nothing they cache may survive the next fit or update)"""
    def probe(model, i):
        if not hasattr(model, "ranked_sensors_") or (i * 7 + len(h.ops)) % 3 == 0:
            return
        nf = len(model.ranked_sensors_)
        X = next((d for d in h.datasets if d.shape[1] == nf), None)
        if X is None:
            return
        try:
            sel = model.get_selected_sensors()
            model.predict(X[:, sel])
            model.score(X)
            if i % 2 == 0:
                model.reconstruction_error(X)
        except Exception:
            pass
    return probe


def judge(ctx, h, idx):
    model, out = H.run_real(h, probe=_predict_probe(h))
    if model is None:
        ctx.count("ctor_rejected")
        return None
    n_fits = sum(1 for (op, (st, _)) in zip(h.ops, out) if st == "ok" and op[0] in ("fit", "upd"))
    ref = reference(h, out)
    final_x = ref.get("X") if ref else None
    if ref is None:
        ctx.count("no_reference(ended in rejected fit or never fitted)")
        return out
    if "error" in ref:
        ctx.count("reference_rejected")
        return out
    # explicit n_sensors setting for the prediction comparison
    B = np.array(model.basis_matrix_)
    lead = np.array(model.get_all_sensors()).tolist()[: min(B.shape)]
    problems = []
    # single-precision data give a single-precision basis and reconstruction (rounding 1e-7 instead of 1e-16)
    single = any(getattr(a, "dtype", None) == np.float32 for a in (model.basis_matrix_, final_x) if a is not None)
    ptol = 1e-3 if single else 1e-7
    if B.shape != ref["B"].shape or not np.array_equal(B, ref["B"]):
        problems.append("basis_matrix")
    elif lead != ref["lead"]:
        problems.append("leading_ranking")
    if not problems and final_x is not None and final_x.shape[1] == B.shape[0] and model.n_sensors:
        # predictions with the model's CURRENT sensor count and selection vs least squares on the reference basis matrix
        try:
            sel = np.array(model.get_selected_sensors()).tolist()
            got = np.asarray(model.predict(final_x[:, sel]))
            Bs = ref["B"][sel, :]
            cond = np.linalg.cond(Bs) if min(Bs.shape) else np.inf
            if cond < 1e6:
                want = (ref["B"] @ np.linalg.lstsq(Bs, final_x[:, sel].T, rcond=None)[0]).T
                scale = 1 + float(np.max(np.abs(want)))
                if got.shape != want.shape or not np.allclose(got, want, atol=ptol * scale * cond, rtol=0):
                    problems.append("predictions")
        except Exception:
            pass
    if not problems and final_x is not None and len(lead) > 0:
        # predictions from the leading sensors: the model (n_sensors set to the number of leading sensors) against a
        # direct least-squares reconstruction with the reference basis matrix
        try:
            import copy
            m2 = copy.deepcopy(model)
            m2.set_number_of_sensors(len(lead))
            got = np.asarray(m2.predict(final_x[:, lead]))
            Bs = ref["B"][lead, :]
            want = (ref["B"] @ np.linalg.lstsq(Bs, final_x[:, lead].T, rcond=None)[0]).T
            scale = 1 + float(np.max(np.abs(want)))
            cond = np.linalg.cond(Bs)
            if cond < 1e6 and not np.allclose(got, want, atol=ptol * scale * cond, rtol=0):
                problems.append("predictions")
        except ValueError:
            pass
    if problems:
        sig = "refit-trace:" + ",".join(problems)
        if h.basis == "identity" and h.n_modes is None and _identity_freeze(h, out):
            sig = "refit-trace:identity-default-n_basis_modes-frozen"
        ctx.violation("concrete",
                      f"after the history the model differs from a from-scratch model in {problems} "
                      f"(basis_matrix_ {B.shape} vs {ref['B'].shape}; leading {lead} vs {ref['lead']})",
                      {"signature": sig, "history": h.describe(), "observed": {"bm": list(B.shape), "lead": lead},
                       "required": {"bm": list(ref["B"].shape), "lead": ref["lead"]}, "index": idx})
    elif n_fits >= 2:
        ctx.nontriv((h.basis, h.opt, tuple(d.shape for d in h.datasets), tuple(op[0] for op in h.ops)))
    return out


def _identity_freeze(h, out):
    """Identity() (n_basis_modes=None) and the basis was fitted on datasets with different numbers of examples"""
    nes = set()
    for op, (st, obs) in zip(h.ops, out):
        if op[0] == "fit" and not op[2]:
            nes.add(h.datasets[op[1]].shape[0])
        if op[0] == "upd" and op[2] is not None:
            nes.add(h.datasets[op[2]].shape[0])
        if op[0] == "bfit":
            nes.add(h.datasets[op[1]].shape[0])
    return len(nes) >= 2


def optimizer_refits(ctx, count):
    """QR / CCQR / GQR refitted on matrices of equal and different shapes must behave like fresh optimizers"""
    from pysensors.optimizers import CCQR, GQR, QR
    rng = ctx.rng
    for idx in range(count):
        kind = rng.choice(["qr", "ccqr", "ccqr_costs", "gqr"])
        mats = [gen.gen_matrix(rng, max_n=8, max_m=6)[0] for _ in range(rng.randint(2, 4))]
        if kind == "ccqr_costs":
            n0 = mats[0].shape[0]
            mats = [m for m in mats if m.shape[0] == n0] * 2
            costs = np.array([rng.randint(-4, 4) / 2 for _ in range(n0)])
            mk = lambda: CCQR(sensor_costs=costs.copy())
        else:
            mk = {"qr": QR, "ccqr": CCQR, "gqr": GQR}[kind]
        ctx.evaluations += 1
        ctx.count("optimizer_refit:" + kind)
        opt = mk()
        for t, Bm in enumerate(mats):
            try:
                got = np.array(opt.fit(Bm.copy()).get_sensors()).tolist()
            except Exception as e:
                got = "E:" + H.err_kind(e)
            try:
                want = np.array(mk().fit(Bm.copy()).get_sensors()).tolist()
            except Exception as e:
                want = "E:" + H.err_kind(e)
            if got != want:
                ctx.violation("concrete", f"{kind}: fit #{t + 1} on a {Bm.shape} matrix gives {got}, a fresh optimizer gives {want}",
                              {"signature": f"optimizer-refit-trace:{kind}", "matrices": [m.tolist() for m in mats], "fit_index": t,
                               "observed": got, "required": want, "index": idx})
                break
        else:
            if len({m.shape for m in mats}) > 1:
                ctx.nontriv((kind, tuple(m.shape for m in mats)))


def default_count_part(ctx, count):
    """a model built with the DEFAULT sensor count, used for read-only questions (error curves, scores, predictions) and then refitted on
    data of another width: the default follows the data of the latest fit, exactly as for a fresh model – read-only calls are not setters"""
    from pysensors.reconstruction import SSPOR
    rng = ctx.rng
    for idx in range(count):
        basis = rng.choice(["identity", "identity", "svd", "rp"])
        ne = rng.randint(2, 5)
        nf1, nf2 = rng.randint(ne + 1, 9), rng.randint(ne + 1, 9)
        if nf1 == nf2:
            nf2 = nf1 + rng.choice([-1, 1, 2]) if nf1 > ne + 1 else nf1 + 1
        X1 = np.array([[rng.randint(-6, 6) for _ in range(nf1)] for _ in range(ne)], dtype=float)
        X2 = np.array([[rng.randint(-6, 6) for _ in range(nf2)] for _ in range(ne)], dtype=float)
        nm = None if basis == "identity" else rng.randint(1, ne)
        opt = rng.choice(["qr", "ccqr", "gqr"])
        probes = rng.sample(["reconstruction_error", "score", "predict", "reconstruction_error(range)"], rng.randint(1, 3))
        desc = {"basis": basis, "n_modes": nm, "opt": opt, "X1": X1.tolist(), "X2": X2.tolist(), "probes": probes}
        ctx.evaluations += 1
        ctx.count("default_count_refit_other_width")
        try:
            m = SSPOR(basis=models.make_basis(basis, nm), optimizer=H.make_optimizer(opt))
            m.fit(X1.copy(), quiet=True, seed=1)
            for pr in probes:
                try:
                    if pr == "reconstruction_error":
                        m.reconstruction_error(X1.copy())
                    elif pr == "reconstruction_error(range)":
                        m.reconstruction_error(X1.copy(), sensor_range=[1, 2])
                    elif pr == "score":
                        m.score(X1.copy())
                    else:
                        m.predict(X1[:, m.get_selected_sensors()])
                except Exception:
                    pass
            out = "ok"
            try:
                m.fit(X2.copy(), quiet=True, seed=1)
            except Exception as e:
                out = "E:" + type(e).__name__
            f = SSPOR(basis=models.make_basis(basis, nm), optimizer=H.make_optimizer(opt)).fit(X2.copy(), quiet=True, seed=1)
        except Exception as e:
            ctx.count("default_count_case_raises:" + type(e).__name__)
            continue
        if out != "ok" or m.n_sensors != f.n_sensors or np.array(m.get_selected_sensors()).tolist() != np.array(f.get_selected_sensors()).tolist():
            ctx.violation("concrete", f"default sensor count after {probes} and a refit on {nf2} sensors (first fit: {nf1}): "
                                      f"{'refit raised ' + out[2:] if out != 'ok' else 'n_sensors=' + str(m.n_sensors)}; a fresh model has n_sensors={f.n_sensors}",
                          {"signature": "refit-differs-from-fresh:default-count-after-read-only-calls", "default_case": desc, "index": idx})
        else:
            ctx.nontriv(("default-count", basis, opt, nf1, nf2, tuple(probes)))


def run(ctx: C.Ctx):
    from .. import shapes_static, translate_lifecycle
    shapes_static.run_with_translation(ctx, translate_lifecycle, "Lifecycle", "life-cycle", lambda: _run(ctx),
                                       "regenerated from SSPOR.update_n_basis_modes: the statement tree as written = the machine's three-branch updateModes")


def _run(ctx: C.Ctx):
    default_count_part(ctx, ctx.scale(30, 300))
    rng = ctx.rng
    hs = []
    import glob, json
    for f in sorted(glob.glob(str(C.VERIF / "corpus" / "C15" / "*.json"))):
        h = H.history_from_desc(json.load(open(f))["history"])
        ctx.evaluations += 1
        ctx.count("corpus")
        judge(ctx, h, f)
        hs.append((f, h))
    for idx in range(ctx.scale(220, 3000)):
        # in part of the histories the basis object is also fitted behind the model's back (the prefit workflow, a shared basis) and the
        # model goes through pickle / copy: the next re-ranking must still be that of a fresh model on the basis as it then is
        wide = rng.random() < 0.4
        h = H.gen_history(rng, max_ops=ctx.scale(8, 20), same_shape=rng.random() < 0.3, allow_invalid=rng.random() < 0.5,
                          kinds=("fit", "set", "upd", "upd", "bfit", "copy") if wide else ("fit", "set", "upd"),
                          repeat_bias=0.5 if wide else 0.0)
        ctx.evaluations += 1
        ctx.count(f"{h.basis}/{h.opt}")
        for op in h.ops:
            if op[0] in ("bfit", "copy"):
                ctx.count("op:" + op[0])
        judge(ctx, h, idx)
        hs.append((idx, h))
        ctx.sample({"basis": h.basis, "n_modes": h.n_modes, "opt": h.opt, "shapes": [list(d.shape) for d in h.datasets],
                    "ops": h.describe()["ops"]}, limit=4)
    # mode sweeps across a basis refit that happens OUTSIDE the model (basis.fit on other data – the documented prefit workflow, or a
    # second model sharing the basis object), then the same sweep again: every visit of a mode count ranks the basis as it is then
    for idx in range(ctx.scale(60, 600)):
        h = H.gen_sweep_history(rng)
        basis = h.basis
        ctx.evaluations += 1
        ctx.count("mode_sweep_across_outside_basis_refit:" + basis)
        judge(ctx, h, 2 * 10 ** 6 + idx)
        hs.append((2 * 10 ** 6 + idx, h))
    # short refit histories on re-recorded data of the same shape but another storage type (integers, then floats with
    # fractions; single, then double precision): nothing of the earlier fit – not even its dtype – may survive
    for idx in range(ctx.scale(40, 400)):
        h = H.gen_history(rng, max_ops=2, same_shape=True, allow_invalid=False, kinds=("fit",), basis=rng.choice(["identity", "identity", "svd", "rp"]))
        if len(h.datasets) < 2:
            continue
        ne, nf = h.datasets[0].shape
        d0 = np.array([[rng.randint(-6, 6) for _ in range(nf)] for _ in range(ne)]).astype(rng.choice(["int64", "int32", "float32", "uint8"]))
        d1 = (np.array([[rng.randint(-24, 24) / 4 for _ in range(nf)] for _ in range(ne)])).astype("float64")
        h.datasets = [np.abs(d0) if d0.dtype == np.uint8 else d0, d1] + h.datasets[2:]
        h.ops = [("fit", 0, False, rng.choice([None, 0, 3])), ("fit", 1, False, rng.choice([None, 0, 3]))]
        if rng.random() < 0.3:
            h.ops.append(("set", rng.randint(1, nf), rng.randint(0, 1)))
        ctx.evaluations += 1
        ctx.count("dtype_switch_refit:" + h.basis)
        judge(ctx, h, 10 ** 6 + idx)
        hs.append((10 ** 6 + idx, h))
    def search(idx, h, i):
        # the model and the real object part ways at call i: judge the state right after it (and after one more re-ranking) against
        # the from-scratch reference
        for extra in ([], [("fit", 0, True, 0)]):
            h2 = H.History(h.basis, h.n_modes, h.ctor_ns, h.opt, h.datasets, list(h.ops[: i + 1]) + extra)
            judge(ctx, h2, idx)

    machine_compare(ctx, hs, "C15", search=search)
    optimizer_refits(ctx, ctx.scale(150, 2000))


def replay(ctx: C.Ctx, payload):
    if "default_case" in payload["data"]:
        print("# deterministic case: re-run ./check C15 (default sensor count after read-only calls, refit on another width)")
        return
    d = payload["data"]
    if "history" in d:
        h = H.history_from_desc(d["history"])
        judge(ctx, h, 0)
        machine_compare(ctx, [(0, h)], "C15")
    print("# replayed:", payload.get("what"))
