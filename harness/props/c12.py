"""
C12 — shape constraints return exactly the sensors on the constrained side.

Lean: `Model/Geometry.lean` (closed-shape predicates over ℚ, even–odd polygon rule as written, F-order grid
coordinates, ranking-order filter); theorems in `Props/C12.lean`.  Correspondence: the real Circle / Ellipse /
Cylinder / Parabola / Polygon / Line classes on square image grids and 2-D/3-D dataframes, both `loc` values, random
rankings, dyadic parameters (so the float predicate is exact, boundary points included; for Ellipse and Polygon points
within 1e-9 of the boundary are excluded and counted).  Oracle for the search: exact rational geometry per point.
"""
from __future__ import annotations

import math
from fractions import Fraction

import numpy as np

from .. import common as C

LEVEL = "proof"
RULE = ("shape class × loc × parameters (dyadic; centres on/off grid, radii hitting grid points exactly, Pythagorean "
        "rotations, convex and non-convex polygons, three cylinder axes) × data kind (square image grid / dataframe) × "
        "random ranking; non-trivial when both sides of the shape are populated; distinct by (shape, parameters, loc, data kind)")
TRUSTED = [
    "Lean 4.33 kernel; axioms propext, Classical.choice, Quot.sound",
    "hand-written model Model/Geometry.lean tied to _constraints.py by exact differential testing",
    "numpy unravel_index / pandas .loc return the coordinates they are asked for; cos/sin are accurate to 1e-15",
]
ASSUMPTIONS = ["Polygon: the even–odd rule as written is the specification (its relation to topological interior is not "
               "proved); points on an edge are unspecified and excluded"]

PYTH = [(1, 0), (0, 1), (Fraction(3, 5), Fraction(4, 5)), (Fraction(4, 5), Fraction(3, 5)), (Fraction(-3, 5), Fraction(4, 5)),
        (Fraction(5, 13), Fraction(12, 13)), (Fraction(-4, 5), Fraction(-3, 5)), (0, -1)]


def F(x):
    return C.frac(x)


def gen_case(ctx, rng):
    kind = rng.choice(["circle", "circle", "ellipse", "cylinder", "parabola", "polygon", "line"])
    loc = rng.choice(["in", "out"])
    dq = lambda lo, hi: rng.randint(lo * 8, hi * 8) / 8
    use_df = kind == "cylinder" or rng.random() < 0.4
    if use_df:
        n = rng.randint(4, ctx.scale(20, 40))
        pts = [(dq(-1, 7), dq(-1, 7), dq(-2, 6)) for _ in range(n)]
        if rng.random() < (0.8 if kind == "cylinder" else 0.5):
            pts = [(float(rng.randint(0, 6)), float(rng.randint(0, 6)), float(rng.randint(0, 5))) for _ in range(n)]
        data = {"kind": "df", "pts": pts}
        nsens = n
    else:
        side = rng.randint(2, ctx.scale(7, 9))
        data = {"kind": "grid", "side": side, "rows": rng.randint(1, 3)}
        nsens = side * side
    ranking = list(range(nsens))
    rng.shuffle(ranking)
    if rng.random() < 0.2:
        ranking = ranking[: rng.randint(1, nsens)]
    if kind == "circle":
        p = {"center_x": dq(0, 6), "center_y": dq(0, 6), "radius": rng.choice([dq(0, 4), float(rng.randint(1, 3)), 2.5, 5 / 4 * 2])}
    elif kind == "ellipse":
        c, s = rng.choice(PYTH)
        p = {"center_x": dq(0, 6), "center_y": dq(0, 6), "width": rng.choice([dq(1, 8), 4.0, 2.0]), "height": rng.choice([dq(1, 6), 2.0, 6.0]),
             "angle": math.degrees(math.atan2(float(s), float(c))), "_cs": (str(F(c)), str(F(s)))}
    elif kind == "cylinder":
        p = {"center_x": dq(0, 6), "center_y": dq(0, 6), "center_z": dq(0, 5), "radius": rng.choice([dq(0, 4), 2.0, 3.0]),
             "height": rng.choice([dq(0, 6), 2.0, 4.0]), "axis": rng.choice(["X_axis", "Y_axis", "Z_axis", None])}
        if rng.random() < 0.6:
            # end caps through lattice points (closed shape: points exactly on a cap or on the mantle are inside)
            for kk in ("center_x", "center_y", "center_z"):
                p[kk] = float(rng.randint(0, 5))
            p["height"] = float(rng.choice([2, 4, 6]))
            p["radius"] = float(rng.choice([1, 2, 3, 5]))
    elif kind == "parabola":
        p = {"h": dq(0, 6), "k": dq(-1, 5), "a": rng.choice([dq(-2, 2), 1.0, 0.5, -0.25])}
    elif kind == "polygon":
        m = rng.randint(3, 6)
        if rng.random() < 0.5:
            # star-shaped around a centre (possibly non-convex)
            cx, cy = dq(1, 5), dq(1, 5)
            angs = sorted(rng.random() * 2 * math.pi for _ in range(m))
            vs = [(round((cx + math.cos(a) * rng.randint(1, 4)) * 4) / 4, round((cy + math.sin(a) * rng.randint(1, 4)) * 4) / 4) for a in angs]
        else:
            x0, y0 = dq(-1, 3), dq(-1, 3)
            vs = [(x0, y0), (x0 + rng.randint(1, 5), y0), (x0 + rng.randint(1, 5), y0 + rng.randint(1, 5)), (x0, y0 + rng.randint(1, 5))]
        # the vertex argument is documented as "(N,2) array_like": every container kind must mean the same polygon
        p = {"xy_coords": vs, "_container": rng.choice(["list_of_tuples", "list_of_lists", "tuple_of_tuples", "ndarray", "ndarray"])}
    else:
        p = {"x1": dq(0, 6), "x2": dq(0, 6), "y1": dq(0, 6), "y2": dq(0, 6)}
        loc = None
    rank_dtype = rng.choice(["uint16", "uint32", "uint64", "int32", "uint8", "int16"]) if rng.random() < 0.35 else None
    int_params = rng.random() < (0.75 if (rank_dtype and data["kind"] == "grid") else 0.25)
    if int_params:
        for k_, v_ in list(p.items()):
            if isinstance(v_, float) and k_ not in ("angle", "a"):
                p[k_] = float(max(1, round(v_))) if k_ in ("radius", "width", "height") else float(round(v_))
            elif k_ == "xy_coords":
                p[k_] = [(float(round(a_)), float(round(b_))) for a_, b_ in v_]
    # "the named columns of a dataframe": which column holds which coordinate is the caller's choice – the frame's own names need not
    # be x / y / z, a column NAMED x may hold another axis, and other constraint objects naming other columns may be built in between
    r_ = rng.random()
    if r_ < 0.5:
        axes = None
    elif r_ < 0.75:
        perm = rng.sample(["x", "y", "z"], 3)
        axes = {"x": perm[0], "y": perm[1], "z": perm[2]}
    else:
        axes = {"x": "X_mm", "y": "Y_mm", "z": "Z_mm", "_decoys": True}
    return {"shape": kind, "params": p, "loc": loc, "data": data, "ranking": ranking, "_np_scalars": rng.random() < 0.25,
            "_axes": axes, "_other_objects_built": rng.random() < 0.4,
            "_other_ctor_data": rng.random() < 0.35,
            "_int_params": int_params,
            "_ask_twice": rng.random() < 0.3,
            # the ranked list as other code hands it over: sensor ids are often kept in narrow / unsigned integer arrays
            "_rank_dtype": rank_dtype,
            "_col_order": (rng.sample(["x", "y", "z", "f"], 4) if rng.random() < 0.5 else None)}


def build_data(case):
    import pandas as pd
    d = case["data"]
    if d["kind"] == "grid":
        side = d["side"]
        return np.arange(d["rows"] * side * side, dtype=float).reshape(d["rows"], side * side)
    pts = d["pts"]
    ax = axis_names(case)
    df = pd.DataFrame({ax["x"]: [p[0] for p in pts], ax["y"]: [p[1] for p in pts], ax["z"]: [p[2] for p in pts], "f": [1.0] * len(pts)})
    if (case.get("_axes") or {}).get("_decoys"):
        # normalised coordinates carried along under the plain names: they are not the named axes
        df["x"] = [7.5 - 2 * p[1] for p in pts]
        df["y"] = [p[0] * 3 - 1 for p in pts]
    order = case.get("_col_order")
    if order:
        # the named columns may sit anywhere in the frame
        cols = [{"x": ax["x"], "y": ax["y"], "z": ax["z"], "f": "f"}[c] for c in order] + [c for c in df.columns if c not in (ax["x"], ax["y"], ax["z"], "f")]
        df = df[cols]
    return df


def axis_names(case):
    a = case.get("_axes") or {}
    return {"x": a.get("x", "x"), "y": a.get("y", "y"), "z": a.get("z", "z")}


def coords_of(case, s):
    d = case["data"]
    if d["kind"] == "grid":
        return (Fraction(s % d["side"]), Fraction(s // d["side"]), Fraction(0))
    p = d["pts"][s]
    return (F(p[0]), F(p[1]), F(p[2]))


def run_real(case):
    import pysensors.utils as U
    data = build_data(case)
    kw = {"data": data}
    if case["data"]["kind"] == "df":
        ax = axis_names(case)
        kw.update({"X_axis": ax["x"], "Y_axis": ax["y"], "Field": "f"})
        if case["shape"] == "cylinder":
            kw["Z_axis"] = ax["z"]
    p = {k: v for k, v in case["params"].items() if not k.startswith("_")}
    cont = case["params"].get("_container")
    if cont == "list_of_lists":
        p["xy_coords"] = [list(v) for v in p["xy_coords"]]
    elif cont == "tuple_of_tuples":
        p["xy_coords"] = tuple(tuple(v) for v in p["xy_coords"])
    elif cont == "ndarray":
        p["xy_coords"] = np.array([list(v) for v in p["xy_coords"]], dtype=float)
    # whole-number parameters written as Python ints (Circle(3, 4, 2) is how people type them): same numbers, another type –
    # arithmetic between them and integer-typed coordinates must still be the arithmetic of the numbers
    if case.get("_int_params"):
        def as_int(v):
            if isinstance(v, float) and v.is_integer():
                return int(v)
            if isinstance(v, (list, tuple)):
                return type(v)(as_int(w) for w in v)
            return v
        p = {k: (as_int(v) if not isinstance(v, np.ndarray) and k != "angle" else v) for k, v in p.items()}
        if isinstance(p.get("xy_coords"), np.ndarray) and np.all(p["xy_coords"] == np.round(p["xy_coords"])):
            p["xy_coords"] = p["xy_coords"].astype(int)
    # scalar parameters as numpy scalars now and then (same numbers)
    if case.get("_np_scalars"):
        p = {k: (np.float64(v) if isinstance(v, float) else (np.int64(v) if isinstance(v, int) and not isinstance(v, bool) else v))
             for k, v in p.items()}
    cls = {"circle": U.Circle, "ellipse": U.Ellipse, "cylinder": U.Cylinder, "parabola": U.Parabola, "polygon": U.Polygon, "line": U.Line}[case["shape"]]
    if case["shape"] == "cylinder":
        ax = p.pop("axis")
        if ax is not None:
            kw["axis"] = ax
    if case["loc"] is not None:
        p["loc"] = case["loc"]
    if case.get("_other_ctor_data"):
        # the shape object was built for another survey of the same kind (other coordinates / other snapshots); the
        # coordinates that count are those of the data handed to get_constraint_indices
        if case["data"]["kind"] == "df":
            other = data.copy()
            for col in axis_names(case).values():
                other[col] = other[col] * 2 + 3
        else:
            other = np.flipud(np.vstack([data, data])) + 1.0
        kw = dict(kw, data=other)
    obj = cls(**p, **kw)
    if case.get("_other_objects_built") and case["data"]["kind"] == "df":
        # the usual multi-constraint workflow: all constraint objects are built first (each naming its own columns), then each is asked
        ax = axis_names(case)
        try:
            U.Circle(center_x=1.0, center_y=2.0, radius=1.5, loc="out", data=data, X_axis=ax["z"], Y_axis=ax["x"], Field="f")
            U.Line(x1=0.0, x2=1.0, y1=0.0, y2=2.0, data=data, X_axis=ax["y"], Y_axis=ax["z"], Field="f")
            if case["shape"] != "cylinder":
                U.Cylinder(center_x=0.0, center_y=0.0, center_z=0.0, radius=1.0, height=1.0, loc="in", axis="X_axis", data=data,
                           X_axis=ax["y"], Y_axis=ax["z"], Z_axis=ax["x"], Field="f")
            else:
                U.Parabola(h=0.0, k=0.0, a=1.0, loc="in", data=data, X_axis=ax["y"], Y_axis=ax["x"], Field="f")
        except Exception:
            pass
    rk = np.array(case["ranking"])
    dt = case.get("_rank_dtype")
    if dt and (not len(rk) or int(rk.max()) <= np.iinfo(dt).max):
        rk = rk.astype(dt)
    if case.get("_ask_twice") and len(rk) >= 2:
        # the same constraint object is first asked about an older ranking held in the very array (and with the very data object) that is
        # then refreshed in place: the answer must be about the array's contents at the time of the call
        target = rk.copy()
        rk[:] = target[::-1]
        try:
            obj.get_constraint_indices(rk, data)
        except Exception:
            pass
        rk[:] = target
    idx, rank = obj.get_constraint_indices(rk, data)
    return [int(i) for i in idx]


def exact_side(case, s):
    """(constrained?, margin) by exact rational geometry – independent oracle. margin None = exact decision."""
    x, y, z = coords_of(case, s)
    p = case["params"]
    k = case["shape"]
    margin = None
    if k == "circle":
        inside = (x - F(p["center_x"])) ** 2 + (y - F(p["center_y"])) ** 2 <= F(p["radius"]) ** 2
    elif k == "cylinder":
        cx, cy, cz, r, h = (F(p[n]) for n in ("center_x", "center_y", "center_z", "radius", "height"))
        ax = p["axis"] or "Z_axis"
        if ax == "Z_axis":
            inside = (x - cx) ** 2 + (y - cy) ** 2 <= r * r and cz - h / 2 <= z <= cz + h / 2
        elif ax == "Y_axis":
            inside = (x - cx) ** 2 + (z - cz) ** 2 <= r * r and cy - h / 2 <= y <= cy + h / 2
        else:
            inside = (y - cy) ** 2 + (z - cz) ** 2 <= r * r and cx - h / 2 <= x <= cx + h / 2
    elif k == "parabola":
        inside = F(p["a"]) * (x - F(p["h"])) ** 2 <= y - F(p["k"])
    elif k == "ellipse":
        c, s_ = (Fraction(v) for v in p["_cs"])
        dx, dy = x - F(p["center_x"]), y - F(p["center_y"])
        u, v = dx * c + dy * s_, -dx * s_ + dy * c
        a, b = F(p["width"]) / 2, F(p["height"]) / 2
        if a == 0 or b == 0:
            return None, 0
        val = u * u / (a * a) + v * v / (b * b)
        inside = val <= 1
        margin = abs(val - 1)
    elif k == "polygon":
        vs = [(F(a), F(b)) for a, b in p["xy_coords"]]
        inside = False
        margin = Fraction(10)
        for i in range(len(vs)):
            (x1, y1), (x2, y2) = vs[i], vs[(i + 1) % len(vs)]
            if (y1 < y <= y2) or (y2 < y <= y1):
                xc = x1 + (y - y1) / (y2 - y1) * (x2 - x1)
                margin = min(margin, abs(xc - x))
                if xc < x:
                    inside = not inside
            # vertices / horizontal edges through the point: on an edge → unspecified
            if min(y1, y2) <= y <= max(y1, y2) and min(x1, x2) <= x <= max(x1, x2):
                if (x2 - x1) * (y - y1) == (y2 - y1) * (x - x1):
                    margin = Fraction(0)
    else:  # line: strictly right of the directed line (x1,y1) → (x2,y2)
        cross = (y - F(p["y1"])) * (F(p["x2"]) - F(p["x1"])) - (F(p["y2"]) - F(p["y1"])) * (x - F(p["x1"]))
        return cross < 0, None
    con = inside if case["loc"] == "in" else not inside
    return con, margin


def lean_request(case):
    p = case["params"]
    k = case["shape"]
    r = C.enc_rat
    if case["data"]["kind"] == "grid":
        coords = f"grid {case['data']['side']} {C.enc_nats(case['ranking'])}"
    else:
        pts = case["data"]["pts"]
        coords = "pts " + str(len(case["ranking"])) + " " + " ".join(f"{s} {r(pts[s][0])} {r(pts[s][1])} {r(pts[s][2])}" for s in case["ranking"])
    if k == "line":
        return f"line {r(p['x1'])} {r(p['x2'])} {r(p['y1'])} {r(p['y2'])} {coords}"
    if k == "circle":
        sh = f"circle {r(p['center_x'])} {r(p['center_y'])} {r(p['radius'])}"
    elif k == "cylinder":
        sh = f"cylinder {r(p['center_x'])} {r(p['center_y'])} {r(p['center_z'])} {r(p['radius'])} {r(p['height'])} {(p['axis'] or 'Z_axis')[0]}"
    elif k == "parabola":
        sh = f"parabola {r(p['h'])} {r(p['k'])} {r(p['a'])}"
    elif k == "ellipse":
        sh = f"ellipse {r(p['center_x'])} {r(p['center_y'])} {r(p['width'])} {r(p['height'])} {p['_cs'][0]} {p['_cs'][1]}"
    else:
        vs = p["xy_coords"]
        sh = f"polygon {len(vs)} " + " ".join(f"{r(a)} {r(b)}" for a, b in vs)
    return f"shape {sh} {case['loc']} {coords}"


def judge(ctx, case, real, model, idx):
    ranking = case["ranking"]
    amb = set()
    want = []
    for s in ranking:
        con, margin = exact_side(case, s)
        if con is None:
            return
        if margin is not None and margin < Fraction(1, 10 ** 9):
            amb.add(s)
            continue
        if con:
            want.append(s)
    if amb:
        ctx.count("ambiguous_boundary_points_excluded", len(amb))
    got = [s for s in real if s not in amb]
    mod = [s for s in model if s not in amb]
    if mod != want:
        raise C.HarnessError(f"Lean geometry model {mod} disagrees with the exact oracle {want} on {case}")
    if got != want:
        kind = "order" if sorted(got) == sorted(want) else "set"
        ctx.violation("concrete",
                      f"{case['shape']}(loc={case['loc']}): constrained indices {got}, sensors on the constrained side (in ranking order) are {want}",
                      {"signature": f"shape-indices:{case['shape'].capitalize()}:{case['loc']}", "case": case, "observed": real, "required": want,
                       "difference": kind, "index": idx})
        return
    if 0 < len(want) < len(ranking) - len(amb):
        ctx.nontriv((case["shape"], case["loc"], case["data"]["kind"], C.jsonable(case["params"]).__repr__()))


def run(ctx: C.Ctx):
    rng = ctx.rng
    from .. import shapes_static
    offenders, table = shapes_static.static_part(ctx)
    n_before = len(ctx.violations)
    _dynamic(ctx, rng)
    if offenders:
        why = {t["site"]: t.get("why") for t in table if not t["found"]}
        names = ", ".join("shape_" + o + (f" (untranslatable: {why[o]})" if why.get(o) else "") for o in offenders)
        if any(v.kind == "concrete" for v in ctx.violations[n_before:]):
            ctx.notes.append("generated shape theorems that no longer check: " + names)
        else:
            ctx.violation("no-failing-input-found",
                          "generated shape theorem(s) no longer check: " + names + " – the differential run on the real shapes found no wrong answer",
                          {"signature": "shape-obligation:" + offenders[0], "offenders": offenders, "why": why},
                          broken="theorem(s) " + ", ".join("PsVerif.Gen.shape_" + o for o in offenders) + " (PsVerif/Generated/Shapes.lean, regenerated "
                                 "from pysensors/utils/_constraints.py)")


def _dynamic(ctx, rng):
    cases, reals = [], []
    for idx in range(ctx.scale(260, 5000)):
        case = gen_case(ctx, rng)
        ctx.evaluations += 1
        ctx.count(f"{case['shape']}/{case['loc']}/{case['data']['kind']}")
        try:
            real = run_real(case)
        except Exception as e:
            ctx.violation("concrete", f"{case['shape']}(loc={case['loc']}).get_constraint_indices raised {type(e).__name__}: {e}",
                          {"signature": f"shape-raises:{case['shape']}", "case": case, "index": idx})
            continue
        cases.append((idx, case))
        reals.append(real)
        ctx.sample({"shape": case["shape"], "loc": case["loc"], "params": {k: v for k, v in case["params"].items()}, "data": case["data"]["kind"],
                    "ranking": case["ranking"][:12], "constrained": real[:12]}, limit=4)
    resp = ctx.driver.ask([lean_request(c) for _, c in cases])
    for (idx, case), real, rp in zip(cases, reals, resp):
        ctx.impl_traces += 1
        if not rp.startswith("ok"):
            raise C.HarnessError("geometry driver: " + rp)
        judge(ctx, case, real, [int(x) for x in rp.split()[1:]], idx)
    # in/out partition on the same shape
    for idx in range(ctx.scale(140, 1200)):
        case = gen_case(ctx, rng)
        if case["loc"] is None:
            continue
        ctx.evaluations += 1
        nan_rows = set()
        if case["data"]["kind"] == "df" and case["shape"] != "polygon" and rng.random() < 0.6:
            # surveys have holes: a sensor whose position was not recorded (NaN coordinate) still is ONE sensor – 'in' and 'out' must
            # put it on exactly one side (which one is not specified)
            pts = [list(p) for p in case["data"]["pts"]]
            for srow in rng.sample(range(len(pts)), min(len(pts), rng.randint(1, 2))):
                pts[srow][rng.randrange(2)] = float("nan")
                nan_rows.add(srow)
            case = {**case, "data": {"kind": "df", "pts": [tuple(p) for p in pts]}}
            ctx.count("partition_with_unrecorded_positions")
        try:
            a = run_real({**case, "loc": "in"})
            b = run_real({**case, "loc": "out"})
        except Exception:
            continue
        amb = {s for s in case["ranking"] if s not in nan_rows and (exact_side({**case, "loc": "in"}, s)[1] or 1) < Fraction(1, 10 ** 9)}
        if amb:
            continue
        if sorted(a + b) != sorted(case["ranking"]) or set(a) & set(b):
            ctx.violation("concrete", f"{case['shape']}: 'in' {a} and 'out' {b} do not partition the sensors {sorted(case['ranking'])}",
                          {"signature": f"shape-partition:{case['shape']}", "case": case, "index": idx})


def replay(ctx: C.Ctx, payload):
    case = payload["data"]["case"]
    case["data"]["pts"] = [tuple(p) for p in case["data"].get("pts", [])] if case["data"]["kind"] == "df" else None
    if case["shape"] == "polygon":
        case["params"]["xy_coords"] = [tuple(v) for v in case["params"]["xy_coords"]]
    real = run_real(case)
    rp = ctx.driver.ask1(lean_request(case))
    judge(ctx, case, real, [int(x) for x in rp.split()[1:]], 0)
    print("# replayed:", real)
