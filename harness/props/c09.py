"""
C09 — classifier predictions match the most recent fit or sensor update.

Lean: SSPOC state machine (`Model/Sspoc.lean`) with ghost state "what the classifier was last trained on";
theorem `dispatch_consistent` (Props/C09.lean): after every history the dispatch of `predict` matches the
classifier's training.  Correspondence: histories on the real SSPOC vs the machine (n_sensors, selection, dispatch)
after every call.  Oracle for the search: predictions vs `sklearn.base.clone(classifier)` trained from scratch on the
selected sensor columns / basis coordinates.
"""
from __future__ import annotations

import numpy as np

from .. import common as C
from .. import models
from .. import sspoc_hist as S

LEVEL = "proof"
RULE = ("histories of 1–8 (thorough 1–20) calls from {fit(refit=T/F), update_sensors(n | threshold, xy), "
        "update_n_basis_modes(k, xy, refit)} on binary and multiclass data, all bases; after every call predictions are "
        "compared with a freshly trained clone; non-trivial when the history contains a fit(refit=False) after a refit or "
        "an update that changes the selection; distinct by (basis, classes, op sequence)")
TRUSTED = [
    "Lean 4.33 kernel; axioms propext, Classical.choice, Quot.sound",
    "hand-written machine Model/Sspoc.lean tied to SSPOC by history differential (n_sensors, selection, dispatch)",
    "LinearDiscriminantAnalysis is deterministic: a clone trained on the same columns predicts the same labels",
    "DummyClassifier(strategy='stratified') returns training labels (checked on each sample)",
]
ASSUMPTIONS = ["update_sensors is exercised with training data (xy) as the property states; calls without xy after a refit "
               "leave the classifier on the old selection by design and are not judged"]


def gen_history(ctx, rng):
    ncls = rng.choice([2, 2, 3])
    X, y = models.gen_classification(rng, n_classes=ncls, n_features=rng.randint(3, ctx.scale(7, 9)), per_class=rng.randint(5, 8))
    nf = X.shape[1]
    basis = rng.choice(models.BASIS_KINDS)
    nm = None if basis == "identity" else rng.randint(2, min(X.shape[0], nf))
    mode = rng.choice(["n", "thr", "default"])
    ctor_ns = rng.randint(0, nf) if mode == "n" else None
    ctor_thr = rng.choice([0, 0.05, 0.5, 1000.0]) if mode == "thr" else None
    tri = lambda p: (None if rng.random() < 0.35 else rng.random() < p)     # None: keyword not passed (default refit=True)
    ops = [("fit", tri(0.6))]
    for _ in range(rng.randint(0, ctx.scale(7, 19))):
        r = rng.random()
        if r < 0.3:
            ops.append(("fit", tri(0.5)))
        elif r < 0.6:
            ops.append(("upd", rng.randint(0, nf), None, True, "max"))
        elif r < 0.85:
            ops.append(("upd", None, rng.choice([0, 0.01, 0.1, 1.0, 1000.0]), True, "max"))
        else:
            k = rng.randint(2, nm if nm else min(X.shape))
            ops.append(("updm", k, tri(0.5)))
    return S.SHistory(basis, nm, ctor_ns, ctor_thr, X, y, ops)


def check_history(ctx, h, idx):
    from sklearn.base import clone
    labels = set(h.y.tolist())
    problems = []

    def after(model, i, op, status):
        if problems or not hasattr(model, "sensor_coef_") or status != "ok":
            return
        sel = np.array(model.sparse_sensors_).astype(int)
        ns = model.n_sensors
        X, y = h.X, h.y
        if ns == 0:
            try:
                p = np.asarray(model.predict(X[:, sel]))
            except Exception as e:
                problems.append((i, "zero-sensors-predict-raises", f"with zero sensors predict(x[:, selected]) raised {type(e).__name__}: {e}"))
                return
            if p.shape != (len(X),) or not set(p.tolist()) <= labels:
                problems.append((i, "zero-sensors-invalid-labels", f"with zero sensors predict returned {p.tolist()[:8]}… (shape {p.shape})"))
            return
        had_xy = (op[0] == "fit" and op[1] is not False) or (op[0] == "upd" and op[3]) or (op[0] == "updm" and op[2] is not False)
        if had_xy:
            # sensor-column predictions vs a fresh clone trained only on those columns
            try:
                got = np.asarray(model.predict(X[:, sel]))
            except Exception as e:
                problems.append((i, "stale-refit-flag", f"predict on the selected sensor columns raised {type(e).__name__}: {e}"))
                return
            ref = clone(model.classifier).fit(X[:, sel], y).predict(X[:, sel])
            if not np.array_equal(got, ref):
                problems.append((i, "stale-classifier", "predictions from the selected sensors differ from a fresh classifier trained on those columns"))
        else:
            # fit that skipped refitting: full-state predictions vs classifier trained on basis coordinates
            Z = X @ model.basis_matrix_inverse_.T
            try:
                got = np.asarray(model.predict(X))
            except Exception as e:
                problems.append((i, "stale-refit-flag", f"after a fit that skips refitting, predict on full-state data raised {type(e).__name__}: {e}"))
                return
            ref = clone(model.classifier).fit(Z, y).predict(Z)
            if not np.array_equal(got, ref):
                problems.append((i, "stale-refit-flag", "after a fit that skips refitting, full-state predictions differ from the classifier trained on basis coordinates"))

    model, out = S.run_real(h, after_op=after)
    if problems:
        i, sig, msg = problems[0]
        ctx.violation("concrete", f"SSPOC call {i} {h.ops[i]}: {msg}",
                      {"signature": sig, "history": h.describe(), "call": i, "index": idx})
        return None
    kinds = [op[0] + (str(op[1]) if op[0] == "fit" else "") for op in h.ops]
    if any(a == "fitTrue" and b == "fitFalse" for a, b in zip(kinds, kinds[1:])) or len([o for o in out if o[0] == "ok"]) >= 3:
        ctx.nontriv((h.basis, len(labels), tuple(kinds)))
    return out


def relabel_part(ctx, count):
    """the same model trained again on another problem (other label names, other number of classes): with zero sensors it still
    answers with labels of the MOST RECENT training set, after any number of predictions in between"""
    from pysensors.classification import SSPOC
    rng = ctx.rng
    for idx in range(count):
        ncls = rng.choice([2, 3])
        X, y = models.gen_classification(rng, n_classes=ncls, n_features=rng.randint(3, 7), per_class=rng.randint(5, 8))
        basis = rng.choice(models.BASIS_KINDS)
        nm = None if basis == "identity" else rng.randint(2, min(X.shape))
        relabel = rng.choice(["shifted", "strings", "fewer_classes"])
        if relabel == "shifted":
            y2 = y + 10
        elif relabel == "strings":
            y2 = np.array(["ant", "bee", "cat", "dog"])[y]
        else:
            y2 = np.where(y == y.max(), y.min(), y) + 20
            if len(set(y2.tolist())) < 2:
                y2 = y + 20
        how = rng.choice(["fit", "update_n_basis_modes"])
        desc = {"X": X.tolist(), "y": y.tolist(), "y2": y2.tolist(), "basis": basis, "n_modes": nm, "second_training": how}
        ctx.evaluations += 1
        ctx.count("relabelled_refit:" + relabel + "/" + how)
        try:
            model = SSPOC(basis=models.make_basis(basis, nm), n_sensors=0)
            model.fit(X.copy(), y.copy(), quiet=True)
            p1 = np.asarray(model.predict(X[:, []]))
            if how == "fit":
                model.fit(X.copy(), y2.copy(), quiet=True)
            else:
                k = rng.randint(2, nm if nm else min(X.shape))
                model.update_n_basis_modes(k, (X.copy(), y2.copy()), quiet=True)
            model.update_sensors(n_sensors=0, xy=(X.copy(), y2.copy()), quiet=True)
            p2 = np.asarray(model.predict(X[:, []]))
        except Exception as e:
            ctx.count("relabelled_refit_raises:" + type(e).__name__)
            continue
        ok1 = p1.shape == (len(X),) and set(p1.tolist()) <= set(y.tolist())
        ok2 = p2.shape == (len(X),) and set(p2.tolist()) <= set(y2.tolist())
        if not (ok1 and ok2):
            ctx.violation("concrete", f"zero sensors: after training on labels {sorted(set(y2.tolist()))} (earlier: {sorted(set(y.tolist()))}) predict "
                                      f"returns {p2.tolist()[:6]}…",
                          {"signature": "zero-sensors-invalid-labels", "relabel_case": desc, "index": idx})
        else:
            ctx.nontriv(("relabel", basis, relabel, how))


def two_models_part(ctx, count):
    """several models alive at once, each built with the defaults: training one of them must not change what another predicts"""
    from pysensors.classification import SSPOC
    from sklearn.base import clone
    rng = ctx.rng
    for idx in range(count):
        Xa, ya = models.gen_classification(rng, n_classes=rng.choice([2, 3]), n_features=rng.randint(3, 7), per_class=rng.randint(5, 8))
        Xb, yb = models.gen_classification(rng, n_classes=rng.choice([2, 3]), n_features=rng.choice([Xa.shape[1], rng.randint(3, 7)]), per_class=rng.randint(5, 8))
        ctx.evaluations += 1
        ctx.count("two_default_models")
        try:
            A = SSPOC(n_sensors=rng.randint(1, Xa.shape[1]))
            Bm = SSPOC(n_sensors=rng.randint(1, Xb.shape[1]))
            A.fit(Xa.copy(), ya.copy(), quiet=True)
            selA = np.array(A.selected_sensors).astype(int)
            before = np.asarray(A.predict(Xa[:, selA]))
            Bm.fit(Xb.copy(), yb.copy(), quiet=True)
            if rng.random() < 0.5:
                Bm.update_sensors(n_sensors=1, xy=(Xb.copy(), yb.copy()), quiet=True)
            after = np.asarray(A.predict(Xa[:, selA]))
            ref = clone(A.classifier).fit(Xa[:, selA], ya).predict(Xa[:, selA])
        except Exception as e:
            ctx.violation("concrete", f"model A fails after another default-constructed model was trained: {type(e).__name__}: {e}",
                          {"signature": "stale-classifier:shared-between-models", "Xa": Xa.tolist(), "ya": ya.tolist(), "Xb": Xb.tolist(), "yb": yb.tolist(), "index": idx})
            continue
        if not np.array_equal(before, after) or not np.array_equal(after, ref):
            ctx.violation("concrete", "training a second default-constructed SSPOC changed the predictions of the first (its classifier is no longer "
                                      "the one of its own most recent fit)",
                          {"signature": "stale-classifier:shared-between-models", "Xa": Xa.tolist(), "ya": ya.tolist(), "Xb": Xb.tolist(), "yb": yb.tolist(), "index": idx})
        else:
            ctx.nontriv(("two-models", Xa.shape, Xb.shape))


def run(ctx: C.Ctx):
    from .. import shapes_static, translate_classification
    shapes_static.run_with_translation(ctx, translate_classification, "Classification", "classification-pipeline", lambda: _run(ctx),
                                       "regenerated from SSPOC.predict / fit / update_sensors: dispatch = Sspoc.predictKind, training data, solver calls, refit block")


def _run(ctx: C.Ctx):
    relabel_part(ctx, ctx.scale(30, 300))
    two_models_part(ctx, ctx.scale(20, 200))
    rng = ctx.rng
    todo = []
    import glob, json
    for f in sorted(glob.glob(str(C.VERIF / "corpus" / "C09" / "*.json"))):
        h = S.from_desc(json.load(open(f))["history"])
        ctx.evaluations += 1
        out = check_history(ctx, h, f)
        if out is not None:
            rq = S.to_request(h, out)
            if rq:
                todo.append((f, h, out, rq))
    n_random = ctx.scale(90, 1500)
    n_default_kw = ctx.scale(30, 300)
    for idx in range(n_random + n_default_kw):
        h = gen_history(ctx, rng)
        if idx >= n_random:
            # short histories around the DEFAULT of the `refit` keyword: a model fitted with refit=False (or never fitted), then
            # calls that do not mention the keyword at all – they must refit on the selected sensors (documented default)
            nm_hi = h.n_modes if h.n_modes else min(h.X.shape)
            k = rng.randint(2, max(2, nm_hi))
            pat = rng.choice([[("fit", False), ("updm", k, None)], [("updm", k, None)], [("fit", False), ("fit", None)],
                              [("fit", False), ("upd", rng.randint(1, h.X.shape[1]), None, True, "max"), ("updm", k, None)],
                              [("fit", None), ("updm", k, False), ("updm", k, None)]])
            h = S.SHistory(h.basis, h.n_modes, h.ctor_ns, h.ctor_thr, h.X, h.y, list(pat))
            ctx.count("default_refit_keyword_history")
        ctx.evaluations += 1
        ctx.count(f"{h.basis}/{'multi' if len(set(h.y.tolist())) > 2 else 'binary'}")
        out = check_history(ctx, h, idx)
        if out is None:
            continue
        rq = S.to_request(h, out)
        if rq is None:
            ctx.count("skipped_threshold_within_rounding_of_a_magnitude")
            continue
        todo.append((idx, h, out, rq))
        ctx.sample({"basis": h.basis, "classes": len(set(h.y.tolist())), "ops": [[repr(v) for v in op] for op in h.ops],
                    "dispatch": [o[1].get("kind") for o in out]}, limit=4)
    resp = ctx.driver.ask([t[3] for t in todo])
    for (idx, h, out, rq), rp in zip(todo, resp):
        ctx.impl_traces += 1
        mo = S.parse_model(rp)
        d = S.compare(h, out, mo, None)
        if d is not None:
            i, key, msg = d
            ctx.violation("no-failing-input-found", f"SSPOC vs Lean machine: call {i} {h.ops[i]}: {key}: {msg}",
                          {"signature": f"sspoc-machine:{key}", "history": h.describe(), "call": i, "index": idx},
                          broken=f"correspondence Model/Sspoc.lean ↔ SSPOC ({key}); theorem dispatch_consistent is about the model")
        elif not all(m["consistent"] for m in mo):
            raise C.HarnessError("Lean machine reports an inconsistent state although dispatch_consistent is proved")


def replay(ctx: C.Ctx, payload):
    if "Xa" in payload["data"]:
        print("# deterministic case: re-run ./check C09 (two default-constructed models)")
        return
    if "relabel_case" in payload["data"]:
        from pysensors.classification import SSPOC
        d = payload["data"]["relabel_case"]
        X, y, y2 = np.array(d["X"], dtype=float), np.array(d["y"]), np.array(d["y2"])
        model = SSPOC(basis=models.make_basis(d["basis"], d["n_modes"]), n_sensors=0).fit(X.copy(), y.copy(), quiet=True)
        model.predict(X[:, []])
        if d["second_training"] == "fit":
            model.fit(X.copy(), y2.copy(), quiet=True)
        else:
            model.update_n_basis_modes(2, (X.copy(), y2.copy()), quiet=True)
        model.update_sensors(n_sensors=0, xy=(X.copy(), y2.copy()), quiet=True)
        p2 = np.asarray(model.predict(X[:, []]))
        if not set(p2.tolist()) <= set(y2.tolist()):
            ctx.violation("concrete", f"zero sensors: predict returns {p2.tolist()[:6]}… after training on labels {sorted(set(y2.tolist()))}",
                          {"signature": "zero-sensors-invalid-labels", "relabel_case": d})
        print("# replayed:", payload.get("what"))
        return
    h = S.from_desc(payload["data"]["history"])
    out = check_history(ctx, h, 0)
    print("# replayed:", payload.get("what"), [o[0] for o in (out or [])])
