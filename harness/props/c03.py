"""
C03 — the default ranking follows the greedy max-residual (pivoted QR) rule.

Lean: exact Gram/Schur model (`Model/Gram.lean`), theorems in `Props/C03.lean`.
Correspondence: the real pivot trace of QR / CCQR() / GQR() / SSPOR is replayed through the exact model
(ε-acceptance with a per-step budget, DESIGN §3); per-step float residual norms tapped from CCQR/GQR must equal
the exact Schur diagonal.  Oracle for the search: explicit Gram–Schmidt residuals in Fractions.
"""
from __future__ import annotations

import numpy as np

from .. import common as C
from .. import gen, greedy, models, oracles
from ..opt import OptCase

LEVEL = "proof"
RULE = ("matrix kinds × shapes × {QR, CCQR(), GQR(), SSPOR(basis, QR)}; non-trivial when the exact model judged at "
        "least one step whose choice is not position 0 of the candidates; distinct by (optimizer, shape, trace)")
TRUSTED = [
    "Lean 4.33 kernel; axioms propext, Classical.choice, Quot.sound",
    "hand-written exact model Model/Gram.lean tied to the code by ε-acceptance of real pivot traces and per-step norm taps",
    "LAPACK geqp3: chooses a column of maximal residual norm (its output is judged on every sample)",
    "IEEE-754 rounding is not modelled: pivots are judged with per-step budget 1e-12·max(scale·max(1, scale/ρ_min), |cost|max) (DESIGN §3); steps after a (near-)zero exact pivot "
    "whose float residual is non-zero are not judged (counted as truncated)",
]
ASSUMPTIONS = [
    "inputs are integers / dyadic rationals so Fraction(x) is exact",
    "the Householder step is related to the Schur step by theorem householder-free algebra (schur = MGS deflation); "
    "the float Householder code itself is tied by the per-step tap, not by proof",
]


def _handle_judgment(ctx, case, res, J, idx, label):
    ctx.impl_traces += 1
    if not J.domain:
        return
    if J.truncated_at is not None:
        ctx.count("truncated")
    if any(o != 0 for o in res["offsets"][: J.judged]):
        ctx.nontriv((label, case.B.shape, tuple(res["offsets"])))
    if J.rejected_step is not None:
        masks = greedy.model_masks(ctx, case, res)
        confirmed, info = greedy.oracle_confirms(case, res, J, masks)
        if not confirmed:
            raise C.HarnessError(f"Lean model rejects step {J.rejected_step} but the independent oracle accepts: {case.describe()}")
        v = J.verdicts[J.rejected_step]
        ctx.violation(
            "concrete",
            f"{label}: step {J.rejected_step} ranks sensor {v['chosen']} (residual² {v['n2']}) although another unranked "
            f"sensor has a larger residual (ranking {res['ranking']})",
            {"signature": f"greedy-rule:{label}", "case": case.describe(), "observed": res["ranking"],
             "step": J.rejected_step, "required": "pick within the step budget (1e-12·scale·conditioning) of the maximal residual norm", "index": idx, **info})
        return
    if J.norm_mismatch is not None:
        j, pos, f, e = J.norm_mismatch
        ctx.violation(
            "no-failing-input-found",
            f"{label}: tapped residual norm at step {j} candidate {pos} is {f}, exact model says {e}",
            {"signature": f"norm-tap:{label}", "case": case.describe(), "step": j, "float": f, "exact": e, "index": idx},
            broken="correspondence Schur diagonal ↔ trailing-block column norms (theorem schur_diag_eq_mgs)")


def _matrix_cases(ctx, rng, count):
    items = []
    for idx in range(count):
        B, mk = gen.gen_matrix(rng, max_n=ctx.scale(9, 20), max_m=ctx.scale(7, 14))
        if rng.random() < 0.12:
            # nearly low rank: the residual norms fall by 2^e after r picks and must still be those of the trailing block
            n_, m_ = rng.randint(5, ctx.scale(9, 16)), rng.randint(4, ctx.scale(7, 12))
            r_ = rng.randint(1, min(n_, m_) - 2)
            B = gen.gen_generic_matrix(rng, n_, r_, -4, 4) @ gen.gen_generic_matrix(rng, r_, m_, -4, 4) \
                + gen.gen_generic_matrix(rng, n_, m_) * 2.0 ** -rng.choice([24, 30, 36, 44])
            mk = "nearly_low_rank"
        which = rng.choice(["qr", "ccqr0", "ccqrz", "gqr0"])
        if which == "qr":
            case = OptCase(B, "qr", meta={"mk": mk})
        elif which == "ccqr0":
            case = OptCase(B, "ccqr", costs=None, meta={"mk": mk})
        elif which == "ccqrz":
            case = OptCase(B, "ccqr", costs=np.zeros(B.shape[0]), meta={"mk": mk})
        else:
            case = OptCase(B, "gqr", gqr={}, meta={"mk": mk})
        if which != "qr" and "*2^" not in mk and rng.random() < 0.25:        # (not on top of gen_matrix's own extreme units: squares must fit the type)
            # the same matrix stored in a narrower floating type and in other units (powers of two keep it exact): half-precision
            # snapshots of 8-bit intensities (entries ≥ 256: their squares leave the half-precision range), tiny amplitudes
            dt = rng.choice(["float16", "float16", "float32"])
            e = rng.choice([0, 8, 8, -13] if dt == "float16" else [0, 20, -20])
            Bs = B * 2.0 ** e
            if np.all(np.isfinite(Bs.astype(dt))) and np.array_equal(Bs.astype(dt).astype(float), Bs):
                case = OptCase(Bs, case.kind, costs=case.costs, gqr=case.gqr, meta={"mk": mk, "dtype": dt})
                ctx.count(f"basis_dtype:{dt}·2^{e}")
        items.append((idx, which, case))
    return items


def run(ctx: C.Ctx):
    from .. import shapes_static, translate_householder
    shapes_static.run_with_translation(ctx, translate_householder, "Householder", "Householder-loop", lambda: _run(ctx),
                                       "regenerated from CCQR.fit / qr_reflector / GQR.fit: pivot rule, reflector steps (denoting `reflector`), order of the array operations")


def _run(ctx: C.Ctx):
    rng = ctx.rng
    # ---- optimizers on explicit basis matrices ------------------------------------------
    todo = []
    for idx, which, case in _matrix_cases(ctx, rng, ctx.scale(300, 6000)):
        ctx.evaluations += 1
        ctx.count("opt:" + which)
        ctx.count("matrix:" + case.meta["mk"])
        res = case.run_real()
        if not gen.is_perm(res["ranking"], res["n"]) or res.get("offsets") is None:
            ctx.violation("concrete", f"{which}: ranking {res['ranking']} is not a permutation",
                          {"signature": "not-a-permutation", "case": case.describe(), "observed": res["ranking"], "index": idx})
            continue
        todo.append((idx, which, case, res))
        ctx.sample({"optimizer": which, "B": case.B.tolist(), "ranking": res["ranking"]}, limit=3)
    Js = greedy.judge_batch(ctx, [(c, r) for _, _, c, r in todo])
    for (idx, which, case, res), J in zip(todo, Js):
        _handle_judgment(ctx, case, res, J, idx, which)
    # ---- consequences: independence of the leading rows; agreement of the three optimizers ----
    for idx in range(ctx.scale(120, 2000)):
        B, mk = gen.gen_matrix(rng, max_n=ctx.scale(8, 16), max_m=ctx.scale(6, 12))
        n, m = B.shape
        ctx.evaluations += 1
        runs = {}
        for which, case in (("qr", OptCase(B, "qr")), ("ccqr", OptCase(B, "ccqr")), ("gqr", OptCase(B, "gqr"))):
            runs[which] = (case, case.run_real())
        FB = oracles.fmat(B)
        r = oracles.rank_of(FB)
        for which, (case, res) in runs.items():
            lead = res["ranking"][:r]
            if oracles.rank_of([FB[i] for i in lead]) != r if r > 0 else False:
                # only a finding if the exact model also says the choices were clear of ties by the budget
                J = greedy.judge_batch(ctx, [(case, res)])[0]
                if J.truncated_at is None or J.truncated_at >= r:
                    ctx.violation("concrete", f"{which}: first {r} ranked rows {lead} of a rank-{r} matrix are dependent",
                                  {"signature": f"leading-rows-dependent:{which}", "case": case.describe(), "observed": res["ranking"],
                                   "required": f"rows {lead} linearly independent", "index": idx})
        Jq = greedy.judge_batch(ctx, [runs["qr"]])[0]
        if Jq.domain and Jq.verdicts:
            # leading steps on which the exact greedy choice is unique by more than the budget
            uniq_upto = 0
            for v in Jq.verdicts:
                if not v["uniq"]:
                    break
                uniq_upto += 1
            lead = {w: runs[w][1]["ranking"][:uniq_upto] for w in runs}
            if uniq_upto and not (lead["qr"] == lead["ccqr"] == lead["gqr"]):
                ctx.violation("concrete", f"QR / CCQR() / GQR() disagree on uniquely determined leading sensors: {lead}",
                              {"signature": "unconstrained-optimizers-disagree", "case": {"B": B.tolist()}, "observed": lead,
                               "required": "identical leading sensors where the greedy choice is unique", "index": idx})
            if uniq_upto:
                ctx.nontriv(("agree", B.shape, tuple(lead["qr"])))
    # ---- SSPOR: leading sensors are this ranking of its own basis matrix ----------------------
    from pysensors.optimizers import CCQR, GQR, QR
    from pysensors.reconstruction import SSPOR
    todo = []
    for idx in range(ctx.scale(120, 2000)):
        bk = rng.choice(models.BASIS_KINDS)
        X, xk = models.gen_training(rng, max_ex=ctx.scale(7, 12), max_feat=ctx.scale(9, 16))
        ne, nf = X.shape
        nm = rng.randint(1, models.admissible_modes(bk, ne, nf))
        ok = rng.choice(["qr", "ccqr", "gqr"])
        opt = {"qr": QR, "ccqr": CCQR, "gqr": GQR}[ok]()
        ctx.evaluations += 1
        ctx.count(f"sspor:{bk}/{ok}")
        try:
            bobj = models.make_basis(bk, nm)
            model = SSPOR(basis=bobj, optimizer=opt).fit(X.copy(), quiet=True, seed=rng.randint(0, 99))
            r_ = rng.random()
            if r_ > 0.75 and bk != "identity" or (r_ > 0.75 and nm is not None):
                # the basis is refitted OUTSIDE the model on other data of the same shape, then the model is told to re-rank on the
                # fitted basis (prefit_basis=True): the ranking is that of the basis matrix as it is now
                X2 = np.array([[rng.randint(-6, 6) for _ in range(nf)] for _ in range(ne)], dtype=float)
                try:
                    bobj.fit(X2.copy())
                    model.fit(X2.copy(), quiet=True, prefit_basis=True, seed=rng.randint(0, 99))
                    ctx.count("sspor:basis_refitted_outside_then_prefit")
                except ValueError:
                    pass
            elif r_ < 0.3:
                # one basis object shared by several models (one model per fold / per sensor budget): a later model trained on other
                # data of the same shape must not reach into this model's own basis matrix
                X2 = np.array([[rng.randint(-6, 6) for _ in range(nf)] for _ in range(ne)], dtype=float)
                try:
                    SSPOR(basis=bobj, optimizer={"qr": QR, "ccqr": CCQR, "gqr": GQR}[ok]()).fit(X2, quiet=True, seed=1)
                    ctx.count("sspor:basis_object_shared_with_a_later_model")
                except ValueError:
                    pass
            if rng.random() < 0.35:
                # the cheap re-ranking on the first k modes, then the model is stored and loaded again / copied (pickle, deepcopy, copy):
                # what comes back pairs the same ranking with the same basis matrix
                from .. import sspor_hist as H
                if rng.random() < 0.7 and int(model.basis_matrix_.shape[1]) > 1:
                    model.update_n_basis_modes(rng.randint(1, int(model.basis_matrix_.shape[1]) - 1), quiet=True)
                    ctx.count("sspor:fewer_modes_without_basis_refit")
                how = rng.choice(H.COPY_KINDS)
                model = H.copy_model(model, how)
                ctx.count("sspor:judged_on_a_copy:" + how)
        except ValueError:
            ctx.count("sspor_rejected")
            continue
        Bm = np.array(model.basis_matrix_, dtype=float)
        if not np.all(np.isfinite(Bm)):
            continue
        ranking = np.array(model.ranked_sensors_).tolist()
        k = min(Bm.shape)
        if not gen.is_perm(ranking, nf):
            ctx.violation("concrete", "SSPOR ranking is not a permutation",
                          {"signature": "not-a-permutation", "case": {"X": X.tolist(), "basis": bk, "n_modes": nm, "opt": ok}, "observed": ranking})
            continue
        case = OptCase(Bm, "qr", meta={"sspor": {"X": X.tolist(), "basis": bk, "n_modes": nm, "opt": ok}})
        offs, _ = gen.offsets_from_ranking(ranking, nf, k)
        todo.append((idx, f"sspor-{bk}-{ok}", case, {"ranking": ranking, "offsets": offs, "n": nf, "m": Bm.shape[1], "k": k}))
    Js = greedy.judge_batch(ctx, [(c, r) for _, _, c, r in todo])
    for (idx, label, case, res), J in zip(todo, Js):
        _handle_judgment(ctx, case, res, J, idx, label)


def replay(ctx: C.Ctx, payload):
    d = payload["data"]
    cd = d.get("case", {})
    if "kind" in cd:
        case = OptCase.from_desc(cd)
        if "sspor" in (case.meta or {}):
            print("# SSPOR replay: re-run ./check C03 with the same seed; basis matrix recorded in the replay file")
        res = case.run_real()
        J = greedy.judge_batch(ctx, [(case, res)])[0]
        _handle_judgment(ctx, case, res, J, d.get("index", 0), case.kind)
    print("# replayed:", payload.get("what"))
