"""
C07 — reconstruction is the least-squares fit of the measurements in the basis.

Lean: `Model/Recon.lean` + theorems in `Props/C07.lean` (normal equations ⇒ least-squares optimal; independent rows
⇒ interpolation; unique solution ⇒ linear map; shape calculus).  Correspondence: real `predict` on measurement
arrays in and out of the span, 1-D and 2-D, n_sensors below / equal / above n_modes, against the exact model within
a conditioning budget, plus span residual, normal-equation residual, superposition and shapes.
"""
from __future__ import annotations

from fractions import Fraction

import numpy as np

from .. import common as C
from .. import recon

LEVEL = "proof"
RULE = ("fitted SSPOR × n_sensors ∈ {below, equal, above n_modes} × measurement arrays (random dyadic, in-span, zero; "
        "1-D and batches); non-trivial when the measurements are not in the span of the sensor rows (a genuine "
        "least-squares problem) or n_sensors < n_modes (minimum-norm); distinct by (basis, optimizer, shape, n_sensors, "
        "batch shape)")
TRUSTED = [
    "Lean 4.33 kernel; axioms propext, Classical.choice, Quot.sound",
    "certifying exact solver Model/Recon.lean",
    "LAPACK gesv / gelsd contract: solution / minimum-norm least-squares solution; rounding budgeted by κ",
]
ASSUMPTIONS = ["rounding clause validated numerically; rank-deficient sensor rows (neither full row nor column rank) are "
               "checked through normal equations and superposition only"]


def check(ctx, fm, idx):
    rng = ctx.rng
    model, B, desc = fm["model"], fm["B"], fm["desc"]
    n, m = B.shape
    ranking = np.array(model.get_all_sensors()).tolist()
    choices = sorted({1, max(1, m - 1), m, min(n, m + 1), n} & set(range(1, n + 1)))
    for ns in choices:
        S = ranking[:ns]
        M = B[S, :]
        model.set_number_of_sensors(ns)
        batch = rng.choice([1, 2, 3])
        kind = rng.choice(["random", "random", "in_span", "zero"])
        if kind == "random":
            Y = np.array([[rng.randint(-16, 16) / 4 for _ in range(ns)] for _ in range(batch)])
        elif kind == "in_span":
            Y = np.array([[rng.randint(-8, 8) / 2 for _ in range(m)] for _ in range(batch)]) @ B.T[:, S]
        else:
            Y = np.zeros((batch, ns))
        if kind != "zero" and rng.random() < 0.2:
            # the units of the measurements are arbitrary: reconstruction is homogeneous (powers of two keep everything exact)
            e = rng.choice([-60, -40, -30, -27, 30, 60])
            Y = Y * 2.0 ** e
            ctx.count("meas_scaled_2^%d" % e)
        ctx.evaluations += 1
        ctx.count("relation:" + ("below" if ns < m else "equal" if ns == m else "above"))
        ctx.count("meas:" + kind)
        kap = recon.kappa(M)
        rk = np.linalg.matrix_rank(M)
        full = rk == min(M.shape)
        try:
            P = np.asarray(model.predict(Y))
        except Exception as e:
            if ns == m and not full:
                ctx.count("singular_square_system_raises(" + type(e).__name__ + ")")
                continue
            ctx.violation("concrete", f"predict raised {type(e).__name__}: {e} (n_sensors={ns}, n_modes={m})",
                          {"signature": "predict-raises", "case": desc, "n_sensors": ns, "Y": Y.tolist(), "index": idx})
            return
        sig_base = {"case": desc, "n_sensors": ns, "Y": Y.tolist(), "ranking": ranking, "index": idx}
        # shapes
        if P.shape != (batch, n):
            ctx.violation("concrete", f"a batch of {batch} samples gives an array of shape {P.shape}, expected {(batch, n)}",
                          {"signature": "predict-shape", **sig_base})
            return
        # a reconstruction handed to the caller is a value: later calls on other measurements of the same shape must not change it
        # (a result living in a work buffer the model re-uses stops being the least-squares fit of ITS measurements, and
        # predict(a), predict(b), predict(a+b) held together are no longer a linear family)
        P_held = P.copy()
        Y_other = Y + (np.max(np.abs(Y)) if np.any(Y) else 1.0) * np.array(
            [[rng.choice([-2, -1, 0.5, 1, 3]) for _ in range(ns)] for _ in range(batch)])
        try:
            P_other = np.asarray(model.predict(Y_other))
            model.predict(Y_other[0])
        except Exception:
            P_other = None
        if not np.array_equal(P, P_held, equal_nan=True) or (P_other is not None and np.shares_memory(P, P_other)):
            ctx.violation("concrete", "a reconstruction returned earlier changed when predict was called again with other "
                          "measurements of the same shape (results share a buffer)",
                          {"signature": "predict-result-aliased", **sig_base, "Y_other": Y_other.tolist()})
            return
        ctx.count("held_result_checked")
        # 1-D input = one-row batch
        p1 = np.asarray(model.predict(Y[0]))
        pb = np.asarray(model.predict(Y[0:1]))
        if p1.shape != (n,) or pb.shape != (1, n) or not np.array_equal(p1, pb[0], equal_nan=True):
            ctx.violation("concrete", f"1-D measurement vector and the same vector as a one-row batch differ (shapes {p1.shape}, {pb.shape})",
                          {"signature": "predict-1d-vs-row", **sig_base})
            return
        if not np.all(np.isfinite(P)) or not kap < recon.KAPPA_HARD or not full:
            ctx.count("skipped_numeric(ill-conditioned or rank-deficient sensor rows)")
            continue
        # Budgets, purely relative (nothing in a linear reconstruction singles out magnitude 1).  c* and ρ come from an
        # independent solve, never from the prediction under test.
        #  · BACKWARD quantities – what a backward-stable solver guarantees whatever the conditioning: the residual at the sensors
        #    M·c − y (interpolation when n_sensors ≤ n_modes), the normal equations Mᵀ(M·c − y), membership of the span:
        #    budget k·eps·(‖M‖·‖c*‖ + ‖y‖).
        #  · FORWARD quantities – the reconstruction itself against the exact model, linearity: k·eps·κ(M)·(1 + κ(M)·ρ)·‖B‖·‖c*‖,
        #    judged only while that is below 5 % of ‖B‖·‖c*‖.
        # (first version: one tolerance 1e-7·(1+|y|)·κ², κ ≤ 1e6 – blind to a solver that drops singular values below √eps and,
        #  through the "1 +", to anything that happens to tiny measurements)
        cs, *_ = np.linalg.lstsq(M, Y.T, rcond=None)
        cnorm = float(np.max(np.abs(cs))) if cs.size else 0.0
        ymax = float(np.max(np.abs(Y)))
        rho = 0.0 if (ns <= m or ymax == 0) else float(np.max(np.abs(M @ cs - Y.T))) / ymax
        Mn, Bn = float(np.linalg.norm(M, 2)), float(np.linalg.norm(B, 2))
        kdim = max(M.shape) * max(1, batch)
        tol_back = recon.BUD * kdim * (Mn * cnorm + ymax)
        rel = recon.BUD * kap * (1 + kap * rho) * kdim
        forward_ok = rel <= 5e-2
        # forward bound of a backward-stable least-squares solve: eps·k·(κ·‖c*‖ + κ²·‖residual‖/‖M‖) in the coefficients.  The second
        # term is absolute in the measurements, NOT relative to ‖c*‖: measurements almost orthogonal to the range of the sensor rows give
        # a tiny c* by cancellation (seed 7 of the session-4 sweep: y·M = −15 + 15 + 1e-5) – the first version multiplied both terms by
        # ‖c*‖ and raised a false alarm on a reconstruction that was correct to 7e-11 of a 5e-6-sized answer
        resid_abs = rho * ymax
        tol = recon.BUD * kdim * Bn * (kap * cnorm + (kap ** 2) * resid_abs / max(Mn, 1e-300))
        if not forward_ok:
            ctx.count("forward_comparison_skipped(budget too large)")
        if kap > 1e6:
            ctx.count("judged_ill_conditioned(κ>1e6)")
        # span: P rows are B c for some c
        Cc, *_ = np.linalg.lstsq(B, P.T, rcond=None)
        span_res = float(np.max(np.abs(B @ Cc - P.T)))
        if span_res > recon.BUD * max(B.shape) * float(np.max(np.abs(P))) * max(1.0, recon.kappa(B)):
            ctx.violation("concrete", f"reconstruction is not in the span of the basis (residual {span_res:.3e})",
                          {"signature": "predict-not-in-span", **sig_base})
            return
        # residual at the sensors
        if ns <= m:
            ierr = float(np.max(np.abs(P[:, S] - Y)))
            if ierr > tol_back:
                ctx.violation("concrete", f"measurements at {ns} ≤ {m} independent sensors are not interpolated (error {ierr:.3e}, κ={kap:.1e})",
                              {"signature": "predict-not-interpolating", **sig_base})
                return
        else:
            res = M.T @ (P[:, S].T - Y.T)
            if float(np.max(np.abs(res))) > tol_back * Mn * (1 + kap * rho):
                ctx.violation("concrete", f"normal equations at the selected sensors are violated (κ={kap:.1e})",
                              {"signature": "predict-normal-equations", **sig_base})
                return
        # exact model (full row or column rank): least-squares / min-norm solution
        if forward_ok:
            Yq = [[C.frac(Y[b, s]) for b in range(batch)] for s in range(ns)]
            R = recon.exact_predict(ctx, B, S, Yq) if (m <= 4 or desc["basis"] == "identity") else None
            if R is not None:
                ctx.impl_traces += 1
                Rf = np.array([[float(R[i][b]) for i in range(n)] for b in range(batch)])
                err = float(np.max(np.abs(Rf - P)))
                if err > tol:
                    what = "exact interpolation" if ns <= m else "least-squares fit"
                    ctx.violation("concrete",
                                  f"reconstruction differs from the exact {what} by {err:.3e} (n_sensors={ns}, n_modes={m}, κ={kap:.1e})",
                                  {"signature": "predict-not-least-squares", **sig_base, "exact": [[str(v) for v in r] for r in R]})
                    return
            # linearity
            if batch >= 2:
                al, be = rng.choice([2, -1, 0.5]), rng.choice([1, 3, -0.25])
                lhs = np.asarray(model.predict(al * Y[0] + be * Y[1]))
                rhs = al * P[0] + be * P[1]
                if float(np.max(np.abs(lhs - rhs))) > tol * 10:
                    ctx.violation("concrete", "predict is not linear in the measurements",
                                  {"signature": "predict-not-linear", **sig_base, "alpha": al, "beta": be})
                    return
        if kind == "random" and ns != m:
            ctx.nontriv((desc["basis"], desc["opt"], (n, m), ns, batch))
        elif ns < m:
            ctx.nontriv((desc["basis"], desc["opt"], (n, m), ns, batch, kind))
    ctx.sample({"basis": desc["basis"], "opt": desc["opt"], "shape": [n, m], "n_sensors_tried": choices}, limit=4)


def run(ctx: C.Ctx):
    from .. import shapes_static, translate_recon
    shapes_static.run_with_translation(ctx, translate_recon, "Recon", "reconstruction-formula", lambda: _run(ctx),
                                       "regenerated from SSPOR.predict / _square_predict / _rectangular_predict: dispatch and formulas = predictExact")


def _run(ctx: C.Ctx):
    rng = ctx.rng
    # user-supplied bases with non-orthonormal modes (every sensor count from n_modes up to ALL locations is judged)
    for idx in range(ctx.scale(15, 150)):
        fm = recon.gen_custom_model(ctx, rng)
        if fm is None:
            continue
        ctx.count("custom_non_orthonormal_basis")
        check(ctx, fm, 3 * 10 ** 6 + idx)
    for idx in range(ctx.scale(100, 1500)):
        fm = recon.gen_model(ctx, rng, want_tall=rng.random() < 0.8)
        if fm is None:
            ctx.count("fit_rejected")
            continue
        ctx.count(f"{fm['desc']['basis']}/{fm['desc']['opt']}")
        check(ctx, fm, idx)
    # ill-conditioned but full-rank sensor matrices (training examples of very different amplitude, Identity / RandomProjection
    # bases keep that grading): the solver must keep the weak directions
    for idx in range(ctx.scale(25, 300)):
        fm = recon.gen_model(ctx, rng, bases=["identity", "identity", "rp"], opts=["qr"], want_tall=True, force_graded=True)
        if fm is None:
            continue
        ctx.count("graded:" + fm["desc"]["basis"])
        check(ctx, fm, 10 ** 6 + idx)


def replay(ctx: C.Ctx, payload):
    fm = recon.rebuild(payload["data"]["case"])
    check(ctx, fm, 0)
    print("# replayed:", payload.get("what"))
