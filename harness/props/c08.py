"""
C08 — classification sensors are the top-magnitude sensors, or those above threshold.

Lean: `Model/Selection.lean` (topN / threshSel / defaultThreshSel / aggregation) and the SSPOC machine
(`Model/Sspoc.lean`); theorems in `Props/C08.lean`.  Correspondence: histories of fit / update_sensors on the real
SSPOC with real and injected (exact dyadic, ties, zeros, boundary-equal thresholds) coefficient arrays vs the Lean
machine, selections compared canonically (multiset of magnitudes).  Oracle for the search: the selection laws
recomputed from `sensor_coef_` in exact arithmetic.
"""
from __future__ import annotations

from fractions import Fraction

import numpy as np

from .. import common as C
from .. import models
from .. import sspoc_hist as S

LEVEL = "proof"
RULE = ("histories fit + 1–6 (thorough 1–14) update_sensors calls (n_sensors in [0, n_features], thresholds incl. 0, exact "
        "boundary values and midpoints, methods max/mean/min/median) on binary and multiclass data, all bases, with the "
        "solvers' real output and with injected dyadic coefficient arrays; non-trivial when a selection is neither empty "
        "nor everything; distinct by (basis, classes, injected?, op sequence, selections)")
TRUSTED = [
    "Lean 4.33 kernel; axioms propext, Classical.choice, Quot.sound",
    "hand-written models Model/Selection.lean, Model/Sspoc.lean tied to SSPOC.update_sensors by history differential",
    "np.argsort returns a permutation that sorts (order of equal magnitudes free); the aggregation callable is a parameter, "
    "its four documented instances are compared with the model on exact inputs",
    "scikit-learn OMP / MultiTaskLasso / LDA are parameters (their output is the coefficient array the selection reads)",
]
ASSUMPTIONS = ["magnitudes of injected arrays are dyadic so |·|, max, min and ≥ are float-exact; default-threshold cases "
               "with a magnitude within 1e-9 (relative) of the threshold are skipped and counted"]


def gen_history(ctx, rng):
    ncls = rng.choice([2, 2, 3, 4])
    X, y = models.gen_classification(rng, n_classes=ncls, n_features=rng.randint(3, ctx.scale(7, 10)))
    nf = X.shape[1]
    basis = rng.choice(models.BASIS_KINDS)
    nm = None if basis == "identity" else rng.randint(2, min(X.shape[0], nf))
    mode = rng.choice(["n", "thr", "default", "both"])
    ctor_ns = rng.randint(0, nf) if mode in ("n", "both") else None
    ctor_thr = rng.choice([0, 0.01, 0.25, 1.0]) if mode in ("thr", "both") else None
    inject = None
    if rng.random() < 0.5:
        vals = [0, 0, 0.25, 0.5, 0.5, 1, -1, 1.5, -2, 3]
        if ncls == 2:
            inject = np.array([rng.choice(vals) for _ in range(nf)], dtype=float)
        else:
            inject = np.array([[rng.choice(vals) for _ in range(ncls)] for _ in range(nf)], dtype=float)
    ops = [("fit", rng.random() < 0.7)]
    for _ in range(rng.randint(1, ctx.scale(6, 14))):
        method = "max" if ncls == 2 else rng.choice(["max", "max", "mean", "min", "median"])
        r = rng.random()
        if r < 0.45:
            ops.append(("upd", rng.randint(0, nf), None, rng.random() < 0.5, method))
        elif r < 0.9:
            ops.append(("upd", None, ("TAU", rng.random()), rng.random() < 0.5, method))   # resolved against the magnitudes at run time
        elif r < 0.93:
            ops.append(("upd", nf + rng.randint(1, 3), None, False, method))
        elif r < 0.96:
            how = rng.choice(["labels_one_short", "nan_measurement", "single_class"])
            if rng.random() < 0.6:
                ops.append(("updbad", rng.randint(0, nf), None, method, how))
            else:
                ops.append(("updbad", None, rng.choice([0.0, 0.25, 0.5, 1.0]), method, how))
        else:
            ops.append(("fit", rng.random() < 0.5))
    return S.SHistory(basis, nm, ctor_ns, ctor_thr, X, y, ops, inject)


def resolve_thresholds(h, ctx):
    """replace symbolic thresholds by concrete values derived from the current magnitudes: an exact magnitude
    (boundary), a midpoint between two distinct magnitudes, 0, or above the maximum"""
    from pysensors.classification import SSPOC
    probe = S.SHistory(h.basis, h.n_modes, None, 0, h.X, h.y, [("fit", False)], h.inject)
    try:
        model, _ = S.run_real(probe)
    except Exception:
        return False
    if not hasattr(model, "sensor_coef_"):
        return False
    ops = []
    for op in h.ops:
        if op[0] == "upd" and isinstance(op[2], tuple):
            mag = sorted(set(float(v) for v in S.mags_of(model, op[4])))
            u = op[2][1]
            pick = mag[int(u * 997) % len(mag)]
            if u < 0.12:
                tau = 0.0
            elif u < 0.4 or len(mag) < 2:
                tau = pick                                              # exact boundary: `>=` vs `>` decided
            elif u < 0.52:
                tau = float(np.nextafter(pick, np.inf))                 # one ulp above a magnitude: that sensor is out
            elif u < 0.6:
                tau = float(np.nextafter(pick, -np.inf)) if pick > 0 else 0.0   # one ulp below: that sensor is in
            elif u < 0.68:
                tau = [1e-10, 1e-300, 5e-324, 1e-8][int(u * 9973) % 4]   # tiny positive thresholds: zeros stay out
            elif u < 0.9:
                i = int(u * 997) % (len(mag) - 1)
                tau = (mag[i] + mag[i + 1]) / 2
                if not (mag[i] < tau < mag[i + 1]):
                    tau = mag[i]
            else:
                tau = mag[-1] * 2 + 1
            ops.append(("upd", None, float(tau), op[3], op[4]))
        else:
            ops.append(op)
    h.ops = ops
    return True


def oracle(ctx, h, real_out, idx):
    """selection laws recomputed from sensor_coef_ (independent of the Lean model)"""
    prev_by_n = None
    for i, (op, (status, obs)) in enumerate(zip(h.ops, real_out)):
        if op[0] == "updbad" and obs.get("fitted"):
            # whether the refit went through or the classifier refused the data, the reported count is the number of selected sensors
            ctx.count("update_with_refused_refit_data:" + ("accepted" if status == "ok" else status))
            sel = obs["sel"]
            if obs["ns"] != len(sel) or len(set(sel)) != len(sel):
                ctx.violation("concrete", f"SSPOC call {i} {op} ({status}): n_sensors={obs['ns']} but {len(sel)} sensors selected ({sel})",
                              {"signature": "selection-law:n_sensors-not-count-after-refused-refit", "history": h.describe(), "call": i, "index": idx})
                return False
            prev_by_n = None
            continue
        if status != "ok" or not obs.get("fitted"):
            prev_by_n = None if op[0] in ("fit", "updm") else prev_by_n
            continue
        mag = [C.frac(v) for v in obs["mag"]]
        sel = obs["sel"]
        nf = len(mag)
        base = {"history": h.describe(), "call": i, "observed": {"sel": sel, "ns": obs["ns"]}, "magnitudes": [str(m) for m in mag], "index": idx}
        bad = None
        if len(set(sel)) != len(sel) or any(not (0 <= s < nf) for s in sel):
            bad = ("selection-invalid", f"selected sensors {sel} are not distinct valid indices")
        elif obs["ns"] != len(sel):
            bad = ("n_sensors-not-count", f"n_sensors={obs['ns']} but {len(sel)} sensors selected")
        else:
            by_n = (op[0] == "upd" and op[1] is not None) or (op[0] in ("fit", "updm") and _fit_uses_n(h, i, real_out))
            thr = _effective_threshold(h, i, op, real_out)
            if by_n:
                n = obs["ns"]
                ms = [mag[s] for s in sel]
                rest = [mag[j] for j in range(nf) if j not in sel]
                if any(ms[k] < ms[k + 1] for k in range(len(ms) - 1)):
                    bad = ("topn-not-nonincreasing", f"selected magnitudes {[str(m) for m in ms]} are not in non-increasing order")
                elif ms and rest and max(rest) > min(ms):
                    bad = ("topn-not-largest", f"an unselected sensor has magnitude {max(rest)} > selected {min(ms)}")
                if op[0] == "upd" and prev_by_n is not None and bad is None:
                    a, b = (prev_by_n, sel) if len(prev_by_n) <= len(sel) else (sel, prev_by_n)
                    if prev_by_n[1] == op[4] and b[: len(a[0] if isinstance(a, tuple) else a)] != (a[0] if isinstance(a, tuple) else a):
                        pass
            elif thr is not None:
                want = [j for j in range(nf) if mag[j] >= C.frac(thr)]
                if sorted(sel) != want:
                    bad = ("threshold-set", f"threshold {thr}: selected {sorted(sel)}, sensors with magnitude ≥ threshold are {want}")
        if bad:
            ctx.violation("concrete", f"SSPOC call {i} {op}: {bad[1]}", {"signature": "selection-law:" + bad[0], **base})
            return False
        if 0 < len(sel) < nf:
            ctx.nontriv((h.basis, len(set(h.y.tolist())), h.inject is not None, i, tuple(sel)))
    return True


def _fit_uses_n(h, i, real_out):
    """whether the fit at op i selected by n_sensors: self.n_sensors was not None when fit ran"""
    if i == 0:
        return h.ctor_ns is not None
    prev = real_out[i - 1][1]
    return prev.get("fitted") and prev.get("ns") is not None or h.ctor_ns is not None


def _effective_threshold(h, i, op, real_out):
    if op[0] == "upd":
        return op[2]
    if i == 0 and h.ctor_ns is None and h.ctor_thr is not None:
        return h.ctor_thr
    return None


def metamorphic(ctx, h, idx):
    """prefix / antitone / threshold-0 laws on one fitted model"""
    rng = ctx.rng
    probe = S.SHistory(h.basis, h.n_modes, None, 0, h.X, h.y, [("fit", False)], h.inject)
    model, out = S.run_real(probe)
    if out[0][0] != "ok":
        return
    nf = len(out[0][1]["mag"])
    ctx.evaluations += 1
    if sorted(out[0][1]["sel"]) != list(range(nf)):
        ctx.violation("concrete", f"threshold 0 selects {out[0][1]['sel']} instead of every sensor",
                      {"signature": "selection-law:threshold-zero", "history": probe.describe(), "index": idx})
        return
    n1, n2 = sorted([rng.randint(0, nf), rng.randint(0, nf)])
    model.update_sensors(n_sensors=n2, quiet=True)
    big = np.array(model.selected_sensors).tolist()
    model.update_sensors(n_sensors=n1, quiet=True)
    small = np.array(model.selected_sensors).tolist()
    if big[:n1] != small:
        ctx.violation("concrete", f"n_sensors={n1} gives {small}, not a prefix of the selection {big} for n_sensors={n2}",
                      {"signature": "selection-law:prefix", "history": probe.describe(), "n": [n1, n2], "index": idx})
        return
    mags = sorted(set(float(v) for v in S.mags_of(model)))
    t1, t2 = sorted([rng.choice(mags), rng.choice(mags) * rng.choice([1, 1.5])])
    model.update_sensors(threshold=t1, quiet=True)
    lo = set(np.array(model.selected_sensors).tolist())
    model.update_sensors(threshold=t2, quiet=True)
    hi = set(np.array(model.selected_sensors).tolist())
    if not hi <= lo:
        ctx.violation("concrete", f"raising the threshold {t1} → {t2} added sensors {sorted(hi - lo)}",
                      {"signature": "selection-law:threshold-antitone", "history": probe.describe(), "thresholds": [t1, t2], "index": idx})


def aggregation_differential(ctx, count):
    rng = ctx.rng
    reqs, wants = [], []
    for _ in range(count):
        k = rng.randint(1, 6)
        row = [rng.randint(-16, 16) / 4 for _ in range(k)]
        m = rng.choice(list(S.METHODS))
        reqs.append(f"agg {m} {C.enc_rats(row)}")
        wants.append((m, row, float(S.METHODS[m](np.abs(np.array([row])), axis=1)[0])))
    for rq, rp, (m, row, w) in zip(reqs, ctx.driver.ask(reqs), wants):
        ctx.evaluations += 1
        got = float(Fraction(rp.split()[1])) if rp.startswith("ok") else None
        if got is None or abs(got - w) > 1e-12:
            ctx.violation("no-failing-input-found", f"aggregation {m}{row}: numpy {w} vs Lean aggRow {got}",
                          {"signature": "aggregation-correspondence", "method": m, "row": row},
                          broken="correspondence aggRow ↔ numpy max/mean/min/median")


def default_threshold_part(ctx, count):
    """a fresh model fitted with neither n_sensors nor threshold selects by the documented default ‖s‖_F / (2·r·c);
    coefficient arrays are drawn so that some magnitudes lie just below and some above that value (a formula that is off
    by a modest factor changes the selection)"""
    rng = ctx.rng
    for idx in range(count):
        ncls = rng.choice([2, 3, 3, 4])
        X, y = models.gen_classification(rng, n_classes=ncls, n_features=rng.randint(4, ctx.scale(8, 11)))
        nf = X.shape[1]
        basis = rng.choice(models.BASIS_KINDS)
        nm = None if basis == "identity" else rng.randint(2, min(X.shape[0], nf))
        probe = S.SHistory(basis, nm, None, None, X, y, [("fit", False)], None)
        try:
            pm, pout = S.run_real(probe)
            r = pout[0][1].get("r")
        except Exception:
            continue
        if not r:
            continue
        inject = None
        for _ in range(60):
            # sensor weights spanning several octaves (exactly representable)
            s_ = np.array([[rng.randint(-8, 8) / 8 * 2.0 ** -rng.randint(0, 6) for _ in range(1 if ncls == 2 else ncls)] for _ in range(nf)], dtype=float)
            if ncls == 2:
                s_ = s_[:, 0]
            mag = np.abs(s_) if s_.ndim == 1 else np.max(np.abs(s_), axis=1)
            t = float(np.sqrt(np.sum(s_ ** 2))) / (2 * r * ncls)
            if t > 0 and np.any((mag >= 0.55 * t) & (mag < 0.97 * t)) and np.any(mag > 1.03 * t):
                inject = s_
                break
        if inject is None:
            ctx.count("default_threshold:no_sensitive_array")
            continue
        h = S.SHistory(basis, nm, None, None, X, y, [("fit", rng.random() < 0.5)], inject)
        ctx.evaluations += 1
        ctx.count("default_threshold:" + ("binary" if ncls == 2 else "multi"))
        try:
            model, out = S.run_real(h)
        except Exception as e:
            raise C.HarnessError(f"history execution failed: {e!r}")
        status, obs = out[0]
        if status != "ok" or not obs.get("fitted"):
            continue
        want = S.default_selection(obs["coef"], obs.get("r"), obs.get("c"))
        if want is None:
            ctx.count("skipped_threshold_within_rounding_of_a_magnitude")
            continue
        if sorted(obs["sel"]) != want:
            ctx.violation("concrete", f"default fit ({ncls} classes, {obs.get('r')} modes) selects {sorted(obs['sel'])}; sensors whose magnitude "
                                      f"reaches ‖s‖_F/(2rc) are {want}",
                          {"signature": "selection-law:default-threshold", "history": h.describe(), "observed": sorted(obs["sel"]), "required": want,
                           "index": idx})
        elif 0 < len(want) < nf:
            ctx.nontriv(("default-threshold", basis, ncls, tuple(want)))


def run(ctx: C.Ctx):
    from .. import shapes_static, translate_selection
    shapes_static.run_with_translation(ctx, translate_selection, "Selection", "sensor-selection", lambda: _run(ctx),
                                       "regenerated from SSPOC.update_sensors / SSPOC.fit: selections = topN / threshSel, stored count, default threshold")


def _run(ctx: C.Ctx):
    rng = ctx.rng
    default_threshold_part(ctx, ctx.scale(40, 500))
    todo = []
    for idx in range(ctx.scale(110, 1800)):
        h = gen_history(ctx, rng)
        if not resolve_thresholds(h, ctx):
            ctx.count("probe_fit_failed")
            continue
        ctx.evaluations += 1
        ctx.count(f"{h.basis}/{'multi' if len(set(h.y.tolist())) > 2 else 'binary'}/{'injected' if h.inject is not None else 'solver'}")
        try:
            model, out = S.run_real(h)
        except Exception as e:
            raise C.HarnessError(f"history execution failed: {e!r}")
        if not oracle(ctx, h, out, idx):
            continue
        rq = S.to_request(h, out)
        if rq is None:
            ctx.count("skipped_threshold_within_rounding_of_a_magnitude")
        else:
            todo.append((idx, h, out, rq))
        ctx.sample({"basis": h.basis, "classes": len(set(h.y.tolist())), "injected": None if h.inject is None else np.asarray(h.inject).tolist(),
                    "ops": [[repr(v) for v in op] for op in h.ops], "selections": [o[1].get("sel") for o in out]}, limit=3)
        if idx % 4 == 0:
            metamorphic(ctx, h, idx)
    resp = ctx.driver.ask([t[3] for t in todo])
    for (idx, h, out, rq), rp in zip(todo, resp):
        ctx.impl_traces += 1
        d = S.compare(h, out, S.parse_model(rp), "no-dispatch")
        if d is not None:
            i, key, msg = d
            ctx.violation("no-failing-input-found", f"SSPOC vs Lean machine: call {i} {h.ops[i]}: {key}: {msg}",
                          {"signature": f"sspoc-machine:{key}", "history": h.describe(), "call": i, "index": idx},
                          broken=f"correspondence Model/Sspoc.lean + Selection.lean ↔ SSPOC.update_sensors ({key})")
    aggregation_differential(ctx, ctx.scale(200, 3000))


def replay(ctx: C.Ctx, payload):
    d = payload["data"]
    if "history" in d:
        h = S.from_desc(d["history"])
        model, out = S.run_real(h)
        oracle(ctx, h, out, 0)
        rq = S.to_request(h, out)
        if rq:
            dd = S.compare(h, out, S.parse_model(ctx.driver.ask1(rq)), "no-dispatch")
            if dd:
                ctx.violation("no-failing-input-found", f"machine mismatch {dd}", {"signature": f"sspoc-machine:{dd[1]}", "history": d["history"]}, broken="sspoc machine")
    print("# replayed:", payload.get("what"))
