"""
C04 — cost-constrained ranking maximises (residual norm − cost) at every step.

Lean: `ccqrModel` = greedy run with score √G[a][a] − c_a decided exactly by `geSqrt`; a zero-residual pivot
leaves the residual system unchanged.  Theorems in `Props/C04.lean` (geSqrt_iff against Real.sqrt, greedy
maximality, shift invariance, zero costs = QR, prohibitive cost).
Correspondence: real CCQR traces (tapped through qr_reflector) replayed in the exact model with costs.
"""
from __future__ import annotations

from fractions import Fraction

import numpy as np

from .. import common as C
from .. import gen, greedy, oracles
from ..opt import OptCase
from .c03 import _handle_judgment

LEVEL = "proof"
RULE = ("matrix kinds (incl. exactly-zero rows) × cost kinds {zero, positive, negative, mixed, prohibitive, "
        "attract-zero-row, constant shifts}; non-trivial when the cost changes at least one pivot relative to zero "
        "cost; distinct by (shape, costs, trace)")
TRUSTED = [
    "Lean 4.33 kernel; axioms propext, Classical.choice, Quot.sound",
    "exact model Model/Gram.lean (ccqrModel, geSqrt) tied to CCQR.fit / qr_reflector by ε-acceptance of tapped traces",
    "IEEE-754 rounding not modelled: per-step budget 1e-12·max(scale·max(1, scale/ρ_min), |cost|max) (DESIGN §3); after a pivot whose exact residual is zero but whose float "
    "residual is rounding noise the rest of the trace is not judged (exactly zero rows stay exact and are judged)",
]
ASSUMPTIONS = ["inputs exactly representable (integers, quarters, eighths)"]


def _shift_pairs(ctx, rng, count):
    """constant shifts of a cost vector never change the ranking (where choices are unique)"""
    for idx in range(count):
        B, mk = gen.gen_matrix(rng, kind=rng.choice(["generic_int", "generic_eighths", "zero_rows", "ties", "dup_rows"]),
                               max_n=ctx.scale(8, 16), max_m=ctx.scale(6, 12))
        n = B.shape[0]
        costs, ck = gen.gen_costs(rng, n, B, kind=rng.choice(["positive", "negative", "mixed"]))
        if idx % 3 == 0:
            costs = np.round(costs * 4) / 1024          # small differences, so that a large shift dwarfs them
        t = rng.choice([-64, -3, -0.5, 0.25, 2, 8, 1024, 1200, 65536, -4096])
        c1 = OptCase(B, "ccqr", costs=costs, meta={"mk": mk, "ck": ck})
        c2 = OptCase(B, "ccqr", costs=costs + t, meta={"mk": mk, "ck": ck, "shift": t})
        ctx.evaluations += 1
        ctx.count("shift_pair")
        r1, r2 = c1.run_real(), c2.run_real()
        if r1.get("offsets") is None or r2.get("offsets") is None:
            ctx.count("ranking_not_a_permutation(C01's subject)")
            continue
        J1, J2 = greedy.judge_batch(ctx, [(c1, r1), (c2, r2)])
        k = r1["k"]
        upto = 0
        for v1, v2 in zip(J1.verdicts or [], J2.verdicts or []):
            if not (v1["uniq"] and v2["uniq"]):
                break
            upto += 1
        if J1.truncated_at is not None:
            upto = min(upto, J1.truncated_at + 1)
        if J2.truncated_at is not None:
            upto = min(upto, J2.truncated_at + 1)
        if r1["ranking"][:upto] != r2["ranking"][:upto]:
            ctx.violation("concrete",
                          f"adding {t} to every cost changes the ranking: {r1['ranking']} vs {r2['ranking']} (first {upto} uniquely determined)",
                          {"signature": "cost-shift-changes-ranking", "case": c1.describe(), "shift": t,
                           "observed": [r1["ranking"], r2["ranking"]], "required": "identical leading ranking", "index": idx})
        elif upto:
            ctx.nontriv(("shift", B.shape, tuple(r1["ranking"][:upto]), t))


def _prohibitive(ctx, rng, count):
    """a sensor whose cost exceeds the largest sensor norm is never ranked before a zero-cost sensor that still has
    non-zero residual"""
    for idx in range(count):
        B, mk = gen.gen_matrix(rng, kind=rng.choice(["generic_int", "generic_eighths", "zero_rows", "low_rank", "dup_rows"]),
                               max_n=ctx.scale(8, 16), max_m=ctx.scale(6, 12))
        n, m = B.shape
        mx = float(np.max(np.sqrt(np.sum(B ** 2, axis=1)))) if n else 0.0
        big = float(2 ** int(np.ceil(np.log2(mx + 1)) + 1))
        costs = np.zeros(n)
        proh = [i for i in range(n) if rng.random() < 0.4]
        for i in proh:
            costs[i] = big * rng.choice([1, 2, 16])
        case = OptCase(B, "ccqr", costs=costs, meta={"mk": mk, "ck": "prohibitive"})
        ctx.evaluations += 1
        ctx.count("prohibitive")
        res = case.run_real()
        r = res["ranking"][: res["k"]]
        # exact residuals along the real trace
        st = oracles.MGS(B)
        bad = None
        for j, q in enumerate(r):
            if q in proh:
                others = [c for c in range(n) if c not in r[:j] and c not in proh and st.norm2(c) > Fraction(1, 10 ** 12)]
                if others:
                    bad = (j, q, others)
                    break
            st.eliminate(q)
        if bad:
            ctx.violation("concrete",
                          f"sensor {bad[1]} with prohibitive cost ranked at step {bad[0]} before zero-cost sensors {bad[2]} that still have residual",
                          {"signature": "prohibitive-cost-ranked-early", "case": case.describe(), "observed": res["ranking"],
                           "required": "prohibitive sensors only after all zero-cost sensors with non-zero residual", "index": idx})
        elif proh and len(proh) < n:
            ctx.nontriv(("proh", B.shape, tuple(r), tuple(proh)))


def infinite_costs_part(ctx, count):
    """costs +inf ("never place a sensor here unless nothing else is left") and -inf ("place one here first") are ordinary members
    of the cost scale: `residual norm − cost` is then −inf / +inf, and the greedy rule still decides.  Judged with an independent
    float64 projection oracle (small integer matrices; steps whose leading rows are ill-conditioned are skipped)."""
    from pysensors.optimizers import CCQR
    from pysensors.reconstruction import SSPOR
    import warnings
    rng = ctx.rng
    for idx in range(count):
        n, m = rng.randint(4, ctx.scale(9, 14)), rng.randint(2, ctx.scale(6, 9))
        B = gen.gen_generic_matrix(rng, n, m)
        costs = np.array([rng.randint(0, 8) / 2 for _ in range(n)])
        kinds = rng.choice([["+"], ["-"], ["+", "-"], ["+", "+"]])
        marked = rng.sample(range(n), min(n - 1, len(kinds) + rng.randint(0, 2)))
        for t, i in enumerate(marked):
            costs[i] = np.inf if kinds[t % len(kinds)] == "+" else -np.inf
        via = rng.choice(["ccqr", "sspor"])
        ctx.evaluations += 1
        ctx.count("infinite_costs:" + "".join(sorted(set(kinds))) + "/" + via)
        desc = {"B": B.tolist(), "costs": [("inf" if c == np.inf else "-inf" if c == -np.inf else float(c)) for c in costs], "via": via}
        with warnings.catch_warnings():
            warnings.simplefilter("ignore")
            try:
                if via == "ccqr":
                    r = np.array(CCQR(sensor_costs=costs.copy()).fit(B.copy()).get_sensors()).tolist()
                else:
                    from pysensors.basis import Identity
                    r = np.array(SSPOR(basis=Identity(), optimizer=CCQR(sensor_costs=costs.copy())).fit(B.T.copy(), quiet=True, seed=0).get_all_sensors()).tolist()
            except ValueError:
                ctx.count("infinite_costs_rejected")
                continue
        if not gen.is_perm(r, n):
            ctx.violation("concrete", f"CCQR ranking {r} is not a permutation", {"signature": "not-a-permutation", "inf_case": desc, "index": idx})
            continue
        k = min(n, m)
        bad = None
        for j in range(k):
            rest = r[j:]
            pick = r[j]
            if costs[pick] == np.inf and any(costs[c] != np.inf for c in rest):
                bad = (j, f"step {j} ranks sensor {pick} (cost +inf) although sensors with finite cost are still unranked")
                break
            if any(costs[c] == -np.inf for c in rest) and costs[pick] != -np.inf:
                bad = (j, f"step {j} ranks sensor {pick} although a sensor with cost -inf (score +inf) is still unranked")
                break
            if np.isfinite(costs[pick]) and not any(costs[c] == -np.inf for c in rest):
                lead = B[r[:j], :]
                if j and np.linalg.cond(lead) > 1e6:
                    break
                P = np.eye(m) - (np.linalg.pinv(lead) @ lead if j else 0)
                sc = {c: float(np.linalg.norm(P @ B[c])) - costs[c] for c in rest if np.isfinite(costs[c])}
                if sc[pick] < max(sc.values()) - 1e-9 * (1 + float(np.max(np.abs(B)))):
                    best = max(sc, key=sc.get)
                    bad = (j, f"step {j} ranks sensor {pick} (norm − cost = {sc[pick]:.6g}) although sensor {best} offers {sc[best]:.6g}")
                    break
        if bad:
            ctx.violation("concrete", f"CCQR with costs {desc['costs']}: {bad[1]} (ranking {r})",
                          {"signature": "greedy-rule:infinite-costs", "inf_case": desc, "observed": r, "step": bad[0], "index": idx})
        else:
            ctx.nontriv(("inf-costs", B.shape, tuple(desc["costs"]), tuple(r[:k])))


def cost_container_part(ctx, count):
    """the cost vector lives in the caller's container (an integer or single-precision array as it comes out of a price table); the
    caller edits it in place between two fits of the same optimizer object (re-pricing): a fit uses the costs as they are NOW –
    compared with a fresh optimizer given the new costs (deterministic pipeline: identical ranking)"""
    from pysensors.optimizers import CCQR
    rng = ctx.rng
    for idx in range(count):
        n, m = rng.randint(4, ctx.scale(9, 14)), rng.randint(2, ctx.scale(6, 9))
        B = gen.gen_generic_matrix(rng, n, m)
        dt = rng.choice(["int64", "int32", "float32", "float64", "int16"])
        c1 = np.array([rng.randint(0, 12) for _ in range(n)]).astype(dt)
        c2 = np.array([rng.randint(0, 12) for _ in range(n)]).astype(dt)
        if rng.random() < 0.3:
            c2 = np.zeros(n).astype(dt)
        ctx.evaluations += 1
        ctx.count("cost_container:" + dt)
        desc = {"B": B.tolist(), "costs_first": c1.tolist(), "costs_second": c2.tolist(), "dtype": dt}
        try:
            held = c1.copy()
            opt = CCQR(sensor_costs=held)
            opt.fit(B.copy())
            held[:] = c2                      # re-priced in place
            r2 = np.array(opt.fit(B.copy()).get_sensors()).tolist()
            ref = np.array(CCQR(sensor_costs=c2.copy()).fit(B.copy()).get_sensors()).tolist()
        except Exception as e:
            ctx.count("cost_container_raises:" + type(e).__name__)
            continue
        if r2 != ref:
            ctx.violation("concrete", f"CCQR re-fitted after its cost array ({dt}) was re-priced in place ranks {r2}; a fresh optimizer with the new "
                                      f"costs ranks {ref}",
                          {"signature": "greedy-rule:stale-costs-after-inplace-repricing", "container_case": desc, "observed": r2, "required": ref, "index": idx})
        elif r2 != list(range(n)):
            ctx.nontriv(("cost-container", dt, B.shape, tuple(r2)))


def run(ctx: C.Ctx):
    from .. import shapes_static, translate_householder
    shapes_static.run_with_translation(ctx, translate_householder, "Householder", "Householder-loop", lambda: _run(ctx),
                                       "regenerated from CCQR.fit / qr_reflector / GQR.fit: pivot rule, reflector steps (denoting `reflector`), order of the array operations")


def _run(ctx: C.Ctx):
    infinite_costs_part(ctx, ctx.scale(40, 500))
    cost_container_part(ctx, ctx.scale(30, 300))
    rng = ctx.rng
    todo = []
    for idx in range(ctx.scale(400, 8000)):
        mk = rng.choice(gen.MATRIX_KINDS + ["zero_rows", "zero_rows", "dup_rows"])
        B, mk = gen.gen_matrix(rng, kind=mk, max_n=ctx.scale(9, 20), max_m=ctx.scale(7, 14))
        n = B.shape[0]
        costs, ck = gen.gen_costs(rng, n, B)
        if idx % 8 == 0:
            # equal residual norms + a large common price with small differences: the differences decide
            B, mk = gen.gen_matrix(rng, kind=rng.choice(["ties", "dup_rows", "ties"]), max_n=ctx.scale(9, 20), max_m=ctx.scale(7, 14))
            n = B.shape[0]
            costs, ck = gen.gen_costs(rng, n, B, kind="offset_small_spread")
        if idx % 10 == 3:
            # nearly low rank (almost co-located sensors): a rank-r integer core plus generic entries 2^-e times smaller.  After r
            # picks the residual norms drop by 2^e and – with equal prices inside the cheap group – they alone decide; they must
            # be the norms of the trailing block, not the debris of subtracting large squared norms from each other
            n_, m_ = rng.randint(5, ctx.scale(9, 16)), rng.randint(4, ctx.scale(7, 12))
            r_ = rng.randint(1, min(n_, m_) - 2)
            B = gen.gen_generic_matrix(rng, n_, r_, -4, 4) @ gen.gen_generic_matrix(rng, r_, m_, -4, 4) \
                + gen.gen_generic_matrix(rng, n_, m_) * 2.0 ** -rng.choice([24, 30, 36, 44])
            n, mk = n_, "nearly_low_rank"
            ck = rng.choice(["zero", "none", "prohibitive", "constant"])
            if ck == "constant":
                costs = np.full(n, float(rng.choice([-3, 2, 7.5])))
            else:
                costs, ck = gen.gen_costs(rng, n, B, kind=ck)
        case = OptCase(B, "ccqr", costs=costs, meta={"mk": mk, "ck": ck})
        if idx % 6 == 1 and float(np.max(np.abs(B), initial=0)) < 2 ** 20 and "*2^" not in mk and np.array_equal(B.astype(np.float32).astype(float), B):
            # a single-precision basis matrix with costs far larger than the norms: `norm − cost` is still a float64 quantity
            case.meta["dtype"] = "float32"
            if costs is not None and idx % 12 == 1:
                case.costs = costs + float(rng.choice([2 ** 24, 2 ** 27, 10 ** 8]))
            ctx.count("basis_dtype:float32")
        ctx.evaluations += 1
        ctx.count("matrix:" + mk)
        ctx.count("costs:" + ck)
        res = case.run_real()
        if not gen.is_perm(res["ranking"], n) or res.get("offsets") is None:
            ctx.violation("concrete", f"CCQR ranking {res['ranking']} is not a permutation",
                          {"signature": "not-a-permutation", "case": case.describe(), "observed": res["ranking"], "index": idx})
            continue
        todo.append((idx, case, res))
        ctx.sample({"B": B.tolist(), "costs": None if costs is None else costs.tolist(), "ranking": res["ranking"]}, limit=3)
    Js = greedy.judge_batch(ctx, [(c, r) for _, c, r in todo])
    # non-triviality: the cost changed a pivot relative to the zero-cost model ranking
    zero_reqs = [OptCase(c.B, "qr").req_rank() for _, c, _ in todo]
    zero_rank = ctx.driver.ask(zero_reqs)
    for (idx, case, res), J, zr in zip(todo, Js, zero_rank):
        _handle_judgment(ctx, case, res, J, idx, "ccqr")
        zr = [int(x) for x in zr.split()[1:]]
        if zr[: res["k"]] != res["ranking"][: res["k"]]:
            ctx.nontriv(("cost-matters", case.B.shape, tuple(res["offsets"])))
            ctx.count("cost_changed_a_pivot")
    _shift_pairs(ctx, rng, ctx.scale(120, 2000))
    _prohibitive(ctx, rng, ctx.scale(120, 2000))


def replay(ctx: C.Ctx, payload):
    d = payload["data"]
    if "container_case" in d:
        print("# deterministic case: re-run ./check C04 (cost container re-priced in place)", d["container_case"]["dtype"])
        return
    if "inf_case" in d:
        from pysensors.optimizers import CCQR
        c = d["inf_case"]
        costs = np.array([{"inf": np.inf, "-inf": -np.inf}.get(v, v) for v in c["costs"]], dtype=float)
        r = np.array(CCQR(sensor_costs=costs).fit(np.array(c["B"], dtype=float)).get_sensors()).tolist()
        print("# replayed:", payload.get("what"), "-> ranking now", r, "(recorded:", d.get("observed"), ")")
        if r == d.get("observed"):
            ctx.violation("concrete", payload.get("what", "infinite-cost case"), {"signature": "greedy-rule:infinite-costs", "inf_case": c, "observed": r})
        return
    case = OptCase.from_desc(d["case"])
    res = case.run_real()
    J = greedy.judge_batch(ctx, [(case, res)])[0]
    _handle_judgment(ctx, case, res, J, d.get("index", 0), "ccqr")
    print("# replayed:", payload.get("what"), "->", res["ranking"])
