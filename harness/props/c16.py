"""
C16 — the seed only orders the unranked tail; equal seeds give equal rankings.

Lean: `tailShuffle` (Model/Bookkeeping.lean); theorems in `Props/C16.lean` (lead_seed_independent,
tail_set_seed_independent, same_seed_same_ranking).  Correspondence: the real SSPOR ranking equals
`tailShuffle σ_seed m (optimizer ranking)` with numpy's seeded permutation as σ.  Oracle for the search:
pairwise comparison of real rankings across seeds.
"""
from __future__ import annotations

import numpy as np

from .. import common as C
from .. import models
from .. import sspor_hist as H

LEVEL = "proof"
RULE = ("(training set × basis × optimizer × n_sensors) configurations, each fitted with several seeds (and twice with "
        "the same seed); non-trivial when there are at least two trailing sensors and two seeds order them differently; "
        "distinct by (basis, optimizer, shape, leading ranking)")
TRUSTED = [
    "Lean 4.33 kernel; axioms propext, Quot.sound",
    "numpy.random.default_rng(seed).permutation is a function of the seed and returns a permutation (σ parameter)",
    "deterministic bases: TruncatedSVD / GaussianRandomProjection with fixed random_state",
]
ASSUMPTIONS = ["the optimizer's ranking of a given basis matrix is deterministic"]


def fit_once(cfg, seed):
    from pysensors.reconstruction import SSPOR
    opt = H.make_optimizer(cfg["opt"])
    pre = {}
    orig = opt.get_sensors

    def tapped():
        out = orig()
        pre["r"] = np.array(out).copy().tolist()
        return out

    opt.get_sensors = tapped
    model = SSPOR(basis=models.make_basis(cfg["basis"], cfg["n_modes"]), optimizer=opt, n_sensors=cfg["ns"])
    kw = {}
    g = cfg.get("gqr_kw")
    if g:
        # keyword arguments of GQR handed through SSPOR.fit: a sensor budget alone, or a whole region constraint
        kw["n_sensors"] = g["n_sensors"]
        if g.get("constraint_option"):
            from pysensors.optimizers import QR
            ref = SSPOR(basis=models.make_basis(cfg["basis"], cfg["n_modes"]), optimizer=QR()).fit(np.array(cfg["X"], dtype=float), quiet=True, seed=0)
            kw.update({"idx_constrained": np.array(g["idx_constrained"], dtype=int), "n_const_sensors": g["n_const_sensors"],
                       "all_sensors": np.array(QR().fit(ref.basis_matrix_.copy()).get_sensors()).copy(),
                       "constraint_option": g["constraint_option"]})
    try:
        model.fit(np.array(cfg["X"], dtype=float), quiet=True, seed=seed, **kw)
    finally:
        del opt.get_sensors
    return np.array(model.get_all_sensors()).tolist(), int(model.basis_matrix_.shape[1]), pre.get("r")


def same_object_part(ctx, count):
    """one model object with a life before the judged fits (fit with another seed, a re-ranking with fewer modes): fitting it
    twice with the same data and seed gives the same ranking, and the seed still only orders the tail"""
    from pysensors.reconstruction import SSPOR
    rng = ctx.rng
    for idx in range(count):
        basis = rng.choice(models.BASIS_KINDS)
        ne = rng.randint(2, ctx.scale(6, 9)); nf = rng.randint(ne + 1, ne + ctx.scale(6, 10))
        X = np.array([[rng.randint(-6, 6) for _ in range(nf)] for _ in range(ne)], dtype=float)
        nm = None if basis == "identity" else rng.randint(2, min(ne, nf))
        opt = rng.choice(["qr", "ccqr", "gqr"])
        model = SSPOR(basis=models.make_basis(basis, nm), optimizer=H.make_optimizer(opt))
        life = []
        try:
            model.fit(X.copy(), quiet=True, seed=rng.randint(0, 99)); life.append("fit")
            m = model.basis_matrix_.shape[1]
            if m >= 2 and rng.random() < 0.7:
                k = rng.randint(1, m - 1)
                model.update_n_basis_modes(k); life.append(f"update_n_basis_modes({k})")
            if rng.random() < 0.4:
                model.set_number_of_sensors(rng.randint(1, nf)); life.append("set_number_of_sensors")
        except ValueError:
            ctx.count("same_object:life_rejected")
            continue
        ctx.evaluations += 1
        ctx.count("same_object:" + basis + "/" + opt)
        seeds = [0, 1, rng.randint(2, 10 ** 6)]
        runs = {}
        for s in seeds:
            r1 = np.array(model.fit(X.copy(), quiet=True, seed=s).get_all_sensors()).tolist()
            m1 = int(model.basis_matrix_.shape[1])
            r2 = np.array(model.fit(X.copy(), quiet=True, seed=s).get_all_sensors()).tolist()
            m2 = int(model.basis_matrix_.shape[1])
            runs[s] = (r1, m1)
            if r1 != r2 or m1 != m2:
                ctx.violation("concrete", f"SSPOR after {life}: two fits with the same data and seed {s} give {r1} ({m1} modes) and {r2} ({m2} modes)",
                              {"signature": "same-seed-different-ranking", "X": X.tolist(), "basis": basis, "n_modes": nm, "opt": opt, "life": life,
                               "seed": s, "index": idx})
                break
        else:
            r0, m0 = runs[seeds[0]]
            for s in seeds[1:]:
                r, m = runs[s]
                if m != m0 or r[:m0] != r0[:m0] or sorted(r[m0:]) != sorted(r0[m0:]):
                    ctx.violation("concrete", f"SSPOR after {life}: leading {m0} sensors / trailing set differ between seeds {seeds[0]} and {s}",
                                  {"signature": "lead-depends-on-seed", "X": X.tolist(), "basis": basis, "n_modes": nm, "opt": opt, "life": life,
                                   "seeds": seeds, "index": idx})
                    break
            else:
                if len({tuple(v[0]) for v in runs.values()}) >= 2:
                    ctx.nontriv(("same_object", basis, opt, (ne, nf), tuple(life)))


def run(ctx: C.Ctx):
    from .. import shapes_static, translate_ranking
    shapes_static.run_with_translation(ctx, translate_ranking, "Ranking", "ranking-pipeline", lambda: _run(ctx),
                                       "regenerated from SSPOR.fit / predict / get_selected_sensors: tail shuffle = tailShuffle σ m, reads = selectLead n_sensors")


def _run(ctx: C.Ctx):
    rng = ctx.rng
    same_object_part(ctx, ctx.scale(40, 500))
    reqs, metas = [], []
    for idx in range(ctx.scale(100, 1500)):
        basis = rng.choice(models.BASIS_KINDS)
        r = rng.random()
        ne = rng.randint(1, ctx.scale(6, 9))
        nf = rng.randint(ne + 1, ne + ctx.scale(6, 10)) if r < 0.8 else rng.randint(1, ne)   # mostly more sensors than modes
        more_modes = None
        if r >= 0.8 and rng.random() < 0.6:
            # more modes than sensors (every position of the ranking is a leading one; no tail at all): e.g. the default Identity basis
            # on more snapshots than sensors.  n_features < n_modes < 2·n_features is where an off-by-sign tail slice would land inside
            # the ranking
            nf = rng.randint(3, ctx.scale(8, 10))
            more_modes = rng.randint(nf + 1, 2 * nf - 1)
            ne = more_modes + rng.randint(0, 2)
            basis = rng.choice(["identity", "identity", "rp"])
            ctx.count("more_modes_than_sensors")
        X = [[rng.randint(-6, 6) for _ in range(nf)] for _ in range(ne)]
        # degenerate training sets: a snapshot recorded twice, a multiple of another one, an all-zero snapshot
        if ne >= 2 and rng.random() < 0.3:
            i, j = rng.sample(range(ne), 2)
            how = rng.choice(["duplicate", "multiple", "zero", "sum"])
            if how == "duplicate":
                X[i] = list(X[j])
            elif how == "multiple":
                X[i] = [2 * v for v in X[j]]
            elif how == "zero":
                X[i] = [0] * nf
            else:
                l = rng.randrange(ne)
                X[i] = [a + b for a, b in zip(X[j], X[l])] if l != i else list(X[j])
            ctx.count("degenerate_training_set:" + how)
        if basis == "identity":
            nm = None if rng.random() < 0.4 else rng.randint(1, ne)
        elif basis == "svd":
            nm = rng.randint(1, min(ne, nf))
        else:
            nm = rng.randint(1, ne)
        if more_modes is not None:
            nm = None if (basis == "identity" and ne == more_modes and rng.random() < 0.5) else more_modes
        cfg = {"basis": basis, "n_modes": nm, "opt": rng.choice(["qr", "ccqr", "gqr"]), "X": X,
               "ns": rng.choice([None, rng.randint(1, nf)])}
        if cfg["opt"] == "gqr" and rng.random() < 0.6:
            k = rng.randint(1, max(1, min(ne, nf)))
            g = {"n_sensors": k}
            if rng.random() < 0.5 and nf >= 2:
                L = sorted(rng.sample(range(nf), rng.randint(1, nf - 1)))
                g.update({"idx_constrained": L, "n_const_sensors": rng.randint(0, min(k, len(L))),
                          "constraint_option": rng.choice(["max_n", "exact_n", "predetermined"])})
            cfg["gqr_kw"] = g
            ctx.count("gqr_keywords:" + g.get("constraint_option", "n_sensors_only"))
        seeds = [0, 1, 2, rng.randint(3, 10 ** 6)] + ([rng.randint(0, 2 ** 31), 2 ** 32 + 5, 12345678901] if ctx.thorough else [])
        ctx.evaluations += 1
        ctx.count(f"{basis}/{cfg['opt']}")
        try:
            runs = {s: fit_once(cfg, s) for s in seeds}
            again = {s: fit_once(cfg, s) for s in seeds[:2]}
        except ValueError:
            ctx.count("fit_rejected")
            continue
        m = runs[seeds[0]][1]
        lead0 = runs[seeds[0]][0][:m]
        tail0 = sorted(runs[seeds[0]][0][m:])
        bad = None
        for s in seeds:
            rk, mm, pre = runs[s]
            if rk[:m] != lead0:
                bad = (f"leading {m} sensors differ between seeds {seeds[0]} and {s}: {lead0} vs {rk[:m]}", "lead-depends-on-seed")
            elif sorted(rk[m:]) != tail0:
                bad = (f"set of trailing sensors differs between seeds {seeds[0]} and {s}", "tail-set-depends-on-seed")
        for s in seeds[:2]:
            if again[s][0] != runs[s][0]:
                bad = (f"two fits with seed {s} give different rankings: {runs[s][0]} vs {again[s][0]}", "same-seed-different-ranking")
        if bad:
            ctx.violation("concrete", "SSPOR: " + bad[0], {"signature": bad[1], "case": cfg, "seeds": seeds,
                                                         "observed": {str(s): runs[s][0] for s in seeds}, "index": idx})
            continue
        tails = {tuple(runs[s][0][m:]) for s in seeds}
        if len(tail0) >= 2 and len(tails) >= 2:
            ctx.nontriv((basis, cfg["opt"], (ne, nf), tuple(lead0)))
        ctx.sample({"basis": basis, "opt": cfg["opt"], "shape": [ne, nf], "n_modes_eff": m,
                    "rankings": {str(s): runs[s][0] for s in seeds[:3]}}, limit=4)
        # correspondence with the model: ranking = tailShuffle σ_seed m (optimizer ranking)
        for s in seeds:
            rk, mm, pre = runs[s]
            if pre is None:
                continue
            tail = np.random.default_rng(s).permutation(np.array(pre[mm:])).tolist()
            reqs.append(f"tailshuffle {mm} {C.enc_nats(pre)} {C.enc_nats(tail)}")
            metas.append((idx, cfg, s, rk))
    resp = ctx.driver.ask(reqs)
    for (idx, cfg, s, rk), rp in zip(metas, resp):
        ctx.impl_traces += 1
        model_rk = [int(x) for x in rp.split()[1:]] if rp.startswith("ok") else None
        if model_rk != rk:
            ctx.violation("no-failing-input-found", f"seed {s}: real ranking {rk} differs from tailShuffle model {model_rk}",
                          {"signature": "tailShuffle-correspondence", "case": cfg, "seed": s, "observed": rk, "model": model_rk, "index": idx},
                          broken="correspondence tailShuffle ↔ SSPOR.fit shuffle (theorems of Props/C16.lean are about the model)")


def replay(ctx: C.Ctx, payload):
    d = payload["data"]
    cfg = d["case"]
    for s in d.get("seeds", [d.get("seed", 0)]):
        print("# seed", s, fit_once(cfg, s)[0])
