"""
C18 — the ranking depends only on the geometry of the sensor rows.

Lean: theorems in `Props/C18.lean` (the model's run reads the basis matrix only through its Gram matrix; Gram
invariance under right-orthogonal mixing; positive rescaling of norms and costs).  Correspondence: metamorphic pairs on
the real optimizers and on SSPOR with exactly representable transforms (signed permutations of the modes,
Pythagorean rotations, powers of two, sensor relabellings with costs and regions relabelled alike); pairs whose exact
greedy choices are not unique by more than the budget are skipped and counted.
"""
from __future__ import annotations

from fractions import Fraction

import numpy as np

from .. import common as C
from .. import gen, greedy, models
from ..opt import OptCase, gen_gqr_kwargs

LEVEL = "proof"
RULE = ("generic integer basis matrices × {QR, CCQR(costs), GQR(max_n / exact_n / predetermined)} × transform "
        "{signed permutation of modes, Pythagorean rotation of two modes, scaling by 2^k (costs alike), sensor "
        "relabelling (costs, regions, unconstrained ranking relabelled alike)}; SSPOR: reordered training examples, "
        "relabelled sensors; non-trivial when the transform is not the identity and the ranking is not the identity; "
        "distinct by (optimizer, transform, shape, ranking)")
TRUSTED = [
    "Lean 4.33 kernel; axioms propext, Classical.choice, Quot.sound",
    "exact Gram model tied to the optimizers by C03–C06's replay; here the real code is compared with itself on transformed inputs",
    "rounding: Pythagorean rotations are not exact in floats (0.6, 0.8); pairs are judged only where every exact choice "
    "of the base run is unique by more than the step budget (1e-12·scale·conditioning)",
]
ASSUMPTIONS = ["uniqueness of greedy choices is decided by the exact model on the base input"]


def make_case(rng, B, kind, overfill=None):
    n = B.shape[0]
    if kind == "qr":
        return OptCase(B, "qr")
    if kind == "ccqr":
        costs = np.array([rng.randint(-8, 8) / 4 for _ in range(n)])
        return OptCase(B, "ccqr", costs=costs)
    kw = gen_gqr_kwargs(rng, B, feasible=True, overfill=(rng.random() < 0.5) if overfill is None else overfill)
    if kw is None:
        return OptCase(B, "qr")
    meta = {}
    if kw["constraint_option"] in ("exact_n", "predetermined") and rng.random() < 0.6:
        meta["omit_all_sensors"] = True          # optional keyword left out
    if rng.random() < 0.3:
        meta["np_ints"] = 64
    return OptCase(B, "gqr", gqr=kw, meta=meta)


def unique_upto(ctx, case, res):
    J = greedy.judge_batch(ctx, [(case, res)])[0]
    if not J.domain or J.verdicts is None:
        return 0
    # (a base run that the exact model rejects is C03–C06's finding; the pair is still compared: the relation is between two
    # runs of the real code, and the exact candidate norms along the real trace still say where ties are)
    k = 0
    for v in J.verdicts:
        if not v["uniq"] or v["n2"] == 0:
            break
        k += 1
    if J.truncated_at is not None:
        k = min(k, J.truncated_at)
    return k


def orthogonal(rng, m, mix_col=None):
    """exactly-rational orthogonal m×m matrix: signed permutation, optionally times a Pythagorean rotation of two modes"""
    perm = list(range(m)); rng.shuffle(perm)
    Q = np.zeros((m, m))
    for i, j in enumerate(perm):
        Q[i, j] = rng.choice([1.0, -1.0])
    kind = "signed_perm"
    if m >= 2 and (mix_col is not None or rng.random() < 0.5):
        a, b = rng.sample(range(m), 2)
        if mix_col is not None:
            # the rotation must mix the given (faint) mode with another one: find where the signed permutation sent it
            a = int(np.nonzero(Q[mix_col])[0][0])
            b = rng.choice([c for c in range(m) if c != a])
        c, s = rng.choice([(0.6, 0.8), (0.8, 0.6), (5 / 13, 12 / 13), (-0.6, 0.8)])
        R = np.eye(m)
        R[a, a], R[a, b], R[b, a], R[b, b] = c, -s, s, c
        Q = Q @ R
        kind = "rotation"
    return Q, kind


def carry(case):
    """the transformed instance is called the same way (same optional keywords, same argument types); its object history is its own"""
    return {k: v for k, v in case.meta.items() if k in ("omit_all_sensors", "np_ints", "dtype") and not (k == "dtype" and str(v).startswith("int"))}


def transform_case(rng, case, tkind):
    """returns (transformed case, function mapping base ranking → expected transformed ranking, description)"""
    B = case.B
    n, m = B.shape
    if tkind == "orth":
        Q, k = orthogonal(rng, m, mix_col=case.meta.get("faint_col"))
        c2 = OptCase(B @ Q, case.kind, costs=case.costs, gqr=dict(case.gqr), meta=carry(case))
        return c2, (lambda r: r), {"transform": k, "Q": Q.tolist()}
    if tkind == "scale":
        # no magnitude is special: half of the factors are far from 1
        a = 2.0 ** (rng.choice([-3, -2, -1, 1, 2, 3, 4]) if rng.random() < 0.5 else rng.choice([-70, -60, -52, -40, 40, 60]))
        if case.meta.get("dtype") == "float32":
            # a single-precision basis matrix keeps its squared norms inside the single-precision range
            a = 2.0 ** rng.choice([-30, -10, -3, -2, 2, 3, 10, 30])
        c2 = OptCase(B * a, case.kind, costs=None if case.costs is None else case.costs * a, gqr=dict(case.gqr), meta=carry(case))
        return c2, (lambda r: r), {"transform": "scale", "factor": a}
    # relabel sensors: new sensor i is old sensor pi[i]
    pi = list(range(n)); rng.shuffle(pi)
    inv = [0] * n
    for new, old in enumerate(pi):
        inv[old] = new
    g = dict(case.gqr)
    if g:
        g["idx_constrained"] = np.array(sorted(inv[o] for o in g["idx_constrained"]), dtype=int)
        g["all_sensors"] = np.array([inv[o] for o in g["all_sensors"]], dtype=int)
    c2 = OptCase(B[pi, :], case.kind, costs=None if case.costs is None else case.costs[pi], gqr=g, meta=carry(case))
    return c2, (lambda r: [inv[o] for o in r]), {"transform": "relabel", "pi": pi}


def run(ctx: C.Ctx):
    rng = ctx.rng
    plan = [(None, None, None)] * ctx.scale(170, 3000)
    # relabelling is the transform that moves sensor ids around: region logic that looks at ids instead of ranks shows
    # only here, and only when the region is over-full
    plan += [("gqr", "relabel", True)] * ctx.scale(80, 1000)
    plan += [("ccqr", "scale", None)] * ctx.scale(30, 300) + [("gqr", "scale", None)] * ctx.scale(20, 200)
    # nearly low-rank geometry: after the dominant directions the residual norms drop by many orders of magnitude – the choices
    # there are still unique, and still a matter of geometry only
    plan += [("ccqr", "orth", "faint")] * ctx.scale(20, 200) + [("gqr", "orth", "faint")] * ctx.scale(20, 200)
    plan += [("gqr", "orth", "graded")] * ctx.scale(25, 250) + [("gqr", "scale", "graded")] * ctx.scale(15, 150) \
        + [("ccqr", "orth", "graded")] * ctx.scale(10, 100)
    # tall bases (many more modes / training examples than sensors) whose sensor rows differ in strength by 2^-24 … 2^-27 (a few loud
    # sensors, the others quiet): the choices among the quiet ones are unique by a wide margin – and far above double-precision rounding
    plan += [("ccqr", "orth", "tall")] * ctx.scale(25, 250) + [("gqr", "orth", "tall")] * ctx.scale(25, 250) \
        + [("gqr", "relabel", "tall")] * ctx.scale(25, 250) + [("ccqr", "relabel", "tall")] * ctx.scale(15, 150) \
        + [("ccqr", "scale", "tall")] * ctx.scale(10, 100)
    for idx, (fk, ft, fo) in enumerate(plan):
        n = rng.randint(3, ctx.scale(10, 14)); m = rng.randint(2, ctx.scale(6, 10))
        B = gen.gen_generic_matrix(rng, n, m)
        if fo == "tall":
            n = rng.randint(4, 6); m = 2 * n + rng.randint(1, 6)
            B = gen.gen_generic_matrix(rng, n, m)
            if rng.random() < 0.3:
                quiet = rng.sample(range(n), rng.randint(2, n - 1))
                for i in quiet:
                    B[i, :] *= 2.0 ** -rng.choice([24, 25, 26, 27])
                ctx.count("tall_basis_with_quiet_sensors")
            else:
                # nearly dependent sensors: a few dominant directions plus a faint independent part (2^-23 … 2^-27 of the rest)
                r_ = rng.randint(1, n - 3)
                B = gen.gen_generic_matrix(rng, n, r_, -4, 4) @ gen.gen_generic_matrix(rng, r_, m, -4, 4) \
                    + gen.gen_generic_matrix(rng, n, m) * 2.0 ** -rng.choice([25, 26, 27, 28])
                ctx.count("tall_basis_nearly_dependent_sensors")
            fo = None
        if fo == "graded":
            n, m = max(n, 5), max(m, 4)
            r_ = rng.randint(1, min(n, m) - 2)
            B = gen.gen_generic_matrix(rng, n, r_, -4, 4) @ gen.gen_generic_matrix(rng, r_, m, -4, 4) \
                + gen.gen_generic_matrix(rng, n, m) * 2.0 ** -rng.choice([24, 30, 36])
            fo = None
        faint_col = None
        if fo == "faint":
            # one faint mode (2^-28 … 2^-34 of the others): it decides the last leading pick; a rotation spreads it over two columns
            m = max(m, 3); n = max(n, m + 1)
            B = gen.gen_generic_matrix(rng, n, m)
            faint_col = rng.randrange(m)
            B[:, faint_col] = np.array([rng.randint(-5, 5) for _ in range(n)]) * 2.0 ** -rng.choice([28, 30, 34])
            fo = None
        kind = fk or rng.choice(["qr", "ccqr", "gqr", "gqr"])
        case = make_case(rng, B, kind, fo)
        if faint_col is not None:
            case.meta["faint_col"] = faint_col
        tkind = ft or rng.choice(["orth", "scale", "relabel"])
        if case.kind in ("ccqr", "gqr") and tkind in ("scale", "relabel") and rng.random() < 0.3 \
                and np.array_equal(B.astype(np.float32).astype(float), B):
            # the same geometry stored in single precision (float32 snapshots are common): costs stay in the user's units, so the
            # matrix must not be silently brought to other units before `norm − cost` is formed
            case.meta["dtype"] = "float32"
            ctx.count("basis_dtype:float32")
        elif case.kind == "ccqr" and tkind in ("orth", "scale") and rng.random() < 0.35 and np.array_equal(np.round(B), B):
            # integer-valued geometry stored as integers, prices with fractions: the transformed instance (B·Q, or B scaled by a power
            # of two below 1) is a float matrix – the ranking must not depend on the storage type of the same numbers
            case.meta["dtype"] = "int64"
            ctx.count("basis_dtype:int64")
        ctx.evaluations += 1
        label = case.kind + (":" + case.gqr.get("constraint_option", "") if case.kind == "gqr" else "")
        ctx.count(f"{label}/{tkind}")
        res = case.run_real()
        upto = unique_upto(ctx, case, res)
        if upto == 0:
            ctx.count("skipped_non_unique_choice")
            continue
        c2, expect, desc = transform_case(rng, case, tkind)
        res2 = c2.run_real()
        if tkind == "orth" and case.kind in ("ccqr", "qr") and rng.random() < 0.6:
            # the same optimizer object (and the same cost array) refitted on the mixed matrix
            opt, _ = case.make_optimizer()
            opt.fit(case.B.copy())
            r_again = np.array(opt.fit(c2.B.copy()).get_sensors()).tolist()
            desc["reused_optimizer_object"] = True
            if r_again[:upto] != res2["ranking"][:upto]:
                res2 = dict(res2); res2["ranking"] = r_again
        # uniqueness must also hold for the transformed instance's own trace (tie order may be relabelled)
        want = expect(res["ranking"])[:upto]
        got = res2["ranking"][:upto]
        ctx.impl_traces += 1
        if got != want:
            ctx.violation("concrete",
                          f"{label}: after {desc['transform']} the ranking is {res2['ranking']}; expected leading sensors {want} (base ranking {res['ranking']})",
                          {"signature": f"geometry-invariance:{tkind}:{case.kind}", "case": case.describe(), "transform": desc,
                           "observed": res2["ranking"], "required_leading": want, "index": idx})
            continue
        if res["ranking"] != list(range(n)):
            ctx.nontriv((label, tkind, B.shape, tuple(res["ranking"][:upto])))
        ctx.sample({"optimizer": label, "transform": desc, "B": B.tolist(), "ranking": res["ranking"], "transformed_ranking": res2["ranking"]}, limit=4)
    sspor_part(ctx)


def sspor_part(ctx):
    """reordering training examples (Identity basis: a column permutation of the basis matrix = orthogonal mixing) and
    relabelling sensors carry through SSPOR: selections and reconstructions are relabelled alike"""
    from pysensors.basis import Identity
    from pysensors.optimizers import QR
    from pysensors.reconstruction import SSPOR
    rng = ctx.rng
    for idx in range(ctx.scale(80, 1200)):
        ne = rng.randint(2, ctx.scale(5, 7)); nf = rng.randint(ne, ctx.scale(9, 12))
        X = gen.gen_generic_matrix(rng, ne, nf)
        ctx.evaluations += 1
        base = SSPOR(basis=Identity(), optimizer=QR()).fit(X.copy(), quiet=True, seed=0)
        Bm = np.array(base.basis_matrix_)
        rk = np.array(base.get_all_sensors()).tolist()
        k = min(Bm.shape)
        case = OptCase(Bm, "qr")
        offs, _ = gen.offsets_from_ranking(rk, nf, k)
        upto = unique_upto(ctx, case, {"offsets": offs, "ranking": rk})
        if upto == 0:
            ctx.count("skipped_non_unique_choice")
            continue
        which = rng.choice(["examples", "relabel"])
        ctx.count("sspor/" + which)
        if which == "examples":
            order = list(range(ne)); rng.shuffle(order)
            m2 = SSPOR(basis=Identity(), optimizer=QR()).fit(X[order, :].copy(), quiet=True, seed=0)
            got = np.array(m2.get_all_sensors()).tolist()[:upto]
            want = rk[:upto]
            if got != want:
                ctx.violation("concrete", f"SSPOR: reordering the training examples changes the leading sensors {want} → {got}",
                              {"signature": "geometry-invariance:sspor-examples", "X": X.tolist(), "order": order, "index": idx})
                continue
        else:
            pi = list(range(nf)); rng.shuffle(pi)
            inv = [0] * nf
            for new, old in enumerate(pi):
                inv[old] = new
            m2 = SSPOR(basis=Identity(), optimizer=QR()).fit(X[:, pi].copy(), quiet=True, seed=0)
            got = np.array(m2.get_all_sensors()).tolist()[:upto]
            want = [inv[o] for o in rk[:upto]]
            if got != want:
                ctx.violation("concrete", f"SSPOR: relabelling the sensors gives leading sensors {got}, expected the relabelled {want}",
                              {"signature": "geometry-invariance:sspor-relabel", "X": X.tolist(), "pi": pi, "index": idx})
                continue
            # reconstructions relabelled alike (n_sensors = number of uniquely ranked sensors)
            ns = upto
            base.set_number_of_sensors(ns); m2.set_number_of_sensors(ns)
            y = np.array([[rng.randint(-8, 8) / 2 for _ in range(ns)] for _ in range(2)])
            try:
                p1 = np.asarray(base.predict(y)); p2 = np.asarray(m2.predict(y))
            except Exception:
                continue
            kap = np.linalg.cond(Bm[rk[:ns], :]) if ns else 1.0
            if kap < 1e6 and not np.allclose(p1[:, pi], p2, atol=1e-7 * (1 + np.max(np.abs(p1))) * kap):
                ctx.violation("concrete", "SSPOR: reconstructions of relabelled sensors are not the relabelled reconstructions",
                              {"signature": "geometry-invariance:sspor-relabel-predict", "X": X.tolist(), "pi": pi, "index": idx})
                continue
        ctx.impl_traces += 1
        ctx.nontriv(("sspor", which, X.shape, tuple(rk[:upto])))


def replay(ctx: C.Ctx, payload):
    d = payload["data"]
    if "case" in d:
        case = OptCase.from_desc(d["case"])
        print("# base ranking", case.run_real()["ranking"], "observed after transform", d.get("observed"))
