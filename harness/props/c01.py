"""
C01 — every sensor ranking is a permutation of the sensor indices.

Theorems (lean/PsVerif/Props/C01.lean): pivLoop_perm (any pivot oracle), tailShuffle_perm,
selected_spec, ranking_pipeline_spec.
Correspondence: the real `pivots_` of CCQR / GQR must equal `pivLoop` replayed on the tapped
oracle offsets; SSPOR's final ranking must equal `tailShuffle` of the optimizer's ranking with
numpy's permutation as σ; SSPOC selections are checked against the selection model.
Oracle for the failing-input search: sorted(ranking) == range(n), prefix, count.
"""
from __future__ import annotations

import numpy as np

from .. import common as C
from .. import gen, models
from ..opt import OptCase, gen_gqr_kwargs

LEVEL = "proof"
RULE = ("cases = (matrix kind × shape × optimizer configuration) and (training set × basis × optimizer × "
        "n_sensors × seed) for SSPOR/SSPOC; a case is non-trivial when the ranking it produces is not "
        "the identity order; distinct by (shape, kind, optimizer, ranking)")
TRUSTED = [
    "Lean 4.33 kernel; axioms propext, Quot.sound (core-only theorems)",
    "hand-written model lean/PsVerif/Model/Bookkeeping.lean tied to pysensors by this run's differential check",
    "LAPACK geqp3 (scipy.linalg.qr pivoting) – its pivot vector is checked directly on every sample",
    "numpy.random.Generator.permutation returns a permutation (σ parameter of tailShuffle)",
    "taps by monkey-patching qr_reflector / normCalcReturnInstance",
]
ASSUMPTIONS = [
    "float arithmetic, costs, constraints and NaNs live inside the arbitrary pivot oracle of the model",
    "generator coverage bounds what the correspondence sees (distribution recorded)",
]


def _gen_optcase(ctx, rng):
    B, kind = gen.gen_matrix(rng, max_n=ctx.scale(10, 24), max_m=ctx.scale(8, 16))
    n, m = B.shape
    which = rng.choice(["qr", "ccqr", "ccqr", "gqr", "gqr", "gqr0"])
    if which == "qr":
        return OptCase(B, "qr", meta={"mk": kind})
    if which == "ccqr":
        costs, ck = gen.gen_costs(rng, n, B)
        return OptCase(B, "ccqr", costs=costs, meta={"mk": kind, "ck": ck})
    if which == "gqr0":
        return OptCase(B, "gqr", gqr={}, meta={"mk": kind, "opt": "none"})
    kw = gen_gqr_kwargs(rng, B, feasible=None)
    if kw is None:
        return OptCase(B, "gqr", gqr={}, meta={"mk": kind, "opt": "none"})
    meta = {"mk": kind, "opt": kw["constraint_option"]}
    if kw["constraint_option"] in ("max_n", "exact_n") and rng.random() < 0.35:
        meta["all_sensors_head"] = True
    if len(kw["idx_constrained"]) >= 1 and rng.random() < 0.35:
        meta["region_container"] = rng.choice(["dup", "dup", "tuple1", "list"])
    return OptCase(B, "gqr", gqr=kw, meta=meta)


def _check_opt_case(ctx, case: OptCase, idx):
    ctx.evaluations += 1
    ctx.count("opt:" + case.kind)
    ctx.count("matrix:" + str(case.meta.get("mk")))
    res = case.run_real()
    n, k = res["n"], res["k"]
    r = res["ranking"]
    if not gen.is_perm(r, n):
        ctx.violation("concrete", f"{case.kind} ranking {r} is not a permutation of range({n})",
                      {"signature": "optimizer-ranking-not-permutation", "case": case.describe(),
                       "observed": r, "required": f"a permutation of 0..{n-1}", "index": idx})
        return None
    if r != list(range(n)):
        ctx.nontriv((n, res["m"], case.kind, tuple(r)))
    if res.get("tap_unavailable"):
        ctx.count("tap_unavailable")
    return res


def _sspor_case(ctx, rng, idx):
    from pysensors.reconstruction import SSPOR
    bk = rng.choice(models.BASIS_KINDS)
    X, xk = models.gen_training(rng, max_ex=ctx.scale(8, 14), max_feat=ctx.scale(10, 20))
    ne, nf = X.shape
    nm = rng.randint(1, models.admissible_modes(bk, ne, nf))
    seed = rng.choice([None, 0, 1, 7, 12345]) if rng.random() < 0.9 else rng.randint(0, 2 ** 31)
    ns = rng.choice([None, rng.randint(1, nf)])
    ok = rng.choice(["qr", "ccqr", "gqr"])
    desc = {"X": X.tolist(), "basis": bk, "n_modes": nm, "seed": seed, "n_sensors": ns, "opt": ok, "xk": xk}
    # storage type of the training matrix: counts and raw images are integer arrays (the Identity basis keeps that dtype)
    desc["dtype"] = rng.choice(["float64"] * 4 + ["int64", "int32", "uint8", "float32"])
    # the model's life after the fit: accepted and REJECTED setter calls, read-only calls – the ranking and the
    # selection are judged in the state they leave behind
    post = []
    if rng.random() < 0.6:
        for _ in range(rng.randint(1, 4)):
            r = rng.random()
            if r < 0.3:
                post.append(["set", rng.randint(1, nf)])
            elif r < 0.65:
                post.append(["set", rng.choice([nf + 1, nf + 4, 2 * nf, 0, -1, 2.5, None, "3"])])
            elif r < 0.8:
                post.append(["score"])
            elif r < 0.9:
                # the error curve over the default range, an explicit one, or one that goes past the number of sensors
                # (allowed: the method only warns that performance may be poor)
                post.append(["reconstruction_error", rng.choice([None, list(range(1, rng.randint(2, nf + 1))),
                                                                  list(range(1, nf + rng.randint(2, 4))), [nf, 1, 2][: rng.randint(1, 3)]])])
            else:
                post.append(["predict"])
    if rng.random() < 0.2:
        post.append(["reconstruction_error", list(range(1, nf + rng.randint(2, 4)))])
    desc["post"] = post
    return desc


def _run_sspor(ctx, desc, rng=None):
    from pysensors.optimizers import CCQR, GQR, QR
    from pysensors.reconstruction import SSPOR
    X = np.array(desc["X"], dtype=float)
    dt = desc.get("dtype", "float64")
    if dt != "float64" and np.array_equal(np.round(X), X):
        X = (np.abs(X) if dt == "uint8" else X).astype(dt)
    ne, nf = X.shape
    bk, nm, seed, ns, ok = desc["basis"], desc["n_modes"], desc["seed"], desc["n_sensors"], desc["opt"]
    basis = models.make_basis(bk, nm)
    fit_kw = {}
    if ok == "qr":
        opt = QR()
    elif ok == "ccqr":
        costs = desc.get("costs")
        opt = CCQR(sensor_costs=None if costs is None else np.array(costs, dtype=float))
    else:
        opt = GQR()
        fit_kw = {k: (np.array(v, dtype=int) if k in ("idx_constrained", "all_sensors") else v)
                  for k, v in (desc.get("gqr") or {}).items()}
    model = SSPOR(basis=basis, optimizer=opt, n_sensors=ns)
    pre = {}
    orig_get = opt.get_sensors

    def tapped_get():
        out = orig_get()
        pre["ranking"] = np.array(out).copy().tolist()
        return out

    opt.get_sensors = tapped_get
    try:
        model.fit(X.copy(), quiet=True, seed=seed, **fit_kw)
    except ValueError as e:
        return {"error": "ValueError", "msg": str(e)}
    finally:
        del opt.get_sensors
    for op in desc.get("post") or []:
        try:
            if op[0] == "set":
                (model.set_number_of_sensors if len(desc["X"]) % 2 else model.set_n_sensors)(op[1])
            elif op[0] == "score":
                model.score(X)
            elif op[0] == "reconstruction_error":
                model.reconstruction_error(X, **({} if len(op) < 2 or op[1] is None else {"sensor_range": np.array(op[1])}))
            else:
                model.predict(X[:, model.get_selected_sensors()])
        except Exception:
            pass                      # a rejected call: the state it leaves behind is what is judged
    final = np.array(model.get_all_sensors()).tolist()
    sel = np.array(model.get_selected_sensors()).tolist()
    return {"final": final, "selected": sel, "n_sensors": model.n_sensors, "pre": pre.get("ranking"),
            "n_modes_eff": int(model.basis_matrix_.shape[1]), "nf": nf}


def _check_sspor(ctx, desc, out, idx, lean_reqs):
    nf = np.array(desc["X"]).shape[1]
    if "error" in out:
        ctx.count("sspor_rejected:" + out["error"])
        return
    final, sel, ns = out["final"], out["selected"], out["n_sensors"]
    problems = []
    if not gen.is_perm(final, nf):
        problems.append(f"ranking {final} is not a permutation of range({nf})")
    if sel != final[: len(sel)]:
        problems.append("selected sensors are not a prefix of the ranking")
    if len(set(sel)) != len(sel) or any((not 0 <= s < nf) for s in sel):
        problems.append(f"selected sensors {sel} are not distinct valid indices")
    if not isinstance(ns, (int, np.integer)) or len(sel) != ns:
        problems.append(f"reported n_sensors={ns} but {len(sel)} sensors selected")
    if problems:
        ctx.violation("concrete", "SSPOR: " + "; ".join(problems),
                      {"signature": "sspor-ranking-or-selection", "case": desc, "observed": out,
                       "required": "permutation ranking, distinct valid prefix of length n_sensors", "index": idx})
        return
    if final != list(range(nf)):
        ctx.nontriv(("sspor", desc["basis"], desc["opt"], tuple(final)))
    # correspondence with tailShuffle: σ = numpy's seeded permutation of the tail
    if out["pre"] is not None and desc["seed"] is not None and gen.is_perm(out["pre"], nf):
        m = out["n_modes_eff"]
        tail = np.random.default_rng(desc["seed"]).permutation(np.array(out["pre"][m:])).tolist()
        lean_reqs.append((idx, desc, out, f"tailshuffle {m} {C.enc_nats(out['pre'])} {C.enc_nats(tail)}"))


def run(ctx: C.Ctx):
    from .. import shapes_static, translate_ranking
    shapes_static.run_with_translation(ctx, translate_ranking, "Ranking", "ranking-pipeline", lambda: _run(ctx),
                                       "regenerated from SSPOR.fit / predict / get_selected_sensors: tail shuffle = tailShuffle σ m, reads = selectLead n_sensors")


def _run(ctx: C.Ctx):
    rng = ctx.rng
    n_opt = ctx.scale(220, 4000)
    n_sspor = ctx.scale(120, 2000)
    # ---- optimizer level -------------------------------------------------------
    reqs, metas = [], []
    for idx in range(n_opt):
        case = _gen_optcase(ctx, rng)
        try:
            res = _check_opt_case(ctx, case, idx)
        except Exception as e:  # the code's own domain errors are not C01's business
            ctx.count("opt_exception:" + type(e).__name__)
            continue
        if res is None:
            continue
        if res.get("offsets") is not None and case.kind in ("ccqr", "gqr") and not res.get("tap_unavailable"):
            reqs.append(case.req_perm(res["offsets"]))
            metas.append((idx, case, res))
        ctx.sample({"case": case.describe(), "ranking": res["ranking"]}, limit=3)
    resp = ctx.driver.ask(reqs)
    for (idx, case, res), rp in zip(metas, resp):
        ctx.impl_traces += 1
        model_p = [int(x) for x in rp.split()[1:]] if rp.startswith("ok") else None
        if model_p != res["ranking"]:
            ctx.violation("no-failing-input-found",
                          f"{case.kind}: real pivots_ {res['ranking']} differ from pivLoop on the tapped oracle {model_p}",
                          {"signature": "pivLoop-correspondence", "case": case.describe(), "offsets": res["offsets"],
                           "observed": res["ranking"], "model": model_p, "index": idx},
                          broken="correspondence pivLoop ↔ CCQR/GQR.fit bookkeeping (theorem pivLoop_perm)")
    # ---- SSPOR level --------------------------------------------------------------
    lean_reqs = []
    import glob, json
    corpus = [json.load(open(f))["case"] for f in sorted(glob.glob(str(C.VERIF / "corpus" / "C01" / "*.json")))]
    for idx in range(-len(corpus), n_sspor):
        desc = dict(corpus[idx + len(corpus)]) if idx < 0 else _sspor_case(ctx, rng, idx)
        X = np.array(desc["X"])
        nf = X.shape[1]
        if desc["opt"] == "ccqr" and rng.random() < 0.7:
            desc["costs"] = [rng.randint(-8, 8) / 2 for _ in range(nf)]
        ctx.evaluations += 1
        ctx.count("sspor:" + desc["basis"] + "/" + desc["opt"])
        try:
            out = _run_sspor(ctx, desc)
        except Exception as e:
            # ValueError is how the package rejects a request (handled inside _run_sspor); anything else means there is no
            # ranked list for a legitimate training matrix
            ctx.violation("concrete", f"SSPOR.fit raised {type(e).__name__}: {str(e)[:120]} – no ranking for this training matrix "
                                      f"({desc['basis']} basis, {desc['opt']} optimizer, dtype {desc.get('dtype')})",
                          {"signature": "sspor-fit-raises:" + type(e).__name__, "case": desc, "index": idx})
            continue
        _check_sspor(ctx, desc, out, idx, lean_reqs)
        if "final" in out:
            ctx.sample({"sspor": {k: desc[k] for k in ("basis", "n_modes", "seed", "n_sensors", "opt")},
                        "shape": list(X.shape), "ranking": out["final"]}, limit=5)
    resp = ctx.driver.ask([r[3] for r in lean_reqs])
    for (idx, desc, out, _), rp in zip(lean_reqs, resp):
        ctx.impl_traces += 1
        model_final = [int(x) for x in rp.split()[1:]] if rp.startswith("ok") else None
        if model_final != out["final"]:
            ctx.violation("no-failing-input-found",
                          f"SSPOR ranking {out['final']} differs from tailShuffle model {model_final}",
                          {"signature": "tailShuffle-correspondence", "case": desc, "observed": out, "model": model_final,
                           "index": idx},
                          broken="correspondence tailShuffle ↔ SSPOR.fit shuffle (theorem tailShuffle_perm)")
    _nonfinite_costs_part(ctx)
    _sspor_life_part(ctx)
    _sspoc_part(ctx)


def _judge_life(ctx, h, idx):
    """the ranking 'available after fitting' at every point of a model's life: after each call the ranking is a permutation of the
    sensors of the model's own basis matrix and the selection is a distinct prefix of the reported length"""
    from .. import sspor_hist as H
    model, out = H.run_real(h)
    if model is None:
        return
    unclaimed = False
    for i, (status, obs) in enumerate(out):
        if h.ops[i][0] in ("fit", "upd"):
            # a REJECTED fit / update may leave the model half-way (finding F11, C19's business): nothing is claimed until the next
            # accepted one
            unclaimed = status != "ok"
        if unclaimed or obs is None or not isinstance(obs["rank"], list) or obs["bm"] is None:
            continue
        nf = obs["bm"][0]
        problems = []
        if not gen.is_perm(obs["rank"], nf):
            problems.append(f"ranking {obs['rank']} is not a permutation of range({nf}) (basis_matrix_ has {nf} sensor rows)")
        sel = obs["sel"]
        if isinstance(sel, list):
            if sel != obs["rank"][: len(sel)] or len(set(sel)) != len(sel):
                problems.append(f"selected sensors {sel} are not a distinct prefix of the ranking")
            if obs["ns"] is not None and len(sel) != obs["ns"] and status == "ok":
                problems.append(f"reported n_sensors={obs['ns']} but {len(sel)} sensors selected")
        elif status == "ok":
            problems.append(f"get_selected_sensors raises {sel} on a fitted model after an accepted call")
        if problems:
            ctx.violation("concrete", f"SSPOR after call {i} {h.ops[i]}: " + "; ".join(problems),
                          {"signature": "sspor-life-ranking-or-selection", "history": h.describe(), "call": i, "index": idx})
            return
    if sum(1 for (st, _), op in zip(out, h.ops) if st == "ok" and op[0] in ("fit", "upd")) >= 2:
        ctx.nontriv(("life", h.basis, h.opt, tuple(d.shape for d in h.datasets), tuple(op[0] for op in h.ops)))


def _sspor_life_part(ctx):
    from .. import sspor_hist as H
    rng = ctx.rng
    hs = []
    for idx in range(ctx.scale(80, 1000)):
        if idx % 2:
            h = H.gen_sweep_history(rng)
            ctx.count("life:mode_sweep_across_outside_basis_refit")
        else:
            h = H.gen_history(rng, max_ops=ctx.scale(8, 16), allow_invalid=rng.random() < 0.4,
                              kinds=("fit", "set", "upd", "upd", "bfit", "copy"), repeat_bias=0.5)
            ctx.count("life:random_history")
        ctx.evaluations += 1
        _judge_life(ctx, h, idx)
        hs.append((idx, h))
    # the theorems `run_rankOK` / `step_rankOK` (Props/C01Life.lean) are about Model/Sspor.lean: the same histories on the Lean machine
    from .c14 import machine_compare
    machine_compare(ctx, hs, "C01Life", search=lambda idx, h, i: _judge_life(ctx, H.History(h.basis, h.n_modes, h.ctor_ns, h.opt, h.datasets, list(h.ops[: i + 1])), idx))


_NF = {"inf": float("inf"), "-inf": float("-inf"), "nan": float("nan")}


def _dec_costs(cs):
    return np.array([_NF[c] if isinstance(c, str) else float(c) for c in cs], dtype=float)


def _nonfinite_costs_case(ctx, desc, idx):
    """CCQR with costs that are not finite numbers: +inf ("never here"), -inf ("must be here"), NaN (a missing price).
    "Whatever … sensor costs … are used" – the ranking is still a permutation and SSPOR's selection still has the reported count:
    in the model the costs live inside the arbitrary pivot oracle (pivLoop_perm needs nothing about it)."""
    from pysensors.optimizers import CCQR
    from pysensors.reconstruction import SSPOR
    B = np.array(desc["B"], dtype=float)
    n = B.shape[0]
    costs = _dec_costs(desc["costs"])
    ctx.evaluations += 1
    ctx.count("nonfinite_costs:" + desc["via"])
    import warnings
    with warnings.catch_warnings():
        warnings.simplefilter("ignore")
        try:
            if desc["via"] == "ccqr":
                r = np.array(CCQR(sensor_costs=costs.copy()).fit(B.copy()).get_sensors()).tolist()
                sel, ns = None, None
            else:
                model = SSPOR(basis=models.make_basis("identity", None), optimizer=CCQR(sensor_costs=costs.copy()))
                model.fit(B.T.copy(), quiet=True, seed=desc.get("seed", 0))
                r = np.array(model.get_all_sensors()).tolist()
                sel, ns = np.array(model.get_selected_sensors()).tolist(), model.n_sensors
        except ValueError:
            ctx.count("nonfinite_costs_rejected(ValueError)")     # refusing such costs outright is a result too
            return
    if not gen.is_perm(r, n):
        ctx.violation("concrete", f"CCQR ranking {r} with costs {desc['costs']} is not a permutation of range({n})",
                      {"signature": "optimizer-ranking-not-permutation", "nonfinite_case": desc, "observed": r,
                       "required": f"a permutation of 0..{n-1}", "index": idx})
        return
    if sel is not None and (len(sel) != ns or len(set(sel)) != len(sel) or sel != r[:ns]):
        ctx.violation("concrete", f"SSPOR(CCQR) with costs {desc['costs']}: {len(sel)} selected sensors, n_sensors={ns}",
                      {"signature": "sspor-selection-count", "nonfinite_case": desc, "observed": {"selected": sel, "n_sensors": ns},
                       "index": idx})
        return
    ctx.nontriv(("nonfinite", desc["via"], tuple(desc["costs"]), tuple(r)))


def _nonfinite_costs_part(ctx):
    rng = ctx.rng
    for idx in range(ctx.scale(40, 400)):
        B, kind = gen.gen_matrix(rng, max_n=ctx.scale(8, 16), max_m=ctx.scale(6, 10))
        n = B.shape[0]
        if n < 2:
            continue
        cs = [rng.randint(-8, 8) / 2 for _ in range(n)]
        for i in rng.sample(range(n), rng.randint(1, max(1, n // 2))):
            cs[i] = rng.choice(["inf", "-inf", "-inf", "nan"])
        desc = {"B": B.tolist(), "costs": cs, "via": rng.choice(["ccqr", "sspor"]), "seed": rng.randint(0, 9)}
        _nonfinite_costs_case(ctx, desc, idx)


def _sspoc_part(ctx):
    """SSPOC: selected sensors are distinct valid indices and their number is n_sensors."""
    from pysensors.classification import SSPOC
    rng = ctx.rng
    for idx in range(ctx.scale(40, 500)):
        X, y = models.gen_classification(rng)
        nf = X.shape[1]
        bk = rng.choice(models.BASIS_KINDS)
        nm = rng.randint(2, min(X.shape[0], nf)) if bk != "identity" else None
        mode = rng.choice(["n", "thr", "default"])
        kw = {}
        if mode == "n":
            kw["n_sensors"] = rng.randint(0, nf)
        elif mode == "thr":
            kw["threshold"] = rng.choice([0, 0.01, 0.1, 1.0, 100.0])
        desc = {"X": X.tolist(), "y": y.tolist(), "basis": bk, "n_modes": nm, "kw": kw}
        ctx.evaluations += 1
        ctx.count("sspoc:" + bk + "/" + mode)
        try:
            model = SSPOC(basis=models.make_basis(bk, nm), **kw)
            model.fit(X.copy(), y.copy(), quiet=True)
        except Exception as e:
            ctx.count("sspoc_exception:" + type(e).__name__)
            continue
        sel = np.array(model.selected_sensors).tolist()
        ns = model.n_sensors
        bad = (len(set(sel)) != len(sel)) or any((not 0 <= s < nf) for s in sel) or len(sel) != ns
        if bad:
            ctx.violation("concrete", f"SSPOC selection {sel} with n_sensors={ns} over {nf} sensors",
                          {"signature": "sspoc-selection", "case": desc, "observed": {"selected": sel, "n_sensors": ns},
                           "required": "distinct valid indices, count == n_sensors", "index": idx})
        elif 0 < len(sel) < nf:
            ctx.nontriv(("sspoc", bk, tuple(sel)))
        if bad:
            continue
        # counts around the number of informative sensors (the solvers leave exact zeros: ties at the cut-off)
        coef = np.abs(np.asarray(model.sensor_coef_))
        mag = coef if coef.ndim == 1 else coef.max(axis=1)
        nnz = int(np.count_nonzero(mag))
        for k in sorted({min(nf, nnz + 1), min(nf, nnz + 2), max(0, nnz - 1), rng.randint(0, nf)}):
            try:
                model.update_sensors(n_sensors=k, quiet=True)
            except Exception as e:
                ctx.count("sspoc_update_exception:" + type(e).__name__)
                break
            sel = np.array(model.selected_sensors).tolist()
            ctx.evaluations += 1
            if (len(set(sel)) != len(sel)) or any((not 0 <= s < nf) for s in sel) or len(sel) != k or model.n_sensors != k:
                ctx.violation("concrete", f"SSPOC.update_sensors(n_sensors={k}) selects {sel} (n_sensors={model.n_sensors}) over {nf} sensors, "
                                          f"{nnz} of them with non-zero weight",
                              {"signature": "sspoc-selection", "case": desc, "update_n_sensors": k,
                               "observed": {"selected": sel, "n_sensors": model.n_sensors},
                               "required": "distinct valid indices, count == n_sensors", "index": idx})
                break
            if k > nnz:
                ctx.nontriv(("sspoc-zeros", bk, k, nnz))


def replay(ctx: C.Ctx, payload):
    d = payload["data"]
    case = d.get("case", {})
    if "nonfinite_case" in d:
        _nonfinite_costs_case(ctx, d["nonfinite_case"], d.get("index", 0))
    elif "history" in d:
        from .. import sspor_hist as H
        _judge_life(ctx, H.history_from_desc(d["history"]), d.get("index", 0))
    elif "kind" in case:
        oc = OptCase.from_desc(case)
        res = _check_opt_case(ctx, oc, d.get("index", 0))
        if res is not None and res.get("offsets") is not None and oc.kind != "qr":
            rp = ctx.driver.ask1(oc.req_perm(res["offsets"]))
            model_p = [int(x) for x in rp.split()[1:]]
            if model_p != res["ranking"]:
                ctx.violation("no-failing-input-found", "pivLoop correspondence still broken",
                              {"signature": "pivLoop-correspondence", "case": case, "observed": res["ranking"], "model": model_p},
                              broken="pivLoop correspondence")
    elif "basis" in case and "y" not in case:
        out = _run_sspor(ctx, case)
        reqs = []
        _check_sspor(ctx, case, out, d.get("index", 0), reqs)
        for (_, _, o, rq) in reqs:
            rp = ctx.driver.ask1(rq)
            if [int(x) for x in rp.split()[1:]] != o["final"]:
                ctx.violation("no-failing-input-found", "tailShuffle correspondence still broken",
                              {"signature": "tailShuffle-correspondence", "case": case, "observed": o}, broken="tailShuffle")
    print("# replayed", payload.get("what"))
