theorem normcalc_exact_n (L piv A : List Nat) (j s : Nat) (nS : Option Nat)
    (hN : regionCount L A (effN nS A) < s ∨ effN nS A ≤ A.length) :
    gen_exact_n L (List.replicate (piv.drop j).length false) piv j s A nS
      = exactNZeros L A s (effN nS A) j (piv.drop j) := by
  have hn : (if (true && (nS != none && nS != some 0)) then nS.getD 0 else A.length) = effN nS A := by
    cases nS with
    | none => simp [effN]
    | some n => cases n <;> simp [effN]
  simp only [gen_exact_n, hn, Np.count_isin_take]
  have hl : (piv.drop j).length = (Np.isin (piv.drop j) L true).length := by simp [Np.isin]
  unfold exactNZeros
  by_cases ht : regionCount L A (effN nS A) < s
  · have ht' : ((regionCount L A (effN nS A) : Nat) : Int) < ((s : Nat) : Int) := by exact_mod_cast ht
    simp only [ht', decide_true, if_true]
    by_cases hw : ((effN nS A : Nat) : Int) > ((j : Nat) : Int) ∧
        ((j : Nat) : Int) ≥ ((effN nS A : Nat) : Int) - (((s : Nat) : Int) - ((regionCount L A j : Nat) : Int))
    · have hw' : (decide (((effN nS A : Nat) : Int) > ((j : Nat) : Int)) &&
          decide (((j : Nat) : Int) ≥ ((effN nS A : Nat) : Int) - (((s : Nat) : Int) - ((regionCount L A j : Nat) : Int)))) = true := by
        simp [hw.1, hw.2]
      simp only [hw', if_true]
      rw [hl, Np.zeroAt_replicate]
      unfold Np.isin
      apply List.map_congr_left
      intro c _
      simp [exactNMasked, ht, hw.1, hw.2, inL]
    · have hw' : (decide (((effN nS A : Nat) : Int) > ((j : Nat) : Int)) &&
          decide (((j : Nat) : Int) ≥ ((effN nS A : Nat) : Int) - (((s : Nat) : Int) - ((regionCount L A j : Nat) : Int)))) = false := by
        apply Bool.eq_false_iff.mpr
        intro h
        simp only [Bool.and_eq_true, decide_eq_true_eq] at h
        exact hw h
      simp only [hw', Bool.false_eq_true, if_false]
      apply Np.replicate_false_eq_map
      intro c _
      simp only [exactNMasked, ht, if_true, Bool.and_eq_false_iff]
      left
      apply decide_eq_false
      exact hw
  · have ht' : ¬ ((regionCount L A (effN nS A) : Nat) : Int) < ((s : Nat) : Int) := by
      intro h; apply ht; exact_mod_cast h
    simp only [ht', decide_false, Bool.false_eq_true, if_false]
    have hN' : effN nS A ≤ A.length := by
      rcases hN with h | h
      · exact absurd h ht
      · exact h
    rw [normcalc_max_n L piv A j s nS hN']
    unfold maxNZeros
    apply List.map_congr_left
    intro c _
    simp [exactNMasked, ht]

