theorem normcalc_max_n (L piv A : List Nat) (j s : Nat) (nS : Option Nat) (hN : effN nS A ≤ A.length) :
    gen_max_n L (List.replicate (piv.drop j).length false) piv j s A nS
      = maxNZeros L A s (effN nS A) (piv.drop j) := by
  have hn : (if (true && (nS != none && nS != some 0)) then nS.getD 0 else A.length) = effN nS A := by
    cases nS with
    | none => simp [effN]
    | some n => cases n <;> simp [effN]
  simp only [gen_max_n, hn]
  have hloop := maxN_loop L A s (Np.isin (piv.drop j) ((Np.sel A (Np.isin A L false)).drop s) false)
    (List.replicate (piv.drop j).length false) (effN nS A) hN
  show (List.foldl (fun (st : Nat × List Bool) i =>
        if Np.isin1 (A.getD i 0) L false then
          (st.1 + 1, if decide (((st.1 + 1 : Nat) : Int) > ((s : Nat) : Int)) then
            Np.zeroAt st.2 (Np.isin (piv.drop j) ((Np.sel A (Np.isin A L false)).drop s) false) else st.2)
        else st) (0, List.replicate (piv.drop j).length false) (List.range (effN nS A))).snd = _
  rw [hloop]
  have hl : (piv.drop j).length = (Np.isin (piv.drop j) ((Np.sel A (Np.isin A L false)).drop s) false).length := by
    simp [Np.isin]
  simp only []
  rw [hl, Np.zeroAt_replicate, ← hl, Np.sel_isin]
  unfold maxNZeros Np.isin
  by_cases hc : regionCount L A (effN nS A) > s
  · simp only [hc, if_true]
    apply List.map_congr_left
    intro c _
    simp [maxNMasked, bannedOf, hc]
  · simp only [hc, if_false]
    apply Np.replicate_false_eq_map
    intro c _
    simp [maxNMasked, hc]

