/-- the regenerated functions are the masks of the configured model (`GqrCfg.mask`, the object of the theorems of
`Props/C05.lean` / `Props/C06.lean`), on the domain on which the Python functions run without raising -/
theorem mask_max_n (cfg : GqrCfg) (h : cfg.opt = .maxN) (hd : cfg.inDomain = true) (j : Nat) (p : Array Nat) :
    gen_max_n cfg.L (List.replicate (p.toList.drop j).length false) p.toList j cfg.s cfg.A cfg.nSensors = cfg.mask j p := by
  have hN : effN cfg.nSensors cfg.A ≤ cfg.A.length := by
    simpa [GqrCfg.inDomain, h] using hd
  have hm : cfg.masked j = maxNMasked cfg.L cfg.A cfg.s (effN cfg.nSensors cfg.A) := by
    funext c; simp [GqrCfg.masked, h]
  rw [normcalc_max_n cfg.L p.toList cfg.A j cfg.s cfg.nSensors hN]
  simp only [GqrCfg.mask, pmask, maxNZeros, hm]

theorem mask_exact_n (cfg : GqrCfg) (h : cfg.opt = .exactN) (hd : cfg.inDomain = true) (j : Nat) (p : Array Nat) :
    gen_exact_n cfg.L (List.replicate (p.toList.drop j).length false) p.toList j cfg.s cfg.A cfg.nSensors = cfg.mask j p := by
  have hN : regionCount cfg.L cfg.A (effN cfg.nSensors cfg.A) < cfg.s ∨ effN cfg.nSensors cfg.A ≤ cfg.A.length := by
    simpa [GqrCfg.inDomain, h] using hd
  have hm : cfg.masked j = exactNMasked cfg.L cfg.A cfg.s (effN cfg.nSensors cfg.A) j := by
    funext c; simp [GqrCfg.masked, h]
  rw [normcalc_exact_n cfg.L p.toList cfg.A j cfg.s cfg.nSensors hN]
  simp only [GqrCfg.mask, pmask, exactNZeros, hm]

theorem mask_predetermined (cfg : GqrCfg) (h : cfg.opt = .predetermined) (hd : cfg.inDomain = true) (j : Nat) (p : Array Nat) :
    gen_predetermined cfg.L (List.replicate (p.toList.drop j).length false) p.toList j cfg.s cfg.A cfg.nSensors = cfg.mask j p := by
  have hs : cfg.nSensors.isSome = true := by simpa [GqrCfg.inDomain, h] using hd
  obtain ⟨N, hNs⟩ := Option.isSome_iff_exists.mp hs
  have hm : cfg.masked j = predMasked cfg.L cfg.s N j := by
    funext c; simp [GqrCfg.masked, h, hNs]
  rw [hNs, normcalc_predetermined cfg.L p.toList cfg.A j cfg.s N]
  simp only [GqrCfg.mask, pmask, predeterminedZeros, hm]
