theorem normcalc_predetermined (L piv A : List Nat) (j s N : Nat) :
    gen_predetermined L (List.replicate (piv.drop j).length false) piv j s A (some N)
      = predeterminedZeros L s N j (piv.drop j) := by
  have hl : (piv.drop j).length = (Np.isin (piv.drop j) L
      (decide ((((N : Nat) : Int) - ((s : Nat) : Int)) ≤ ((j : Nat) : Int)) && decide (((j : Nat) : Int) ≤ ((N : Nat) : Int)))).length := by
    simp [Np.isin]
  simp only [gen_predetermined, Option.getD_some]
  rw [hl, Np.zeroAt_replicate]
  unfold Np.isin predeterminedZeros
  apply List.map_congr_left
  intro c _
  simp [predMasked, inL, Bool.decide_and]

