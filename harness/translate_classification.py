"""
C09 / C10, second tie (translation): the dispatch of `SSPOC.predict`, what `SSPOC.fit` trains the classifier on and which solver it calls,
and the refit block of `update_sensors`, read off the CURRENT source into `lean/PsVerif/Model/ClsExpr.lean`.  Generated
(`lean/PsVerif/Generated/Classification.lean`):

    def clsProg : ClsProg := …        theorem cls_pipeline : clsProg = ClsProg.spec := by decide
    theorem cls_predict_is_model (st) : predArms st clsProg.predict = st.predictKind          -- the dispatch of the Sspoc machine

Each recognised statement sets a field; the statements of `predict` must be exactly the four arms; in `fit` and `update_sensors` the named
statements must be present in order (other statements – warnings, validation, the basis fit – are not constrained here).
"""
from __future__ import annotations

import ast
import os


class Untranslatable(Exception):
    pass


def U(e):
    return ast.unparse(e)


def body_of(fn):
    b = fn.body
    if b and isinstance(b[0], ast.Expr) and isinstance(b[0].value, ast.Constant) and isinstance(b[0].value.value, str):
        b = b[1:]
    return b


def flat(stmts):
    """statements in source order, descending into if / with bodies"""
    out = []
    for s in stmts:
        out.append(s)
        if isinstance(s, ast.If):
            out += flat(s.body) + flat(s.orelse)
        elif isinstance(s, ast.With):
            out += flat(s.body)
    return out


def in_order(texts, wanted, what):
    i = 0
    for w in wanted:
        while i < len(texts) and texts[i] != w:
            i += 1
        if i == len(texts):
            raise Untranslatable(f"{what}: statement `{w}` not found (in this order)")
        i += 1


def analyse(repo):
    site = {"site": "classification", "function": "pysensors/classification/_sspoc.py::SSPOC.predict / fit / update_sensors (refit block)",
            "found": False, "theorems": ["cls_pipeline", "cls_predict_is_model"]}
    try:
        tree = ast.parse(open(os.path.join(str(repo), "pysensors", "classification", "_sspoc.py")).read())
        cls = next((n for n in tree.body if isinstance(n, ast.ClassDef) and n.name == "SSPOC"), None)
        fns = {n.name: n for n in (cls.body if cls else []) if isinstance(n, ast.FunctionDef)}
        # ---- predict: exactly the four arms
        pb = body_of(fns["predict"])
        arms = []
        if len(pb) != 3:
            raise Untranslatable(f"predict has {len(pb)} top-level statements, expected check_is_fitted / zero-sensor arm / refit dispatch")
        if U(pb[0]) != "check_is_fitted(self, 'sensor_coef_')":
            raise Untranslatable(f"predict: `{U(pb[0])}`")
        arms.append(".fittedFirst")
        z = pb[1]
        if not (isinstance(z, ast.If) and U(z.test) == "self.n_sensors == 0" and not z.orelse and len(z.body) == 2
                and U(z.body[0]).startswith("warnings.warn(") and U(z.body[1]) == "return self.dummy_.predict(np.zeros(len(x)))"):
            raise Untranslatable(f"predict: zero-sensor arm `{U(z)[:120]}`")
        arms.append(".zeroSensorsDummy")
        d = pb[2]
        if not (isinstance(d, ast.If) and U(d.test) == "self.refit_" and [U(s) for s in d.body] == ["return self.classifier.predict(x)"]
                and [U(s) for s in d.orelse] == ["return self.classifier.predict(np.dot(x, self.basis_matrix_inverse_.T))"]):
            raise Untranslatable(f"predict: refit dispatch `{U(d)[:160]}`")
        arms += [".refitRaw", ".elseProjected"]
        # ---- fit
        fb = flat(body_of(fns["fit"]))
        ft = [U(s) for s in fb if not isinstance(s, (ast.If, ast.With))]
        train = "self.classifier.fit(np.matmul(x, self.basis_matrix_inverse_.T), y)"
        if ft.count(train) != 2:
            raise Untranslatable("fit: the classifier is not trained on x·(Ψ⁻¹)ᵀ in both `quiet` branches")
        if any(t.startswith("self.classifier.fit(") and t != train for t in ft):
            raise Untranslatable("fit trains the classifier on something else as well")
        in_order(ft, ["self.basis_matrix_inverse_ = self.basis.matrix_inverse(n_basis_modes=self.n_basis_modes)", train, "self.refit_ = False",
                      "w = np.squeeze(self.classifier.coef_).T", "n_classes = len(set(y[:]))"], "fit")
        disp = next((s for s in body_of(fns["fit"]) if isinstance(s, ast.If) and U(s.test) == "n_classes == 2"), None)
        if disp is None:
            raise Untranslatable("fit: dispatch on n_classes == 2 not found")
        if [U(s) for s in disp.body] != ["s = constrained_binary_solve(w, self.basis_matrix_inverse_, quiet=quiet, **optimizer_kws)"]:
            raise Untranslatable(f"fit: binary solver call {[U(s) for s in disp.body]}")
        if [U(s) for s in disp.orelse] != ["s = constrained_multiclass_solve(w, self.basis_matrix_inverse_, alpha=self.l1_penalty, quiet=quiet, **optimizer_kws)"]:
            raise Untranslatable(f"fit: multiclass solver call {[U(s) for s in disp.orelse]}")
        in_order(ft, ["self.sensor_coef_ = s", "self.sparse_sensors_ = np.array([])", "xy = (x, y) if refit else None",
                      "self.update_sensors(n_sensors=self.n_sensors, threshold=threshold, xy=xy, quiet=quiet)",
                      "self.dummy_ = DummyClassifier(strategy='stratified')", "self.dummy_.fit(x[:, 0], y)", "return self"], "fit")
        if sum(1 for t in ft if t.startswith("self.refit_ =")) != 1:
            raise Untranslatable("fit assigns refit_ more than once")
        # ---- update_sensors: refit block
        ub = body_of(fns["update_sensors"])
        blk = next((s for s in ub if isinstance(s, ast.If) and U(s.test) == "xy is not None"), None)
        if blk is None or ub[-1] is not blk or blk.orelse or len(blk.body) != 1 or not isinstance(blk.body[0], ast.If) or U(blk.body[0].test) != "self.n_sensors > 0":
            raise Untranslatable("update_sensors: `if xy is not None: if self.n_sensors > 0:` is not the last statement")
        it = [U(s) for s in flat(blk.body[0].body) if not isinstance(s, (ast.If, ast.With))]
        refit = "self.classifier.fit(x[:, self.sparse_sensors_], y)"
        core = [t for t in it if not t.startswith("warnings.filterwarnings(")]
        if core != ["(x, y) = xy", refit, refit, "self.refit_ = True"] and core != ["x, y = xy", refit, refit, "self.refit_ = True"]:
            raise Untranslatable(f"update_sensors: refit block {core}")
        if len(blk.body[0].orelse) != 1 or not U(blk.body[0].orelse[0]).startswith("warnings.warn("):
            raise Untranslatable("update_sensors: zero-sensor branch of the refit block")
        site["lean"] = ("def clsProg : ClsProg :=\n"
                        f"  {{ predict := [{', '.join(arms)}], fitTrainsOnBasisCoordinates := true, fitResetsRefitFlag := true,\n"
                        "    weightsAreSqueezedCoefTransposed := true, nClassesIsDistinctLabels := true, solverDispatch := .binaryWhenTwoClasses,\n"
                        "    multiclassAlphaIsL1Penalty := true, storesCoefThenUpdatesSensors := true, dummyIsStratifiedOnLabels := true,\n"
                        "    updateRefitsOnSelectedColumns := true }\n"
                        "theorem cls_pipeline : clsProg = ClsProg.spec := by decide\n"
                        "theorem cls_predict_is_model (st : Sspoc) : predArms st clsProg.predict = st.predictKind := by\n"
                        "  rw [cls_pipeline]; exact ClsProg.spec_predict st\n")
        site["found"] = True
    except (Untranslatable, KeyError) as e:
        site["why"] = (str(e) if isinstance(e, Untranslatable) else f"method {e} not found")[:400]
    return [site]


def emit(sites, out_path):
    parts = ["/- GENERATED by harness/translate_classification.py from pysensors/classification/_sspoc.py – do not edit. -/",
             "import PsVerif.Model.ClsExpr", "namespace PsVerif.Gen", "open PsVerif", ""]
    for s in sites:
        parts.append(f"/-- {s['function']} -/" if s["found"] else f"-- {s['function']}: NOT TRANSLATABLE ({s.get('why')})")
        if s["found"]:
            parts.append(s["lean"])
    parts.append("end PsVerif.Gen\n")
    text = "\n".join(parts)
    out_path = str(out_path)
    if not os.path.exists(out_path) or open(out_path).read() != text:
        open(out_path, "w").write(text)
    return [{"site": s["site"], "function": s["function"], "found": s["found"], "why": s.get("why"), "theorem": s["theorems"][0],
             "theorems": s["theorems"], "lean": s.get("lean", "")[:300]} for s in sites]


if __name__ == "__main__":
    import sys
    for s in analyse(sys.argv[1] if len(sys.argv) > 1 else "/repo"):
        print("==", s["site"], s["found"], s.get("why")); print(s.get("lean", "")[:300])
