"""
Judging real pivot traces with the exact Lean model (`replayv`) and, on rejection, with the
independent Fraction oracle.  Shared by C03, C04, C05, C06, C18.
"""
from __future__ import annotations

import math
from fractions import Fraction

import numpy as np

from . import common as C
from . import oracles
from .opt import OptCase, parse_replay, scale_of

# Numerical budget (see DESIGN.md §3).  The float code computes residual norms by Householder elimination; their
# error is about n·eps·scale amplified by scale/ρ_min, ρ_min the smallest non-zero pivot residual so far (conditioning
# of the eliminated block).  Budget of step j:  BUDGET_REL · max(scale · max(1, scale/ρ_min(j)), max|cost|).
BUDGET_REL = Fraction(1, 10 ** 12)    # ≈ 4500 eps


class Judgment:
    def __init__(self):
        self.model_p = None
        self.verdicts = None
        self.rejected_step = None     # first judged step the exact model rejects
        self.truncated_at = None      # step after which nothing is judged
        self.judged = 0
        self.norm_mismatch = None     # (step, candidate position, float, exact)
        self.mask_mismatch = None     # (step, real zeros, model zeros)  (GQR)
        self.all_uniq = True
        self.domain = True
        self.delta = None             # budget of the last judged / rejected step
        self.deltas = None            # budget per step


def mask_sets_for(case: OptCase, res, verdicts):
    return None


def _sqrt_upper(x: Fraction) -> Fraction:
    """a rational ≥ √x, tight to 2^-40 relative"""
    lo, hi = oracles.sqrt_bounds(x, 60)
    return hi


def _sqrt_lower(x: Fraction) -> Fraction:
    lo, hi = oracles.sqrt_bounds(x, 60)
    return lo


def budgets_for(case: OptCase, chosen_n2):
    """per-step budgets from the exact residuals of the pivots chosen so far"""
    sc = scale_of(case.B)
    cmax = Fraction(0)
    if case.kind == "ccqr" and case.costs is not None and len(case.costs):
        cmax = max(abs(C.frac(c)) for c in case.costs.tolist())
    out = []
    rho_min = None
    # a single-precision basis matrix is eliminated in single precision (norms accurate to eps32); the costs are always float64
    rel_norm = BUDGET_REL * (Fraction(2) ** 29 if case.meta.get("dtype") in ("float32", "float16") else 1)
    for n2 in chosen_n2:
        amp = Fraction(1) if rho_min is None else max(Fraction(1), sc / rho_min)
        out.append(max(rel_norm * sc * amp, BUDGET_REL * cmax))
        if n2 is not None and n2 > 0:
            r = _sqrt_lower(n2)
            if r > 0 and (rho_min is None or r < rho_min):
                rho_min = r
    return out, sc


def judge_batch(ctx, items):
    """items: list of (case, res) with res['offsets'] present. Returns list[Judgment].
    Two passes through the Lean model: the first yields the exact residual of every chosen pivot (which fixes the
    budget of every later step), the second judges each step with its own budget."""
    first = ctx.driver.ask([case.req_replay(res["offsets"], [0], verbose=False) for case, res in items])
    reqs, metas = [], []
    for (case, res), rp in zip(items, first):
        if rp == "domain":
            reqs.append(None); metas.append(None)
            continue
        p, vs = parse_replay(rp)
        if p is None:
            raise C.HarnessError(f"driver: {rp[:200]}")
        deltas, sc = budgets_for(case, [v["n2"] if not v["masked"] else None for v in vs])
        metas.append((deltas, sc))
        reqs.append(case.req_replay(res["offsets"], deltas or [0], verbose=True))
    resp = iter(ctx.driver.ask([r for r in reqs if r is not None]))
    out = []
    for (case, res), rq, meta in zip(items, reqs, metas):
        J = Judgment()
        if rq is None:
            J.domain = False
            out.append(J)
            continue
        rp = next(resp)
        deltas, sc = meta
        J.deltas = deltas
        J.delta = deltas[0] if deltas else Fraction(0)
        p, vs = parse_replay(rp)
        if p is None:
            raise C.HarnessError(f"driver: {rp[:200]}")
        J.model_p, J.verdicts = p, vs
        dl = res.get("dlens")
        for j, v in enumerate(vs):
            dj = deltas[j] if j < len(deltas) else deltas[-1]
            noise = dj >= sc            # budget as large as the matrix itself: nothing can be judged any more
            # tapped float norms against the exact ones (before judging the pick)
            if dl is not None and J.norm_mismatch is None and J.truncated_at is None and not noise:
                ex = v.get("cand_n2", [])
                fl = dl[j]
                if len(ex) != len(fl):
                    J.norm_mismatch = (j, -1, len(fl), len(ex))
                else:
                    tol = float(dj)
                    for pos, (f, e) in enumerate(zip(fl, ex)):
                        if not math.isfinite(f) or abs(f - math.sqrt(float(e))) > tol + 1e-15 * abs(f):
                            J.norm_mismatch = (j, pos, f, float(e) ** 0.5)
                            break
            if not v["uniq"]:
                J.all_uniq = False
            if J.truncated_at is None:
                if noise:
                    J.truncated_at = j
                    continue
                J.judged += 1
                if not v["ok"] and J.rejected_step is None:
                    J.rejected_step = j
                    J.delta = dj
                n2 = v["n2"]
                fl_ch = None
                if dl is not None:
                    off = res["offsets"][j]
                    fl_ch = dl[j][off] if off < len(dl[j]) else None
                if n2 == 0 and not v["masked"]:
                    # exact residual zero: the model eliminates nothing; the float code eliminates rounding noise
                    # unless its residual is exactly 0.0 too – unjudgeable from here unless everything is zero
                    if fl_ch is None or fl_ch != 0.0:
                        if any(x != 0 for x in v.get("cand_n2", [1])):
                            J.truncated_at = j
                elif v["masked"]:
                    # a masked candidate was chosen (infeasible request): the code takes its zero-norm branch although the
                    # column is not zero – outside every property's feasibility clause
                    J.truncated_at = j
        out.append(J)
    return out


def oracle_confirms(case: OptCase, res, J: Judgment, masks=None):
    """Independent check of the rejected step with explicit MGS residuals. Returns (confirmed, info)."""
    k = (J.rejected_step or 0) + 1
    costs = case.costs.tolist() if (case.kind == "ccqr" and case.costs is not None) else None
    jd = oracles.greedy_judge(case.B, res["ranking"], k, costs=costs, masks=masks, delta=J.delta)
    bad = not jd[-1]["ok"]
    return bad, {"oracle_steps": [{"ok": d["ok"], "chosen": d["chosen"], "n2": str(d["n2"])} for d in jd]}


def model_masks(ctx, case: OptCase, res):
    """masked sensor-id sets per step according to the Lean mask model, following the real permutation history"""
    if case.kind != "gqr" or not case.gqr.get("constraint_option"):
        return None
    n, m = case.B.shape
    k = min(n, m)
    p = list(range(n))
    reqs = []
    ps = []
    for j in range(k):
        ps.append(list(p))
        reqs.append(f"mask {case.cfg_tokens()} {j} {C.enc_nats(p)}")
        i = j + res["offsets"][j]
        p[j], p[i] = p[i], p[j]
    resp = ctx.driver.ask(reqs)
    out = []
    for j, rp in enumerate(resp):
        if not rp.startswith("ok"):
            return None
        bits = rp.split()[1] if len(rp.split()) > 1 else ""
        out.append({c for c, b in zip(ps[j][j:], bits) if b == "1"})
    return out
