"""
Judging real pivot traces with the exact Lean model (`replayv`) and, on rejection, with the
independent Fraction oracle.  Shared by C03, C04, C05, C06, C18.
"""
from __future__ import annotations

import math
from fractions import Fraction

import numpy as np

from . import common as C
from . import oracles
from .opt import OptCase, parse_replay, scale_of

DELTA_REL = Fraction(1, 10 ** 9)      # acceptance budget relative to the largest initial norm
TINY_REL = Fraction(1, 10 ** 6)       # residuals below this (relative) but non-zero: trace truncated
NORM_TOL = 1e-8                       # tapped float norms vs exact norms (relative to scale)


class Judgment:
    def __init__(self):
        self.model_p = None
        self.verdicts = None
        self.rejected_step = None     # first judged step the exact model rejects
        self.truncated_at = None      # step after which nothing is judged
        self.judged = 0
        self.norm_mismatch = None     # (step, candidate position, float, exact)
        self.mask_mismatch = None     # (step, real zeros, model zeros)  (GQR)
        self.all_uniq = True
        self.domain = True
        self.delta = None


def mask_sets_for(case: OptCase, res, verdicts):
    return None


def judge_batch(ctx, items):
    """items: list of (case, res) with res['offsets'] present. Returns list[Judgment]."""
    reqs = []
    deltas = []
    for case, res in items:
        sc = scale_of(case.B)
        # the float code forms `norm - cost`: its rounding is relative to the larger of the two magnitudes
        cmax = Fraction(0)
        if case.kind == "ccqr" and case.costs is not None and len(case.costs):
            cmax = max(abs(C.frac(c)) for c in case.costs.tolist())
        delta = DELTA_REL * max(sc, cmax)
        deltas.append((delta, sc))
        reqs.append(case.req_replay(res["offsets"], delta, verbose=True))
    resp = ctx.driver.ask(reqs)
    out = []
    for (case, res), rp, (delta, sc) in zip(items, resp, deltas):
        J = Judgment()
        J.delta = delta
        if rp == "domain":
            J.domain = False
            out.append(J)
            continue
        p, vs = parse_replay(rp)
        if p is None:
            raise C.HarnessError(f"driver: {rp[:200]}")
        J.model_p, J.verdicts = p, vs
        tiny2 = (TINY_REL * sc) ** 2
        dl = res.get("dlens")
        zeros = res.get("zeros")
        for j, v in enumerate(vs):
            # tapped float norms against the exact ones (before judging the pick)
            if dl is not None and J.norm_mismatch is None and J.truncated_at is None:
                ex = v.get("cand_n2", [])
                fl = dl[j]
                if len(ex) != len(fl):
                    J.norm_mismatch = (j, -1, len(fl), len(ex))
                else:
                    for pos, (f, e) in enumerate(zip(fl, ex)):
                        if not math.isfinite(f) or abs(f - math.sqrt(float(e))) > NORM_TOL * float(sc):
                            J.norm_mismatch = (j, pos, f, float(e) ** 0.5)
                            break
            if not v["uniq"]:
                J.all_uniq = False
            if J.truncated_at is None:
                J.judged += 1
                if not v["ok"] and J.rejected_step is None:
                    J.rejected_step = j
                # truncation: the float code divides by a float residual that exact arithmetic says is
                # (nearly) zero – the direction it removes is rounding noise, the exact model removes none.
                n2 = v["n2"]
                fl_ch = None
                if dl is not None:
                    off = res["offsets"][j]
                    fl_ch = dl[j][off] if off < len(dl[j]) else None
                if n2 != 0 and n2 < tiny2:
                    J.truncated_at = j
                elif n2 == 0 and not v["masked"]:
                    if fl_ch is None or fl_ch != 0.0:
                        # float residual unknown or non-zero noise: unjudgeable from here unless everything is zero
                        if any(x != 0 for x in v.get("cand_n2", [1])):
                            J.truncated_at = j
                elif v["masked"]:
                    # a masked candidate was chosen (infeasible request): the code takes its zero-norm branch
                    # although the column is not zero – outside every property's feasibility clause
                    J.truncated_at = j
        out.append(J)
    return out


def oracle_confirms(case: OptCase, res, J: Judgment, masks=None):
    """Independent check of the rejected step with explicit MGS residuals. Returns (confirmed, info)."""
    k = (J.rejected_step or 0) + 1
    costs = case.costs.tolist() if (case.kind == "ccqr" and case.costs is not None) else None
    jd = oracles.greedy_judge(case.B, res["ranking"], k, costs=costs, masks=masks, delta=J.delta)
    bad = not jd[-1]["ok"]
    return bad, {"oracle_steps": [{"ok": d["ok"], "chosen": d["chosen"], "n2": str(d["n2"])} for d in jd]}


def model_masks(ctx, case: OptCase, res):
    """masked sensor-id sets per step according to the Lean mask model, following the real permutation history"""
    if case.kind != "gqr" or not case.gqr.get("constraint_option"):
        return None
    n, m = case.B.shape
    k = min(n, m)
    p = list(range(n))
    reqs = []
    ps = []
    for j in range(k):
        ps.append(list(p))
        reqs.append(f"mask {case.cfg_tokens()} {j} {C.enc_nats(p)}")
        i = j + res["offsets"][j]
        p[j], p[i] = p[i], p[j]
    resp = ctx.driver.ask(reqs)
    out = []
    for j, rp in enumerate(resp):
        if not rp.startswith("ok"):
            return None
        bits = rp.split()[1] if len(rp.split()) > 1 else ""
        out.append({c for c, b in zip(ps[j][j:], bits) if b == "1"})
    return out
