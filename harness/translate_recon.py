"""
C02 / C07, second tie (translation): the dispatch of `SSPOR.predict` and the two reconstruction formulas, read off the CURRENT
source into `lean/PsVerif/Model/ReconExpr.lean`.  Generated (`lean/PsVerif/Generated/Recon.lean`):

    def reconProg : ReconProg := …
    theorem recon_predict : reconProg = ReconProg.spec := by decide
    theorem recon_predict_is_model (B sensors Y) : reconProg.eval solveExact lstsqExact B sensors Y = predictExact B sensors Y

`predictExact` is the function of `Model/Recon.lean` the theorems of C02 / C07 and the correspondence runs are about.  The two methods
must consist of exactly `return np.dot(self.basis_matrix_, <solver>(self.basis_matrix_[sensors, :], x, **solve_kws)[…]).T`; `predict` of:
check_is_fitted, `x = validate_input(x, ranked[: n_sensors]).T`, an optional warning, and the `n_sensors == basis_matrix_.shape[1]`
dispatch passing `ranked[: n_sensors]` and `**solve_kws`.  A cache, a cast, a shortcut, an extra solver keyword, another solver: the
statement list no longer matches → untranslatable (reported like a failing proof).
"""
from __future__ import annotations

import ast
import os


class Untranslatable(Exception):
    pass


def U(e):
    return ast.unparse(e)


def body_of(fn):
    b = fn.body
    if b and isinstance(b[0], ast.Expr) and isinstance(b[0].value, ast.Constant) and isinstance(b[0].value.value, str):
        b = b[1:]
    return b


def path(fn, which):
    if [a.arg for a in fn.args.args] != ["self", "x", "sensors"] or fn.args.kwarg is None or fn.args.kwarg.arg != "solve_kws":
        raise Untranslatable(f"signature of {fn.name}")
    b = body_of(fn)
    if len(b) != 1 or not isinstance(b[0], ast.Return):
        raise Untranslatable(f"{fn.name} is not a single return statement")
    t = U(b[0].value)
    want = {"solve": "np.dot(self.basis_matrix_, solve(self.basis_matrix_[sensors, :], x, **solve_kws)).T",
            "lstsq0": "np.dot(self.basis_matrix_, lstsq(self.basis_matrix_[sensors, :], x, **solve_kws)[0]).T"}
    for k, w in want.items():
        if t == w:
            return f"⟨.{k}, true, true, true, true, true⟩"
    raise Untranslatable(f"{fn.name} returns `{t}`")


def analyse(repo):
    site = {"site": "predict", "function": "pysensors/reconstruction/_sspor.py::SSPOR.predict / _square_predict / _rectangular_predict",
            "found": False, "theorems": ["recon_predict", "recon_predict_is_model"]}
    try:
        src = open(os.path.join(str(repo), "pysensors", "reconstruction", "_sspor.py")).read()
        tree = ast.parse(src)
        cls = next((n for n in tree.body if isinstance(n, ast.ClassDef) and n.name == "SSPOR"), None)
        fns = {n.name: n for n in (cls.body if cls else []) if isinstance(n, ast.FunctionDef)}
        for need in ("predict", "_square_predict", "_rectangular_predict"):
            if need not in fns:
                raise Untranslatable(f"SSPOR.{need} not found")
        # the solvers are scipy's
        imp = [U(n) for n in tree.body if isinstance(n, ast.ImportFrom) and n.module == "scipy.linalg"]
        names = {a.name for n in tree.body if isinstance(n, ast.ImportFrom) and n.module == "scipy.linalg" for a in n.names}
        if not {"solve", "lstsq"} <= names:
            raise Untranslatable(f"solve / lstsq are not imported from scipy.linalg ({imp})")
        sq = path(fns["_square_predict"], "solve")
        re_ = path(fns["_rectangular_predict"], "lstsq0")
        p = fns["predict"]
        if [a.arg for a in p.args.args] != ["self", "x"] or p.args.kwarg is None or p.args.kwarg.arg != "solve_kws":
            raise Untranslatable("signature of predict")
        b = body_of(p)
        ts = [U(s) for s in b]
        if len(b) < 3 or ts[0] != "check_is_fitted(self, 'ranked_sensors_')":
            raise Untranslatable(f"predict does not start with check_is_fitted(self, 'ranked_sensors_'): `{ts[0] if ts else ''}`")
        if ts[1] != "x = validate_input(x, self.ranked_sensors_[:self.n_sensors]).T":
            raise Untranslatable(f"measurements are not validated and transposed as modelled: `{ts[1]}`")
        rest = b[2:]
        if len(rest) == 2 and isinstance(rest[0], ast.If) and not rest[0].orelse and len(rest[0].body) == 1 \
                and U(rest[0].body[0]).startswith("warnings.warn("):
            rest = rest[1:]
        if len(rest) != 1 or not isinstance(rest[0], ast.If):
            raise Untranslatable("predict contains statements beyond validation, the warning and the dispatch")
        d = rest[0]
        if U(d.test) != "self.n_sensors == self.basis_matrix_.shape[1]":
            raise Untranslatable(f"dispatch condition `{U(d.test)}`")
        if [U(s) for s in d.body] != ["return self._square_predict(x, self.ranked_sensors_[:self.n_sensors], **solve_kws)"]:
            raise Untranslatable(f"square branch `{[U(s) for s in d.body]}`")
        if [U(s) for s in d.orelse] != ["return self._rectangular_predict(x, self.ranked_sensors_[:self.n_sensors], **solve_kws)"]:
            raise Untranslatable(f"rectangular branch `{[U(s) for s in d.orelse]}`")
        site["lean"] = ("def reconProg : ReconProg :=\n"
                        "  { measurementsValidatedAndTransposed := true, sensorsArePrefixOfRanking := true, squareWhen := .nSensorsEqNModes,\n"
                        f"    square := {sq}, rect := {re_} }}\n"
                        "theorem recon_predict : reconProg = ReconProg.spec := by decide\n"
                        "theorem recon_predict_is_model (B : RMat) (sensors : List Nat) (Y : RMat) :\n"
                        "    reconProg.eval solveExact lstsqExact B sensors Y = predictExact B sensors Y := by\n"
                        "  rw [recon_predict]; exact ReconProg.spec_eval B sensors Y\n")
        site["found"] = True
    except Untranslatable as e:
        site["why"] = str(e)
    return [site]


def emit(sites, out_path):
    parts = ["/- GENERATED by harness/translate_recon.py from pysensors/reconstruction/_sspor.py – do not edit. -/",
             "import PsVerif.Model.ReconExpr", "namespace PsVerif.Gen", "open PsVerif", ""]
    for s in sites:
        parts.append(f"/-- {s['function']} -/" if s["found"] else f"-- {s['function']}: NOT TRANSLATABLE ({s.get('why')})")
        if s["found"]:
            parts.append(s["lean"])
    parts.append("end PsVerif.Gen\n")
    text = "\n".join(parts)
    out_path = str(out_path)
    if not os.path.exists(out_path) or open(out_path).read() != text:
        open(out_path, "w").write(text)
    return [{"site": s["site"], "function": s["function"], "found": s["found"], "why": s.get("why"), "theorem": s["theorems"][0],
             "theorems": s["theorems"], "lean": s.get("lean", "")[:300]} for s in sites]


if __name__ == "__main__":
    import sys
    for s in analyse(sys.argv[1] if len(sys.argv) > 1 else "/repo"):
        print("==", s["site"], s["found"], s.get("why")); print(s.get("lean", ""))
