"""
Static half of C12: regenerate the shape expressions from the current source (translate_shapes), rebuild
`PsVerif.Generated.Shapes`, audit the axioms of the generated theorems and report which of them no longer check.
"""
from __future__ import annotations

import re
import subprocess

from . import common as C
from . import translate_shapes as T


def static_part(ctx, T=T, stem="Shapes", prefix="shape"):
    """returns (offending site names, table)"""
    sites = T.analyse(C.REPO)
    out = C.LEAN / "PsVerif" / "Generated" / f"{stem}.lean"
    table = T.emit(sites, out)
    ctx.extra["generated_obligations"] = len(table)
    ctx.extra["generated_shape_sites"] = [t["function"] for t in table]
    for t in table[:2]:
        if t["found"]:
            ctx.sample({"generated_shape_expression": t["site"], "function": t["function"], "lean": t["lean"]}, limit=2)
    r = subprocess.run(["lake", "build", f"PsVerif.Generated.{stem}"], cwd=C.LEAN, capture_output=True, text=True, timeout=3600)
    ctx.extra["generated_build_ok"] = r.returncode == 0
    missing = [t["site"] for t in table if not t["found"]]
    if r.returncode == 0:
        names = [f"PsVerif.Gen.{t['theorem']}" for t in table if t["found"] and "theorems" not in t] + \
                [f"PsVerif.Gen.{'loop' if t['site'] == 'Polygon' else 'indices'}_{t['site']}" for t in table
                 if t["found"] and t["site"] != "DfBox" and "theorems" not in t] + \
                [f"PsVerif.Gen.{n}" for t in table if t["found"] for n in t.get("theorems", [])]
        aud = C.LEAN / "Audit" / f"Generated{stem}.lean"
        text_a = f"import PsVerif.Generated.{stem}\n" + "\n".join(f"#print axioms {n}" for n in names) + "\n"
        if not aud.exists() or aud.read_text() != text_a:
            aud.write_text(text_a)
        ra_rc, ra_out = C.cached_lean_audit(f"Audit/Generated{stem}.lean".split("/", 1)[1])
        flat = (ra_out).replace("\n ", " ").replace("\n", " ")
        axioms = {}
        for m in re.finditer(r"'PsVerif\.Gen\.((?:shape|indices|loop|box|normcalc|mask|pipe|selection|sel|default|hh|recon|metrics|bases|cls|life)_\w+)' (?:depends on axioms: \[([^\]]*)\]|does not depend on any axioms)", flat):
            axioms[m.group(1)] = [a.strip() for a in (m.group(2) or "").split(",") if a.strip()]
        nonstd = {k: [a for a in v if a not in C.ALLOWED_AXIOMS] for k, v in axioms.items()}
        nonstd = {k: v for k, v in nonstd.items() if v}
        ctx.extra["generated_axioms"] = sorted({a for v in axioms.values() for a in v})
        if ra_rc != 0 or len(axioms) != len(names) or nonstd:
            raise C.HarnessError(f"axiom audit of the generated shape theorems failed: {nonstd or ra_out[-800:]}")
        ctx.extra["generated_theorems"] = sorted(axioms)
        return missing, table
    text = out.read_text().splitlines()
    starts = [(i + 1, m.group(1)) for i, l in enumerate(text) for m in [re.match(r"theorem (?:shape|box|normcalc|mask)_(\w+?)(?:_edge)? ", l)] if m]
    by_theorem = {n: t["site"] for t in table for n in t.get("theorems", [])}
    if by_theorem:
        # sites that list their theorems by name (ranking translator): blame by membership
        starts = [(i + 1, by_theorem[m.group(1)]) for i, l in enumerate(text) for m in [re.match(r"theorem (\w+)", l)] if m and m.group(1) in by_theorem]
    bad = []
    for m in re.finditer(r"(?:error: \S*" + stem + r"\.lean:(\d+):\d+)|(?:" + stem + r"\.lean:(\d+):\d+: error)", r.stdout + r.stderr):
        ln = int(m.group(1) or m.group(2))
        owner = None
        for s, name in starts:
            if s <= ln:
                owner = name
        # an error inside a `def g_… / edge_…` belongs to the theorem that follows it
        k = ln - 1
        while k >= 0 and not (text[k].startswith("def ") or text[k].startswith("theorem ")):
            k -= 1
        if owner is None or (k >= 0 and text[k].startswith("def ")):
            nxt = [name for s, name in starts if s >= ln]
            owner = nxt[0] if nxt else owner
        if owner and owner not in bad:
            bad.append(owner)
    for m in re.finditer(r"(?:error: \S*" + stem + r"Defs\.lean:(\d+):\d+)|(?:" + stem + r"Defs\.lean:(\d+):\d+: error)", r.stdout + r.stderr):
        dtext = (C.LEAN / "PsVerif" / "Generated" / f"{stem}Defs.lean").read_text().splitlines()
        ln = int(m.group(1) or m.group(2))
        for k in range(min(ln, len(dtext)) - 1, -1, -1):
            mm = re.match(r"def gen_(\w+)", dtext[k])
            if mm:
                if mm.group(1) not in bad:
                    bad.append(mm.group(1))
                break
    for s in missing:
        if s not in bad:
            bad.append(s)
    if not bad:
        raise C.HarnessError("generated shape obligations fail to build but no theorem could be blamed:\n" + (r.stdout + r.stderr)[-1500:])
    return bad, table


def run_with_translation(ctx, T, stem, label, body, broken_hint):
    """regenerate + re-prove (`static_part`), run the differential `body`, and turn a generated theorem that no longer checks into
    `no-failing-input-found` unless the differential produced a concrete violation (known findings do not count)"""
    offenders, table = static_part(ctx, T=T, stem=stem)
    n_before = len(ctx.violations)
    body()
    if offenders:
        why = {t["site"]: t.get("why") for t in table if not t["found"]}
        names = ", ".join(str(o) + (f" (untranslatable: {why[o]})" if why.get(o) else "") for o in offenders)
        known = {k.get("signature") for k in C.load_known_findings() if k.get("status") == "known"}
        if any(v.kind == "concrete" and (v.data or {}).get("signature") not in known for v in ctx.violations[n_before:]):
            ctx.notes.append(f"generated {label} theorems that no longer check: " + names)
        else:
            ctx.violation("no-failing-input-found",
                          f"generated {label} theorem(s) no longer check: {names} – the differential run on the real code found no wrong answer",
                          {"signature": f"{stem.lower()}-obligation:" + str(offenders[0]), "offenders": offenders, "why": why},
                          broken=f"generated theorem(s) of site(s) {', '.join(map(str, offenders))} in PsVerif/Generated/{stem}.lean ({broken_hint})")
