"""
C03 / C04 / C06, second tie (translation): the pivot rule, the reflector and the order of the array operations of `CCQR.fit` +
`qr_reflector` and of `GQR.fit`, read off the CURRENT source into `lean/PsVerif/Model/HhExpr.lean`.  Generated
(`lean/PsVerif/Generated/Householder.lean`):

    def prog_CCQR : HhProg := …        theorem hh_CCQR : prog_CCQR = HhProg.specCCQR := by decide
    def prog_GQR  : HhProg := …        theorem hh_GQR  : prog_GQR  = HhProg.specGQR  := by decide
    theorem hh_CCQR_reflector / hh_GQR_reflector : the steps as written denote `reflector T piv` (Lemmas/Householder.lean)
    theorem hh_CCQR_pick : the pivot rule as written is the model's `firstArgmaxBy scoreGe`

`HhProg.spec*` are the programs the hand-written `hhStep` / `reflectorAt` / `realArgmax` were transcribed from; their reflector steps
and pivot rule have a proved denotation (`Lemmas/HhDenote.lean`), the order of the array operations is compared structurally.
Recognised statement forms are listed in the functions below; anything else in the loop body or in `qr_reflector` is untranslatable.
"""
from __future__ import annotations

import ast
import os


class Untranslatable(Exception):
    pass


def U(e):
    return ast.unparse(e)


NORMS = ("np.sqrt(np.sum(np.abs(r) ** 2, axis=0))",)


def refl_steps(stmts, col_expr, norm_name):
    """u = <col>/dlen; u[0] += np.sign(u[0]) + (u[0] == 0); u /= np.sqrt(abs(u[0]))"""
    out = []
    for s in stmts:
        t = U(s)
        if t == f"u = {col_expr} / {norm_name}":
            out.append(".divByNorm")
        elif t in ("u[0] += np.sign(u[0]) + (u[0] == 0)", "u[0] += (u[0] == 0) + np.sign(u[0])"):
            out.append("(.addSignHead true)")
        elif t == "u[0] += np.sign(u[0])":
            out.append("(.addSignHead false)")
        elif t in ("u /= np.sqrt(abs(u[0]))", "u /= np.sqrt(np.abs(u[0]))"):
            out.append(".divBySqrtAbsHead")
        else:
            raise Untranslatable(f"reflector statement `{t}`")
    return out


def zero_branch(stmts, col_expr):
    ts = [U(s) for s in stmts]
    if len(ts) == 1 and ts[0] in ("u = np.zeros(r.shape[0], dtype=r.dtype)", "u = np.zeros(r.shape[0])", "u = np.zeros_like(r[:, i_piv])"):
        return ".zeroVector"
    if ts == [f"u = {col_expr}", "u[0] = np.sqrt(2)"]:
        return ".columnWithHeadSqrt2"
    raise Untranslatable(f"zero-residual branch {ts}")


def reflector_of(stmts, score_kind):
    """statements from the norm computation to the end of the if/else building u -> ReflProg term, remaining statements"""
    body = [s for s in stmts if not (isinstance(s, ast.Expr) and isinstance(s.value, ast.Constant))]
    i = 0
    if not (isinstance(body[i], ast.Assign) and U(body[i].targets[0]) == "dlens" and U(body[i].value) in NORMS):
        raise Untranslatable(f"norms are not np.sqrt(np.sum(np.abs(r) ** 2, axis=0)): `{U(body[i])}`")
    i += 1
    if score_kind == "ccqr":
        if U(body[i]) != "i_piv = np.argmax(dlens - costs)":
            raise Untranslatable(f"pivot rule `{U(body[i])}`")
        score = "(.normMinusCost .sqrtSumAbsSq)"
        norm_vec = "dlens"
        i += 1
    else:
        s = body[i]
        if not (isinstance(s, ast.Assign) and U(s.targets[0]) == "dlens_updated" and isinstance(s.value, ast.Call)
                and U(s.value.func) == "self._norm_calc_Instance" and [U(a) for a in s.value.args][:4] == ["self.idx_constrained", "dlens", "p", "j"]):
            raise Untranslatable(f"mask call `{U(s)[:80]}`")
        i += 1
        if U(body[i]) != "i_piv = np.argmax(dlens_updated)":
            raise Untranslatable(f"pivot rule `{U(body[i])}`")
        score = "(.maskedNorm .sqrtSumAbsSq)"
        norm_vec = "dlens_updated"
        i += 1
    if U(body[i]) != f"dlen = {norm_vec}[i_piv]":
        raise Untranslatable(f"norm of the pivot `{U(body[i])}`")
    i += 1
    cond = body[i]
    if not (isinstance(cond, ast.If) and U(cond.test) == "dlen > 0"):
        raise Untranslatable(f"guard `{U(cond.test) if isinstance(cond, ast.If) else U(cond)}`")
    steps = refl_steps(cond.body, "r[:, i_piv]", "dlen")
    zero = zero_branch(cond.orelse, "r[:, i_piv]")
    term = f"{{ score := {score}, guard := .normPositive, steps := [{', '.join(steps)}], zero := {zero} }}"
    return term, body[i + 1:]


def loop_ops(stmts, kind):
    ops = []
    for s in stmts:
        t = U(s)
        if t == "i_piv += j":
            ops.append(".shiftPivotByJ")
        elif t == "p[[j, i_piv]] = p[[i_piv, j]]":
            ops.append(".swapPerm")
        elif t == "R[:, [j, i_piv]] = R[:, [i_piv, j]]":
            ops.append(".swapColumnsAllRows")
        elif t == "R[row:, j:] -= np.outer(u, np.dot(u, R[row:, j:]))":
            ops.append("(.applyReflector true)")
        elif t == "R[j:, j:] -= np.outer(u, np.dot(u, R[j:, j:]))":
            ops.append("(.applyReflector false)")
        elif t == "R[j + 1:, j] = 0":
            ops.append("(.zeroBelowPivot false false)")
        elif isinstance(s, ast.If) and U(s.test) == "np.any(u)" and not s.orelse:
            for b in s.body:
                tb = U(b)
                if tb == "R[row + 1:, j] = 0":
                    ops.append("(.zeroBelowPivot true true)")
                elif tb == "row += 1":
                    ops.append("(.advanceRowPtr true)")
                else:
                    raise Untranslatable(f"statement under `if np.any(u)`: `{tb}`")
        elif t == "row += 1":
            ops.append("(.advanceRowPtr false)")
        else:
            raise Untranslatable(f"loop statement `{t[:90]}`")
    return ops


def find_loop(fn):
    loops = [s for s in fn.body if isinstance(s, ast.For)]
    if len(loops) != 1 or U(loops[0].target) != "j" or U(loops[0].iter) != "range(k)" or loops[0].orelse:
        raise Untranslatable("expected exactly one `for j in range(k)` loop at the top level of fit")
    return loops[0]


def analyse(repo):
    sites = []
    base = os.path.join(str(repo), "pysensors", "optimizers")
    # ---- CCQR
    site = {"site": "CCQR", "function": "pysensors/optimizers/_ccqr.py::CCQR.fit + qr_reflector", "found": False,
            "theorems": ["hh_CCQR", "hh_CCQR_reflector", "hh_CCQR_pick"]}
    try:
        tree = ast.parse(open(os.path.join(base, "_ccqr.py")).read())
        cls = next((n for n in tree.body if isinstance(n, ast.ClassDef) and n.name == "CCQR"), None)
        fit = next((n for n in (cls.body if cls else []) if isinstance(n, ast.FunctionDef) and n.name == "fit"), None)
        qrf = next((n for n in tree.body if isinstance(n, ast.FunctionDef) and n.name == "qr_reflector"), None)
        if fit is None or qrf is None:
            raise Untranslatable("CCQR.fit / qr_reflector not found")
        if [a.arg for a in qrf.args.args] != ["r", "costs"] or qrf.args.kwarg or qrf.args.vararg or qrf.args.kwonlyargs:
            raise Untranslatable("signature of qr_reflector")
        refl, rest = reflector_of(qrf.body, "ccqr")
        if [U(s) for s in rest] not in (["return (u, i_piv)"], ["return u, i_piv"]):
            raise Untranslatable(f"qr_reflector ends with {[U(s) for s in rest]}")
        pre = [U(s) for s in fit.body if isinstance(s, ast.Assign)]
        for need in ("p = np.arange(n)", "k = min(m, n)", "row = 0"):
            if need not in pre:
                raise Untranslatable(f"initialisation `{need}` not found")
        loop = find_loop(fit)
        body = list(loop.body)
        if U(body[0]) not in ("(u, i_piv) = qr_reflector(R[row:, j:], sensor_costs[p[j:]])", "u, i_piv = qr_reflector(R[row:, j:], sensor_costs[p[j:]])"):
            raise Untranslatable(f"reflector call `{U(body[0])}`")
        ops = ["(.callReflector true true true)"] + loop_ops(body[1:], "ccqr")
        site["lean"] = (f"def prog_CCQR : HhProg :=\n  {{ refl := {refl},\n    loop := [{', '.join(ops)}] }}\n"
                        "theorem hh_CCQR : prog_CCQR = HhProg.specCCQR := by decide\n"
                        "theorem hh_CCQR_reflector {p q : ℕ} (T : Matrix (Fin (p + 1)) (Fin q) ℝ) (piv : Fin q) :\n"
                        "    reflSteps (fun i => T i piv) (Real.sqrt (colNorm2 T piv)) prog_CCQR.refl.steps = reflector T piv := by\n"
                        "  rw [hh_CCQR]; exact spec_reflector_denotes T piv\n"
                        "theorem hh_CCQR_pick (sc : List Score) (hnn : ∀ x ∈ sc, 0 ≤ x.1) :\n"
                        "    prog_CCQR.refl.score.pick (sc.map fun x => ((x.1 : ℚ) : ℝ)) (sc.map fun x => ((x.2 : ℚ) : ℝ)) [] = firstArgmaxBy scoreGe sc := by\n"
                        "  rw [hh_CCQR]; exact spec_pick_is_model sc hnn\n")
        site["found"] = True
    except Untranslatable as e:
        site["why"] = str(e)
    sites.append(site)
    # ---- GQR
    site = {"site": "GQR", "function": "pysensors/optimizers/_gqr.py::GQR.fit", "found": False, "theorems": ["hh_GQR", "hh_GQR_reflector"]}
    try:
        tree = ast.parse(open(os.path.join(base, "_gqr.py")).read())
        cls = next((n for n in tree.body if isinstance(n, ast.ClassDef) and n.name == "GQR"), None)
        fit = next((n for n in (cls.body if cls else []) if isinstance(n, ast.FunctionDef) and n.name == "fit"), None)
        if fit is None:
            raise Untranslatable("GQR.fit not found")
        pre = [U(s) for s in fit.body if isinstance(s, ast.Assign)]
        for need in ("p = np.arange(n_features)", "k = min(n_samples, n_features)"):
            if need not in pre:
                raise Untranslatable(f"initialisation `{need}` not found")
        loop = find_loop(fit)
        body = [s for s in loop.body if not (isinstance(s, ast.Expr) and isinstance(s.value, ast.Constant))]
        if U(body[0]) != "r = R[j:, j:]":
            raise Untranslatable(f"trailing block `{U(body[0])}`")
        refl, rest = reflector_of(body[1:], "gqr")
        ops = ["(.inlineReflector true true)"] + loop_ops(rest, "gqr")
        site["lean"] = (f"def prog_GQR : HhProg :=\n  {{ refl := {refl},\n    loop := [{', '.join(ops)}] }}\n"
                        "theorem hh_GQR : prog_GQR = HhProg.specGQR := by decide\n"
                        "theorem hh_GQR_reflector {p q : ℕ} (T : Matrix (Fin (p + 1)) (Fin q) ℝ) (piv : Fin q) :\n"
                        "    reflSteps (fun i => T i piv) (Real.sqrt (colNorm2 T piv)) prog_GQR.refl.steps = reflector T piv := by\n"
                        "  rw [hh_GQR, specGQR_same_steps]; exact spec_reflector_denotes T piv\n")
        site["found"] = True
    except Untranslatable as e:
        site["why"] = str(e)
    sites.append(site)
    return sites


def emit(sites, out_path):
    parts = ["/- GENERATED by harness/translate_householder.py from pysensors/optimizers/_ccqr.py and _gqr.py – do not edit. -/",
             "import PsVerif.Lemmas.HhDenote", "namespace PsVerif.Gen", "open PsVerif Matrix", ""]
    for s in sites:
        parts.append(f"/-- {s['function']} -/" if s["found"] else f"-- {s['function']}: NOT TRANSLATABLE ({s.get('why')})")
        if s["found"]:
            parts.append(s["lean"])
    parts.append("end PsVerif.Gen\n")
    text = "\n".join(parts)
    out_path = str(out_path)
    if not os.path.exists(out_path) or open(out_path).read() != text:
        open(out_path, "w").write(text)
    return [{"site": s["site"], "function": s["function"], "found": s["found"], "why": s.get("why"), "theorem": s["theorems"][0],
             "theorems": s["theorems"], "lean": s.get("lean", "")[:300]} for s in sites]


if __name__ == "__main__":
    import sys
    for s in analyse(sys.argv[1] if len(sys.argv) > 1 else "/repo"):
        print("==", s["site"], s["found"], s.get("why")); print(s.get("lean", ""))
