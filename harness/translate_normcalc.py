"""
C05 / C06, second tie (translation): the three mask functions of `pysensors/utils/_norm_calc.py` are compiled, statement by
statement, from the CURRENT source into Lean functions over lists (`lean/PsVerif/Generated/NormCalc.lean`; vocabulary
`Model/NpLite.lean`), and each is proved equal to the candidate-wise model of `Model/NormCalc.lean` that the theorems of
`Props/C05.lean` / `Props/C06.lean` are about:

    theorem normcalc_max_n        : gen_max_n L (replicate k false) piv j s A nS = maxNZeros L A s (effN nS A) (piv.drop j)     (N ≤ len A)
    theorem normcalc_exact_n      : gen_exact_n … = exactNZeros L A s (effN nS A) j (piv.drop j)                                 (in the model's domain)
    theorem normcalc_predetermined: gen_predetermined … = predeterminedZeros L s N j (piv.drop j)                               (nS = some N)

Fragment compiled: assignments to local names (re-assignment = shadowing), `+=`, `dlens[didx] = 0`, if / else (the variables a
branch assigns are returned as a tuple), `for i in range(n)` (fold over the loop-carried variables), `return`, calls of another
mask function with the same arguments; expressions: names, integer literals, `len`, `+`/`-` and (chained) comparisons over ℤ,
`np.isin(…, invert=…)` on arrays and scalars, `np.count_nonzero`, `.sum()`, slices `a[:k]`, `a[k:]`, `a[mask]`, `a[i]`,
`kwargs[...]`.  `"key" in kwargs.keys()` is decided at translation time from the keywords `GQR.fit` passes (read off the AST of
`pysensors/optimizers/_gqr.py`).  Anything else: untranslatable → reported like a failing proof.
"""
from __future__ import annotations

import ast
import os


class Untranslatable(Exception):
    pass


PARAMS = ["lin_idx", "dlens", "piv", "j", "n_const_sensors"]
TYPES0 = {"lin_idx": "natlist", "dlens": "boollist", "piv": "natlist", "j": "nat", "n_const_sensors": "nat"}
KW = {"all_sensors": ("A", "natlist"), "n_sensors": ("nS", "optnat")}


def gqr_keywords(repo):
    """keyword names GQR.fit passes to the mask function"""
    tree = ast.parse(open(os.path.join(str(repo), "pysensors", "optimizers", "_gqr.py")).read())
    for node in ast.walk(tree):
        if isinstance(node, ast.Call) and ast.unparse(node.func) == "self._norm_calc_Instance":
            if [ast.unparse(a) for a in node.args] != ["self.idx_constrained", "dlens", "p", "j", "self.n_const_sensors"]:
                raise Untranslatable("GQR.fit calls the mask function with other positional arguments")
            kws = {k.arg: ast.unparse(k.value) for k in node.keywords}
            if kws.get("all_sensors") != "self.all_sensors" or kws.get("n_sensors") != "self.n_sensors":
                raise Untranslatable("GQR.fit passes all_sensors / n_sensors differently")
            return set(kws)
    raise Untranslatable("call of the mask function not found in GQR.fit")


class Comp:
    def __init__(self, fname, passed_kws, known_fns):
        self.fname = fname
        self.kws = passed_kws
        self.known = known_fns

    # ---------------- expressions: returns (lean, type)
    def const_truth(self, e):
        """decide `"k" in kwargs.keys()` / `"k" in kwargs` at translation time; None if not of that form"""
        if isinstance(e, ast.Compare) and len(e.ops) == 1 and isinstance(e.ops[0], (ast.In, ast.NotIn)) and isinstance(e.left, ast.Constant) \
                and isinstance(e.left.value, str) and ast.unparse(e.comparators[0]) in ("kwargs.keys()", "kwargs"):
            v = e.left.value in self.kws
            return v if isinstance(e.ops[0], ast.In) else not v
        return None

    def as_int(self, t):
        lean, ty = t
        if ty == "int":
            return lean
        if ty == "nat":
            return f"(({lean} : Nat) : Int)"
        raise Untranslatable(f"integer expected, got {ty}")

    def as_nat(self, t, what):
        lean, ty = t
        if ty == "nat":
            return lean
        raise Untranslatable(f"{what}: natural number expected, got {ty}")

    def expr(self, e, env):
        if isinstance(e, ast.Name):
            if e.id not in env:
                raise Untranslatable(f"unknown name {e.id}")
            return (e.id if e.id != "dlens" else "dlens", env[e.id])
        if isinstance(e, ast.Constant):
            if isinstance(e.value, bool):
                return ("true" if e.value else "false", "bool")
            if isinstance(e.value, int):
                return (str(e.value), "nat") if e.value >= 0 else (f"({e.value})", "int")
            raise Untranslatable(f"literal {e.value!r}")
        if isinstance(e, ast.List) and not e.elts:
            return ("([] : List Nat)", "natlist")
        if isinstance(e, ast.Subscript) and ast.unparse(e.value) == "kwargs" and isinstance(e.slice, ast.Constant):
            k = e.slice.value
            if k not in KW or k not in self.kws:
                raise Untranslatable(f"kwargs[{k!r}]")
            return KW[k]
        if isinstance(e, ast.Call):
            f = ast.unparse(e.func)
            if f == "len" and len(e.args) == 1:
                a = self.expr(e.args[0], env)
                if a[1] not in ("natlist", "boollist"):
                    raise Untranslatable("len of a non-list")
                return (f"{a[0]}.length", "nat")
            if f in ("np.isin", "numpy.isin") and len(e.args) == 2:
                inv = ("false", "bool")
                for k in e.keywords:
                    if k.arg == "invert":
                        inv = self.boolexpr(k.value, env)
                    else:
                        raise Untranslatable(f"np.isin keyword {k.arg}")
                a, b = self.expr(e.args[0], env), self.expr(e.args[1], env)
                if b[1] != "natlist":
                    raise Untranslatable("np.isin: second argument is not an index array")
                if a[1] == "natlist":
                    return (f"(Np.isin {a[0]} {b[0]} {inv[0]})", "boollist")
                if a[1] == "nat":
                    return (f"(Np.isin1 {a[0]} {b[0]} {inv[0]})", "bool")
                raise Untranslatable("np.isin: first argument")
            if f in ("np.count_nonzero", "numpy.count_nonzero") and len(e.args) == 1 and not e.keywords:
                a = self.expr(e.args[0], env)
                if a[1] != "boollist":
                    raise Untranslatable("count_nonzero of a non-boolean array")
                return (f"(Np.count {a[0]})", "nat")
            if isinstance(e.func, ast.Attribute) and e.func.attr == "sum" and not e.args and not e.keywords:
                a = self.expr(e.func.value, env)
                if a[1] != "boollist":
                    raise Untranslatable(".sum() of a non-boolean array")
                return (f"(Np.count {a[0]})", "nat")
            raise Untranslatable(f"call {f}")
        if isinstance(e, ast.Subscript):
            a = self.expr(e.value, env)
            if a[1] != "natlist":
                raise Untranslatable("subscript of a non-index array")
            sl = e.slice
            if isinstance(sl, ast.Slice):
                if sl.step is not None:
                    raise Untranslatable("slice step")
                if sl.lower is None and sl.upper is not None:
                    return (f"({a[0]}.take {self.as_nat(self.expr(sl.upper, env), 'slice bound')})", "natlist")
                if sl.upper is None and sl.lower is not None:
                    return (f"({a[0]}.drop {self.as_nat(self.expr(sl.lower, env), 'slice bound')})", "natlist")
                raise Untranslatable("slice form")
            i = self.expr(sl, env)
            if i[1] == "boollist":
                return (f"(Np.sel {a[0]} {i[0]})", "natlist")
            if i[1] == "nat":
                return (f"({a[0]}.getD {i[0]} 0)", "nat")
            raise Untranslatable("index type")
        if isinstance(e, ast.BinOp) and isinstance(e.op, (ast.Add, ast.Sub)):
            l, r = self.expr(e.left, env), self.expr(e.right, env)
            if isinstance(e.op, ast.Add) and l[1] == "nat" and r[1] == "nat":
                return (f"({l[0]} + {r[0]})", "nat")
            op = "+" if isinstance(e.op, ast.Add) else "-"
            return (f"({self.as_int(l)} {op} {self.as_int(r)})", "int")
        if isinstance(e, (ast.Compare, ast.BoolOp)) or (isinstance(e, ast.UnaryOp) and isinstance(e.op, ast.Not)):
            return self.boolexpr(e, env)
        raise Untranslatable(f"expression {type(e).__name__}: {ast.unparse(e)}")

    def boolexpr(self, e, env):
        c = self.const_truth(e)
        if c is not None:
            return ("true" if c else "false", "bool")
        if isinstance(e, ast.BoolOp):
            parts = [self.boolexpr(v, env)[0] for v in e.values]
            op = " && " if isinstance(e.op, ast.And) else " || "
            return ("(" + op.join(parts) + ")", "bool")
        if isinstance(e, ast.UnaryOp) and isinstance(e.op, ast.Not):
            return (f"(!{self.boolexpr(e.operand, env)[0]})", "bool")
        if isinstance(e, ast.Compare):
            # `kwargs["n_sensors"] not in [None, 0]`
            if len(e.ops) == 1 and isinstance(e.ops[0], (ast.NotIn, ast.In)) and ast.unparse(e.comparators[0]) == "[None, 0]":
                a = self.expr(e.left, env)
                if a[1] != "optnat":
                    raise Untranslatable("`in [None, 0]` on a non-optional value")
                t = f"({a[0]} != none && {a[0]} != some 0)"
                return (t if isinstance(e.ops[0], ast.NotIn) else f"(!{t})", "bool")
            parts = []
            left = self.expr(e.left, env)
            for op, right in zip(e.ops, e.comparators):
                r = self.expr(right, env)
                o = {ast.Lt: "<", ast.LtE: "≤", ast.Gt: ">", ast.GtE: "≥", ast.Eq: "=", ast.NotEq: "≠"}.get(type(op))
                if o is None:
                    raise Untranslatable(f"comparison {type(op).__name__}")
                parts.append(f"decide ({self.as_int(left)} {o} {self.as_int(r)})")
                left = r
            return ("(" + " && ".join(parts) + ")", "bool")
        t = self.expr(e, env)
        if t[1] != "bool":
            raise Untranslatable("condition is not boolean")
        return t

    # ---------------- statements
    @staticmethod
    def assigned(stmts):
        out = []
        for s in stmts:
            for sub in ast.walk(s):
                if isinstance(sub, (ast.Assign, ast.AugAssign)):
                    for t in (sub.targets if isinstance(sub, ast.Assign) else [sub.target]):
                        n = t.id if isinstance(t, ast.Name) else (t.value.id if isinstance(t, ast.Subscript) and isinstance(t.value, ast.Name) else None)
                        if n and n not in out:
                            out.append(n)
        return out

    def tup(self, names):
        return names[0] if len(names) == 1 else "(" + ", ".join(names) + ")"

    def block(self, stmts, env, result, live=frozenset()):
        """compile `stmts`; `result(env)` gives the Lean term the block evaluates to at its end"""
        if not stmts:
            return result(env)
        s, rest = stmts[0], stmts[1:]
        if isinstance(s, ast.Expr) and isinstance(s.value, ast.Constant):
            return self.block(rest, env, result, live)
        if isinstance(s, ast.Return):
            t = self.expr(s.value, env)
            if t[1] != "boollist":
                raise Untranslatable("return value is not the norm vector")
            return t[0]
        if isinstance(s, ast.Raise):
            raise Untranslatable("reachable raise")
        if isinstance(s, ast.Assign) and len(s.targets) == 1:
            t = s.targets[0]
            if isinstance(t, ast.Name):
                # call of another mask function with the same arguments
                if isinstance(s.value, ast.Call) and isinstance(s.value.func, ast.Name) and s.value.func.id in self.known:
                    c = s.value
                    if [ast.unparse(a) for a in c.args] != PARAMS or [ast.unparse(k.value) for k in c.keywords if k.arg is None] != ["kwargs"] \
                            or any(k.arg is not None for k in c.keywords):
                        raise Untranslatable("call of a mask function with other arguments")
                    v = (f"(gen_{c.func.id} lin_idx dlens piv j n_const_sensors A nS)", "boollist")
                else:
                    v = self.expr(s.value, env)
                    if v[1] == "optnat":
                        v = (f"({v[0]}.getD 0)", "nat")        # n_sensors = kwargs["n_sensors"] (guarded by `not in [None, 0]` or required)
                env2 = dict(env); env2[t.id] = v[1]
                return f"(let {t.id} := {v[0]};\n  {self.block(rest, env2, result, live)})"
            if isinstance(t, ast.Subscript) and isinstance(t.value, ast.Name) and env.get(t.value.id) == "boollist" \
                    and isinstance(s.value, ast.Constant) and s.value.value == 0:
                m = self.expr(t.slice, env)
                if m[1] != "boollist":
                    raise Untranslatable("dlens[...] = 0 with a non-boolean index")
                return f"(let {t.value.id} := Np.zeroAt {t.value.id} {m[0]};\n  {self.block(rest, env, result, live)})"
            raise Untranslatable(f"assignment target {ast.unparse(t)}")
        if isinstance(s, ast.AugAssign) and isinstance(s.target, ast.Name) and isinstance(s.op, ast.Add):
            v = self.expr(ast.BinOp(left=ast.Name(id=s.target.id), op=ast.Add(), right=s.value), env)
            return f"(let {s.target.id} := {v[0]};\n  {self.block(rest, env, result, live)})"
        if isinstance(s, ast.If):
            c = self.const_truth(s.test)
            if c is not None:
                return self.block((s.body if c else s.orelse) + rest, env, result, live)
            cond = self.boolexpr(s.test, env)[0]
            if any(isinstance(x, ast.Return) for b in (s.body, s.orelse) for st in b for x in ast.walk(st)):
                return f"(if {cond} then\n  {self.block(s.body + rest, env, result, live)}\n  else\n  {self.block(s.orelse + rest, env, result, live)})"
            W = self.assigned(s.body + s.orelse)
            # variables first defined inside and not used afterwards are local to the branch
            used_after = {n.id for st in rest for n in ast.walk(st) if isinstance(n, ast.Name)} | set(live)
            W = [w for w in W if w in used_after]
            for w in W:
                defined_both = w in self.assigned(s.body) and w in self.assigned(s.orelse)
                if w not in env and not defined_both:
                    raise Untranslatable(f"{w} may be undefined after the if")
            envs = {}

            def fin(which):
                def f(e2):
                    envs[which] = e2
                    return self.tup(W)
                return f
            tb = self.block(s.body, env, fin("t"), frozenset(W))
            eb = self.block(s.orelse, env, fin("e"), frozenset(W))
            env2 = dict(env)
            for w in W:
                ty = envs["t"].get(w) or envs["e"].get(w)
                if envs["t"].get(w, ty) != envs["e"].get(w, ty):
                    raise Untranslatable(f"{w} has different types in the two branches")
                env2[w] = ty
            if not W:
                return self.block(rest, env, result, live)
            return f"(let {self.tup(W)} := (if {cond} then\n  {tb}\n  else\n  {eb});\n  {self.block(rest, env2, result, live)})"
        if isinstance(s, ast.For):
            if not (isinstance(s.target, ast.Name) and isinstance(s.iter, ast.Call) and ast.unparse(s.iter.func) == "range" and len(s.iter.args) == 1
                    and not s.orelse):
                raise Untranslatable("loop form")
            n = self.as_nat(self.expr(s.iter.args[0], env), "range bound")
            W = [w for w in self.assigned(s.body) if w in env]
            if not W:
                return self.block(rest, env, result, live)
            envb = dict(env); envb[s.target.id] = "nat"
            body = self.block(s.body, envb, lambda e2: self.tup(W), frozenset(W))
            pat = self.tup(W)
            return (f"(let {pat} := (List.range {n}).foldl (fun ({pat.strip('()')}) {s.target.id} =>\n  {body}) {pat};\n  "
                    if len(W) > 1 else
                    f"(let {pat} := (List.range {n}).foldl (fun {pat} {s.target.id} =>\n  {body}) {pat};\n  ") + self.block(rest, env, result, live) + ")"
        raise Untranslatable(f"statement {type(s).__name__} at line {s.lineno}")


SIG = "(lin_idx : List Nat) (dlens : List Bool) (piv : List Nat) (j n_const_sensors : Nat) (A : List Nat) (nS : Option Nat) : List Bool"


def analyse(repo):
    src = open(os.path.join(str(repo), "pysensors", "utils", "_norm_calc.py")).read()
    tree = ast.parse(src)
    fns = {n.name: n for n in tree.body if isinstance(n, ast.FunctionDef)}
    sites = []
    try:
        kws = gqr_keywords(repo)
        why_kws = None
    except Untranslatable as e:
        kws, why_kws = set(), str(e)
    order = ["max_n", "exact_n", "predetermined"]
    done = []
    for name in order:
        site = {"site": name, "function": f"pysensors/utils/_norm_calc.py::{name}", "found": False, "theorem": f"normcalc_{name}"}
        try:
            if why_kws:
                raise Untranslatable(why_kws)
            fn = fns.get(name)
            if fn is None:
                raise Untranslatable("function not found")
            if [a.arg for a in fn.args.args] != PARAMS or fn.args.kwarg is None or fn.args.kwarg.arg != "kwargs":
                raise Untranslatable("signature")
            body = Comp(name, kws, set(done)).block(list(fn.body), dict(TYPES0), lambda env: (_ for _ in ()).throw(Untranslatable("no return")))
            site["lean_def"] = f"def gen_{name} {SIG} :=\n  {body}\n"
            site["found"] = True
            done.append(name)
        except Untranslatable as e:
            site["why"] = str(e)
        sites.append(site)
    return sites


if __name__ == "__main__":
    import sys
    for s in analyse(sys.argv[1] if len(sys.argv) > 1 else "/repo"):
        print("==", s["site"], s["found"], s.get("why")); print(s.get("lean_def", ""))


PROOFS = os.path.join(os.path.dirname(os.path.abspath(__file__)), "proofs")


def emit(sites, out_path):
    parts = ["/- GENERATED by harness/translate_normcalc.py from pysensors/utils/_norm_calc.py (and the call in optimizers/_gqr.py) – do not edit.",
             "   The function bodies are compiled from the source; the proof scripts are the fixed texts of harness/proofs/. -/",
             "import PsVerif.Generated.NormCalcDefs", "import PsVerif.Lemmas.NpLite", "namespace PsVerif.Gen", "open PsVerif Np", ""]
    defs = ["/- GENERATED by harness/translate_normcalc.py – do not edit. -/", "import PsVerif.Model.NormCalc", "import PsVerif.Model.NpLite",
            "set_option linter.unusedVariables false", "namespace PsVerif.Gen", "open PsVerif", ""]
    found = {s["site"] for s in sites if s["found"]}
    for s in sites:
        if s["found"]:
            defs.append(f"/-- {s['function']} -/")
            defs.append(s["lean_def"])
        else:
            defs.append(f"-- {s['function']}: NOT TRANSLATABLE ({s.get('why')})")
    defs.append("end PsVerif.Gen\n")
    ok = set()
    for name, needs in (("predetermined", {"predetermined"}), ("max_n", {"max_n"}), ("exact_n", {"max_n", "exact_n"})):
        if needs <= found:
            parts.append(open(os.path.join(PROOFS, f"normcalc_{name}.lean")).read())
            ok.add(name)
    if ok == {"predetermined", "max_n", "exact_n"}:
        parts.append(open(os.path.join(PROOFS, "normcalc_masks.lean")).read())
    parts.append("end PsVerif.Gen\n")
    for path, text in ((str(out_path).replace("NormCalc.lean", "NormCalcDefs.lean"), "\n".join(defs)), (str(out_path), "\n".join(parts))):
        if not os.path.exists(path) or open(path).read() != text:
            open(path, "w").write(text)
    table = []
    for s in sites:
        th = [f"normcalc_{s['site']}"] + ([f"mask_{s['site']}"] if len(ok) == 3 else [])
        table.append({"site": s["site"], "function": s["function"], "found": s["found"] and s["site"] in ok, "why": s.get("why") or
                      ("depends on an untranslatable function" if s["found"] and s["site"] not in ok else None),
                      "theorem": f"normcalc_{s['site']}", "theorems": th, "lean": s.get("lean_def", "")[:300]})
    return table
