"""
Static half of C19: regenerate the guard trees from the current source (translate_guards), rebuild
`PsVerif.Generated.Guards`, and report which generated theorems no longer check.
"""
from __future__ import annotations

import re
import subprocess

from . import common as C
from . import translate_guards as T


def static_part(ctx):
    """returns (offending site ids, number of generated theorems, table)"""
    sites = T.analyse(C.REPO)
    out = C.LEAN / "PsVerif" / "Generated" / "Guards.lean"
    table = T.emit(sites, out)
    ctx.extra["generated_obligations"] = len(table)
    ctx.extra["generated_guard_sites"] = [t["site"] for t in table]
    for t in table[:3]:
        if t.get("found"):
            ctx.sample({"generated_guard_tree": t["site"], "function": t["function"], "atoms": t["atoms"], "tree": t["tree"][:400]}, limit=3)
    r = subprocess.run(["lake", "build", "PsVerif.Generated.Guards"], cwd=C.LEAN, capture_output=True, text=True, timeout=3600)
    ctx.extra["generated_build_ok"] = r.returncode == 0
    if r.returncode == 0:
        # axioms of the generated theorems
        names = [f"PsVerif.Gen.guard_{t['site']}" for t in table if t.get("found")]
        aud = C.LEAN / "Audit" / "GeneratedGuards.lean"
        text_a = "import PsVerif.Generated.Guards\n" + "\n".join(f"#print axioms {n}" for n in names) + "\n"
        if not aud.exists() or aud.read_text() != text_a:
            aud.write_text(text_a)
        ra_rc, ra_out = C.cached_lean_audit("Audit/GeneratedGuards.lean".split("/", 1)[1])
        flat = (ra_out).replace("\n ", " ").replace("\n", " ")
        axioms = {}
        for m in re.finditer(r"'PsVerif\.Gen\.guard_(\w+)' (?:depends on axioms: \[([^\]]*)\]|does not depend on any axioms)", flat):
            axioms[m.group(1)] = [a.strip() for a in (m.group(2) or "").split(",") if a.strip()]
        nonstd = {k: [a for a in v if a not in ("propext", "Classical.choice", "Quot.sound")] for k, v in axioms.items()}
        nonstd = {k: v for k, v in nonstd.items() if v}
        ctx.extra["generated_axioms"] = sorted({a for v in axioms.values() for a in v})
        if ra_rc != 0 or len(axioms) != len(names) or nonstd:
            raise C.HarnessError(f"axiom audit of the generated guard theorems failed: {nonstd or ra_out[-800:]}")
        return [], len(table), table
    # map error lines to theorems
    text = out.read_text().splitlines()
    starts = [(i + 1, m.group(1)) for i, l in enumerate(text) for m in [re.match(r"theorem guard_(\w+)", l)] if m]
    bad = []
    for m in re.finditer(r"(?:error: \S*Guards\.lean:(\d+):\d+)|(?:Guards\.lean:(\d+):\d+: error)", r.stdout + r.stderr):
        ln = int(m.group(1) or m.group(2))
        owner = None
        for s, name in starts:
            if s <= ln:
                owner = name
        # an error inside a `def tree_…` belongs to the theorem that follows it
        if owner is None or any(text[k].startswith("def tree_") for k in range(max(0, ln - 3), ln) if k < len(text)):
            nxt = [name for s, name in starts if s >= ln]
            owner = nxt[0] if nxt else owner
        if owner and owner not in bad:
            bad.append(owner)
    missing = [t["site"] for t in table if not t.get("found")]
    for s in missing:
        if s not in bad:
            bad.append(s)
    if not bad:
        raise C.HarnessError("generated guard obligations fail to build but no theorem could be blamed:\n" + (r.stdout + r.stderr)[-1500:])
    return bad, len(table), table


def effects_part(ctx):
    """regenerate the effect trees of the setters (translate_effects), rebuild `PsVerif.Generated.Effects`; returns the names of the
    generated theorems that no longer check (`atomic_<id>`), or of the sites that are no longer translatable"""
    from . import translate_effects as E
    sites = E.emit(E.analyse(C.REPO), C.LEAN / "PsVerif" / "Generated" / "Effects.lean")
    obl = [s for s in sites if s["obligation"]]
    ctx.extra["generated_effect_sites"] = {f"{s['cls']}.{s['func']}": ("untranslatable: " + s["why"] if not s["found"] else
                                                                        ("atomic" if s["atomic_py"] else "NOT atomic") + ("" if s["obligation"] else " (information only)"))
                                           for s in sites}
    for s in obl[:1]:
        if s["found"]:
            ctx.sample({"generated_effect_tree": s["id"], "function": f"{s['file']}::{s['cls']}.{s['func']}", "tree": s["tree"][:400]}, limit=4)
    r = subprocess.run(["lake", "build", "PsVerif.Generated.Effects"], cwd=C.LEAN, capture_output=True, text=True, timeout=3600)
    ctx.extra["generated_effects_build_ok"] = r.returncode == 0
    missing = [f"atomic_{s['id']}" for s in obl if not s["found"]]
    if r.returncode == 0:
        names = [f"PsVerif.Gen.{p}_{s['id']}{q}" for s in obl if s["found"] for p, q in (("atomic", ""), ("rejected", "_writes_nothing"))]
        aud = C.LEAN / "Audit" / "GeneratedEffects.lean"
        text_a = "import PsVerif.Generated.Effects\n" + "\n".join(f"#print axioms {n}" for n in names) + "\n"
        if not aud.exists() or aud.read_text() != text_a:
            aud.write_text(text_a)
        ra_rc, ra_out = C.cached_lean_audit("Audit/GeneratedEffects.lean".split("/", 1)[1])
        flat = (ra_out).replace("\n ", " ").replace("\n", " ")
        axioms = {}
        for m in re.finditer(r"'PsVerif\.Gen\.((?:atomic|rejected)_\w+)' (?:depends on axioms: \[([^\]]*)\]|does not depend on any axioms)", flat):
            axioms[m.group(1)] = [a.strip() for a in (m.group(2) or "").split(",") if a.strip()]
        nonstd = {k: [a for a in v if a not in C.ALLOWED_AXIOMS] for k, v in axioms.items()}
        nonstd = {k: v for k, v in nonstd.items() if v}
        if ra_rc != 0 or len(axioms) != len(names) or nonstd:
            raise C.HarnessError(f"axiom audit of the generated effect theorems failed: {nonstd or ra_out[-800:]}")
        ctx.extra["generated_effect_theorems"] = sorted(axioms)
        return missing
    text = (C.LEAN / "PsVerif" / "Generated" / "Effects.lean").read_text().splitlines()
    bad = []
    for m in re.finditer(r"(?:error: \S*Effects\.lean:(\d+):\d+)|(?:Effects\.lean:(\d+):\d+: error)", r.stdout + r.stderr):
        ln = int(m.group(1) or m.group(2))
        for k in range(min(ln, len(text)) - 1, -1, -1):
            mm = re.match(r"theorem (atomic_\w+)|def eff_(\w+)", text[k])
            if mm:
                name = mm.group(1) or ("atomic_" + mm.group(2))
                if name not in bad:
                    bad.append(name)
                break
    bad += [x for x in missing if x not in bad]
    if not bad:
        raise C.HarnessError("generated effect obligations fail to build but no theorem could be blamed:\n" + (r.stdout + r.stderr)[-1500:])
    return bad
