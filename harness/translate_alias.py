"""
C20 translator: regenerates the alias programs (lean/PsVerif/Generated/Alias.lean) from the CURRENT source of
pysensors on every run.  For every function / method of the package (plotting helpers excluded) it walks the AST and
emits the flow-insensitive statement set of Model/Alias.lean:

    assign x srcs   x may share memory with any of srcs ([] = freshly allocated)
    write x         in-place write through x

Classification table (the trusted part; validated at run time by read-only arguments and shares_memory probes):
  view   : plain name, attribute access, basic slicing / integer / name indexing, .T .real .imag .flat .values,
           .conj() .conjugate() .transpose() .reshape() .ravel() .view() .squeeze(), np.asarray / transpose / squeeze /
           reshape / ravel / atleast_nd / asanyarray / ascontiguousarray, any call the table does not know (of all its arguments)
  fresh  : .copy(), arithmetic / comparison / boolean expressions, literals, comprehensions, indexing whose index is
           itself an indexing expression, a call or a list (fancy), np.* constructors and reductions (FRESH_NP),
           methods in FRESH_METHODS
  result fields: a package method that returns one of its object's fields (get_sensors → pivots_) hands that array to its
           callers; when some caller writes through such a result in place (SSPOR.fit shuffles the tail of the ranking) the
           field counts as written wherever it is assigned, so it must never alias a protected root
  write  : x[...] = v, x[...] op= v, x op= v, mutating methods (MUTATORS), a call to a package function whose summary
           says it writes that parameter, a call given an in-place permission (overwrite_a / overwrite_b / … = True, directly
           or through a keyword dictionary the function itself filled) writes through the corresponding positional argument
Protected roots of a function: its parameters (except self/cls and documented in/out parameters) and the fields in
PROTECTED_FIELDS (stored basis, cost vector, region lists).
"""
from __future__ import annotations

import ast
import os
from pathlib import Path

SKIP_FUNCS = {"draw", "draw_constraint", "plot_constraint_on_data", "plot_grid", "plot_selected_sensors", "sensors_dataframe",
              "annotate_sensors"}
VIEW_ATTRS = {"T", "real", "imag", "flat", "values", "mT"}
VIEW_METHODS = {"conj", "conjugate", "transpose", "reshape", "ravel", "view", "squeeze", "swapaxes", "get", "items", "keys",
                "to_numpy", "lower", "dropna"}
FRESH_METHODS = {"copy", "astype", "tolist", "sum", "mean", "min", "max", "dot", "all", "any", "argmax", "argmin", "argsort",
                 "predict", "transform", "fit_transform", "format", "isnull", "issubset", "permutation",
                 "std", "var", "prod", "cumsum", "round", "flatten", "nonzero", "count", "index", "join", "split", "strip",
                 "matrix_inverse", "get_params", "toarray", "todense"}
VIEW_NP = {"asarray", "transpose", "squeeze", "reshape", "ravel", "atleast_1d", "atleast_2d", "atleast_3d", "asanyarray",
           "ascontiguousarray", "asfortranarray", "broadcast_to", "expand_dims", "swapaxes", "moveaxis", "diagonal"}
MUTATORS = {"sort", "fill", "resize", "put", "itemset", "partition", "append", "extend", "insert", "remove", "pop", "clear",
            "setflags", "update", "byteswap", "setfield", "reverse"}
MUTATING_FUNCS = {"shuffle", "copyto", "put", "place", "putmask", "fill_diagonal", "put_along_axis"}    # np.<f>(dst, …) / rng.shuffle(x)
IN_OUT = {"exact_n": {"dlens"}, "max_n": {"dlens"}, "predetermined": {"dlens"}, "unconstrained": {"dlens"}}
PROTECTED_FIELDS = {"basis_matrix_", "basis_matrix_inverse_", "sensor_costs", "idx_constrained", "all_sensors", "custom_basis_",
                    "data", "xy_coords", "sensor_coef_"}
# calls through attributes that stand for a set of package functions
CALL_ALIASES = {"_norm_calc_Instance": ["exact_n", "max_n", "predetermined", "unconstrained"]}


class Fn:
    def __init__(self, qual, node, cls):
        self.qual, self.node, self.cls = qual, node, cls
        a = node.args
        self.params = [x.arg for x in a.posonlyargs + a.args] + ([a.vararg.arg] if a.vararg else []) + \
                      [x.arg for x in a.kwonlyargs] + ([a.kwarg.arg] if a.kwarg else [])
        self.vars = {}
        self.stmts = []
        self.prot = []
        self.calls = []       # (callee simple name, [(param position or kw name, srcs)])
        self.written_params = set()
        self.return_srcs = []


def collect(repo: Path):
    fns = []
    pkg = repo / "pysensors"
    for path in sorted(pkg.rglob("*.py")):
        if path.name in ("version.py",):
            continue
        tree = ast.parse(path.read_text())
        mod = str(path.relative_to(repo)).replace(os.sep, ".")[:-3]
        for node in tree.body:
            if isinstance(node, (ast.FunctionDef, ast.AsyncFunctionDef)) and node.name not in SKIP_FUNCS:
                fns.append(Fn(f"{mod}.{node.name}", node, None))
            elif isinstance(node, ast.ClassDef):
                for sub in node.body:
                    if isinstance(sub, (ast.FunctionDef, ast.AsyncFunctionDef)) and sub.name not in SKIP_FUNCS:
                        fns.append(Fn(f"{mod}.{node.name}.{sub.name}", sub, node.name))
    return fns


class Builder:
    def __init__(self, fn: Fn, summaries, ext_written=frozenset()):
        self.fn = fn
        self.summaries = summaries        # simple name -> [(params, written params, returned params, returned fields)]
        self.ext_written = ext_written    # fields whose arrays are written in place by callers of the method returning them
        self.ow = {}                      # dict variable -> overwrite flags stored into it by this function
        self.tmp = 0
        name = fn.node.name
        in_out = IN_OUT.get(name, set())
        for p in fn.params:
            if p in ("self", "cls"):
                continue
            v = self.var(p)
            if p not in in_out:
                fn.prot.append(v)
        # protected vars must be numbered first: renumber at emit time

    def var(self, name):
        if name not in self.fn.vars:
            self.fn.vars[name] = len(self.fn.vars)
            if name.startswith("self.") and name[5:] in PROTECTED_FIELDS:
                self.fn.prot.append(self.fn.vars[name])
        return self.fn.vars[name]

    def fresh_tmp(self):
        self.tmp += 1
        return self.var(f"$t{self.tmp}")

    # ---- expressions -----------------------------------------------------------------
    def base_var(self, e):
        """variable through which a store to e[...] / e.attr[...] writes; None if not a tracked object"""
        if isinstance(e, ast.Name):
            return self.var(e.id)
        if isinstance(e, ast.Attribute) and isinstance(e.value, ast.Name) and e.value.id == "self":
            return self.var("self." + e.attr)
        if isinstance(e, (ast.Subscript, ast.Attribute)):
            t = self.fresh_tmp()
            self.fn.stmts.append(("assign", t, self.srcs(e)))
            return t
        if isinstance(e, ast.Call):
            t = self.fresh_tmp()
            self.fn.stmts.append(("assign", t, self.srcs(e)))
            return t
        return None

    def fancy_index(self, idx):
        if isinstance(idx, (ast.List, ast.ListComp, ast.Subscript, ast.Call, ast.Compare, ast.BinOp, ast.UnaryOp)):
            return not (isinstance(idx, ast.UnaryOp) and isinstance(idx.operand, ast.Constant))
        if isinstance(idx, ast.Tuple):
            return any(self.fancy_index(e) for e in idx.elts)
        return False

    def srcs(self, e):
        if e is None:
            return []
        if isinstance(e, ast.Name):
            return [self.var(e.id)]
        if isinstance(e, ast.Attribute):
            if isinstance(e.value, ast.Name) and e.value.id == "self":
                return [self.var("self." + e.attr)]
            return self.srcs(e.value)
        if isinstance(e, ast.Subscript):
            if self.fancy_index(e.slice):
                return []
            return self.srcs(e.value)
        if isinstance(e, ast.Starred):
            return self.srcs(e.value)
        if isinstance(e, ast.IfExp):
            return self.srcs(e.body) + self.srcs(e.orelse)
        if isinstance(e, (ast.Tuple,)):
            out = []
            for x in e.elts:
                out += self.srcs(x)
            return out
        if isinstance(e, ast.NamedExpr):
            s = self.srcs(e.value)
            self.fn.stmts.append(("assign", self.var(e.target.id), s))
            return s
        if isinstance(e, ast.Call):
            return self.call_srcs(e)
        # arithmetic, comparisons, literals, comprehensions, lambdas, f-strings … allocate
        return []

    def call_srcs(self, c: ast.Call):
        f = c.func
        args = list(c.args) + [k.value for k in c.keywords]
        if isinstance(f, ast.Attribute):
            m = f.attr
            recv = f.value
            is_np = isinstance(recv, ast.Name) and recv.id in ("np", "numpy") or (
                isinstance(recv, ast.Attribute) and isinstance(recv.value, ast.Name) and recv.value.id in ("np", "numpy"))
            if is_np:
                if m in VIEW_NP:
                    out = []
                    for a in args:
                        out += self.srcs(a)
                    return out
                return []          # numpy constructors, ufuncs, reductions, linalg: fresh
            if m in FRESH_METHODS:
                return []
            if m in VIEW_METHODS or m == "fit":
                return self.srcs(recv)
            known = self.package_call_srcs(c)
            if known is not None:
                return known
            out = self.srcs(recv)
            for a in args:
                out += self.srcs(a)
            return out
        if isinstance(f, ast.Name):
            if f.id in ("len", "range", "int", "float", "str", "min", "max", "abs", "sum", "set", "sorted", "enumerate", "isinstance",
                        "zip", "list", "tuple", "dict", "type", "print", "super", "hasattr", "getattr", "callable", "eval", "__import__",
                        "identity", "pinv", "lil_matrix", "qr", "solve", "lstsq", "OrthogonalMatchingPursuit", "MultiTaskLasso",
                        "DummyClassifier", "LinearDiscriminantAnalysis", "Identity", "QR", "ndim", "warn", "check_is_fitted",
                        "ValueError", "Exception", "NotImplementedError", "setattr", "round", "map", "any", "all"):
                if f.id in ("list", "tuple", "sorted", "zip", "enumerate", "map", "getattr"):
                    out = []
                    for a in args:
                        out += self.srcs(a)
                    return out if f.id == "getattr" else []
                return []
        known = self.package_call_srcs(c)
        if known is not None:
            return known
        out = []
        for a in args:
            out += self.srcs(a)
        return out

    def package_call_srcs(self, c):
        """result of a call to a function defined in the package: aliases only what the callee's return summary says"""
        f = c.func
        name = f.attr if isinstance(f, ast.Attribute) else (f.id if isinstance(f, ast.Name) else None)
        if name is None:
            return None
        names = CALL_ALIASES.get(name, [name])
        entries = [e for nm in names for e in self.summaries.get(nm, [])]
        if not entries:
            return None
        out = []
        for (callee_params, written, returns, ret_fields) in entries:
            if ret_fields:
                out.append(self.var("$ret:" + name))       # the callee object's own field(s), handed out by reference
            params = [p for p in callee_params if p not in ("self", "cls")]
            for i, a in enumerate(c.args):
                if i < len(params) and params[i] in returns:
                    out += self.srcs(a)
            covered = set(params[: len(c.args)]) | {k.arg for k in c.keywords if k.arg is not None}
            for k in c.keywords:
                if k.arg is not None and k.arg in returns:
                    out += self.srcs(k.value)
                elif k.arg is None and (set(returns) - covered - {"self"}):
                    out += self.srcs(k.value)      # **mapping may bind a parameter the callee returns
            if "self" in returns and isinstance(f, ast.Attribute):
                out += self.srcs(f.value)
        return out

    # ---- statements -------------------------------------------------------------------
    OVERWRITE_KW = {"overwrite_a": 0, "overwrite_b": 1, "overwrite_x": 0, "overwrite_input": 0, "overwrite_data": 0}

    def note_overwrite_flags(self, c):
        """LAPACK-style in-place permissions: `f(a, b, overwrite_b=True)` lets the callee write into its argument; the flag may
        also travel in a keyword dictionary (`kw.setdefault("overwrite_b", True)`, `kw["overwrite_b"] = True`, `f(a, b, **kw)`).
        Flags that arrive from the caller (a `**kwargs` parameter passed on untouched) are the caller's own decision."""
        f = c.func
        if isinstance(f, ast.Attribute) and f.attr in ("setdefault", "update") and isinstance(f.value, ast.Name):
            if f.attr == "setdefault" and len(c.args) == 2 and isinstance(c.args[0], ast.Constant) and c.args[0].value in self.OVERWRITE_KW \
                    and not (isinstance(c.args[1], ast.Constant) and c.args[1].value is False):
                self.ow.setdefault(f.value.id, set()).add(c.args[0].value)
            if f.attr == "update":
                for k in c.keywords:
                    if k.arg in self.OVERWRITE_KW and not (isinstance(k.value, ast.Constant) and k.value.value is False):
                        self.ow.setdefault(f.value.id, set()).add(k.arg)
        flags = set()
        for k in c.keywords:
            if k.arg in self.OVERWRITE_KW and not (isinstance(k.value, ast.Constant) and k.value.value is False):
                flags.add(k.arg)
            elif k.arg is None and isinstance(k.value, ast.Name):
                flags |= self.ow.get(k.value.id, set())
        for fl in flags:
            pos = self.OVERWRITE_KW[fl]
            if pos < len(c.args):
                self.write_through(c.args[pos])

    def note_calls(self, node):
        """side effects of every call inside `node`: mutating methods and package functions with write summaries"""
        for c in ast.walk(node):
            if not isinstance(c, ast.Call):
                continue
            self.note_overwrite_flags(c)
            f = c.func
            if isinstance(f, ast.Attribute):
                m = f.attr
                if m in MUTATORS:
                    b = self.base_var(f.value)
                    if b is not None:
                        self.fn.stmts.append(("write", b))
                if m in MUTATING_FUNCS and c.args:
                    b = self.base_var(c.args[0])
                    if b is not None:
                        self.fn.stmts.append(("write", b))
                names = CALL_ALIASES.get(m, [m])
            elif isinstance(f, ast.Name):
                names = CALL_ALIASES.get(f.id, [f.id])
                if f.id in MUTATING_FUNCS and c.args:
                    b = self.base_var(c.args[0])
                    if b is not None:
                        self.fn.stmts.append(("write", b))
            else:
                continue
            for k in c.keywords:
                if k.arg == "out":
                    b = self.base_var(k.value)
                    if b is not None:
                        self.fn.stmts.append(("write", b))
                elif k.arg == "inplace" and isinstance(f, ast.Attribute) and not (isinstance(k.value, ast.Constant) and k.value.value is False):
                    # pandas: `frame.reset_index(inplace=True)`, `.dropna(inplace=True)`, `.sort_values(inplace=True)`, … modify the
                    # receiver (a flag that is not the literal False is taken as possibly true)
                    b = self.base_var(f.value)
                    if b is not None:
                        self.fn.stmts.append(("write", b))
            for nm in names:
                for (callee_params, written, _returns, _rf) in self.summaries.get(nm, []):
                    if not written:
                        continue
                    params = [p for p in callee_params if p not in ("self", "cls")]
                    for i, a in enumerate(c.args):
                        if i < len(params) and params[i] in written:
                            self.write_through(a)
                    covered = set(params[: len(c.args)]) | {k.arg for k in c.keywords if k.arg is not None}
                    for k in c.keywords:
                        if k.arg is not None and k.arg in written:
                            self.write_through(k.value)
                        elif k.arg is None and (set(written) - covered):
                            self.write_through(k.value)

    def write_through(self, e):
        s = self.srcs(e)
        if s:
            t = self.fresh_tmp()
            self.fn.stmts.append(("assign", t, s))
            self.fn.stmts.append(("write", t))

    def assign_target(self, t, value_srcs):
        if isinstance(t, ast.Name):
            self.fn.stmts.append(("assign", self.var(t.id), value_srcs))
        elif isinstance(t, ast.Attribute):
            if isinstance(t.value, ast.Name) and t.value.id == "self":
                self.fn.stmts.append(("assign", self.var("self." + t.attr), value_srcs))
            elif t.attr in ("shape", "strides", "dtype", "writeable"):
                # `a.shape = …`, `a.strides = …`, `a.dtype = …`, `a.flags.writeable = …` change the array object itself (the one the
                # caller holds): a write, although no element is stored
                b = self.base_var(t.value)
                if b is not None:
                    self.fn.stmts.append(("write", b))
            # storing into any other attribute of another object: no array write
        elif isinstance(t, (ast.Tuple, ast.List)):
            for x in t.elts:
                self.assign_target(x, value_srcs)
        elif isinstance(t, ast.Starred):
            self.assign_target(t.value, value_srcs)
        elif isinstance(t, ast.Subscript):
            if isinstance(t.value, ast.Name) and isinstance(t.slice, ast.Constant) and t.slice.value in self.OVERWRITE_KW:
                self.ow.setdefault(t.value.id, set()).add(t.slice.value)
            b = self.base_var(t.value)
            if b is not None:
                self.fn.stmts.append(("write", b))

    def stmt(self, s):
        if isinstance(s, ast.Assign):
            self.note_calls(s.value)
            vs = self.srcs(s.value)
            for t in s.targets:
                self.assign_target(t, vs)
        elif isinstance(s, ast.AnnAssign):
            if s.value is not None:
                self.note_calls(s.value)
                self.assign_target(s.target, self.srcs(s.value))
        elif isinstance(s, ast.AugAssign):
            self.note_calls(s.value)
            t = s.target
            if isinstance(t, ast.Subscript):
                b = self.base_var(t.value)
            else:
                b = self.base_var(t)
            if b is not None:
                self.fn.stmts.append(("write", b))
        elif isinstance(s, ast.Expr):
            self.note_calls(s.value)
        elif isinstance(s, (ast.For, ast.AsyncFor)):
            self.note_calls(s.iter)
            self.assign_target(s.target, self.srcs(s.iter))
            for b in s.body + s.orelse:
                self.stmt(b)
        elif isinstance(s, ast.While):
            self.note_calls(s.test)
            for b in s.body + s.orelse:
                self.stmt(b)
        elif isinstance(s, ast.If):
            self.note_calls(s.test)
            for b in s.body + s.orelse:
                self.stmt(b)
        elif isinstance(s, (ast.With, ast.AsyncWith)):
            for it in s.items:
                self.note_calls(it.context_expr)
                if it.optional_vars is not None:
                    self.assign_target(it.optional_vars, self.srcs(it.context_expr))
            for b in s.body:
                self.stmt(b)
        elif isinstance(s, ast.Try):
            for b in s.body + s.orelse + s.finalbody:
                self.stmt(b)
            for h in s.handlers:
                for b in h.body:
                    self.stmt(b)
        elif isinstance(s, ast.Return):
            if s.value is not None:
                self.note_calls(s.value)
                self.fn.return_srcs += self.srcs(s.value)
        elif isinstance(s, (ast.Raise, ast.Assert)):
            for c in ast.iter_child_nodes(s):
                self.note_calls(c)
        elif isinstance(s, (ast.FunctionDef, ast.AsyncFunctionDef)):
            for b in s.body:          # nested helper (e.g. default score): analysed inline
                self.stmt(b)
        # Pass, Import, Global, Delete, Break, Continue: nothing

    def build(self):
        for s in self.fn.node.body:
            self.stmt(s)
        assigned = {st[1] for st in self.fn.stmts if st[0] == "assign"}
        for f in sorted(self.ext_written):
            v = self.fn.vars.get("self." + f)
            if v is not None and v in assigned:
                self.fn.stmts.append(("write", v))        # written later, through the reference a getter hands out


def infer_roots(nvars, prot, stmts):
    roots = [set([i]) if i in prot else set() for i in range(nvars)]
    changed = True
    while changed:
        changed = False
        for s in stmts:
            if s[0] == "assign":
                for y in s[2]:
                    if not roots[y] <= roots[s[1]]:
                        roots[s[1]] |= roots[y]
                        changed = True
    return roots


def analyse(repo: Path):
    fns = collect(repo)
    summaries = {}
    ext_written = frozenset()
    for _ in range(8):         # summaries to a fixpoint (call depth in the package is small)
        new = {}
        new_ext = set()
        for fn in fns:
            fn.vars, fn.stmts, fn.prot, fn.return_srcs = {}, [], [], []
            b = Builder(fn, summaries, ext_written)
            b.build()
            roots = infer_roots(len(fn.vars), set(fn.prot), fn.stmts)
            inv = {v: k for k, v in fn.vars.items()}
            written = set()
            for s in fn.stmts:
                if s[0] == "write":
                    for r in roots[s[1]]:
                        nm = inv[r]
                        if nm in fn.params:
                            written.add(nm)
            # in/out parameters are not protected, but callers must know they are written
            for s in fn.stmts:
                if s[0] == "write":
                    full = infer_roots(len(fn.vars), set(fn.vars[p] for p in fn.params if p in fn.vars), fn.stmts)
                    for r in full[s[1]]:
                        if inv[r] in fn.params:
                            written.add(inv[r])
            fn.written_params = written
            full = infer_roots(len(fn.vars), set(fn.vars[p] for p in fn.params if p in fn.vars) | ({fn.vars["self"]} if "self" in fn.vars else set()), fn.stmts)
            returns = set()
            for v in fn.return_srcs:
                for r in full[v]:
                    if inv[r] in fn.params:
                        returns.add(inv[r])
            # fields of the object handed out by reference
            fvars = {v for k, v in fn.vars.items() if k.startswith("self.")}
            froots = infer_roots(len(fn.vars), fvars, fn.stmts)
            ret_fields = set()
            for v in fn.return_srcs:
                for r in froots[v]:
                    ret_fields.add(inv[r][5:])
            new.setdefault(fn.node.name, []).append((fn.params, frozenset(written), frozenset(returns), frozenset(ret_fields)))
            # results of getters written in place here
            rvars = {v for k, v in fn.vars.items() if k.startswith("$ret:")}
            if rvars:
                rroots = infer_roots(len(fn.vars), rvars, fn.stmts)
                for s in fn.stmts:
                    if s[0] == "write":
                        for r in rroots[s[1]]:
                            new_ext.add(inv[r][5:])
        # getter name -> fields
        ext_fields = set()
        for g in new_ext:
            for (_p, _w, _r, rf) in new.get(g, []):
                ext_fields |= set(rf)
        if new == summaries and frozenset(ext_fields) == ext_written:
            break
        summaries = new
        ext_written = frozenset(ext_fields)
    analyse.ext_written = sorted(ext_written)
    return fns


def lean_ident(q):
    return "prog_" + "".join(ch if ch.isalnum() else "_" for ch in q)


def emit(fns, out_path: Path):
    lines = ["/- GENERATED by harness/translate_alias.py from the current pysensors source – do not edit. -/",
             "import PsVerif.Model.Alias", "namespace PsVerif.Gen", ""]
    table = []
    for fn in fns:
        if not any(s[0] == "write" for s in fn.stmts):
            continue
        # renumber: protected roots first
        order = sorted(fn.prot) + [v for v in range(len(fn.vars)) if v not in set(fn.prot)]
        ren = {old: new for new, old in enumerate(order)}
        stm = []
        for s in fn.stmts:
            if s[0] == "assign":
                stm.append(f".assign {ren[s[1]]} [{', '.join(str(ren[y]) for y in dict.fromkeys(s[2]))}]")
            else:
                stm.append(f".write {ren[s[1]]}")
        stm = list(dict.fromkeys(stm))
        ident = lean_ident(fn.qual)
        inv = {ren[v]: k for k, v in fn.vars.items()}
        lines.append(f"/-- {fn.qual}; protected: {[inv[i] for i in range(len(fn.prot))]} -/")
        lines.append(f"def {ident} : AProg := {{ nProt := {len(fn.prot)}, nVars := {len(fn.vars)}, stmts := [")
        lines.append("  " + ",\n  ".join(stm) + " ] }")
        lines.append(f"theorem safe_{ident} : {ident}.check = true := by decide +kernel")
        lines.append("")
        table.append({"function": fn.qual, "ident": ident, "n_protected": len(fn.prot), "n_vars": len(fn.vars), "n_stmts": len(stm),
                      "vars": {str(i): inv[i] for i in sorted(inv)}, "writes": [inv[ren[s[1]]] for s in fn.stmts if s[0] == "write"]})
    lines.append("end PsVerif.Gen")
    text = "\n".join(lines) + "\n"
    out_path.parent.mkdir(parents=True, exist_ok=True)
    if not out_path.exists() or out_path.read_text() != text:
        out_path.write_text(text)
    return table


def python_check(fn):
    """the same decision in Python (used to name the offending variable in reports)"""
    roots = infer_roots(len(fn.vars), set(fn.prot), fn.stmts)
    inv = {v: k for k, v in fn.vars.items()}
    bad = []
    for s in fn.stmts:
        if s[0] == "write" and roots[s[1]]:
            bad.append((inv[s[1]], sorted(inv[r] for r in roots[s[1]])))
    return bad


if __name__ == "__main__":
    import sys
    repo = Path(sys.argv[1] if len(sys.argv) > 1 else "/repo")
    fns = analyse(repo)
    for fn in fns:
        bad = python_check(fn)
        w = sum(1 for s in fn.stmts if s[0] == "write")
        if w:
            print(f"{fn.qual}: {w} writes, {'OK' if not bad else 'UNSAFE ' + str(bad)}")
