"""
Histories of SSPOC calls: generation, execution on the real object (with optional injection of exact dyadic
coefficient arrays), encoding for the Lean state machine (`sspoc` driver command) and comparison.
Shared by C08, C09 (and C01 / C19 for SSPOC rows).
"""
from __future__ import annotations

from fractions import Fraction

import numpy as np

from . import common as C
from . import models
from .sspor_hist import enc_count, err_kind

METHODS = {"max": np.max, "mean": np.mean, "min": np.min, "median": np.median}


class SHistory:
    def __init__(self, basis, n_modes, ctor_ns, ctor_thr, X, y, ops, inject=None, l1=0.1):
        self.basis, self.n_modes, self.ctor_ns, self.ctor_thr = basis, n_modes, ctor_ns, ctor_thr
        self.X, self.y, self.ops, self.inject, self.l1 = X, y, ops, inject, l1

    def describe(self):
        return {"basis": self.basis, "n_modes": self.n_modes, "ctor_ns": repr(self.ctor_ns), "ctor_thr": repr(self.ctor_thr),
                "X": self.X.tolist(), "y": self.y.tolist(), "ops": [[repr(v) for v in op] for op in self.ops],
                "inject": None if self.inject is None else np.asarray(self.inject).tolist(), "l1": self.l1}


def from_desc(d):
    ev = lambda s: eval(s, {"np": np, "__builtins__": {}, "None": None, "True": True, "False": False})
    return SHistory(d["basis"], d["n_modes"], ev(d["ctor_ns"]), ev(d["ctor_thr"]), np.array(d["X"], dtype=float), np.array(d["y"]),
                    [tuple(ev(v) for v in op) for op in d["ops"]], None if d.get("inject") is None else np.array(d["inject"], dtype=float),
                    d.get("l1", 0.1))


def mags_of(model, method="max"):
    s = np.asarray(model.sensor_coef_)
    if s.ndim == 1:
        return np.abs(s)
    return METHODS[method](np.abs(s), axis=1)


def observe(model, method="max"):
    if not hasattr(model, "sensor_coef_"):
        return {"fitted": False}
    sel = np.array(model.sparse_sensors_).astype(int).tolist()
    kind = "dummy" if model.n_sensors == 0 else ("raw" if model.refit_ else "projected")
    return {"fitted": True, "ns": model.n_sensors, "sel": sel, "kind": kind, "mag": mags_of(model, method).tolist(),
            "coef": np.asarray(model.sensor_coef_).copy(), "r": int(model.basis_matrix_inverse_.shape[0]),
            "c": int(len(set(np.asarray(model.classifier.classes_).tolist()))) if hasattr(model.classifier, "classes_") else None}


def run_real(h: SHistory, after_op=None):
    """after_op(model, op_index, op, status) is called after every op (used by C09 for prediction checks)."""
    from pysensors.classification import SSPOC
    import pysensors.classification._sspoc as smod
    model = SSPOC(basis=models.make_basis(h.basis, h.n_modes), n_sensors=h.ctor_ns, threshold=h.ctor_thr, l1_penalty=h.l1)
    out = []
    saved = (smod.constrained_binary_solve, smod.constrained_multiclass_solve)
    if h.inject is not None:
        # the sparse solvers are parameters of the model: substitute an exact dyadic coefficient array
        inj = np.array(h.inject, dtype=float)
        smod.constrained_binary_solve = lambda w, psi, **kw: inj.copy()
        smod.constrained_multiclass_solve = lambda w, psi, **kw: inj.copy()
    try:
        return _run_ops(h, model, out, after_op)
    finally:
        smod.constrained_binary_solve, smod.constrained_multiclass_solve = saved


def _run_ops(h, model, out, after_op):
    for i, op in enumerate(h.ops):
        method = "max"
        try:
            if op[0] == "fit":
                # refit None = the keyword is not passed (documented default: True)
                model.fit(h.X.copy(), h.y.copy(), quiet=True, **({} if op[1] is None else {"refit": op[1]}))
            elif op[0] == "upd":
                _, n, thr, xy, method = op
                kw = {}
                if method != "max":
                    kw["method"] = METHODS[method]
                model.update_sensors(n_sensors=n, threshold=thr, xy=(h.X.copy(), h.y.copy()) if xy else None, quiet=True, **kw)
            elif op[0] == "updbad":
                # an update whose refit data the classifier refuses (labels one short, a NaN measurement, a single class): the call ends in
                # an exception the caller catches and the model stays in use
                _, n, thr, method, how = op
                kw = {}
                if method != "max":
                    kw["method"] = METHODS[method]
                X2, y2 = h.X.copy(), h.y.copy()
                if how == "labels_one_short":
                    y2 = y2[:-1]
                elif how == "nan_measurement":
                    X2[0, :] = np.nan
                else:
                    y2 = np.full_like(y2, y2[0])
                model.update_sensors(n_sensors=n, threshold=thr, xy=(X2, y2), quiet=True, **kw)
            elif op[0] == "updm":
                _, k, refit = op
                model.update_n_basis_modes(k, (h.X.copy(), h.y.copy()), quiet=True, **({} if refit is None else {"refit": refit}))
            status = "ok"
        except Exception as e:
            status = "E:" + err_kind(e)
        obs = observe(model, method)
        out.append((status, obs))
        if after_op is not None:
            after_op(model, i, op, status)
    return model, out


def enc_optcount(v):
    return "None" if v is None else enc_count(v)


def enc_optrat(v):
    if v is None:
        return "None"
    return C.enc_rat(v)


def to_request(h: SHistory, real_out):
    """Encodes the history for the Lean machine. Returns None when an op cannot be represented
    (non-numeric threshold, or a fit whose selection used injected coefficients after the fact)."""
    toks = ["sspoc", enc_optcount(h.ctor_ns), enc_optrat(h.ctor_thr) if isinstance(h.ctor_thr, (int, float, type(None))) else None]
    if toks[2] is None:
        return None
    ops = []
    for op, (status, obs) in zip(h.ops, real_out):
        if op[0] == "updbad":
            # whether scikit-learn refuses the refit data is a parameter of the machine (taken from the real run): refused →
            # `updateRefused` (selection committed, then ValueError: finding F16), accepted → an ordinary update with data
            _, n, thr, method, how = op
            mag = obs["mag"] if obs.get("fitted") else []
            if thr is not None and not isinstance(thr, (int, float)):
                return None
            if status == "ok":
                ops.append(f"upd {enc_optcount(n)} {enc_optrat(thr)} 1 {C.enc_rats(mag)}")
            else:
                ops.append(f"updr {enc_optcount(n)} {enc_optrat(thr)} {C.enc_rats(mag)}")
            continue
        if op[0] in ("fit", "updm") and status != "ok":
            break      # failures inside the basis / classifier / solver stage of fit are not modelled: compare the prefix
        if not obs.get("fitted"):
            mag, nf = [], 0
        else:
            mag, nf = obs["mag"], len(obs["mag"])
        if op[0] in ("fit", "updm"):
            refit = op[1] if op[0] == "fit" else op[2]
            refit = True if refit is None else refit
            coef = obs.get("coef")
            if coef is None:
                dsel = []
            else:
                dsel = default_selection(coef, obs.get("r"), obs.get("c"))
                if dsel is None:
                    return None
            ops.append(f"fit {nf} {'1' if refit else '0'} {C.enc_rats(mag)} {C.enc_nats(dsel)}")
        else:
            _, n, thr, xy, method = op
            if thr is not None and not isinstance(thr, (int, float)):
                return None
            ops.append(f"upd {enc_optcount(n)} {enc_optrat(thr)} {'1' if xy else '0'} {C.enc_rats(mag)}")
    return " ".join(toks[:3] + [str(len(ops))] + ops)


def default_selection(coef, r, c):
    """indices selected by the documented default threshold ‖s‖_F/(2rc), decided exactly; None if a magnitude is
    within 1e-12 (relative) of the threshold (float rounding could go either way)."""
    if r is None or c is None:
        return []
    s = np.asarray(coef, dtype=float)
    mag = np.abs(s) if s.ndim == 1 else np.max(np.abs(s), axis=1)
    ss = sum(C.frac(v) ** 2 for v in s.ravel())
    k = Fraction(2 * r * c)
    sel = []
    for i, m in enumerate(mag):
        mf = C.frac(m)
        lhs, rhs = mf * mf * k * k, ss
        if rhs != 0 and abs(lhs - rhs) <= Fraction(1, 10 ** 9) * rhs and lhs != rhs:
            return None
        if lhs >= rhs:
            sel.append(i)
    return sel


def parse_model(resp):
    if not resp.startswith("ok"):
        raise C.HarnessError("sspoc driver: " + resp[:200])
    outs = []
    body = resp[2:].strip()
    if not body:
        return outs
    for part in body.split(" ; "):
        status, ns, sel, kind, cons = part.strip().split("|")
        outs.append({"status": status, "ns": None if ns == "None" else (ns if ns == "x" else int(ns)),
                     "sel": [int(x) for x in sel.strip("[]").split()], "kind": kind, "consistent": cons == "1"})
    return outs


def canon_sel(sel, mag):
    """canonical form of a selection: the multiset of selected magnitudes (order of equal magnitudes is free)"""
    return sorted((C.frac(mag[i]) for i in sel), reverse=True)


def compare(h, real_out, model_out, ordered_by_n):
    """first difference (index, key, message) or None.  Selections are compared canonically."""
    prev = None          # (real selection, model selection) after the previous call
    for i, ((status, obs), m) in enumerate(zip(real_out, model_out)):
        if status != m["status"]:
            return (i, "status", f"real {status} vs model {m['status']}")
        if not obs.get("fitted"):
            prev = None
            continue
        if obs["ns"] != m["ns"]:
            return (i, "n_sensors", f"real {obs['ns']!r} vs model {m['ns']!r}")
        mag = obs["mag"]
        if status != "ok" and prev is not None and obs["sel"] == prev[0] and m["sel"] == prev[1]:
            # a rejected call left both selections as they were: they were compared (canonically, under the aggregation
            # method that produced them) after the call that made them – the magnitudes of THIS call's method do not apply
            continue
        prev = (obs["sel"], m["sel"])
        if len(obs["sel"]) != len(m["sel"]) or canon_sel(obs["sel"], mag) != canon_sel(m["sel"], mag):
            return (i, "selected", f"real {obs['sel']} vs model {m['sel']} (magnitudes {mag})")
        if ordered_by_n != "no-dispatch" and obs["kind"] != m["kind"]:
            return (i, "predict dispatch", f"real {obs['kind']} vs model {m['kind']}")
    return None
