"""
Independent decision procedures used by the failing-input search.  They evaluate a property's own
statement on the *real* code's outputs in exact `Fraction` arithmetic and share no code with the
Lean model (different algorithm where possible: explicit modified-Gram-Schmidt residual vectors
instead of a Gram/Schur recurrence).
"""
from __future__ import annotations

from fractions import Fraction
from math import isqrt

from .common import frac


def fmat(B):
    return [[frac(x) for x in row] for row in (B.tolist() if hasattr(B, "tolist") else B)]


def dot(u, v):
    return sum((a * b for a, b in zip(u, v)), Fraction(0))


def sqrt_bounds(x: Fraction, bits=160):
    """(lo, hi) rationals with lo ≤ √x ≤ hi, hi − lo ≤ 2^-bits·max(1,√x)"""
    if x < 0:
        raise ValueError("sqrt of negative")
    if x == 0:
        return Fraction(0), Fraction(0)
    sc = 1 << (2 * bits)
    num = x.numerator * sc
    q = num // x.denominator
    lo = isqrt(q)
    hi = lo + 1
    return Fraction(lo, 1 << bits), Fraction(hi, 1 << bits)


def score_ge(a: Fraction, c: Fraction, b: Fraction, d: Fraction) -> bool:
    """decides √a − c ≥ √b − d exactly (interval refinement, exact tie detection by squaring)."""
    # exact: √a − √b ≥ c − d
    t = c - d
    for bits in (80, 200, 600):
        alo, ahi = sqrt_bounds(a, bits)
        blo, bhi = sqrt_bounds(b, bits)
        if alo - bhi >= t:
            return True
        if ahi - blo < t:
            return False
    # extremely close: decide algebraically.  √a − √b ≥ t
    if t <= 0:
        # −(√b − √a) ≥ t  ⇔  √b − √a ≤ −t =: s ≥ 0 ⇔ √b ≤ √a + s ⇔ b ≤ a + s² + 2s√a
        s = -t
        v = b - a - s * s
        return v <= 0 or 4 * s * s * a >= v * v
    u = a - b - t * t
    return u >= 0 and u * u >= 4 * t * t * b


class MGS:
    """Residual sensor rows under explicit modified Gram–Schmidt deflation."""

    def __init__(self, B):
        self.rows = fmat(B)
        self.n = len(self.rows)
        self.res = [list(r) for r in self.rows]

    def norm2(self, a):
        return dot(self.res[a], self.res[a])

    def eliminate(self, q):
        v = list(self.res[q])
        d = dot(v, v)
        if d == 0:
            return
        for a in range(self.n):
            c = dot(self.res[a], v) / d
            if c != 0:
                self.res[a] = [x - c * y for x, y in zip(self.res[a], v)]


def greedy_judge(B, ranking, k, costs=None, masks=None, delta=Fraction(0)):
    """For each of the first k picks: is (√resid − cost) of the pick within `delta` of the maximum over
    the sensors not yet ranked (masked candidates count with residual 0)?  `masks[j]` is the set of
    masked sensor ids at step j.  Returns list of dicts(ok, chosen, n2, best, gap_is_zero)."""
    st = MGS(B)
    n = st.n
    costs = [Fraction(0)] * n if costs is None else [frac(c) for c in costs]
    out = []
    ranked = []
    for j in range(k):
        q = int(ranking[j])
        cand = [c for c in range(n) if c not in ranked]
        msk = masks[j] if masks is not None else set()
        val = {c: (Fraction(0) if c in msk else st.norm2(c)) for c in cand}
        ok = all(score_ge(val[q], costs[q], val[c], costs[c] + delta) for c in cand) if q in val else False
        out.append({"ok": ok, "chosen": q, "n2": st.norm2(q) if q in val else None})
        ranked.append(q)
        st.eliminate(q)
    return out


def rank_of(rows):
    """exact rank by fraction Gaussian elimination"""
    M = [list(r) for r in rows]
    r = 0
    ncols = len(M[0]) if M else 0
    for c in range(ncols):
        piv = next((i for i in range(r, len(M)) if M[i][c] != 0), None)
        if piv is None:
            continue
        M[r], M[piv] = M[piv], M[r]
        pv = M[r][c]
        M[r] = [x / pv for x in M[r]]
        for i in range(len(M)):
            if i != r and M[i][c] != 0:
                f = M[i][c]
                M[i] = [x - f * y for x, y in zip(M[i], M[r])]
        r += 1
        if r == len(M):
            break
    return r


def solve_exact(M, Y):
    """Solve M C = Y exactly for square nonsingular M (lists of Fractions); returns None if singular."""
    n = len(M)
    A = [list(M[i]) + list(Y[i]) for i in range(n)]
    for c in range(n):
        piv = next((i for i in range(c, n) if A[i][c] != 0), None)
        if piv is None:
            return None
        A[c], A[piv] = A[piv], A[c]
        pv = A[c][c]
        A[c] = [x / pv for x in A[c]]
        for i in range(n):
            if i != c and A[i][c] != 0:
                f = A[i][c]
                A[i] = [x - f * y for x, y in zip(A[i], A[c])]
    return [row[n:] for row in A]


def matmul(A, B):
    return [[sum((A[i][l] * B[l][j] for l in range(len(B))), Fraction(0)) for j in range(len(B[0]))] for i in range(len(A))]


def transpose(A):
    return [list(r) for r in zip(*A)] if A else []


def det_exact(M):
    n = len(M)
    A = [list(r) for r in M]
    det = Fraction(1)
    for c in range(n):
        piv = next((i for i in range(c, n) if A[i][c] != 0), None)
        if piv is None:
            return Fraction(0)
        if piv != c:
            A[c], A[piv] = A[piv], A[c]
            det = -det
        det *= A[c][c]
        for i in range(c + 1, n):
            f = A[i][c] / A[c][c]
            if f != 0:
                A[i] = [x - f * y for x, y in zip(A[i], A[c])]
    return det
