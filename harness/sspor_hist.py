"""
Histories of SSPOR calls: generation, execution on the real object, encoding for the Lean state machine
(`sspor` driver command), comparison of the observable projection after every call.
Shared by C14, C15, C16 (and C19 for the SSPOR rows of its table).
"""
from __future__ import annotations

import numpy as np

from . import common as C
from . import models


def err_kind(e: BaseException) -> str:
    from sklearn.exceptions import NotFittedError
    if isinstance(e, NotFittedError):
        return "NotFitted"
    for k, name in ((ValueError, "ValueError"), (TypeError, "TypeError"), (IndexError, "IndexError"),
                    (NotImplementedError, "NotImplemented"), (AttributeError, "AttributeError")):
        if isinstance(e, k):
            return name
    return "Other"


def enc_count(v) -> str:
    """PyCount token: instance of SSPOR's INT_DTYPES → i:<v>, anything else → x"""
    if isinstance(v, (bool,)):
        return f"i:{int(v)}"
    if isinstance(v, (int, np.int64, np.int32, np.int16, np.int8)):
        return f"i:{int(v)}"
    return "x"


class History:
    def __init__(self, basis, n_modes, ctor_ns, opt, datasets, ops):
        self.basis = basis          # 'identity' | 'svd' | 'rp'
        self.n_modes = n_modes      # constructor n_basis_modes (None only for identity)
        self.ctor_ns = ctor_ns      # constructor n_sensors (python value)
        self.opt = opt              # 'qr' | 'ccqr' | 'gqr'
        self.datasets = datasets    # list of ndarrays (examples × features)
        self.ops = ops              # list of tuples

    def describe(self):
        ops = []
        for op in self.ops:
            op = list(op)
            if op[0] in ("set", "upd"):
                op[1] = repr(op[1])
            ops.append(op)
        return {"basis": self.basis, "n_modes": self.n_modes, "ctor_ns": repr(self.ctor_ns), "opt": self.opt,
                "datasets": [d.tolist() for d in self.datasets], "dtypes": [str(d.dtype) for d in self.datasets], "ops": ops}


def make_optimizer(kind):
    from pysensors.optimizers import CCQR, GQR, QR
    return {"qr": QR, "ccqr": CCQR, "gqr": GQR}[kind]()


def copy_model(model, how):
    """the model goes through pickle / copy – what comes back is used from then on"""
    import copy
    import pickle
    if how == "pickle":
        return pickle.loads(pickle.dumps(model))
    if how == "deepcopy":
        return copy.deepcopy(model)
    return copy.copy(model)


COPY_KINDS = ["pickle", "deepcopy", "copy"]


def observe(model):
    def attr(f):
        try:
            return f()
        except Exception as e:
            return "!" + err_kind(e)
    sel = attr(lambda: np.array(model.get_selected_sensors()).tolist())
    rk = attr(lambda: np.array(model.get_all_sensors()).tolist())
    bm = tuple(model.basis_matrix_.shape) if hasattr(model, "basis_matrix_") else None
    ns = model.n_sensors
    sq = "-"
    if ns is not None and bm is not None:
        sq = "sq" if ns == bm[1] else "rect"
    return {"ns": None if ns is None else int(ns), "sel": sel, "rank": rk, "bm": bm, "sq": sq,
            "bnm": getattr(model.basis, "n_basis_modes", None), "snm": model.n_basis_modes}


def run_real(h: History, probe=None):
    """Executes the history on a real SSPOR. Returns (model or None, list of (status, obs)).
    probe(model, op_index) is called after every op (used to interleave read-only calls such as predict)."""
    from pysensors.reconstruction import SSPOR
    try:
        model = SSPOR(basis=models.make_basis(h.basis, h.n_modes), optimizer=make_optimizer(h.opt), n_sensors=h.ctor_ns)
    except Exception as e:
        return None, [("ctor-error:" + err_kind(e), None)]
    out = []
    for op in h.ops:
        try:
            if op[0] == "fit":
                _, di, prefit, seed = op
                model.fit(h.datasets[di].copy(), quiet=True, prefit_basis=prefit, seed=seed)
            elif op[0] == "set":
                (model.set_number_of_sensors if op[2] == 0 else model.set_n_sensors)(op[1])
            elif op[0] == "upd":
                _, v, di = op
                x = None if di is None else h.datasets[di].copy()
                model.update_n_basis_modes(v, x, quiet=True)
            elif op[0] == "bfit":
                # the basis OBJECT is fitted by somebody else (the documented prefit workflow, another model sharing it)
                model.basis.fit(h.datasets[op[1]].copy())
            elif op[0] == "copy":
                model = copy_model(model, op[1])
            status = "ok"
        except Exception as e:
            status = "E:" + err_kind(e)
        out.append((status, observe(model)))
        if probe is not None:
            probe(model, len(out) - 1)
    return model, out


def to_request(h: History, real_out):
    """driver request; the oracle ranking of each fitting op is what the real run produced"""
    ctor_failed = bool(real_out) and real_out[0][0].startswith("ctor-error")
    n_ops = 0 if ctor_failed else len(h.ops)
    toks = ["sspor", h.basis, C.enc_optnat(h.n_modes), "None" if h.ctor_ns is None else enc_count(h.ctor_ns), str(n_ops)]
    for op, (status, obs) in zip(h.ops[:n_ops], real_out):
        rk = obs["rank"] if (obs and isinstance(obs["rank"], list)) else []
        if op[0] == "fit":
            _, di, prefit, seed = op
            ne, nf = h.datasets[di].shape
            toks += ["fit", str(ne), str(nf), "1" if prefit else "0", C.enc_nats(rk)]
        elif op[0] == "set":
            toks += ["set", enc_count(op[1])]
        elif op[0] == "bfit":
            ne, nf = h.datasets[op[1]].shape
            toks += ["bfit", str(ne), str(nf)]
        elif op[0] == "copy":
            toks += ["copy"]
        else:
            _, v, di = op
            if di is None:
                toks += ["upd", enc_count(v), "0", "0", "0", C.enc_nats(rk)]
            else:
                ne, nf = h.datasets[di].shape
                toks += ["upd", enc_count(v), "1", str(ne), str(nf), C.enc_nats(rk)]
    return " ".join(toks)


def parse_model(resp):
    if resp == "ctor-error":
        return None
    if not resp.startswith("ok"):
        raise C.HarnessError("sspor driver: " + resp[:200])
    outs = []
    body = resp[2:].strip()
    if not body:
        return outs
    for part in body.split(" ; "):
        status, ns, sel, rk, bm, sq, bnm, snm = part.strip().split("|")
        lst = lambda s: "!" if s == "!" else [int(x) for x in s.strip("[]").split()]
        outs.append({"status": status, "ns": None if ns == "None" else int(ns), "sel": lst(sel), "rank": lst(rk),
                     "bm": None if bm == "None" else tuple(int(x) for x in bm.strip("()").split(",")), "sq": sq,
                     "bnm": None if bnm == "None" else int(bnm), "snm": None if snm == "None" else int(snm)})
    return outs


def compare(real_out, model_out):
    """first difference between the real observable projection and the Lean machine, or None"""
    if model_out is None:
        if real_out and real_out[0][0].startswith("ctor-error"):
            return None
        return (0, "constructor", "model rejects, real accepts")
    if real_out and real_out[0][0].startswith("ctor-error"):
        return (0, "constructor", "real rejects (" + real_out[0][0] + "), model accepts")
    for i, ((status, obs), m) in enumerate(zip(real_out, model_out)):
        if status != m["status"]:
            return (i, "status", f"real {status} vs model {m['status']}")
        rsel = obs["sel"] if isinstance(obs["sel"], list) else "!"
        rrk = obs["rank"] if isinstance(obs["rank"], list) else "!"
        for key, rv, mv in (("n_sensors", obs["ns"], m["ns"]), ("selected", rsel, m["sel"]), ("ranking", rrk, m["rank"]),
                            ("basis_matrix_.shape", obs["bm"], m["bm"]), ("predict dispatch", obs["sq"], m["sq"]),
                            ("basis.n_basis_modes", obs["bnm"], m["bnm"]), ("SSPOR.n_basis_modes", obs["snm"], m["snm"])):
            if rv != mv:
                return (i, key, f"real {rv} vs model {mv}")
    return None


# --------------------------------------------------------------------------- generation

INVALID_COUNTS = [0, -1, -3, 2.5, "3", None, [2], 1.0]


def gen_datasets(rng, same_shape=False, max_ex=7, max_feat=8):
    k = rng.randint(1, 3)
    out = []
    ne0, nf0 = rng.randint(2, max_ex), rng.randint(2, max_feat)
    # "the same survey re-recorded": equal shapes, but first as raw integer counts, later standardised (floats with fractions)
    switch = rng.random() < 0.25
    if switch:
        k = max(k, 2)
        same_shape = True
    for i in range(k):
        if same_shape or i == 0:
            ne, nf = ne0, nf0
        else:
            r = rng.random()
            ne = ne0 if r < 0.3 else rng.randint(2, max_ex)
            nf = nf0 if 0.3 <= r < 0.6 else rng.randint(2, max_feat)
        X = np.array([[rng.randint(-6, 6) for _ in range(nf)] for _ in range(ne)], dtype=float)
        # storage type of the data set: counts / raw pixels are integers, standardised data are floats with fractions
        dt = rng.choice(["float64", "float64", "float64", "int64", "int32", "float32"])
        if switch:
            dt = rng.choice(["int64", "int32", "float32"]) if i == 0 else "float64"
        if dt.startswith("float") and (switch or rng.random() < 0.5):
            X = X + np.array([[rng.randint(-3, 3) / 4 for _ in range(nf)] for _ in range(ne)])
        out.append(X.astype(dt))
    return out


def gen_history(rng, max_ops=8, same_shape=False, allow_invalid=True, kinds=("fit", "set", "upd"), opt=None, basis=None,
                ctor_invalid=False, repeat_bias=0.0):
    basis = basis or rng.choice(models.BASIS_KINDS)
    datasets = gen_datasets(rng, same_shape=same_shape)
    ne0, nf0 = datasets[0].shape
    if basis == "identity":
        n_modes = None if rng.random() < 0.5 else rng.randint(1, ne0)
    elif basis == "svd":
        n_modes = rng.randint(1, min(ne0, nf0))
    else:
        n_modes = rng.randint(1, ne0 + 1)
    r = rng.random()
    if ctor_invalid and r < 0.15:
        ctor_ns = rng.choice([0, -2, 2.5, "4"])
    elif r < 0.5:
        ctor_ns = None
    else:
        ctor_ns = rng.randint(1, nf0)
        if rng.random() < 0.2:
            ctor_ns = np.int64(ctor_ns)
    opt = opt or rng.choice(["qr", "ccqr", "gqr"])
    ops = []
    n_ops = rng.randint(1, max_ops)
    fitted = False
    for _ in range(n_ops):
        k = rng.choice(kinds) if fitted or rng.random() < 0.15 else "fit"
        if k == "fit":
            di = rng.randrange(len(datasets))
            prefit = fitted and rng.random() < 0.15
            seed = rng.choice([None, 0, 1, 5, 11])
            ops.append(("fit", di, prefit, seed))
            fitted = True
        elif k == "set":
            if allow_invalid and rng.random() < 0.3:
                v = rng.choice(INVALID_COUNTS + [50])
            else:
                v = rng.randint(1, max(d.shape[1] for d in datasets))
                if rng.random() < 0.15:
                    v = np.int32(v)
            ops.append(("set", v, rng.randint(0, 1)))
        elif k == "bfit":
            ops.append(("bfit", rng.randrange(len(datasets))))
        elif k == "copy":
            ops.append(("copy", rng.choice(COPY_KINDS)))
        else:
            earlier = [o[1] for o in ops if o[0] == "upd" and isinstance(o[1], int)]
            if repeat_bias and earlier and rng.random() < repeat_bias:
                v = rng.choice(earlier)          # sweeps come back to the values they have already visited
            elif allow_invalid and rng.random() < 0.25:
                v = rng.choice(INVALID_COUNTS + [40])
            else:
                v = rng.randint(1, max(d.shape[0] for d in datasets))
            di = None if rng.random() < 0.35 else rng.randrange(len(datasets))
            ops.append(("upd", v, di))
    return History(basis, n_modes, ctor_ns, opt, datasets, ops)


def gen_sweep_history(rng):
    """fit; a sweep of update_n_basis_modes; the basis object fitted OUTSIDE the model on other data (equal or different width);
    optionally fit(prefit_basis=True) and a copy; the same sweep (or its reverse) again, cut at a random point"""
    basis = rng.choice(["svd", "rp", "identity"])
    ne = rng.randint(3, 6)
    nf0 = rng.randint(3, 8)
    nf1 = nf0 if rng.random() < 0.4 else rng.randint(3, 8)
    ds = [np.array([[rng.randint(-6, 6) + rng.randint(-3, 3) / 4 for _ in range(nf)] for _ in range(ne)], dtype=float) for nf in (nf0, nf1)]
    nm = rng.randint(2, min(ne, nf0, nf1)) if basis != "rp" else rng.randint(2, ne)
    sweep = [rng.randint(1, nm) for _ in range(rng.randint(1, 3))]
    ops = [("fit", 0, False, rng.choice([None, 0, 3]))] + [("upd", k, None) for k in sweep] + [("bfit", 1)]
    if rng.random() < 0.5:
        ops.append(("fit", 1, True, rng.choice([None, 0, 3])))
    if rng.random() < 0.3:
        ops.append(("copy", rng.choice(COPY_KINDS)))
    again = list(sweep) if rng.random() < 0.6 else list(reversed(sweep))
    ops += [("upd", k, None) for k in again[: rng.randint(1, len(again))]]
    return History(basis, nm, rng.choice([None, None, rng.randint(1, min(nf0, nf1))]), rng.choice(["qr", "ccqr", "gqr"]), ds, ops)


def _ev(x):
    return eval(x, {"np": np, "__builtins__": {}}) if isinstance(x, str) else x


def history_from_desc(d):
    ops = []
    for op in d["ops"]:
        op = list(op)
        if op[0] in ("set", "upd"):
            op[1] = _ev(op[1])
        ops.append(tuple(op))
    return History(d["basis"], d["n_modes"], _ev(d["ctor_ns"]), d["opt"], [np.array(x, dtype=float).astype(dt) for x, dt in zip(d["datasets"], d.get("dtypes") or ["float64"] * len(d["datasets"]))], ops)
