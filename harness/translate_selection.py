"""
C08, second tie (translation): the four selection branches of `SSPOC.update_sensors` (n_sensors given | threshold only × coefficient
vector | matrix), the count each stores, and the default threshold of `SSPOC.fit`, read off the CURRENT source into the terms of
`lean/PsVerif/Model/SelExpr.lean`.  Generated (`lean/PsVerif/Generated/Selection.lean`):

    def selProg : SelProg := …                                   -- as written today
    theorem selection_update_sensors : selProg = SelProg.spec := by decide
    theorem sel_topn1d … : selProg.topn1d.sel.eval env = topN env.mag1 env.n         (and topn2d, thr1d, thr2d: threshSel)
    theorem default_threshold_den (r c) : denEval r c den = 2 * r * c

`SelProg.spec` is the program the hand-written model (`topN`, `threshSel`, `defaultThreshSel`; theorems of `Props/C08.lean`) was
written from.  Recognised: `np.argsort(-M)` sliced by `[:n_sensors]`, `np.nonzero(M ⋈ threshold)[0]` with M = `np.abs(self.sensor_coef_)`
or `method(np.abs(self.sensor_coef_), axis=1, **method_kws)`; local names are resolved through their single assignment in the branch;
`self.n_sensors = n_sensors | len(<selection>)`; `self.sparse_sensors_ = <selection>`.  Anything else (np.isclose, argpartition, a
cached ranking, another norm in the default threshold) is untranslatable or a different program: the theorem fails.
"""
from __future__ import annotations

import ast
import os


class Untranslatable(Exception):
    pass


COEF = "self.sensor_coef_"


def mag(e, env):
    e = resolve(e, env)
    t = ast.unparse(e)
    if t in (f"np.abs({COEF})", f"np.absolute({COEF})", f"abs({COEF})"):
        return ".abs1d"
    if isinstance(e, ast.Call) and isinstance(e.func, ast.Name) and e.func.id == "method" and len(e.args) == 1 \
            and ast.unparse(e.args[0]) in (f"np.abs({COEF})", f"np.absolute({COEF})"):
        kws = {k.arg: ast.unparse(k.value) for k in e.keywords}
        if kws == {"axis": "1", None: "method_kws"}:
            return ".aggRows"
    raise Untranslatable(f"magnitude expression {t}")


def resolve(e, env):
    seen = 0
    while isinstance(e, ast.Name) and e.id in env and seen < 10:
        e = env[e.id]
        seen += 1
    return e


def sel(e, env):
    """selection expression -> (SelE term, kind)"""
    e = resolve(e, env)
    # np.argsort(-M)[:n_sensors]
    if isinstance(e, ast.Subscript) and isinstance(e.slice, ast.Slice):
        sl = e.slice
        if sl.lower is None and sl.step is None and sl.upper is not None and ast.unparse(sl.upper) == "n_sensors":
            inner = resolve(e.value, env)
            if isinstance(inner, ast.Call) and ast.unparse(inner.func) in ("np.argsort", "numpy.argsort") and len(inner.args) == 1 and not inner.keywords:
                a = inner.args[0]
                if isinstance(a, ast.UnaryOp) and isinstance(a.op, ast.USub):
                    return f"(.argsortNegTake {mag(a.operand, env)})"
            raise Untranslatable(f"top-n selection {ast.unparse(e)} is not np.argsort(-M)[:n_sensors]")
        raise Untranslatable(f"slice {ast.unparse(e)}")
    # np.nonzero(M >= threshold)[0]
    if isinstance(e, ast.Subscript) and isinstance(e.slice, ast.Constant) and e.slice.value == 0:
        inner = resolve(e.value, env)
        if isinstance(inner, ast.Call) and ast.unparse(inner.func) in ("np.nonzero", "numpy.nonzero") and len(inner.args) == 1 and not inner.keywords:
            c = resolve(inner.args[0], env)
            if isinstance(c, ast.Compare) and len(c.ops) == 1:
                l, r = c.left, c.comparators[0]
                ops = {ast.GtE: "ge", ast.Gt: "gt", ast.LtE: "le", ast.Lt: "lt"}
                flip = {"ge": "le", "gt": "lt", "le": "ge", "lt": "gt"}
                o = ops.get(type(c.ops[0]))
                if o is None:
                    raise Untranslatable(f"comparison {ast.unparse(c)}")
                if ast.unparse(r) == "threshold":
                    return f"(.nonzeroCmp {mag(l, env)} .{o})"
                if ast.unparse(l) == "threshold":
                    return f"(.nonzeroCmp {mag(r, env)} .{flip[o]})"
            raise Untranslatable(f"threshold selection {ast.unparse(e)} is not np.nonzero(M ⋈ threshold)[0]")
    raise Untranslatable(f"selection expression {ast.unparse(e)}")


def branch(stmts):
    """statements of one arm (after the guards): returns {'1d': (sel, count), '2d': (sel, count)}"""
    out = {}
    common_env = {}

    def walk(stmts, env, dim):
        found = {}
        for s in stmts:
            if isinstance(s, ast.Assign) and len(s.targets) == 1:
                t = s.targets[0]
                if isinstance(t, ast.Name):
                    env[t.id] = s.value
                elif ast.unparse(t) == "self.sparse_sensors_":
                    found["sel"] = (s.value, dict(env))
                elif ast.unparse(t) == "self.n_sensors":
                    found["count"] = (s.value, dict(env))
            elif isinstance(s, ast.If):
                tt = ast.unparse(s.test)
                if tt in (f"np.ndim({COEF}) == 1", f"{COEF}.ndim == 1"):
                    e1, e2 = dict(env), dict(env)
                    f1 = walk(s.body, e1, "1d")
                    f2 = walk(s.orelse, e2, "2d")
                    found.setdefault("split", []).append((e1, e2, f1, f2))
                # other ifs (warnings) are walked for assignments to the watched attributes only
                elif any(ast.unparse(n) in ("self.sparse_sensors_", "self.n_sensors") for st in s.body + s.orelse for n in ast.walk(st)
                         if isinstance(n, ast.Attribute) and isinstance(n.ctx, ast.Store)):
                    raise Untranslatable("the selection is assigned under a condition the translator does not know")
        return found

    env = {}
    f = walk(stmts, env, None)
    for dim, idx in (("1d", 0), ("2d", 1)):
        e = dict(env)
        selv = f.get("sel")
        cntv = f.get("count")
        for sp in f.get("split", []):
            e_dim = sp[idx]
            # names assigned inside the ndim split are visible afterwards
            for k, v in e_dim.items():
                e[k] = v
            fd = sp[2 + idx]
            selv = fd.get("sel", selv)
            cntv = fd.get("count", cntv)
        if selv is None or cntv is None:
            raise Untranslatable("the branch does not assign self.sparse_sensors_ / self.n_sensors")
        # the assignment's own environment, completed by the split's definitions
        se = dict(selv[1]); se.update({k: v for k, v in e.items() if k not in se or True})
        s_term = sel(selv[0], se)
        c = resolve(cntv[0], dict(cntv[1], **e))
        ct = ast.unparse(c)
        if ct == "n_sensors":
            c_term = ".arg"
        elif isinstance(c, ast.Call) and ast.unparse(c.func) == "len" and len(c.args) == 1 and sel(c.args[0], se) == s_term:
            c_term = ".lenSel"
        else:
            raise Untranslatable(f"stored count {ct}")
        out[dim] = (s_term, c_term)
    return out


def analyse(repo):
    tree = ast.parse(open(os.path.join(str(repo), "pysensors", "classification", "_sspoc.py")).read())
    cls = next((n for n in tree.body if isinstance(n, ast.ClassDef) and n.name == "SSPOC"), None)
    sites = []
    upd = {"site": "updateSensors", "function": "pysensors/classification/_sspoc.py::SSPOC.update_sensors", "found": False,
           "theorems": ["selection_update_sensors", "sel_topn1d", "sel_topn2d", "sel_thr1d", "sel_thr2d"]}
    try:
        fn = next((n for n in (cls.body if cls else []) if isinstance(n, ast.FunctionDef) and n.name == "update_sensors"), None)
        if fn is None:
            raise Untranslatable("SSPOC.update_sensors not found")
        chain = next((s for s in fn.body if isinstance(s, ast.If) and ast.unparse(s.test) == "n_sensors is None and threshold is None"), None)
        if chain is None or len(chain.orelse) != 1 or not isinstance(chain.orelse[0], ast.If) \
                or ast.unparse(chain.orelse[0].test) != "n_sensors is not None":
            raise Untranslatable("the n_sensors / threshold dispatch of update_sensors has another form")
        arm = chain.orelse[0]
        top = branch(arm.body)
        thr = branch(arm.orelse)
        upd["lean"] = ("def selProg : SelProg :=\n"
                       f"  {{ topn1d := ⟨{top['1d'][0]}, {top['1d'][1]}⟩, topn2d := ⟨{top['2d'][0]}, {top['2d'][1]}⟩,\n"
                       f"    thr1d := ⟨{thr['1d'][0]}, {thr['1d'][1]}⟩, thr2d := ⟨{thr['2d'][0]}, {thr['2d'][1]}⟩ }}\n"
                       "theorem selection_update_sensors : selProg = SelProg.spec := by decide\n"
                       "theorem sel_topn1d (env : SelEnv) : selProg.topn1d.sel.eval env = topN env.mag1 env.n := by\n"
                       "  rw [selection_update_sensors]; exact spec_topn1d env\n"
                       "theorem sel_topn2d (env : SelEnv) : selProg.topn2d.sel.eval env = topN env.magA env.n := by\n"
                       "  rw [selection_update_sensors]; exact spec_topn2d env\n"
                       "theorem sel_thr1d (env : SelEnv) : selProg.thr1d.sel.eval env = threshSel env.mag1 env.τ := by\n"
                       "  rw [selection_update_sensors]; exact spec_thr1d env\n"
                       "theorem sel_thr2d (env : SelEnv) : selProg.thr2d.sel.eval env = threshSel env.magA env.τ := by\n"
                       "  rw [selection_update_sensors]; exact spec_thr2d env\n")
        upd["found"] = True
    except Untranslatable as e:
        upd["why"] = str(e)
    sites.append(upd)
    dft = {"site": "defaultThreshold", "function": "pysensors/classification/_sspoc.py::SSPOC.fit (default threshold)", "found": False,
           "theorems": ["default_threshold_den"]}
    try:
        fit = next((n for n in (cls.body if cls else []) if isinstance(n, ast.FunctionDef) and n.name == "fit"), None)
        if fit is None:
            raise Untranslatable("SSPOC.fit not found")
        blk = next((s for s in fit.body if isinstance(s, ast.If) and ast.unparse(s.test) == "self.threshold is None"), None)
        if blk is None or len(blk.body) != 1 or not isinstance(blk.body[0], ast.Assign) or ast.unparse(blk.body[0].targets[0]) != "threshold":
            raise Untranslatable("`if self.threshold is None: threshold = …` not found in fit")
        if [ast.unparse(s) for s in blk.orelse] != ["threshold = self.threshold"]:
            raise Untranslatable("an explicit threshold is not used as it is")
        v = blk.body[0].value
        if not (isinstance(v, ast.BinOp) and isinstance(v.op, ast.Div) and ast.unparse(v.left) == "np.sqrt(np.sum(s ** 2))"):
            raise Untranslatable(f"default threshold {ast.unparse(v)} is not np.sqrt(np.sum(s ** 2)) / (…)")
        if not any(ast.unparse(s) == "self.sensor_coef_ = s" for s in fit.body):
            raise Untranslatable("`s` is not what fit stores as sensor_coef_")
        if not any(isinstance(s, ast.Assign) and ast.unparse(s.targets[0]) == "n_classes" and ast.unparse(s.value) in ("len(set(y[:]))", "len(set(y))", "len(np.unique(y))")
                   for s in ast.walk(fit) if isinstance(s, ast.Assign)):
            raise Untranslatable("n_classes is not the number of distinct labels")
        facs = []

        def flat(e):
            if isinstance(e, ast.BinOp) and isinstance(e.op, ast.Mult):
                flat(e.left); flat(e.right)
            elif isinstance(e, ast.Constant) and isinstance(e.value, int) and not isinstance(e.value, bool) and e.value >= 0:
                facs.append(".two" if e.value == 2 else f"(.lit {e.value})")
            elif ast.unparse(e) == "self.basis_matrix_inverse_.shape[0]":
                facs.append(".nModes")
            elif ast.unparse(e) == "n_classes":
                facs.append(".nClasses")
            else:
                raise Untranslatable(f"factor {ast.unparse(e)} in the denominator of the default threshold")
        flat(v.right)
        dft["lean"] = ("def defaultDen : List DenF := [" + ", ".join(facs) + "]\n"
                       "theorem default_threshold_den (r c : Nat) : denEval r c defaultDen = 2 * r * c := by\n"
                       "  simp [defaultDen, denEval, DenF.eval, Nat.mul_comm, Nat.mul_left_comm, Nat.mul_assoc]\n")
        dft["found"] = True
    except Untranslatable as e:
        dft["why"] = str(e)
    sites.append(dft)
    return sites


def emit(sites, out_path):
    parts = ["/- GENERATED by harness/translate_selection.py from pysensors/classification/_sspoc.py – do not edit. -/",
             "import PsVerif.Model.SelExpr", "namespace PsVerif.Gen", "open PsVerif", ""]
    for s in sites:
        parts.append(f"/-- {s['function']} -/" if s["found"] else f"-- {s['function']}: NOT TRANSLATABLE ({s.get('why')})")
        if s["found"]:
            parts.append(s["lean"])
    parts.append("end PsVerif.Gen\n")
    text = "\n".join(parts)
    out_path = str(out_path)
    if not os.path.exists(out_path) or open(out_path).read() != text:
        open(out_path, "w").write(text)
    return [{"site": s["site"], "function": s["function"], "found": s["found"], "why": s.get("why"), "theorem": s["theorems"][0],
             "theorems": s["theorems"], "lean": s.get("lean", "")[:300]} for s in sites]


if __name__ == "__main__":
    import sys
    for s in analyse(sys.argv[1] if len(sys.argv) > 1 else "/repo"):
        print("==", s["site"], s["found"], s.get("why")); print(s.get("lean", ""))
