"""
Type-directed generators and taps.  Every random choice derives from the `random.Random`
handed in (itself derived from VERIF_SEED), so any case replays from (seed, index).
All numeric entries are small integers or dyadic rationals, hence exactly representable.
"""
from __future__ import annotations

import contextlib
import itertools
from fractions import Fraction

import numpy as np

MATRIX_KINDS = [
    "generic_int", "generic_eighths", "graded", "dup_rows", "zero_rows", "zero_cols",
    "all_zero", "ties", "low_rank", "tiny", "faint_mode",
]


def gen_shape(rng, max_n=10, max_m=8):
    r = rng.random()
    if r < 0.08:
        return (1, rng.randint(1, max_m))
    if r < 0.16:
        return (rng.randint(1, max_n), 1)
    if r < 0.22:
        return (1, 1)
    if r < 0.35:
        s = rng.randint(2, min(max_n, max_m))
        return (s, s)
    return (rng.randint(2, max_n), rng.randint(2, max_m))


def gen_matrix(rng, shape=None, kind=None, max_n=10, max_m=8):
    """Returns (B float64 ndarray n×m with exactly representable entries, kind)."""
    n, m = shape or gen_shape(rng, max_n, max_m)
    kind = kind or rng.choice(MATRIX_KINDS)
    ri = lambda lo, hi: rng.randint(lo, hi)
    if kind == "generic_int":
        B = [[ri(-5, 5) for _ in range(m)] for _ in range(n)]
    elif kind == "generic_eighths":
        B = [[ri(-24, 24) / 8 for _ in range(m)] for _ in range(n)]
    elif kind == "graded":
        B = [[ri(-4, 4) * 2.0 ** (-2 * c) for c in range(m)] for _ in range(n)]
    elif kind == "dup_rows":
        base = [[ri(-4, 4) for _ in range(m)] for _ in range(max(1, n // 2))]
        B = [list(rng.choice(base)) for _ in range(n)]
    elif kind == "zero_rows":
        B = [[ri(-4, 4) for _ in range(m)] for _ in range(n)]
        for i in range(n):
            if rng.random() < 0.35:
                B[i] = [0] * m
    elif kind == "zero_cols":
        B = [[ri(-4, 4) for _ in range(m)] for _ in range(n)]
        for c in range(m):
            if rng.random() < 0.35:
                for i in range(n):
                    B[i][c] = 0
    elif kind == "all_zero":
        B = [[0] * m for _ in range(n)]
    elif kind == "ties":
        # signed permutation-like rows: many exact ties in the norms
        B = [[0] * m for _ in range(n)]
        for i in range(n):
            for _ in range(ri(1, 2)):
                B[i][ri(0, m - 1)] = rng.choice([-2, -1, 1, 2])
    elif kind == "low_rank":
        r = ri(1, max(1, min(n, m) - 1))
        U = [[ri(-3, 3) for _ in range(r)] for _ in range(n)]
        V = [[ri(-3, 3) for _ in range(m)] for _ in range(r)]
        B = [[sum(U[i][l] * V[l][c] for l in range(r)) for c in range(m)] for i in range(n)]
    elif kind == "faint_mode":
        # one mode (column) 2^-28 … 2^-34 times fainter than the others: invisible in the initial norms, but it decides the last of the
        # first min(n, m) picks – and a rotation of the modes spreads it over all columns
        B = [[ri(-5, 5) for _ in range(m)] for _ in range(n)]
        c = ri(0, m - 1)
        f = 2.0 ** -rng.choice([28, 30, 34])
        for i in range(n):
            B[i][c] = ri(-5, 5) * f
    elif kind == "tiny":
        B = [[ri(-1, 1) for _ in range(m)] for _ in range(n)]
    else:
        raise ValueError(kind)
    B = np.array(B, dtype=float).reshape(n, m)
    # overall scale: the properties quantify over ALL finite matrices, so very small and very large magnitudes
    # must behave like ordinary ones (powers of two keep every entry exactly representable)
    if rng.random() < 0.2:
        e = rng.choice([-60, -40, -20, -8, 8, 20, 40])
        B = B * (2.0 ** e)
        kind = kind + f"*2^{e}"
    return B, kind


def gen_generic_matrix(rng, n, m, lo=-9, hi=9):
    """integer matrix, retried until all leading greedy choices are comfortably unique is the
    caller's business; this only draws."""
    return np.array([[rng.randint(lo, hi) for _ in range(m)] for _ in range(n)], dtype=float)


def gen_costs(rng, n, B=None, kind=None):
    kind = kind or rng.choice(["zero", "positive", "negative", "mixed", "prohibitive", "attract_zero_row", "none", "offset_small_spread"])
    if kind == "none":
        return None, kind
    if kind == "zero":
        c = [0.0] * n
    elif kind == "positive":
        c = [rng.randint(0, 16) / 4 for _ in range(n)]
    elif kind == "negative":
        c = [-rng.randint(0, 16) / 4 for _ in range(n)]
    elif kind == "mixed":
        c = [rng.randint(-16, 16) / 4 for _ in range(n)]
    elif kind == "prohibitive":
        c = [0.0] * n
        big = 1000.0
        for i in range(n):
            if rng.random() < 0.4:
                c[i] = big
    elif kind == "attract_zero_row":
        c = [rng.randint(0, 8) / 4 for _ in range(n)]
        zr = [i for i in range(n) if B is not None and not np.any(B[i])]
        for i in zr or [rng.randrange(n)]:
            c[i] = -float(rng.randint(8, 40))
    elif kind == "offset_small_spread":
        # a large common price plus small per-sensor differences (exactly representable): the differences still decide
        # between sensors of equal residual norm
        base = rng.choice([1200.0, 4096.0, -3000.0, 65536.0])
        c = [base + rng.randint(0, 8) / 1024 for _ in range(n)]
    else:
        raise ValueError(kind)
    return np.array(c, dtype=float), kind


# --------------------------------------------------------------------------- taps

class CCQRTap:
    def __init__(self):
        self.steps = []   # (dlens float list, i_piv offset, costs list)


@contextlib.contextmanager
def tap_ccqr():
    """Wrap pysensors.optimizers._ccqr.qr_reflector (module attribute; no source change)."""
    import pysensors.optimizers._ccqr as mod
    tap = CCQRTap()
    orig = getattr(mod, "qr_reflector", None)
    if orig is None:
        tap.unavailable = True
        yield tap
        return
    tap.unavailable = False

    def wrapper(r, costs, *args, **kwargs):
        # extra (keyword) arguments a refactored loop may pass are handed through untouched: the tap observes the trailing
        # block itself, which is what the next pivot must be judged on, whatever else the code carries along
        dl = np.sqrt(np.sum(np.abs(np.asarray(r, dtype=float)) ** 2, axis=0)).tolist()
        cs = np.asarray(costs, dtype=float).tolist()
        u, i_piv = orig(r, costs, *args, **kwargs)
        tap.steps.append((dl, int(i_piv), cs))
        return u, i_piv

    mod.qr_reflector = wrapper
    try:
        yield tap
    finally:
        mod.qr_reflector = orig


class GQRTap:
    def __init__(self):
        self.steps = []   # dict(j, piv, dlens_before, zeros)


@contextlib.contextmanager
def tap_gqr():
    """Wrap the mask function GQR.fit obtains through normCalcReturnInstance."""
    import pysensors.optimizers._gqr as mod
    tap = GQRTap()
    orig = getattr(mod, "normCalcReturnInstance", None)
    if orig is None:
        tap.unavailable = True
        yield tap
        return
    tap.unavailable = False

    def factory(cls, name):
        f = orig(cls, name)

        def wrapped(*a, **kw):
            # positional protocol of _norm_calc: (lin_idx, dlens, piv, j, n_const_sensors, **kw); a refactoring that passes
            # something else makes the tap unavailable (end-to-end comparison only), never the check fail
            try:
                before = np.array(a[1], dtype=float).copy()
                pv = np.array(a[2]).copy()
                jj = int(a[3])
            except Exception:
                tap.unavailable = True
                return f(*a, **kw)
            out = f(*a, **kw)
            tap.steps.append({"j": jj, "piv": pv.tolist(), "before": before.tolist(),
                              "after": np.array(out, dtype=float).tolist()})
            return out

        return wrapped

    mod.normCalcReturnInstance = factory
    try:
        yield tap
    finally:
        mod.normCalcReturnInstance = orig


def offsets_from_ranking(ranking, n, k):
    """Offsets (position in p[j:]) that reproduce `ranking[:k]` by pairwise swaps from arange(n)."""
    p = list(range(n))
    offs = []
    for j in range(k):
        i = p.index(int(ranking[j]), j)
        offs.append(i - j)
        p[j], p[i] = p[i], p[j]
    return offs, p


def offsets_from_piv_history(pivs, final, k):
    """For GQR: `pivs[j]` is p at the start of step j; final is pivots_."""
    offs = []
    seq = list(pivs) + [list(final)]
    for j in range(k):
        cur, nxt = seq[j], seq[j + 1]
        offs.append(cur.index(nxt[j], j) - j)
    return offs


def is_perm(r, n):
    r = [int(x) for x in r]
    return len(r) == n and sorted(r) == list(range(n))
