"""
Builders for bases, SSPOR / SSPOC models and training data (real pysensors objects).
"""
from __future__ import annotations

import numpy as np

BASIS_KINDS = ["identity", "svd", "rp"]


def make_basis(kind, n_modes=None, random_state=0):
    from pysensors.basis import SVD, Identity, RandomProjection
    if kind == "identity":
        return Identity(n_basis_modes=n_modes)
    if kind == "svd":
        return SVD(n_basis_modes=n_modes, random_state=random_state)
    if kind == "rp":
        return RandomProjection(n_basis_modes=n_modes, random_state=random_state)
    raise ValueError(kind)


def admissible_modes(kind, n_examples, n_features):
    """largest admissible n_basis_modes for a training set of that shape"""
    if kind == "identity":
        return n_examples
    if kind == "svd":
        # TruncatedSVD(randomized) needs n_components <= n_features; keep it ≤ both
        return min(n_examples, n_features)
    if kind == "rp":
        return n_examples  # projections of the transposed data: any positive count works
    raise ValueError(kind)


def gen_training(rng, n_examples=None, n_features=None, kind=None, max_ex=8, max_feat=10):
    """small exactly representable training matrix (examples × features)"""
    n_examples = n_examples or rng.randint(1, max_ex)
    n_features = n_features or rng.randint(1, max_feat)
    kind = kind or rng.choice(["int", "eighths", "low_rank", "zero_feature", "dup_feature", "all_zero", "int", "int"])
    ri = rng.randint
    if kind == "int":
        X = [[ri(-5, 5) for _ in range(n_features)] for _ in range(n_examples)]
    elif kind == "eighths":
        X = [[ri(-24, 24) / 8 for _ in range(n_features)] for _ in range(n_examples)]
    elif kind == "low_rank":
        r = ri(1, max(1, min(n_examples, n_features) - 1))
        U = [[ri(-3, 3) for _ in range(r)] for _ in range(n_examples)]
        V = [[ri(-3, 3) for _ in range(n_features)] for _ in range(r)]
        X = [[sum(U[i][l] * V[l][c] for l in range(r)) for c in range(n_features)] for i in range(n_examples)]
    elif kind == "zero_feature":
        X = [[ri(-5, 5) for _ in range(n_features)] for _ in range(n_examples)]
        for c in range(n_features):
            if rng.random() < 0.3:
                for i in range(n_examples):
                    X[i][c] = 0
    elif kind == "dup_feature":
        X = [[ri(-5, 5) for _ in range(n_features)] for _ in range(n_examples)]
        for c in range(1, n_features):
            if rng.random() < 0.3:
                src = ri(0, c - 1)
                for i in range(n_examples):
                    X[i][c] = X[i][src]
    elif kind == "all_zero":
        X = [[0] * n_features for _ in range(n_examples)]
    elif kind == "graded_examples":
        # snapshots of very different amplitude (one loud event among quiet ones): powers of two, still exact
        X = [[ri(-5, 5) for _ in range(n_features)] for _ in range(n_examples)]
        for i in range(n_examples):
            if rng.random() < 0.5:
                e = rng.choice([8, 12, 16, 20, -8, -12])
                X[i] = [v * 2.0 ** e for v in X[i]]
    else:
        raise ValueError(kind)
    return np.array(X, dtype=float).reshape(n_examples, n_features), kind


def gen_classification(rng, n_classes=None, n_features=None, per_class=None):
    """Well separated Gaussian-free classification data with exactly representable entries."""
    n_classes = n_classes or rng.choice([2, 2, 3, 4])
    n_features = n_features or rng.randint(3, 8)
    per_class = per_class or rng.randint(4, 7)
    X, y = [], []
    centers = [[rng.randint(-6, 6) for _ in range(n_features)] for _ in range(n_classes)]
    for c in range(n_classes):
        for _ in range(per_class):
            X.append([centers[c][f] + rng.randint(-8, 8) / 8 for f in range(n_features)])
            y.append(c)
    idx = list(range(len(y)))
    rng.shuffle(idx)
    X = np.array(X, dtype=float)[idx]
    y = np.array(y)[idx]
    return X, y


def laid_out(X, layout):
    """a fresh array with X's values (and dtype) in the given memory layout: 'C', 'F', 'T' (transposed view of a C array),
    'strided' (every other row/column of a larger array)"""
    ne, nf = X.shape
    if layout == "F":
        return np.asfortranarray(X.copy())
    if layout == "T":
        return np.ascontiguousarray(X.T.copy()).T
    if layout == "strided":
        big = np.zeros((2 * ne, 2 * nf), dtype=X.dtype)
        big[::2, ::2] = X
        return big[::2, ::2]
    return X.copy()
