"""
C15 (and C01 / C14 through the same machine), tie by translation: the statement tree of `SSPOR.update_n_basis_modes` is read off the
CURRENT source – conditions and statements as normalised source texts (`ast.unparse`) – into `lean/PsVerif/Model/LifeExpr.lean`'s `LTree`.
Generated (`lean/PsVerif/Generated/Lifecycle.lean`):

    def updModesProg : LTree := …
    theorem life_updModes_is_spec : updModesProg = LTree.updModesSpec := by rfl
    theorem life_updModes_denotes (st a) : updModesProg.eval st a = some (st.updateModes a.v a.x a.oracle)

i.e. the method as written IS the three-branch decision of the Lean machine (`Lemmas/LifeDenote.lean`: the specification tree evaluates to
`Sspor.updateModes` for every state and argument).  An early return, a memo, a reordered assignment, another guard: the tree differs
and the equation no longer holds by `rfl`.  What the texts mean is fixed by hand in `LTree.condSem` / `actSem` (trusted, short); `self.fit` is the machine's
`Sspor.fit`, tied to the real method by the history correspondence of C14 / C15 / C01.
"""
from __future__ import annotations

import ast
import os


class Untranslatable(Exception):
    pass


def lean_str(s):
    return '"' + s.replace("\\", "\\\\").replace('"', '\\"').replace("\n", "\\n") + '"'


def block(stmts):
    if not stmts:
        return ".done"
    s, rest = stmts[0], stmts[1:]
    if isinstance(s, ast.Raise):
        exc = s.exc
        name = exc.func.id if isinstance(exc, ast.Call) and isinstance(exc.func, ast.Name) else (exc.id if isinstance(exc, ast.Name) else None)
        if name is None:
            raise Untranslatable(f"raise at line {s.lineno}")
        return f"(.raise {lean_str(name)})"
    if isinstance(s, ast.Return):
        if s.value is not None and ast.unparse(s.value) != "self":
            raise Untranslatable(f"return of a value at line {s.lineno}")
        return ".done"
    if isinstance(s, ast.If):
        return f"(.branch {lean_str(ast.unparse(s.test))} {block(list(s.body) + rest)} {block(list(s.orelse) + rest)})"
    if isinstance(s, (ast.Assign, ast.AugAssign, ast.AnnAssign, ast.Expr)):
        if isinstance(s, ast.Expr) and isinstance(s.value, ast.Constant):
            return block(rest)
        return f"(.act {lean_str(ast.unparse(s))} {block(rest)})"
    if isinstance(s, ast.Pass):
        return block(rest)
    if isinstance(s, ast.With):
        return f"(.act {lean_str(ast.unparse(s))} {block(rest)})"      # opaque: the whole block as one statement text
    raise Untranslatable(f"statement {type(s).__name__} at line {s.lineno}")


def analyse(repo):
    site = {"site": "updModes", "function": "pysensors/reconstruction/_sspor.py::SSPOR.update_n_basis_modes", "found": False,
            "theorems": ["life_updModes_is_spec", "life_updModes_denotes"]}
    try:
        tree = ast.parse(open(os.path.join(str(repo), "pysensors", "reconstruction", "_sspor.py")).read())
        cls = next((n for n in tree.body if isinstance(n, ast.ClassDef) and n.name == "SSPOR"), None)
        fn = next((n for n in (cls.body if cls else []) if isinstance(n, ast.FunctionDef) and n.name == "update_n_basis_modes"), None)
        if fn is None:
            raise Untranslatable("SSPOR.update_n_basis_modes not found")
        args = [a.arg for a in fn.args.args]
        if args[:3] != ["self", "n_basis_modes", "x"] or fn.decorator_list:
            raise Untranslatable(f"signature {args} / decorators")
        body = fn.body
        if body and isinstance(body[0], ast.Expr) and isinstance(body[0].value, ast.Constant) and isinstance(body[0].value.value, str):
            body = body[1:]
        prog = block(list(body))
        site["lean"] = (f"def updModesProg : LTree :=\n  {prog}\n"
                        "theorem life_updModes_is_spec : updModesProg = LTree.updModesSpec := by rfl\n"
                        "theorem life_updModes_denotes (st : Sspor) (a : UpdArgs) :\n"
                        "    updModesProg.eval st a = some (st.updateModes a.v a.x a.oracle) := by\n"
                        "  rw [life_updModes_is_spec]; exact updModesSpec_denotes st a\n")
        site["found"] = True
    except Untranslatable as e:
        site["why"] = str(e)[:400]
    sites = [site]
    # ---- _validate_n_sensors, and the part of fit in front of the optimizer call
    v = {"site": "validate", "function": "pysensors/reconstruction/_sspor.py::SSPOR._validate_n_sensors", "found": False,
         "theorems": ["life_validate_is_spec", "life_validate_denotes"]}
    sn = {"site": "setN", "function": "pysensors/reconstruction/_sspor.py::SSPOR.set_number_of_sensors (and its alias set_n_sensors)", "found": False,
          "theorems": ["life_setN_is_spec", "life_setN_denotes"]}
    h = {"site": "fitHead", "function": "pysensors/reconstruction/_sspor.py::SSPOR.fit (up to the optimizer call)", "found": False,
         "theorems": ["life_fitHead_is_spec"]}
    try:
        tree = ast.parse(open(os.path.join(str(repo), "pysensors", "reconstruction", "_sspor.py")).read())
        cls = next((n for n in tree.body if isinstance(n, ast.ClassDef) and n.name == "SSPOR"), None)
        fns = {n.name: n for n in (cls.body if cls else []) if isinstance(n, ast.FunctionDef)}

        def body_of(fn):
            b = fn.body
            if b and isinstance(b[0], ast.Expr) and isinstance(b[0].value, ast.Constant) and isinstance(b[0].value.value, str):
                b = b[1:]
            return list(b)
        try:
            fn = fns.get("_validate_n_sensors")
            if fn is None or [a.arg for a in fn.args.args] != ["self"] or fn.decorator_list:
                raise Untranslatable("SSPOR._validate_n_sensors(self) not found")
            v["lean"] = (f"def validateProg : LTree :=\n  {block(body_of(fn))}\n"
                         "theorem life_validate_is_spec : validateProg = LTree.validateSpec := by rfl\n"
                         "theorem life_validate_denotes (st : Sspor) (a : UpdArgs) : validateProg.eval st a = some st.validateN := by\n"
                         "  rw [life_validate_is_spec]; exact validateSpec_denotes st a\n")
            v["found"] = True
        except Untranslatable as e:
            v["why"] = str(e)[:400]
        try:
            fn = fns.get("set_number_of_sensors")
            if fn is None or [a.arg for a in fn.args.args] != ["self", "n_sensors"] or fn.decorator_list:
                raise Untranslatable("SSPOR.set_number_of_sensors(self, n_sensors) not found")
            al = fns.get("set_n_sensors")
            if al is None or [a.arg for a in al.args.args] != ["self", "n_sensors"] or al.decorator_list \
                    or [ast.unparse(x) for x in body_of(al)] != ["self.set_number_of_sensors(n_sensors)"]:
                raise Untranslatable("SSPOR.set_n_sensors is not the plain alias `self.set_number_of_sensors(n_sensors)`")
            sn["lean"] = (f"def setNProg : LTree :=\n  {block(body_of(fn))}\n"
                          "theorem life_setN_is_spec : setNProg = LTree.setNSpec := by rfl\n"
                          "theorem life_setN_denotes (st : Sspor) (a : UpdArgs) : setNProg.eval st a = some (st.setN a.v) := by\n"
                          "  rw [life_setN_is_spec]; exact setNSpec_denotes st a\n")
            sn["found"] = True
        except Untranslatable as e:
            sn["why"] = str(e)[:400]
        try:
            fn = fns.get("fit")
            if fn is None or fn.decorator_list:
                raise Untranslatable("SSPOR.fit not found")
            stmts = body_of(fn)
            cut = next((i for i, s_ in enumerate(stmts) if "self.optimizer.fit(" in ast.unparse(s_)), None)
            if cut is None:
                raise Untranslatable("no statement calling self.optimizer.fit in SSPOR.fit")
            h["lean"] = (f"def fitHeadProg : LTree :=\n  {block(stmts[:cut])}\n"
                         "theorem life_fitHead_is_spec : fitHeadProg = LTree.fitHeadSpec := by rfl\n")
            h["found"] = True
        except Untranslatable as e:
            h["why"] = str(e)[:400]
    except (OSError, SyntaxError) as e:
        v["why"] = h["why"] = sn["why"] = str(e)[:200]
    return sites + [v, sn, h]


def emit(sites, out_path):
    parts = ["/- GENERATED by harness/translate_lifecycle.py from pysensors/reconstruction/_sspor.py – do not edit. -/",
             "import PsVerif.Lemmas.LifeDenote", "namespace PsVerif.Gen", "open PsVerif", ""]
    for s in sites:
        parts.append(f"/-- {s['function']} -/" if s["found"] else f"-- {s['function']}: NOT TRANSLATABLE ({s.get('why')})")
        if s["found"]:
            parts.append(s["lean"])
    parts.append("end PsVerif.Gen\n")
    text = "\n".join(parts)
    out_path = str(out_path)
    if not os.path.exists(out_path) or open(out_path).read() != text:
        open(out_path, "w").write(text)
    return [{"site": s["site"], "function": s["function"], "found": s["found"], "why": s.get("why"), "theorem": s["theorems"][0],
             "theorems": s["theorems"], "lean": s.get("lean", "")[:300]} for s in sites]


if __name__ == "__main__":
    import sys
    for s in analyse(sys.argv[1] if len(sys.argv) > 1 else "/repo"):
        print("==", s["site"], s["found"], s.get("why")); print(s.get("lean", ""))
