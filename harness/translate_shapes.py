"""
C12, second tie (translation): regenerate, from the CURRENT source of `pysensors/utils/_constraints.py`, the expression each
shape's `constraint_function` evaluates for one point, as a term of the small expression language of
`lean/PsVerif/Model/GeomExpr.lean`, together with one theorem per shape stating that the regenerated expression is the
hand-written model (`Model/Geometry.lean`) the property theorems of `Props/C12.lean` are about:

    theorem shape_Circle   : (g_Circle loc).holds env p        ↔ specG (specCircle env) loc p = true
    theorem shape_Cylinder : (g_Cylinder ax loc).holds env p   ↔ specG (specCylinder env ax) loc p = true
    theorem shape_Parabola, shape_Ellipse (same form), shape_Line : g_Line.holds env p ↔ specLineG env p = true
    theorem shape_Polygon_edge : edge_Polygon.holds env p ↔ specEdge env p = true      (+ the loop skeleton, checked on the AST)

What is read: `__init__` (attribute definitions such as `self.half_horizontal_axis = self.width / 2` are inlined, so the
expressions are over the constructor arguments) and `constraint_function` (tuple unpacking of the coordinates, local
definitions, `**2`, + − * /, unary minus, comparisons, and/or/not, `np.cos/np.sin` of `self.angle * np.pi / 180` as the
parameters "cos"/"sin", the `loc` dispatch, Cylinder's axis dispatch inside its point loop, Polygon's edge loop).
Anything else makes the site untranslatable: its theorem is then missing and the site is reported like a failing proof.
"""
from __future__ import annotations

import ast
import os
from fractions import Fraction

CLASSES = ["Circle", "Cylinder", "Line", "Parabola", "Ellipse", "Polygon"]


class Untranslatable(Exception):
    pass


def _dump(n):
    return ast.dump(n, annotate_fields=False)


def lit(v):
    if isinstance(v, bool):
        raise Untranslatable("boolean literal in arithmetic")
    if isinstance(v, int):
        return f"(.lit {v})" if v >= 0 else f"(.lit ({v}))"
    if isinstance(v, float):
        f = Fraction(v)
        return f"(.lit (({f.numerator} : Rat) / {f.denominator}))"
    raise Untranslatable(f"literal {v!r}")


class Fn:
    """symbolic evaluation of one constraint_function"""

    def __init__(self, cls_name, attrs, loc_attr_ok):
        self.cls = cls_name
        self.attrs = attrs            # self.<attr> -> GE string
        self.env = {}                 # local name -> ("ge", str) | ("gb", str) | ("coord", 'x') | ("angle",) | ("polygon",) | ("n",) | ("gbfam", {axis: str})
        self.loc_ok = loc_attr_ok

    # ---- arithmetic
    def ge(self, e):
        if isinstance(e, ast.Constant):
            return lit(e.value)
        if isinstance(e, ast.Name):
            b = self.env.get(e.id)
            if b is None:
                raise Untranslatable(f"unknown name {e.id}")
            if b[0] == "coord":
                return "." + b[1]
            if b[0] == "ge":
                return b[1]
            raise Untranslatable(f"name {e.id} is not arithmetic")
        if isinstance(e, ast.Attribute) and isinstance(e.value, ast.Name) and e.value.id == "self":
            if e.attr in self.attrs:
                return self.attrs[e.attr]
            raise Untranslatable(f"self.{e.attr} is not defined by __init__ as an arithmetic expression of the constructor arguments")
        if isinstance(e, ast.Subscript) and isinstance(e.value, ast.Name) and self.env.get(e.value.id, ("",))[0] == "coord" \
                and isinstance(e.slice, ast.Name) and self.env.get(e.slice.id, ("",))[0] == "loopvar":
            return "." + self.env[e.value.id][1]          # x[i] inside Cylinder's point loop
        if isinstance(e, ast.UnaryOp) and isinstance(e.op, ast.USub):
            return f"(.neg {self.ge(e.operand)})"
        if isinstance(e, ast.UnaryOp) and isinstance(e.op, ast.UAdd):
            return self.ge(e.operand)
        if isinstance(e, ast.BinOp):
            if isinstance(e.op, ast.Pow):
                if isinstance(e.right, ast.Constant) and e.right.value == 2 and not isinstance(e.right.value, bool):
                    return f"(.sq {self.ge(e.left)})"
                raise Untranslatable("power other than **2")
            op = {ast.Add: "add", ast.Sub: "sub", ast.Mult: "mul", ast.Div: "div"}.get(type(e.op))
            if op is None:
                raise Untranslatable(f"operator {type(e.op).__name__}")
            return f"(.{op} {self.ge(e.left)} {self.ge(e.right)})"
        if isinstance(e, ast.Call) and isinstance(e.func, ast.Attribute) and isinstance(e.func.value, ast.Name) \
                and e.func.value.id in ("np", "numpy", "math") and e.func.attr in ("cos", "sin") and len(e.args) == 1 and not e.keywords:
            a = e.args[0]
            if isinstance(a, ast.Name) and self.env.get(a.id, ("",))[0] == "angle":
                return f'(.par "{e.func.attr}")'
            raise Untranslatable("cos/sin of something other than self.angle * np.pi / 180")
        raise Untranslatable(f"arithmetic expression {type(e).__name__}")

    # ---- conditions
    def gb(self, e):
        if isinstance(e, ast.Compare):
            parts = []
            left = e.left
            for op, right in zip(e.ops, e.comparators):
                o = {ast.LtE: "le", ast.Lt: "lt", ast.GtE: "ge", ast.Gt: "gt"}.get(type(op))
                if o is None:
                    raise Untranslatable(f"comparison {type(op).__name__}")
                parts.append(f"(.{o} {self.ge(left)} {self.ge(right)})")
                left = right
            out = parts[0]
            for p in parts[1:]:
                out = f"(.and {out} {p})"
            return out
        if isinstance(e, ast.BoolOp):
            o = "and" if isinstance(e.op, ast.And) else "or"
            vals = [self.gb(v) for v in e.values]
            out = vals[0]
            for v in vals[1:]:
                out = f"(.{o} {out} {v})"
            return out
        if isinstance(e, ast.UnaryOp) and isinstance(e.op, ast.Not):
            return f"(.not {self.gb(e.operand)})"
        if isinstance(e, ast.Call) and isinstance(e.func, ast.Attribute) and e.func.attr == "logical_not" and len(e.args) == 1:
            return f"(.not {self.gb(e.args[0])})"
        if isinstance(e, ast.Name):
            b = self.env.get(e.id)
            if b and b[0] == "gb":
                return b[1]
            raise Untranslatable(f"name {e.id} is not a condition")
        if isinstance(e, ast.Constant) and isinstance(e.value, bool):
            return ".tt" if e.value else ".ff"
        raise Untranslatable(f"condition {type(e).__name__}")

    def gb_family(self, e):
        """a condition that may mention the per-axis family of Cylinder: returns {axis: gb}"""
        if isinstance(e, ast.Name) and self.env.get(e.id, ("",))[0] == "gbfam":
            return dict(self.env[e.id][1])
        if isinstance(e, ast.UnaryOp) and isinstance(e.op, ast.Not):
            return {k: f"(.not {v})" for k, v in self.gb_family(e.operand).items()}
        if isinstance(e, ast.Call) and isinstance(e.func, ast.Attribute) and e.func.attr == "logical_not" and len(e.args) == 1:
            return {k: f"(.not {v})" for k, v in self.gb_family(e.args[0]).items()}
        return {None: self.gb(e)}


def is_loc_test(t):
    """`self.loc.lower() == "in"` / `== "out"` (also without .lower()) -> 'in' | 'out' | None"""
    if isinstance(t, ast.Compare) and len(t.ops) == 1 and isinstance(t.ops[0], ast.Eq) and isinstance(t.comparators[0], ast.Constant):
        l = t.left
        if isinstance(l, ast.Call) and isinstance(l.func, ast.Attribute) and l.func.attr == "lower" and not l.args:
            l = l.func.value
        if isinstance(l, ast.Attribute) and isinstance(l.value, ast.Name) and l.value.id == "self" and l.attr == "loc":
            v = t.comparators[0].value
            if v in ("in", "out"):
                return v
    return None


def is_axis_test(t):
    if isinstance(t, ast.Compare) and len(t.ops) == 1 and isinstance(t.ops[0], ast.Eq) and isinstance(t.comparators[0], ast.Constant):
        l = t.left
        if isinstance(l, ast.Attribute) and isinstance(l.value, ast.Name) and l.value.id == "self" and l.attr == "axis":
            return {"X_axis": "X", "Y_axis": "Y", "Z_axis": "Z"}.get(t.comparators[0].value)
    return None


ANGLE_AST = _dump(ast.parse("self.angle * np.pi / 180", mode="eval").body)


def init_attrs(cls_node):
    """attribute definitions of __init__: self.a = <arithmetic over constructor arguments and earlier attributes>"""
    init = next((n for n in cls_node.body if isinstance(n, ast.FunctionDef) and n.name == "__init__"), None)
    if init is None:
        raise Untranslatable("no __init__")
    params = [a.arg for a in init.args.args[1:]] + [a.arg for a in init.args.kwonlyargs]
    f = Fn(cls_node.name, {}, False)
    for p in params:
        f.env[p] = ("ge", f'(.par "{p}")')
    loc_ok = False
    raw = {}
    for st in ast.walk(init):
        if isinstance(st, ast.Assign) and len(st.targets) == 1:
            t = st.targets[0]
            if isinstance(t, ast.Attribute) and isinstance(t.value, ast.Name) and t.value.id == "self":
                raw.setdefault(t.attr, []).append(st.value)
    # in source order
    for st in init.body:
        for sub in ast.walk(st):
            if isinstance(sub, ast.Assign) and len(sub.targets) == 1:
                t = sub.targets[0]
                if isinstance(t, ast.Attribute) and isinstance(t.value, ast.Name) and t.value.id == "self":
                    if t.attr == "loc":
                        loc_ok = isinstance(sub.value, ast.Name) and sub.value.id == "loc"
                        continue
                    if len(raw.get(t.attr, [])) != 1:
                        continue          # assigned on several paths (Cylinder.axis): not an arithmetic attribute
                    try:
                        f.attrs[t.attr] = f.ge(sub.value)
                    except Untranslatable:
                        pass
    return f.attrs, loc_ok, params


def returns_by_loc(fn, stmts):
    """the trailing `if self.loc… == "in": return A  elif/else: return B` -> {'in': node, 'out': node}"""
    if not stmts or not isinstance(stmts[-1], ast.If):
        raise Untranslatable("no trailing loc dispatch")
    node = stmts[-1]
    out = {}
    while True:
        which = is_loc_test(node.test)
        if which is None or len(node.body) != 1 or not isinstance(node.body[0], ast.Return):
            raise Untranslatable("loc dispatch of an unexpected form")
        out[which] = node.body[0].value
        if not node.orelse:
            break
        if len(node.orelse) == 1 and isinstance(node.orelse[0], ast.If):
            node = node.orelse[0]
            continue
        if len(node.orelse) == 1 and isinstance(node.orelse[0], ast.Return):
            other = "out" if which == "in" else "in"
            if other in out:
                raise Untranslatable("loc dispatch covers a value twice")
            out[other] = node.orelse[0].value
            break
        raise Untranslatable("loc dispatch of an unexpected form")
    if set(out) != {"in", "out"}:
        raise Untranslatable("loc dispatch does not cover 'in' and 'out'")
    return out


def translate_class(cls_node):
    """returns dict(kind, defs: str (Lean), theorem: str (Lean))"""
    name = cls_node.name
    attrs, loc_ok, params = init_attrs(cls_node)
    cf = next((n for n in cls_node.body if isinstance(n, ast.FunctionDef) and n.name == "constraint_function"), None)
    if cf is None:
        raise Untranslatable("no constraint_function")
    if [a.arg for a in cf.args.args] != ["self", "coords"]:
        raise Untranslatable("constraint_function signature")
    fn = Fn(name, attrs, loc_ok)
    body = [s for s in cf.body if not (isinstance(s, ast.Expr) and isinstance(s.value, ast.Constant))]     # docstring
    stmts = list(body)
    poly = {}
    i = 0
    while i < len(stmts):
        s = stmts[i]
        last = i == len(stmts) - 1
        # coordinates
        if isinstance(s, ast.Assign) and len(s.targets) == 1 and isinstance(s.targets[0], ast.Tuple) \
                and _dump(s.value) in (_dump(ast.parse("coords[:]", mode="eval").body), _dump(ast.parse("coords", mode="eval").body)):
            names = [e.id for e in s.targets[0].elts if isinstance(e, ast.Name)]
            if len(names) != len(s.targets[0].elts) or len(names) not in (2, 3):
                raise Untranslatable("coordinate unpacking")
            for nm, c in zip(names, "xyz"):
                fn.env[nm] = ("coord", c)
        elif isinstance(s, ast.If) and isinstance(s.test, ast.Call) and isinstance(s.test.func, ast.Name) and s.test.func.id == "isinstance":
            pass                                            # Cylinder: scalars wrapped into lists, same coordinates
        elif isinstance(s, ast.Assign) and len(s.targets) == 1 and isinstance(s.targets[0], ast.Name):
            tgt = s.targets[0].id
            v = s.value
            if _dump(v) == ANGLE_AST:
                fn.env[tgt] = ("angle",)
            elif isinstance(v, ast.Attribute) and isinstance(v.value, ast.Name) and v.value.id == "self" and v.attr == "xy_coords":
                fn.env[tgt] = ("polygon",)
            elif isinstance(v, ast.Call) and isinstance(v.func, ast.Name) and v.func.id == "len" and len(v.args) == 1 \
                    and isinstance(v.args[0], ast.Name) and fn.env.get(v.args[0].id, ("",))[0] == "polygon":
                fn.env[tgt] = ("n", v.args[0].id)
            elif isinstance(v, ast.Constant) and v.value is False:
                fn.env[tgt] = ("gb", ".ff")
                poly["flag"] = tgt
            elif isinstance(v, ast.Call) and isinstance(v.func, ast.Attribute) and v.func.attr in ("zeros", "shape"):
                fn.env[tgt] = ("buffer",)                    # nPoints / inFlag buffer of Cylinder
            else:
                try:
                    fn.env[tgt] = ("ge", fn.ge(v))
                except Untranslatable:
                    try:
                        fn.env[tgt] = ("gb", fn.gb(v))
                    except Untranslatable:
                        fn.env[tgt] = ("opaque",)         # e.g. nPoints: using it in an expression later is untranslatable
        elif isinstance(s, ast.For):
            if name == "Cylinder":
                fam = cylinder_loop(fn, s)
                fn.env[fam[0]] = ("gbfam", fam[1])
            elif name == "Polygon":
                poly["edge"] = polygon_loop(fn, s, poly)
            else:
                raise Untranslatable("loop")
        elif isinstance(s, ast.Return) and last:
            g = fn.gb(s.value)
            return {"kind": "noloc", "g": g}
        elif isinstance(s, ast.If) and last:
            rets = returns_by_loc(fn, stmts)
            if not loc_ok:
                raise Untranslatable("__init__ does not store the loc argument in self.loc")
            if name == "Cylinder":
                fams = {k: fn.gb_family(v) for k, v in rets.items()}
                return {"kind": "cyl", "g": fams}
            if name == "Polygon":
                flag = poly.get("flag")
                # g = not inFlag / inFlag, where inFlag is the loop's result
                forms = {}
                for k, v in rets.items():
                    if isinstance(v, ast.Name) and v.id == flag:
                        forms[k] = "id"
                    elif isinstance(v, ast.UnaryOp) and isinstance(v.op, ast.Not) and isinstance(v.operand, ast.Name) and v.operand.id == flag:
                        forms[k] = "not"
                    else:
                        raise Untranslatable("Polygon return value")
                if forms != {"in": "not", "out": "id"}:
                    raise Untranslatable(f"Polygon returns {forms}; the model has 'in' ↦ not inFlag, 'out' ↦ inFlag")
                if "edge" not in poly:
                    raise Untranslatable("Polygon edge loop not found")
                return {"kind": "poly", "edge": poly["edge"]}
            return {"kind": "loc", "g": {k: fn.gb(v) for k, v in rets.items()}}
        else:
            raise Untranslatable(f"statement {type(s).__name__} at line {s.lineno}")
        i += 1
    raise Untranslatable("no return")


def cylinder_loop(fn, loop):
    """for i in range(nPoints): if self.axis == "Z_axis": inFlag[i] = (…) elif … else: …  -> (flag name, {axis: gb})"""
    if not (isinstance(loop.target, ast.Name) and isinstance(loop.iter, ast.Call) and isinstance(loop.iter.func, ast.Name)
            and loop.iter.func.id == "range" and len(loop.iter.args) == 1 and not loop.orelse and len(loop.body) == 1
            and isinstance(loop.body[0], ast.If)):
        raise Untranslatable("Cylinder point loop of an unexpected form")
    fn.env[loop.target.id] = ("loopvar",)
    fam = {}
    flag = None
    node = loop.body[0]

    def branch(stmts):
        nonlocal flag
        if len(stmts) != 1 or not isinstance(stmts[0], ast.Assign) or len(stmts[0].targets) != 1:
            raise Untranslatable("Cylinder branch")
        t = stmts[0].targets[0]
        if not (isinstance(t, ast.Subscript) and isinstance(t.value, ast.Name) and isinstance(t.slice, ast.Name) and t.slice.id == loop.target.id):
            raise Untranslatable("Cylinder branch target")
        if flag not in (None, t.value.id):
            raise Untranslatable("Cylinder branches write different buffers")
        flag = t.value.id
        return fn.gb(stmts[0].value)

    while True:
        ax = is_axis_test(node.test)
        if ax is None or ax in fam:
            raise Untranslatable("Cylinder axis dispatch")
        fam[ax] = branch(node.body)
        if len(node.orelse) == 1 and isinstance(node.orelse[0], ast.If):
            node = node.orelse[0]
            continue
        rest = [a for a in "XYZ" if a not in fam]
        if node.orelse:
            if len(rest) != 1:
                raise Untranslatable("Cylinder axis dispatch: else branch with more than one axis left")
            fam[rest[0]] = branch(node.orelse)
        break
    if set(fam) != {"X", "Y", "Z"}:
        raise Untranslatable("Cylinder axis dispatch does not cover the three axes")
    return flag, fam


POLY_SKELETON = None


def polygon_loop(fn, loop, poly):
    """for i in range(n): x1, y1 = polygon[i]; x2, y2 = polygon[(i + 1) % n]; if C1: if C2: inFlag = not inFlag"""
    ok = (isinstance(loop.target, ast.Name) and isinstance(loop.iter, ast.Call) and isinstance(loop.iter.func, ast.Name)
          and loop.iter.func.id == "range" and len(loop.iter.args) == 1 and isinstance(loop.iter.args[0], ast.Name)
          and fn.env.get(loop.iter.args[0].id, ("",))[0] == "n" and not loop.orelse and len(loop.body) == 3)
    if not ok:
        raise Untranslatable("Polygon edge loop of an unexpected form")
    iv, nv = loop.target.id, loop.iter.args[0].id
    pv = fn.env[nv][1]
    a1, a2, cond = loop.body
    want1 = _dump(ast.parse(f"x1, y1 = {pv}[{iv}]").body[0])
    want2 = _dump(ast.parse(f"x2, y2 = {pv}[({iv} + 1) % {nv}]").body[0])
    if _dump(a1) != want1 or _dump(a2) != want2:
        raise Untranslatable("Polygon edge loop: the edge is not polygon[i] → polygon[(i + 1) % n] bound to x1, y1, x2, y2")
    for nm in ("x1", "y1", "x2", "y2"):
        fn.env[nm] = ("ge", f'(.par "{nm}")')
    flag = poly.get("flag")
    flip = _dump(ast.parse(f"{flag} = not {flag}").body[0])
    conds = []
    node = cond
    while True:
        if not isinstance(node, ast.If) or node.orelse or len(node.body) != 1:
            raise Untranslatable("Polygon edge condition of an unexpected form")
        conds.append(fn.gb(node.test))
        if isinstance(node.body[0], ast.If):
            node = node.body[0]
            continue
        if _dump(node.body[0]) != flip:
            raise Untranslatable("Polygon edge loop does not flip the flag")
        break
    out = conds[0]
    for c in conds[1:]:
        out = f"(.and {out} {c})"
    return out


CLOSE = "first | tauto | grind"       # what simp leaves open is propositional (¬(A ∧ B) ↔ ¬A ∨ ¬B) or linear
SIMP = "GB.holds, GE.eval, specG, Shape.constrained, Shape.contains"


def emit_site(name, tr):
    """Lean text for one class"""
    if tr["kind"] == "loc":
        spec = {"Circle": "specCircle env", "Parabola": "specParabola env", "Ellipse": "specEllipse env"}[name]
        return (f"def g_{name} : Loc → GB\n  | .inside => {tr['g']['in']}\n  | .outside => {tr['g']['out']}\n"
                f"theorem shape_{name} (env : ShEnv) (loc : Loc) (p : Pt) :\n"
                f"    (g_{name} loc).holds env p ↔ specG ({spec}) loc p = true := by\n"
                f"  cases loc <;> simp [g_{name}, {SIMP}, {spec.split()[0]}] <;> {CLOSE}\n"
                f"theorem indices_{name} (env : ShEnv) (loc : Loc) (coord : Nat → Pt) (rk : List Nat) :\n"
                f"    constraintIndices (fun p => !((g_{name} loc).eval env p)) coord rk = constraintIndices (({spec}).constrained loc) coord rk :=\n"
                f"  translated_shape_indices _ env _ loc (shape_{name} env loc) coord rk\n")
    if tr["kind"] == "noloc":
        return (f"def g_{name} : GB := {tr['g']}\n"
                f"theorem shape_{name} (env : ShEnv) (p : Pt) : g_{name}.holds env p ↔ specLineG env p = true := by\n"
                f"  simp [g_{name}, GB.holds, GE.eval, specLineG, lineConstrained] <;> {CLOSE}\n"
                f"theorem indices_{name} (env : ShEnv) (coord : Nat → Pt) (rk : List Nat) :\n"
                f"    constraintIndices (fun p => !(g_{name}.eval env p)) coord rk =\n"
                f"      constraintIndices (lineConstrained (env \"x1\") (env \"x2\") (env \"y1\") (env \"y2\")) coord rk :=\n"
                f"  translated_line_indices _ env (shape_{name} env) coord rk\n")
    if tr["kind"] == "cyl":
        lines = [f"def g_{name} : CylAxis → Loc → GB"]
        for ax in "XYZ":
            for loc, ctor in (("in", "inside"), ("out", "outside")):
                fam = tr["g"][loc]
                g = fam.get(ax, fam.get(None))
                if g is None:
                    raise Untranslatable("Cylinder return value")
                lines.append(f"  | .{ax}, .{ctor} => {g}")
        return ("\n".join(lines) + "\n"
                f"theorem shape_{name} (env : ShEnv) (ax : CylAxis) (loc : Loc) (p : Pt) :\n"
                f"    (g_{name} ax loc).holds env p ↔ specG (specCylinder env ax) loc p = true := by\n"
                f"  cases ax <;> cases loc <;> simp [g_{name}, {SIMP}, specCylinder] <;> {CLOSE}\n"
                f"theorem indices_{name} (env : ShEnv) (ax : CylAxis) (loc : Loc) (coord : Nat → Pt) (rk : List Nat) :\n"
                f"    constraintIndices (fun p => !((g_{name} ax loc).eval env p)) coord rk =\n"
                f"      constraintIndices ((specCylinder env ax).constrained loc) coord rk :=\n"
                f"  translated_shape_indices _ env _ loc (shape_{name} env ax loc) coord rk\n")
    if tr["kind"] == "poly":
        return (f"def edge_{name} : GB := {tr['edge']}\n"
                f"/-- loop skeleton recognised on the AST: inFlag = False; for i in range(len(xy_coords)): edge polygon[i] → "
                f"polygon[(i+1) % n] flips inFlag when `edge_{name}` holds; 'in' ↦ not inFlag, 'out' ↦ inFlag (`polygonLoop`) -/\n"
                f"theorem shape_{name}_edge (env : ShEnv) (p : Pt) : edge_{name}.holds env p ↔ specEdge env p = true := by\n"
                f"  simp [edge_{name}, GB.holds, GE.eval, specEdge, edgeCrosses] <;> {CLOSE}\n"
                f"theorem loop_{name} (vs : List (Rat × Rat)) (x y : Rat) :\n"
                f"    polygonLoop (fun x y a b => edge_{name}.eval (edgeEnv a b) {{ x := x, y := y }}) vs x y = polygonIn vs x y :=\n"
                f"  translated_polygon edge_{name} shape_{name}_edge vs x y\n")
    raise Untranslatable(tr["kind"])


def theorem_name(name):
    return f"shape_{name}_edge" if name == "Polygon" else f"shape_{name}"


def analyse(repo):
    path = os.path.join(str(repo), "pysensors", "utils", "_constraints.py")
    tree = ast.parse(open(path).read())
    classes = {n.name: n for n in tree.body if isinstance(n, ast.ClassDef)}
    sites = []
    for name in CLASSES:
        site = {"site": name, "function": f"pysensors/utils/_constraints.py::{name}.constraint_function", "found": False}
        try:
            if name not in classes:
                raise Untranslatable("class not found")
            tr = translate_class(classes[name])
            site["lean"] = emit_site(name, tr)
            site["found"] = True
        except Untranslatable as e:
            site["why"] = str(e)
        sites.append(site)
    return sites


def emit(sites, out_path):
    parts = ["/- GENERATED by harness/translate_shapes.py from pysensors/utils/_constraints.py – do not edit. -/",
             "import PsVerif.Props.C12", "import Mathlib.Tactic.Tauto", "namespace PsVerif.Gen", "open PsVerif", ""]
    for s in sites:
        parts.append(f"/-- {s['function']} -/" if s["found"] else f"-- {s['function']}: NOT TRANSLATABLE ({s.get('why')})")
        if s["found"]:
            parts.append(s["lean"])
    parts.append("end PsVerif.Gen\n")
    text = "\n".join(parts)
    out_path = str(out_path)
    if not os.path.exists(out_path) or open(out_path).read() != text:
        open(out_path, "w").write(text)
    return [{"site": s["site"], "function": s["function"], "found": s["found"], "why": s.get("why"),
             "theorem": theorem_name(s["site"]), "lean": s.get("lean", "")[:300]} for s in sites]


if __name__ == "__main__":
    import sys
    for s in analyse(sys.argv[1] if len(sys.argv) > 1 else "/repo"):
        print("==", s["site"], s["found"], s.get("why"))
        print(s.get("lean", ""))
