"""
C19, clause "a rejected setter or update call leaves the model unchanged", by translation: for every setter in SITES the
function's statements are read off the CURRENT source as an effect tree (`lean/PsVerif/Model/Effects.lean`): state writes
(`self.attr = …`, refits of sub-objects), explicit failure points (`raise`, `check_is_fitted`), branches with the condition
abstracted, calls of other methods of the same object inlined.  Generated (`lean/PsVerif/Generated/Effects.lean`):

    def eff_<id> : ETree := …
    theorem atomic_<id> : eff_<id>.atomic = true := by decide
    theorem rejected_<id>_writes_nothing (ws) (h : eff_<id>.Runs ws true) : ws = [] := ETree.atomic_sound atomic_<id> h

i.e. along every execution of the statements as written, an explicit rejection comes before the first write.  Moving an
assignment in front of a validation, or validating through a helper that reads the already-assigned attribute, makes
`decide` fail.  Exceptions raised implicitly by expressions (numpy, comparisons of unlike types) are not modelled (C19's table).
INFO sites are translated and their verdict recorded in the evidence, but are no obligation: `fit` / `update_n_basis_modes`
are known not to be atomic (finding F11).
"""
from __future__ import annotations

import ast
import os

SITES = [
    dict(id="ssporSetN", file="pysensors/reconstruction/_sspor.py", cls="SSPOR", func="set_number_of_sensors"),
    dict(id="ssporSetNAlias", file="pysensors/reconstruction/_sspor.py", cls="SSPOR", func="set_n_sensors"),
    dict(id="sspocUpdateSensors", file="pysensors/classification/_sspoc.py", cls="SSPOC", func="update_sensors"),
]
INFO = [
    dict(id="ssporFit", file="pysensors/reconstruction/_sspor.py", cls="SSPOR", func="fit"),
    dict(id="ssporUpdateModes", file="pysensors/reconstruction/_sspor.py", cls="SSPOR", func="update_n_basis_modes"),
    dict(id="sspocUpdateModes", file="pysensors/classification/_sspoc.py", cls="SSPOC", func="update_n_basis_modes"),
    dict(id="sspocFit", file="pysensors/classification/_sspoc.py", cls="SSPOC", func="fit"),
    # the same setter with calls of sub-objects' fit methods counted as failure points (scikit-learn refusing the refit data):
    # NOT atomic – the count and the selection are stored before `classifier.fit` (finding F16)
    dict(id="sspocUpdateSensorsExternal", file="pysensors/classification/_sspoc.py", cls="SSPOC", func="update_sensors", external=True),
]
REFIT_METHODS = ("fit", "partial_fit", "fit_transform", "set_params")


class Untranslatable(Exception):
    pass


class Cls:
    def __init__(self, repo, file, cls):
        tree = ast.parse(open(os.path.join(str(repo), file)).read())
        self.node = next((n for n in tree.body if isinstance(n, ast.ClassDef) and n.name == cls), None)
        self.methods = {}
        if self.node is not None:
            for n in self.node.body:
                if isinstance(n, ast.FunctionDef):
                    self.methods[n.name] = n          # (property setters with the same name: the last definition wins, as in Python)

    def body(self, name):
        fn = self.methods.get(name)
        if fn is None:
            return None
        b = fn.body
        if b and isinstance(b[0], ast.Expr) and isinstance(b[0].value, ast.Constant) and isinstance(b[0].value.value, str):
            b = b[1:]
        return b


def seq(a, b):
    if a == ".pass":
        return b
    if b == ".pass":
        return a
    return f"(.seq {a} {b})"


class Tr:
    def __init__(self, cls: Cls, external=False):
        self.cls = cls
        self.stack = []
        self.external = external      # sub-object refits may raise (before they write)

    # effects of the calls inside an expression, in evaluation order (approximated by source order)
    def calls(self, node):
        out = ".pass"
        if node is None:
            return out
        for sub in sorted((n for n in ast.walk(node) if isinstance(n, ast.Call)), key=lambda n: (n.lineno, n.col_offset)):
            f = sub.func
            if isinstance(f, ast.Name) and f.id == "check_is_fitted":
                out = seq(out, ".fail")
            elif isinstance(f, ast.Attribute) and isinstance(f.value, ast.Name) and f.value.id == "self":
                out = seq(out, self.method(f.attr))
            elif isinstance(f, ast.Attribute) and isinstance(f.value, ast.Attribute) and isinstance(f.value.value, ast.Name) \
                    and f.value.value.id == "self" and f.attr in REFIT_METHODS:
                w = f'(.write "{f.value.attr}.{f.attr}()")'
                out = seq(out, f"(.branch .fail {w})" if self.external else w)
        return out

    def method(self, name):
        if name in self.stack:
            raise Untranslatable(f"recursive call of self.{name}")
        body = self.cls.body(name)
        if body is None:
            # inherited (scikit-learn's BaseEstimator …): get_params / set_params and friends
            return f'(.write "{name}()")' if name.startswith("set_") else ".pass"
        self.stack.append(name)
        try:
            return self.block(body)
        finally:
            self.stack.pop()

    @staticmethod
    def self_targets(t):
        if isinstance(t, ast.Attribute) and isinstance(t.value, ast.Name) and t.value.id == "self":
            return [t.attr]
        if isinstance(t, (ast.Tuple, ast.List)):
            return [a for x in t.elts for a in Tr.self_targets(x)]
        if isinstance(t, ast.Starred):
            return Tr.self_targets(t.value)
        if isinstance(t, ast.Subscript):
            # self.attr[...] = …  writes into the attribute's object
            b = t.value
            while isinstance(b, ast.Subscript):
                b = b.value
            if isinstance(b, ast.Attribute) and isinstance(b.value, ast.Name) and b.value.id == "self":
                return [b.attr + "[…]"]
        return []

    @staticmethod
    def contains(stmts, kinds):
        return any(isinstance(sub, kinds) for s in stmts for sub in ast.walk(s))

    def block(self, stmts):
        if not stmts:
            return ".pass"
        s, rest = stmts[0], stmts[1:]
        if isinstance(s, ast.Raise):
            return seq(self.calls(s.exc), ".fail")
        if isinstance(s, ast.Return):
            return self.calls(s.value)
        if isinstance(s, ast.Expr):
            return seq(self.calls(s.value), self.block(rest))
        if isinstance(s, (ast.Assign, ast.AugAssign, ast.AnnAssign)):
            targets = s.targets if isinstance(s, ast.Assign) else [s.target]
            eff = self.calls(s.value)
            for t in targets:
                for a in self.self_targets(t):
                    eff = seq(eff, f'(.write "{a}")')
            return seq(eff, self.block(rest))
        if isinstance(s, ast.If):
            c = self.calls(s.test)
            if self.contains(s.body + s.orelse, (ast.Return,)):
                return seq(c, f"(.branch {self.block(s.body + rest)} {self.block(s.orelse + rest)})")
            return seq(c, seq(f"(.branch {self.block(s.body)} {self.block(s.orelse)})", self.block(rest)))
        if isinstance(s, ast.With):
            eff = ".pass"
            for it in s.items:
                eff = seq(eff, self.calls(it.context_expr))
            return seq(eff, self.block(list(s.body) + rest))
        if isinstance(s, (ast.For, ast.While)):
            body = self.block(list(s.body))
            head = self.calls(s.iter if isinstance(s, ast.For) else s.test)
            # one abstract iteration is enough only if an iteration cannot both write and fail
            if "(.write" in body and ".fail" in body:
                raise Untranslatable(f"loop at line {s.lineno} both writes and fails")
            return seq(head, seq(f"(.branch {body} .pass)", seq(self.block(list(s.orelse)), self.block(rest))))
        if isinstance(s, ast.Try):
            if self.contains(s.body, (ast.Raise,)) or any(self.contains(h.body, (ast.Raise,)) for h in s.handlers):
                raise Untranslatable(f"try at line {s.lineno} with raise inside")
            eff = self.block(list(s.body))
            for h in s.handlers:
                eff = seq(eff, f"(.branch {self.block(list(h.body))} .pass)")
            return seq(eff, seq(self.block(list(s.orelse) + list(s.finalbody)), self.block(rest)))
        if isinstance(s, (ast.Pass, ast.Import, ast.ImportFrom, ast.Global, ast.Nonlocal, ast.Assert, ast.Delete, ast.FunctionDef)):
            return self.block(rest)
        raise Untranslatable(f"statement {type(s).__name__} at line {s.lineno}")


def static_atomic(t):
    """the same verdict computed in Python (for the evidence of INFO sites; obligations are decided by the kernel)"""
    import re
    toks = re.sub(r'\(\.write "[^"]*"\)', " .write ", t).replace("(", " ( ").replace(")", " ) ").split()
    pos = [0]

    def parse():
        tok = toks[pos[0]]
        if tok == "(":
            pos[0] += 1
            head = toks[pos[0]]; pos[0] += 1
            a = parse(); b = parse()
            assert toks[pos[0]] == ")"; pos[0] += 1
            return (head[1:], a, b)
        pos[0] += 1
        return (tok[1:],)

    def mf(n):
        return n[0] == "fail" or (len(n) == 3 and (mf(n[1]) or mf(n[2])))

    def mw(n):
        return n[0] == "write" or (len(n) == 3 and (mw(n[1]) or mw(n[2])))

    def at(n):
        if len(n) < 3:
            return True
        if n[0] == "branch":
            return at(n[1]) and at(n[2])
        return at(n[1]) and at(n[2]) and not (mw(n[1]) and mf(n[2]))

    try:
        return at(parse())
    except Exception:
        return None


def analyse(repo):
    out = []
    for cfg in SITES + INFO:
        site = dict(cfg, obligation=cfg in SITES, found=False)
        try:
            cls = Cls(repo, cfg["file"], cfg["cls"])
            if cls.node is None or cfg["func"] not in cls.methods:
                raise Untranslatable("entry point not found")
            tr = Tr(cls, external=bool(cfg.get("external")))
            tr.stack.append(cfg["func"])
            site["tree"] = tr.block(cls.body(cfg["func"]))
            site["found"] = True
            site["atomic_py"] = static_atomic(site["tree"])
        except Untranslatable as e:
            site["why"] = str(e)
        out.append(site)
    return out


def emit(sites, out_path):
    lines = ["/- GENERATED by harness/translate_effects.py from the current pysensors source – do not edit. -/",
             "import PsVerif.Model.Effects", "namespace PsVerif.Gen", "open PsVerif", ""]
    for s in sites:
        where = f"{s['file']}::{s['cls']}.{s['func']}"
        if not s["found"]:
            lines.append(f"-- {where}: NOT TRANSLATABLE ({s.get('why')})")
            continue
        lines.append(f"/-- {where} -/")
        lines.append(f"def eff_{s['id']} : ETree :=\n  {s['tree']}")
        if s["obligation"]:
            lines.append(f"theorem atomic_{s['id']} : eff_{s['id']}.atomic = true := by decide")
            lines.append(f"theorem rejected_{s['id']}_writes_nothing (ws : List String) (h : eff_{s['id']}.Runs ws true) : ws = [] :=\n"
                         f"  ETree.atomic_sound atomic_{s['id']} h")
        lines.append("")
    lines.append("end PsVerif.Gen\n")
    text = "\n".join(lines)
    out_path = str(out_path)
    if not os.path.exists(out_path) or open(out_path).read() != text:
        open(out_path, "w").write(text)
    return sites


if __name__ == "__main__":
    import sys
    for s in analyse(sys.argv[1] if len(sys.argv) > 1 else "/repo"):
        print("==", s["id"], "obligation" if s["obligation"] else "info", s["found"], s.get("why"), "atomic:", s.get("atomic_py"))
        print("  ", s.get("tree"))
