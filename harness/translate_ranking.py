"""
C01 / C14 / C16, second tie (translation): what `SSPOR.fit` does to the ranking after the optimizer returned it, and how
`predict` / `get_selected_sensors` / `selected_sensors` read it, regenerated from the CURRENT source into the little language
of `lean/PsVerif/Model/RankPipe.lean` (Python's slice arithmetic explicit: negative and out-of-range indices, `-0`), with
theorems that the statements as written are the model's `tailShuffle σ m` and `selectLead n_sensors`
(`lean/PsVerif/Generated/Ranking.lean`):

    theorem pipe_ssporFit : ∀ σ env r, env.n = r.length → RStmt.runAll σ env pipe_ssporFit_def r = some (tailShuffle σ env.m r)
    theorem selection_<method>_<k> : ∀ env r, sliceTo <stop> env r = selectLead env.ns r

Read off the AST: the statements of `fit` after `self.ranked_sensors_ = self.optimizer.fit(…).get_sensors()`; `rng` must be
`np.random.default_rng(seed)` with `seed` the unmodified parameter; integer locals over `self.basis_matrix_.shape[1]` (m),
`len(self.ranked_sensors_)` / `self.basis_matrix_.shape[0]` (n), `self.n_sensors`, literals, min / max / + / − / unary −;
`ranked[a:] = rng.permutation(ranked[b:])`, `rng.shuffle(ranked[a:])`, `ranked = np.concatenate((ranked[:a], rng.permutation(ranked[b:])))`,
`if <integer>:`.  Anything else that mentions the ranking: untranslatable (reported like a failing proof).
"""
from __future__ import annotations

import ast
import os


class Untranslatable(Exception):
    pass


RANK = "self.ranked_sensors_"


class Idx:
    def __init__(self):
        self.env = {}

    def tr(self, e):
        t = ast.unparse(e)
        if t == "self.basis_matrix_.shape[1]":
            return ".m"
        if t in ("len(self.ranked_sensors_)", "self.basis_matrix_.shape[0]", "self.ranked_sensors_.shape[0]", "self.ranked_sensors_.size"):
            return ".n"
        if t == "self.n_sensors":
            return ".ns"
        if isinstance(e, ast.Constant) and isinstance(e.value, int) and not isinstance(e.value, bool):
            return f"(.lit {e.value})" if e.value >= 0 else f"(.lit ({e.value}))"
        if isinstance(e, ast.Name):
            if e.id in self.env:
                return self.env[e.id]
            raise Untranslatable(f"integer name {e.id} is not defined from m, n, n_sensors")
        if isinstance(e, ast.UnaryOp) and isinstance(e.op, ast.USub):
            return f"(.neg {self.tr(e.operand)})"
        if isinstance(e, ast.BinOp) and isinstance(e.op, (ast.Add, ast.Sub)):
            return f"(.{'add' if isinstance(e.op, ast.Add) else 'sub'} {self.tr(e.left)} {self.tr(e.right)})"
        if isinstance(e, ast.Call) and isinstance(e.func, ast.Name) and e.func.id in ("min", "max") and len(e.args) == 2 and not e.keywords:
            return f"(.{e.func.id} {self.tr(e.args[0])} {self.tr(e.args[1])})"
        raise Untranslatable(f"index expression {t}")


def slice_from(e, idx):
    """`self.ranked_sensors_[a:]` -> IdxE of a"""
    if isinstance(e, ast.Subscript) and ast.unparse(e.value) == RANK and isinstance(e.slice, ast.Slice) and e.slice.upper is None \
            and e.slice.step is None and e.slice.lower is not None:
        return idx.tr(e.slice.lower)
    raise Untranslatable(f"expected {RANK}[a:], got {ast.unparse(e)}")


def slice_to(e, idx):
    if isinstance(e, ast.Subscript) and ast.unparse(e.value) == RANK and isinstance(e.slice, ast.Slice) and e.slice.lower is None \
            and e.slice.step is None and e.slice.upper is not None:
        return idx.tr(e.slice.upper)
    raise Untranslatable(f"expected {RANK}[:a], got {ast.unparse(e)}")


def perm_arg(e, rng_names):
    if isinstance(e, ast.Call) and isinstance(e.func, ast.Attribute) and e.func.attr == "permutation" and isinstance(e.func.value, ast.Name) \
            and e.func.value.id in rng_names and len(e.args) == 1 and not e.keywords:
        return e.args[0]
    raise Untranslatable(f"expected rng.permutation(…), got {ast.unparse(e)}")


def mentions_rank(node):
    return any(ast.unparse(n) == RANK for n in ast.walk(node) if isinstance(n, ast.Attribute))


def pipe_stmts(stmts, idx, rng_names):
    out = []
    for s in stmts:
        if isinstance(s, ast.Return):
            if ast.unparse(s) != "return self":
                raise Untranslatable("fit does not end with `return self`")
            break
        if isinstance(s, ast.Expr) and isinstance(s.value, ast.Constant):
            continue
        if isinstance(s, ast.Assign) and len(s.targets) == 1 and isinstance(s.targets[0], ast.Name):
            name = s.targets[0].id
            if ast.unparse(s.value) in ("np.random.default_rng(seed)", "np.random.default_rng(seed=seed)", "numpy.random.default_rng(seed)"):
                rng_names.add(name)
                continue
            if not mentions_rank(s.value) or ast.unparse(s.value).startswith("len("):
                try:
                    idx.env[name] = idx.tr(s.value)
                    continue
                except Untranslatable:
                    if mentions_rank(s.value):
                        raise
                    idx.env.pop(name, None)
                    continue                      # a local that has nothing to do with the ranking
            raise Untranslatable(f"the ranking is copied into a local: {ast.unparse(s)}")
        if isinstance(s, ast.Assign) and len(s.targets) == 1 and mentions_rank(s.targets[0]):
            t = s.targets[0]
            if ast.unparse(t) == RANK:
                v = s.value
                if isinstance(v, ast.Call) and ast.unparse(v.func) in ("np.concatenate", "numpy.concatenate", "np.hstack") and len(v.args) == 1 \
                        and isinstance(v.args[0], (ast.Tuple, ast.List)) and len(v.args[0].elts) == 2 and not v.keywords:
                    a, b = v.args[0].elts
                    out.append(f"(.rebuild {slice_to(a, idx)} {slice_from(perm_arg(b, rng_names), idx)})")
                    continue
                raise Untranslatable(f"assignment to the ranking: {ast.unparse(s)}")
            out.append(f"(.shuffle {slice_from(t, idx)} {slice_from(perm_arg(s.value, rng_names), idx)})")
            continue
        if isinstance(s, ast.Expr) and isinstance(s.value, ast.Call) and isinstance(s.value.func, ast.Attribute) and s.value.func.attr == "shuffle" \
                and isinstance(s.value.func.value, ast.Name) and s.value.func.value.id in rng_names and len(s.value.args) == 1:
            a = slice_from(s.value.args[0], idx)
            out.append(f"(.shuffle {a} {a})")
            continue
        if isinstance(s, ast.If) and not s.orelse and mentions_rank(s):
            c = idx.tr(s.test)
            out.append(f"(.ifNZ {c} [{', '.join(pipe_stmts(s.body, idx, rng_names))}])")
            continue
        if mentions_rank(s):
            raise Untranslatable(f"statement touching the ranking: {ast.unparse(s)[:80]}")
    return out


OPT_CALL = "self.ranked_sensors_ = self.optimizer.fit(self.basis_matrix_, **optimizer_kws).get_sensors()"
READERS = ["predict", "get_selected_sensors", "selected_sensors"]


def analyse(repo):
    tree = ast.parse(open(os.path.join(str(repo), "pysensors", "reconstruction", "_sspor.py")).read())
    cls = next((n for n in tree.body if isinstance(n, ast.ClassDef) and n.name == "SSPOR"), None)
    sites = []
    fit_site = {"site": "ssporFit", "function": "pysensors/reconstruction/_sspor.py::SSPOR.fit (after the optimizer call)", "found": False,
                "theorems": ["pipe_ssporFit"]}
    try:
        if cls is None:
            raise Untranslatable("class SSPOR not found")
        fit = next((n for n in cls.body if isinstance(n, ast.FunctionDef) and n.name == "fit"), None)
        if fit is None:
            raise Untranslatable("SSPOR.fit not found")
        if "seed" not in [a.arg for a in fit.args.args + fit.args.kwonlyargs]:
            raise Untranslatable("fit has no seed parameter")
        for n in ast.walk(fit):
            if isinstance(n, (ast.Assign, ast.AugAssign, ast.AnnAssign)):
                for t in (n.targets if isinstance(n, ast.Assign) else [n.target]):
                    if isinstance(t, ast.Name) and t.id == "seed":
                        raise Untranslatable("fit re-assigns `seed` before creating the generator")
        body = fit.body
        k = next((i for i, s in enumerate(body) if ast.unparse(s) == OPT_CALL), None)
        if k is None:
            raise Untranslatable("the statement `" + OPT_CALL + "` was not found at the top level of fit")
        for s in body[:k]:
            if mentions_rank(s) and not (isinstance(s, ast.Expr) and isinstance(s.value, ast.Constant)):
                raise Untranslatable("the ranking is used before the optimizer call")
        idx = Idx()
        stmts = pipe_stmts(body[k + 1:], idx, set())
        fit_site["lean"] = ("def pipe_ssporFit_def : List RStmt := [" + ", ".join(stmts) + "]\n"
                            "theorem pipe_ssporFit (σ : List Nat → List Nat) (env : IdxEnv) (r : List Nat) (hn : env.n = r.length) :\n"
                            "    RStmt.runAll σ env pipe_ssporFit_def r = some (tailShuffle σ env.m r) := by\n"
                            "  simp [pipe_ssporFit_def, RStmt.runAll, RStmt.run, IdxE.eval, pyPos_nat, tailShuffle_min, hn]\n")
        fit_site["found"] = True
    except Untranslatable as e:
        fit_site["why"] = str(e)
    sites.append(fit_site)
    for name in READERS:
        site = {"site": "read_" + name, "function": f"pysensors/reconstruction/_sspor.py::SSPOR.{name}", "found": False, "theorems": []}
        try:
            fns = [n for n in (cls.body if cls else []) if isinstance(n, ast.FunctionDef) and n.name == name]
            if not fns:
                raise Untranslatable("method not found")
            lean = []
            k = 0
            for fn in fns:
                for n in ast.walk(fn):
                    if isinstance(n, ast.Subscript) and ast.unparse(n.value) == RANK:
                        stop = slice_to(n, Idx())
                        lean.append(f"theorem selection_{name}_{k} (env : IdxEnv) (r : List Nat) : sliceTo {stop} env r = selectLead env.ns r := by\n"
                                    f"  simp [sliceTo, IdxE.eval, pyPos_nat, selectLead_min]\n")
                        site["theorems"].append(f"selection_{name}_{k}")
                        k += 1
                    elif isinstance(n, (ast.Assign, ast.AugAssign)) and any(mentions_rank(t) for t in (n.targets if isinstance(n, ast.Assign) else [n.target])):
                        raise Untranslatable("writes the ranking")
            site["lean"] = "".join(lean)
            site["found"] = True
        except Untranslatable as e:
            site["why"] = str(e)
        sites.append(site)
    return sites


def emit(sites, out_path):
    parts = ["/- GENERATED by harness/translate_ranking.py from pysensors/reconstruction/_sspor.py – do not edit. -/",
             "import PsVerif.Model.RankPipe", "namespace PsVerif.Gen", "open PsVerif", ""]
    for s in sites:
        parts.append(f"/-- {s['function']} -/" if s["found"] and s.get("lean") else
                     (f"-- {s['function']}: reads the whole ranking only" if s["found"] else f"-- {s['function']}: NOT TRANSLATABLE ({s.get('why')})"))
        if s["found"]:
            parts.append(s["lean"])
    parts.append("end PsVerif.Gen\n")
    text = "\n".join(parts)
    out_path = str(out_path)
    if not os.path.exists(out_path) or open(out_path).read() != text:
        open(out_path, "w").write(text)
    return [{"site": s["site"], "function": s["function"], "found": s["found"], "why": s.get("why"), "theorem": (s["theorems"] or [s["site"]])[0],
             "theorems": s["theorems"], "lean": s.get("lean", "")[:300]} for s in sites]


if __name__ == "__main__":
    import sys
    for s in analyse(sys.argv[1] if len(sys.argv) > 1 else "/repo"):
        print("==", s["site"], s["found"], s.get("why")); print(s.get("lean", ""))
