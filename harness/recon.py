"""
Shared by C02, C07, C17: fitted SSPOR models on small exactly representable data, exact reconstruction through
the Lean model (`predict` driver command), conditioning budgets.
"""
from __future__ import annotations

from fractions import Fraction

import numpy as np

from . import common as C
from . import models, oracles
from . import sspor_hist as H

KAPPA_MAX = 1e6
KAPPA_HARD = 1e11          # beyond this nothing numerical is judged
BUD = 1e-12                # ≈ 4500 eps: budget per unit of (scale · κ)


def gen_model(ctx, rng, bases=None, opts=None, want_tall=True, max_modes=None, force_graded=False, force_dtype=None, force_localized=False, force_cluster=False):
    """A fitted SSPOR with its configuration. Returns dict or None (fit rejected)."""
    from pysensors.reconstruction import SSPOR
    basis = rng.choice(bases or models.BASIS_KINDS)
    ne = rng.randint(1, ctx.scale(5, 7))
    nf = rng.randint(ne if want_tall else 1, ctx.scale(9, 12))
    X = np.array([[rng.randint(-6, 6) for _ in range(nf)] for _ in range(ne)], dtype=float)
    # dtypes: training data are often integer arrays (counts, raw images); the Identity basis keeps that dtype
    if (force_localized or rng.random() < 0.15) and nf >= 4:
        # localised modes: every training example lives on a few sensors only (most sensor rows of the basis are then zero or
        # dependent, so WHICH rows lead the ranking matters a great deal)
        X = np.zeros((ne, nf))
        for i in range(ne):
            for c in rng.sample(range(nf), rng.randint(1, min(3, nf))):
                X[i, c] = rng.choice([-3, -2, -1, 1, 2, 3])
    dt = force_dtype or rng.choice(["float64"] * 6 + ["int64", "int32", "uint8"])
    graded = False
    if dt == "uint8":
        X = np.abs(X)
    if force_graded:
        ne = max(ne, 3)
        nf = max(nf, ne + 1)
        X = np.array([[rng.randint(-6, 6) for _ in range(nf)] for _ in range(ne)], dtype=float)
    if force_graded or (force_dtype is None and basis != "svd" and ne >= 2 and rng.random() < 0.3):
        dt = "float64"
    if dt != "float64":
        X = X.astype(dt)
    elif ne >= 2 and (force_graded or rng.random() < (0.15 if basis == "svd" else 0.75)):
        # training examples of very different amplitude (still exact: powers of two): ill-conditioned but full-rank sensor
        # matrices – a least-squares solver must not silently drop the weak directions
        for i in range(ne):
            X[i] *= 2.0 ** (-rng.choice([0, 0, 12, 17, 20, 22, 27, 29, 31]) if i else 0)
        graded = True
    if dt == "float64" and not graded and ne >= 2 and basis != "svd" and rng.random() < 0.15:
        # nearly parallel training examples (a slowly varying field recorded twice): the modes are full rank but ill-conditioned in
        # a way no rescaling of single modes removes – this is where "error ∝ κ" and "error ∝ κ²" part
        e_ = rng.choice([12, 16, 20, 24])
        for i in range(1, ne):
            if rng.random() < 0.6:
                X[i] = X[0] + np.array([rng.randint(-6, 6) for _ in range(nf)], dtype=float) * 2.0 ** -e_
        graded = True
    cluster = None
    if force_cluster:
        dt = "float64"
    if (force_cluster and not graded) or (dt == "float64" and not graded and bases is None and opts is None and rng.random() < 0.12):
        # a placement confined to a region where the modes look alike: a cheap cluster of almost co-located sensors (rows differing by
        # 2^-e) in an otherwise generic, well-conditioned basis, every other location expensive.  The selected rows are then
        # ill-conditioned (κ ≈ 2^e) although the basis is not – the regime in which an error ∝ κ² is visible at the other locations
        ne = rng.randint(2, 4)
        nf = max(nf, ne + 5)
        e_ = rng.choice([14, 18, 22, 22])
        X = np.array([[rng.randint(-6, 6) for _ in range(nf)] for _ in range(ne)], dtype=float)
        cluster = rng.sample(range(nf), ne + rng.randint(1, 3))
        v0 = np.array([rng.randint(-6, 6) or 1 for _ in range(ne)], dtype=float)
        for c in cluster:
            X[:, c] = v0 + np.array([rng.randint(-6, 6) for _ in range(ne)], dtype=float) * 2.0 ** -e_
        basis = "identity"
        graded = True
    faint = []
    if cluster is None and dt == "float64" and nf >= 4 and rng.random() < 0.15:
        # almost inactive locations: one or two sensors whose signal is 2^-34 of the others' (still exact).  They rank last, but with
        # more sensors than modes they are among the selected ones – the fit is the plain (unweighted) least-squares fit all the same
        faint = rng.sample(range(nf), rng.randint(1, 2))
        for c in faint:
            X[:, c] *= 2.0 ** -34
    if basis == "identity":
        nm = None if rng.random() < 0.4 else rng.randint(1, ne)
    elif basis == "svd":
        nm = rng.randint(1, min(ne, nf))
    else:
        nm = rng.randint(1, ne)
    if max_modes and nm and nm > max_modes:
        nm = max_modes
    opt_kind = rng.choice(opts or ["qr", "qr", "ccqr", "gqr"])
    if cluster is not None:
        opt_kind, nm = "ccqr", None
    opt = H.make_optimizer(opt_kind)
    desc = {"basis": basis, "n_modes": nm, "opt": opt_kind, "X": X.tolist(), "seed": rng.randint(0, 20), "dtype": dt, "graded_examples": graded, "faint_sensors": faint}
    if cluster is not None:
        costs = np.full(nf, 4096.0)
        costs[cluster] = 0.0
        opt = type(opt)(sensor_costs=costs)
        desc["costs"] = costs.tolist()
        desc["clustered_placement"] = sorted(cluster)
    elif opt_kind == "ccqr" and rng.random() < 0.6:
        costs = np.array([rng.randint(0, 12) / 2 for _ in range(nf)])
        opt = type(opt)(sensor_costs=costs)
        desc["costs"] = costs.tolist()
    # an explicit sensor count smaller than the number of modes at construction (raised later through the setters by the checks)
    ctor_ns = None
    if force_localized or rng.random() < 0.3:
        ctor_ns = rng.randint(1, max(1, (nm or ne) - 1))
    desc["ctor_n_sensors"] = ctor_ns
    model = SSPOR(basis=models.make_basis(basis, nm), optimizer=opt, n_sensors=ctor_ns)
    # Histories: the properties hold for a model at every point of its life, so most models are USED before the
    # fit that is judged (fitted on other data, asked for predictions / errors with several sensor counts, re-ranked
    # with fewer modes).  Anything cached by those calls must not leak into the judged state.
    desc["history"] = []
    if rng.random() < 0.65:
        X0 = np.array([[rng.randint(0, 6) for _ in range(nf)] for _ in range(ne)], dtype=float).astype(dt)
        desc["X0"] = X0.tolist()
        try:
            model.fit(X0.copy(), quiet=True, seed=rng.randint(0, 20))
            desc["history"].append("fit(X0)")
            m0 = model.basis_matrix_.shape[1]
            for ns in sorted({min(nf, max(1, m0)), min(nf, m0 + 1), rng.randint(1, nf)}):
                model.set_number_of_sensors(ns)
                sel = model.get_selected_sensors()
                try:
                    model.predict(X0[:, sel])
                    model.score(X0)
                    desc["history"].append(f"predict@{ns}")
                except Exception:
                    pass
            try:
                model.reconstruction_error(X0)
                desc["history"].append("reconstruction_error")
            except Exception:
                pass
        except (ValueError, TypeError):
            pass
        model = _reset_n_sensors(model)
        if ctor_ns is not None:
            model.n_sensors = ctor_ns
    # the caller's training array: any memory layout, and the caller goes on using (overwriting) it after the fit –
    # a fitted model is a function of the data at fit time
    layout = rng.choice(["C", "C", "F", "T", "strided"])
    desc["layout"] = layout
    Xin = models.laid_out(X, layout)
    try:
        model.fit(Xin, quiet=True, seed=desc["seed"])
    except (ValueError, TypeError):
        return None          # e.g. CCQR / GQR refuse integer basis matrices (in-place float update of an int array)
    desc["history"].append("fit(X)")
    # optionally: predictions with the sensor counts that will be judged, then a re-ranking with fewer modes that does
    # not refit the basis (update_n_basis_modes / prefit path)
    m = model.basis_matrix_.shape[1]
    if m >= 2 and rng.random() < 0.4:
        try:
            for ns in sorted({min(nf, m), min(nf, m + 1), min(nf, max(1, m - 1)), nf}):
                model.set_number_of_sensors(ns)
                model.predict(X[:, model.get_selected_sensors()])
            k = rng.randint(1, m - 1)
            model.update_n_basis_modes(k)
            desc["history"].append(f"predicts; update_n_basis_modes({k})")
            desc["update_modes"] = k
        except Exception:
            pass
        model = _reset_n_sensors(model, keep=True)
    if rng.random() < 0.35:
        desc["keyword_life"] = rng.randint(0, 8)
        keyword_life(model, X, desc["keyword_life"])
        desc["history"].append("calls with solver keywords")
    B = np.array(model.basis_matrix_, dtype=float)       # the basis as fitted …
    Xin[...] = 3                                          # … then the caller re-uses its buffer
    return {"model": model, "desc": desc, "X": X.astype(float), "B": B}


def gen_custom_model(ctx, rng):
    """SSPOR on a user-supplied (Custom) basis whose modes are NOT orthonormal – any full-column-rank mode matrix is a basis – fitted
    the only way a Custom basis can be (basis fitted beforehand, `prefit_basis=True`)."""
    from pysensors.basis import Custom
    from pysensors.optimizers import QR
    from pysensors.reconstruction import SSPOR
    for _ in range(20):
        n = rng.randint(4, 9)
        m = rng.randint(2, min(4, n - 1))
        U = np.array([[rng.randint(-8, 8) / 4 for _ in range(m)] for _ in range(n)], dtype=float)
        if rank_exact(U) == m:
            break
    else:
        return None
    b = Custom(U.copy(), n_basis_modes=m).fit()
    model = SSPOR(basis=b, optimizer=QR())
    model.fit(np.zeros((2, n)), quiet=True, prefit_basis=True, seed=rng.randint(0, 9))
    desc = {"basis": "custom", "n_modes": m, "opt": "qr", "custom_U": U.tolist(), "X": U.T.tolist(), "seed": 0, "dtype": "float64",
            "history": ["Custom(U).fit()", "fit(prefit_basis=True)"]}
    return {"model": model, "desc": desc, "X": U.T.copy(), "B": np.array(model.basis_matrix_, dtype=float)}


def keyword_life(model, X, which):
    """Reconstruction calls that pass documented solver keywords (SSPOR forwards them to scipy's solve / lstsq).  They are
    the caller's choice for THAT call only: whatever they do to that call's result, no later plain call – on this model or any
    other – may inherit them.  `which` selects the keyword sets (recorded for replay)."""
    nf = X.shape[1]
    m = model.basis_matrix_.shape[1]
    sq = [{"transposed": True}, {"assume_a": "sym"}, {"check_finite": False}][which % 3]
    re = [{"cond": 0.5}, {"lapack_driver": "gelsy", "cond": 0.25}, {"check_finite": False}][(which // 3) % 3]
    keep = model.n_sensors
    for ns, kw in ((min(nf, m), sq), (min(nf, m + 1), re), (max(1, m - 1), re)):
        try:
            model.set_number_of_sensors(ns)
            sel = model.get_selected_sensors()
            model.predict(X[:, sel].astype(float), **kw)
            model.score(X.astype(float), solve_kws=dict(kw))
        except Exception:
            pass
    try:
        model.reconstruction_error(X.astype(float), **re)
    except Exception:
        pass
    try:
        model.set_number_of_sensors(keep)
    except Exception:
        pass


def _reset_n_sensors(model, keep=False):
    """forget an explicitly chosen sensor count so that the judged fit uses the default again"""
    try:
        model.n_sensors = None
        if hasattr(model, "_n_sensors_defaulted"):
            model._n_sensors_defaulted = False
        if keep and hasattr(model, "ranked_sensors_"):
            model.n_sensors = len(model.ranked_sensors_)
    except Exception:
        pass
    return model


def rebuild(desc):
    from pysensors.optimizers import CCQR
    from pysensors.reconstruction import SSPOR
    if desc.get("custom_U") is not None:
        from pysensors.basis import Custom
        from pysensors.optimizers import QR
        U = np.array(desc["custom_U"], dtype=float)
        model = SSPOR(basis=Custom(U.copy(), n_basis_modes=U.shape[1]).fit(), optimizer=QR())
        model.fit(np.zeros((2, U.shape[0])), quiet=True, prefit_basis=True, seed=0)
        return {"model": model, "desc": desc, "X": U.T.copy(), "B": np.array(model.basis_matrix_, dtype=float)}
    opt = H.make_optimizer(desc["opt"])
    if desc.get("costs") is not None:
        opt = CCQR(sensor_costs=np.array(desc["costs"]))
    model = SSPOR(basis=models.make_basis(desc["basis"], desc["n_modes"]), optimizer=opt, n_sensors=desc.get("ctor_n_sensors"))
    X = np.array(desc["X"], dtype=float).astype(desc.get("dtype", "float64"))
    if desc.get("X0") is not None:
        X0 = np.array(desc["X0"], dtype=float).astype(desc.get("dtype", "float64"))
        nf = X0.shape[1]
        try:
            model.fit(X0.copy(), quiet=True, seed=1)
            m0 = model.basis_matrix_.shape[1]
            for ns in sorted({min(nf, max(1, m0)), min(nf, m0 + 1), nf}):
                model.set_number_of_sensors(ns)
                try:
                    model.predict(X0[:, model.get_selected_sensors()])
                except Exception:
                    pass
            try:
                model.reconstruction_error(X0)
            except Exception:
                pass
        except ValueError:
            pass
        model = _reset_n_sensors(model)
        if desc.get("ctor_n_sensors") is not None:
            model.n_sensors = desc["ctor_n_sensors"]
    Xin = models.laid_out(X, desc.get("layout", "C"))
    model.fit(Xin, quiet=True, seed=desc["seed"])
    if desc.get("update_modes"):
        nf = X.shape[1]
        m = model.basis_matrix_.shape[1]
        for ns in sorted({min(nf, m), min(nf, m + 1), min(nf, max(1, m - 1)), nf}):
            model.set_number_of_sensors(ns)
            try:
                model.predict(X[:, model.get_selected_sensors()])
            except Exception:
                pass
        model.update_n_basis_modes(desc["update_modes"])
        model = _reset_n_sensors(model, keep=True)
    if desc.get("keyword_life") is not None:
        keyword_life(model, X, desc["keyword_life"])
    B = np.array(model.basis_matrix_, dtype=float)
    Xin[...] = 3
    return {"model": model, "desc": desc, "X": X.astype(float), "B": B}


def kappa(M):
    try:
        s = np.linalg.svd(M, compute_uv=False)
        if s[-1] == 0:
            return np.inf
        return float(s[0] / s[-1])
    except Exception:
        return np.inf


def exact_predict(ctx, B, sensors, Y):
    """Lean exact reconstruction. B: float array (converted exactly), Y: (n_sensors × batch) list of Fractions/floats.
    Returns list-of-lists of Fractions (n_features × batch) or None."""
    rp = ctx.driver.ask1(f"predict {C.enc_mat(B.tolist() if hasattr(B, 'tolist') else B)} {C.enc_nats(sensors)} {C.enc_mat(Y)}")
    return parse_mat(rp)


def parse_mat(rp):
    if not rp.startswith("ok"):
        return None
    toks = rp.split()[1:]
    n, m = int(toks[0]), int(toks[1])
    vals = [Fraction(t) for t in toks[2:]]
    return [vals[i * m:(i + 1) * m] for i in range(n)]


def rank_exact(B, rows=None):
    FB = oracles.fmat(B)
    if rows is not None:
        FB = [FB[i] for i in rows]
    return oracles.rank_of(FB) if FB and FB[0] else 0


def dyadic_vec(rng, n, lo=-16, hi=16, den=4):
    return [Fraction(rng.randint(lo, hi), den) for _ in range(n)]
