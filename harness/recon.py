"""
Shared by C02, C07, C17: fitted SSPOR models on small exactly representable data, exact reconstruction through
the Lean model (`predict` driver command), conditioning budgets.
"""
from __future__ import annotations

from fractions import Fraction

import numpy as np

from . import common as C
from . import models, oracles
from . import sspor_hist as H

KAPPA_MAX = 1e6


def gen_model(ctx, rng, bases=None, opts=None, want_tall=True, max_modes=None):
    """A fitted SSPOR with its configuration. Returns dict or None (fit rejected)."""
    from pysensors.reconstruction import SSPOR
    basis = rng.choice(bases or models.BASIS_KINDS)
    ne = rng.randint(1, ctx.scale(5, 7))
    nf = rng.randint(ne if want_tall else 1, ctx.scale(9, 12))
    X = np.array([[rng.randint(-6, 6) for _ in range(nf)] for _ in range(ne)], dtype=float)
    if basis == "identity":
        nm = None if rng.random() < 0.4 else rng.randint(1, ne)
    elif basis == "svd":
        nm = rng.randint(1, min(ne, nf))
    else:
        nm = rng.randint(1, ne)
    if max_modes and nm and nm > max_modes:
        nm = max_modes
    opt_kind = rng.choice(opts or ["qr", "qr", "ccqr", "gqr"])
    opt = H.make_optimizer(opt_kind)
    desc = {"basis": basis, "n_modes": nm, "opt": opt_kind, "X": X.tolist(), "seed": rng.randint(0, 20)}
    if opt_kind == "ccqr" and rng.random() < 0.6:
        costs = np.array([rng.randint(0, 12) / 2 for _ in range(nf)])
        opt = type(opt)(sensor_costs=costs)
        desc["costs"] = costs.tolist()
    model = SSPOR(basis=models.make_basis(basis, nm), optimizer=opt)
    try:
        model.fit(X.copy(), quiet=True, seed=desc["seed"])
    except ValueError:
        return None
    return {"model": model, "desc": desc, "X": X, "B": np.array(model.basis_matrix_, dtype=float)}


def rebuild(desc):
    from pysensors.optimizers import CCQR
    from pysensors.reconstruction import SSPOR
    opt = H.make_optimizer(desc["opt"])
    if desc.get("costs") is not None:
        opt = CCQR(sensor_costs=np.array(desc["costs"]))
    model = SSPOR(basis=models.make_basis(desc["basis"], desc["n_modes"]), optimizer=opt)
    X = np.array(desc["X"], dtype=float)
    model.fit(X.copy(), quiet=True, seed=desc["seed"])
    return {"model": model, "desc": desc, "X": X, "B": np.array(model.basis_matrix_, dtype=float)}


def kappa(M):
    try:
        s = np.linalg.svd(M, compute_uv=False)
        if s[-1] == 0:
            return np.inf
        return float(s[0] / s[-1])
    except Exception:
        return np.inf


def exact_predict(ctx, B, sensors, Y):
    """Lean exact reconstruction. B: float array (converted exactly), Y: (n_sensors × batch) list of Fractions/floats.
    Returns list-of-lists of Fractions (n_features × batch) or None."""
    rp = ctx.driver.ask1(f"predict {C.enc_mat(B.tolist() if hasattr(B, 'tolist') else B)} {C.enc_nats(sensors)} {C.enc_mat(Y)}")
    return parse_mat(rp)


def parse_mat(rp):
    if not rp.startswith("ok"):
        return None
    toks = rp.split()[1:]
    n, m = int(toks[0]), int(toks[1])
    vals = [Fraction(t) for t in toks[2:]]
    return [vals[i * m:(i + 1) * m] for i in range(n)]


def rank_exact(B, rows=None):
    FB = oracles.fmat(B)
    if rows is not None:
        FB = [FB[i] for i in rows]
    return oracles.rank_of(FB) if FB and FB[0] else 0


def dyadic_vec(rng, n, lo=-16, hi=16, den=4):
    return [Fraction(rng.randint(lo, hi), den) for _ in range(n)]
