"""
C11, second tie (translation): how the bases store their mode matrix, what `matrix_representation` returns and how each
`matrix_inverse` is formed, read off the CURRENT source into `lean/PsVerif/Model/BasisExpr.lean`.  Generated
(`lean/PsVerif/Generated/Bases.lean`):

    def basesProg : BasesProg := …     theorem bases_glue : basesProg = BasesProg.spec := by decide
    theorem bases_rep_is_takeCols (B k) : basesProg.rep.eval B k = B.takeCols k

The bodies of the methods must be exactly the recognised statements (validation first, then the one expression); a memo, a cast,
another inverse formula, a pre-processed seed: untranslatable.
"""
from __future__ import annotations

import ast
import os


class Untranslatable(Exception):
    pass


def U(e):
    return ast.unparse(e)


def body_of(fn):
    b = fn.body
    if b and isinstance(b[0], ast.Expr) and isinstance(b[0].value, ast.Constant) and isinstance(b[0].value.value, str):
        b = b[1:]
    return [U(s) for s in b]


def cls_fns(repo, rel, cname):
    tree = ast.parse(open(os.path.join(str(repo), "pysensors", "basis", rel)).read())
    cls = next((n for n in tree.body if isinstance(n, ast.ClassDef) and n.name == cname), None)
    if cls is None:
        raise Untranslatable(f"class {cname} not found")
    return {n.name: n for n in cls.body if isinstance(n, ast.FunctionDef)}, tree


VAL = "n_basis_modes = self._validate_input(n_basis_modes)"


def expect(fns, name, want, what):
    if name not in fns:
        raise Untranslatable(f"{what}.{name} not found")
    got = body_of(fns[name])
    if got != want:
        raise Untranslatable(f"{what}.{name}: {got}")


def analyse(repo):
    site = {"site": "bases", "function": "pysensors/basis: MatrixMixin.matrix_representation, Identity / SVD / RandomProjection / Custom fit and matrix_inverse",
            "found": False, "theorems": ["bases_glue", "bases_rep_is_takeCols"]}
    try:
        mix, _ = cls_fns(repo, "_base.py", "MatrixMixin")
        expect(mix, "matrix_representation",
               [VAL, "if copy:\n    return self.basis_matrix_[:, :n_basis_modes].copy()\nelse:\n    return self.basis_matrix_[:, :n_basis_modes]"], "MatrixMixin")
        idf, _ = cls_fns(repo, "_identity.py", "Identity")
        expect(idf, "fit",
               ["if self.n_basis_modes is None:\n    self.basis_matrix_ = check_array(X).T.copy()\n    self.n_basis_modes = self.basis_matrix_.shape[1]\nelse:\n"
                "    if self.n_basis_modes > X.shape[0]:\n        raise ValueError('X needs at least n_basis_modes ({}) examples/rows'.format(self.n_basis_modes))\n"
                "    self.basis_matrix_ = check_array(X)[:self.n_basis_modes, :].T.copy()\n    if self.n_basis_modes < X.shape[0]:\n"
                "        warn(f'Only the first {self.n_basis_modes} examples were retained.')", "return self"], "Identity")
        expect(idf, "matrix_inverse", [VAL, "return identity(self.basis_matrix_.shape[0])"], "Identity")
        svf, _ = cls_fns(repo, "_svd.py", "SVD")
        expect(svf, "fit", ["self.basis_matrix_ = super(SVD, self).fit(X).components_.T", "return self"], "SVD")
        expect(svf, "matrix_inverse", [VAL, "return self.basis_matrix_[:, :n_basis_modes].T"], "SVD")
        rpf, rpt = cls_fns(repo, "_random_projection.py", "RandomProjection")
        expect(rpf, "fit", ["super(RandomProjection, self).fit(X.T)", "self.basis_matrix_ = super(RandomProjection, self).transform(X.T)", "return self"], "RandomProjection")
        expect(rpf, "matrix_inverse", [VAL, "return pinv(self.basis_matrix_[:, :n_basis_modes], **kwargs)"], "RandomProjection")
        if not any(isinstance(n, ast.ImportFrom) and n.module == "numpy.linalg" and any(a.name == "pinv" for a in n.names) for n in rpt.body):
            raise Untranslatable("pinv is not numpy.linalg.pinv")
        init = rpf.get("__init__")
        calls = [n for n in ast.walk(init) if isinstance(n, ast.Call) and isinstance(n.func, ast.Attribute) and n.func.attr == "__init__"] if init else []
        if len(calls) != 1 or {k.arg: U(k.value) for k in calls[0].keywords} != {"n_components": "n_basis_modes", "eps": "eps", "random_state": "random_state"}:
            raise Untranslatable("RandomProjection.__init__ does not hand n_basis_modes / eps / random_state to its parent unchanged")
        cuf, _ = cls_fns(repo, "_custom.py", "Custom")
        expect(cuf, "fit", ["self.basis_matrix_ = self.custom_basis_[:, :self.n_basis_modes]", "return self"], "Custom")
        expect(cuf, "matrix_inverse", [VAL, "return self.basis_matrix_[:, :n_basis_modes].T"], "Custom")
        site["lean"] = ("def basesProg : BasesProg :=\n"
                        "  { rep := .firstColumnsOfStored true, repValidatesFirst := true,\n"
                        "    identityDefault := .identityAllExamplesTransposedCopy, identityExplicit := .identityFirstKExamplesTransposedCopy,\n"
                        "    identityRejectsTooManyModesBeforeStoring := true, identityInv := .identityOfNFeatures,\n"
                        "    svdStore := .svdComponentsTransposed, svdInv := .transposeOfFirstColumns,\n"
                        "    rpStore := .rpTransformOfTransposedData, rpInv := .pinvOfFirstColumns, rpSeedPassedUnchanged := true,\n"
                        "    customStore := .customFirstColumnsOfUserMatrix, customInv := .transposeOfFirstColumns, inversesValidateFirst := true }\n"
                        "theorem bases_glue : basesProg = BasesProg.spec := by decide\n"
                        "theorem bases_rep_is_takeCols (B : RMat) (k : Nat) : basesProg.rep.eval B k = B.takeCols k := by\n"
                        "  rw [bases_glue]; exact BasesProg.spec_rep B k\n")
        site["found"] = True
    except Untranslatable as e:
        site["why"] = str(e)[:400]
    return [site]


def emit(sites, out_path):
    parts = ["/- GENERATED by harness/translate_bases.py from pysensors/basis/*.py – do not edit. -/",
             "import PsVerif.Model.BasisExpr", "namespace PsVerif.Gen", "open PsVerif", ""]
    for s in sites:
        parts.append(f"/-- {s['function']} -/" if s["found"] else f"-- {s['function']}: NOT TRANSLATABLE ({s.get('why')})")
        if s["found"]:
            parts.append(s["lean"])
    parts.append("end PsVerif.Gen\n")
    text = "\n".join(parts)
    out_path = str(out_path)
    if not os.path.exists(out_path) or open(out_path).read() != text:
        open(out_path, "w").write(text)
    return [{"site": s["site"], "function": s["function"], "found": s["found"], "why": s.get("why"), "theorem": s["theorems"][0],
             "theorems": s["theorems"], "lean": s.get("lean", "")[:300]} for s in sites]


if __name__ == "__main__":
    import sys
    for s in analyse(sys.argv[1] if len(sys.argv) > 1 else "/repo"):
        print("==", s["site"], s["found"], s.get("why")); print(s.get("lean", "")[:200])
