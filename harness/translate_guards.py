"""
C19 translator: regenerates the guard decision trees (lean/PsVerif/Generated/Guards.lean) from the CURRENT source of
pysensors on every run.  For every entry point in SITES it walks the function's AST and emits a `GTree`
(Model/Guards.lean): `if` / `elif` / `else`, `raise E`, `check_is_fitted`, `return`; everything else is `pass`.

    count-like arguments (site['pyargs'])   → `GTerm.var`, `isNone`, `isInst`
    len(..), ..shape[k], np.ndim(..), integer attributes and names (INT_TERMS)  → `GTerm.nat "<source text>"`
    integer literals → `GTerm.lit`;  `x == "auto"` → `strEq`;  `name in / not in <module-level dict>` → `strIn`
    any other boolean expression → `GExpr.flag "<source text>"`  (opaque, named by its source text)

For each site the generated file states `tree_<id>.eval env = Spec_<id> env` under `Pre_<id> env` (both hand-written in
Model/GuardSpecs.lean) and proves it with a fixed script; a change of the checks in the source changes the tree and the
proof no longer closes.  A `return` ends the function: the continuation is not attached to that branch.
"""
from __future__ import annotations

import ast
import json
import re
from pathlib import Path

SITES = [
    dict(id="basisRep", file="pysensors/basis/_base.py", cls="MatrixMixin", func="_validate_input", pyargs=["n_basis_modes"]),
    dict(id="identityCtor", file="pysensors/basis/_identity.py", cls="Identity", func="__init__", pyargs=["n_basis_modes"]),
    dict(id="svdCtor", file="pysensors/basis/_svd.py", cls="SVD", func="__init__", pyargs=["n_basis_modes"]),
    dict(id="rpCtor", file="pysensors/basis/_random_projection.py", cls="RandomProjection", func="__init__", pyargs=["n_basis_modes"],
         strvars=["n_basis_modes"]),
    dict(id="customCtor", file="pysensors/basis/_custom.py", cls="Custom", func="__init__", pyargs=["n_basis_modes"]),
    dict(id="identityFit", file="pysensors/basis/_identity.py", cls="Identity", func="fit", pyargs=[]),
    dict(id="ssporCtor", file="pysensors/reconstruction/_sspor.py", cls="SSPOR", func="__init__", pyargs=["n_sensors"]),
    dict(id="ssporSetN", file="pysensors/reconstruction/_sspor.py", cls="SSPOR", func="set_number_of_sensors", pyargs=["n_sensors"]),
    dict(id="ssporValidateNSensors", file="pysensors/reconstruction/_sspor.py", cls="SSPOR", func="_validate_n_sensors", pyargs=[]),
    dict(id="ssporUpdateModes", file="pysensors/reconstruction/_sspor.py", cls="SSPOR", func="update_n_basis_modes", pyargs=["n_basis_modes"]),
    dict(id="sspocUpdateSensors", file="pysensors/classification/_sspoc.py", cls="SSPOC", func="update_sensors", pyargs=["n_sensors"],
         stop_after="self.n_sensors = n_sensors"),
    dict(id="sspocUpdateModes", file="pysensors/classification/_sspoc.py", cls="SSPOC", func="update_n_basis_modes", pyargs=["n_basis_modes"]),
    dict(id="ccqrCtor", file="pysensors/optimizers/_ccqr.py", cls="CCQR", func="__init__", pyargs=[]),
    dict(id="ccqrFit", file="pysensors/optimizers/_ccqr.py", cls="CCQR", func="fit", pyargs=[], stop_after="R = "),
    dict(id="validateInput", file="pysensors/utils/_base.py", cls=None, func="validate_input", pyargs=[]),
    dict(id="gqrOption", file="pysensors/utils/_norm_calc.py", cls=None, func="returnInstance", pyargs=[], strvars=["name"]),
    # consumers whose FIRST act must be `check_is_fitted` (NotFittedError before anything else can happen)
    dict(id="ssporPredict", file="pysensors/reconstruction/_sspor.py", cls="SSPOR", func="predict", pyargs=[], fitted_first="self.ranked_sensors_"),
    dict(id="ssporGetSelected", file="pysensors/reconstruction/_sspor.py", cls="SSPOR", func="get_selected_sensors", pyargs=[], fitted_first="self.ranked_sensors_"),
    dict(id="ssporAllSensors", file="pysensors/reconstruction/_sspor.py", cls="SSPOR", func="all_sensors", pyargs=[], fitted_first="self.ranked_sensors_"),
    dict(id="ssporScore", file="pysensors/reconstruction/_sspor.py", cls="SSPOR", func="score", pyargs=[], fitted_first="self.ranked_sensors_"),
    dict(id="ssporReconstructionError", file="pysensors/reconstruction/_sspor.py", cls="SSPOR", func="reconstruction_error", pyargs=[],
         fitted_first="self.ranked_sensors_"),
    dict(id="sspocPredict", file="pysensors/classification/_sspoc.py", cls="SSPOC", func="predict", pyargs=[], fitted_first="self.sensor_coef_"),
    dict(id="sspocSelectedSensors", file="pysensors/classification/_sspoc.py", cls="SSPOC", func="selected_sensors", pyargs=[],
         fitted_first="self.sparse_sensors_"),
    dict(id="boxGuard", file="pysensors/utils/_constraints.py", cls=None, func="get_constrained_sensors_indices", pyargs=[],
         stop_after="n_features = "),
]

ERRS = {"ValueError": ".valueError", "NotImplementedError": ".notImplemented", "TypeError": ".typeError",
        "NotFittedError": ".notFitted", "IndexError": ".indexError", "AttributeError": ".attributeError"}
INST = {"INT_DTYPES": ".intDtypes", "int": ".builtinInt", "numbers.Integral": ".integral", "Integral": ".integral"}
CMP = {ast.Lt: ".lt", ast.LtE: ".le", ast.Gt: ".gt", ast.GtE: ".ge", ast.Eq: ".eq", ast.NotEq: ".ne"}
INT_NAME = re.compile(r"^(n|n_features|n_samples|max_sensors)$")


def lstr(s):
    return json.dumps(s, ensure_ascii=True)


class Site:
    def __init__(self, cfg, repo: Path):
        self.cfg = cfg
        self.src = (repo / cfg["file"]).read_text()
        self.mod = ast.parse(self.src)
        self.fn = self._find()
        self.pyargs = set(cfg.get("pyargs", []))
        self.strvars = set(cfg.get("strvars", []))
        self.atoms = {"var": set(), "nat": set(), "flag": set(), "str": set()}
        self.truncated = None
        self.dict_keys = self._module_dict_keys()

    def _find(self):
        for node in self.mod.body:
            if self.cfg["cls"] is None and isinstance(node, ast.FunctionDef) and node.name == self.cfg["func"]:
                return node
            if isinstance(node, ast.ClassDef) and node.name == self.cfg["cls"]:
                for sub in node.body:
                    if isinstance(sub, ast.FunctionDef) and sub.name == self.cfg["func"]:
                        return sub
        return None

    def _module_dict_keys(self):
        """module-level `D[<str>] = …` assignments: D -> [keys]"""
        out = {}
        for node in self.mod.body:
            if isinstance(node, ast.Assign) and len(node.targets) == 1 and isinstance(node.targets[0], ast.Subscript):
                t = node.targets[0]
                if isinstance(t.value, ast.Name) and isinstance(t.slice, ast.Constant) and isinstance(t.slice.value, str):
                    out.setdefault(t.value.id, []).append(t.slice.value)
        return out

    # ---- terms / expressions ---------------------------------------------------------------
    def is_int_term(self, e):
        if isinstance(e, ast.Call):
            f = ast.unparse(e.func)
            return f in ("len", "np.ndim", "ndim")
        if isinstance(e, ast.Subscript) and isinstance(e.value, ast.Attribute) and e.value.attr == "shape":
            return True
        if isinstance(e, ast.Attribute):
            return e.attr in ("n_basis_modes", "n_sensors", "_n_basis_modes")
        if isinstance(e, ast.Name):
            return bool(INT_NAME.match(e.id))
        return False

    def term(self, e):
        if isinstance(e, ast.Name) and e.id in self.pyargs:
            self.atoms["var"].add(e.id)
            return f"(.var {lstr(e.id)})"
        if isinstance(e, ast.Constant) and isinstance(e.value, int) and not isinstance(e.value, bool):
            return f"(.lit {e.value})" if e.value >= 0 else f"(.lit ({e.value}))"
        if isinstance(e, ast.UnaryOp) and isinstance(e.op, ast.USub) and isinstance(e.operand, ast.Constant) and isinstance(e.operand.value, int):
            return f"(.lit (-{e.operand.value}))"
        if self.is_int_term(e):
            t = ast.unparse(e)
            self.atoms["nat"].add(t)
            return f"(.nat {lstr(t)})"
        return None

    def flag(self, e):
        t = ast.unparse(e)
        self.atoms["flag"].add(t)
        return f"(.flag {lstr(t)})"

    def expr(self, e):
        if isinstance(e, ast.BoolOp):
            parts = [self.expr(v) for v in e.values]
            op = ".and" if isinstance(e.op, ast.And) else ".or"
            out = parts[-1]
            for p in reversed(parts[:-1]):
                out = f"({op} {p} {out})"
            return out
        if isinstance(e, ast.UnaryOp) and isinstance(e.op, ast.Not):
            return f"(.not {self.expr(e.operand)})"
        if isinstance(e, ast.Constant) and e.value is True:
            return ".tt"
        if isinstance(e, ast.Call) and ast.unparse(e.func) == "isinstance" and len(e.args) == 2:
            x, t = e.args
            tn = ast.unparse(t)
            if isinstance(x, ast.Name) and x.id in self.pyargs and tn in INST:
                self.atoms["var"].add(x.id)
                return f"(.isInst {lstr(x.id)} {INST[tn]})"
            return self.flag(e)
        if isinstance(e, ast.Compare) and len(e.ops) == 1:
            a, op, b = e.left, e.ops[0], e.comparators[0]
            if isinstance(op, (ast.Is, ast.IsNot)) and isinstance(b, ast.Constant) and b.value is None:
                if isinstance(a, ast.Name) and a.id in self.pyargs:
                    self.atoms["var"].add(a.id)
                    base = f"(.isNone {lstr(a.id)})"
                else:
                    # "<x> is None" is the atom; "is not None" is its negation
                    base = self.flag(ast.Compare(left=a, ops=[ast.Is()], comparators=[b]))
                return base if isinstance(op, ast.Is) else f"(.not {base})"
            if isinstance(op, (ast.In, ast.NotIn)) and isinstance(a, ast.Name) and a.id in self.strvars and isinstance(b, ast.Name) \
                    and b.id in self.dict_keys:
                self.atoms["str"].add(a.id)
                keys = "[" + ", ".join(lstr(k) for k in self.dict_keys[b.id]) + "]"
                base = f"(.strIn {lstr(a.id)} {keys})"
                return base if isinstance(op, ast.In) else f"(.not {base})"
            if isinstance(op, (ast.Eq, ast.NotEq)) and isinstance(a, ast.Name) and a.id in self.strvars and isinstance(b, ast.Constant) \
                    and isinstance(b.value, str):
                self.atoms["str"].add(a.id)
                base = f"(.strEq {lstr(a.id)} {lstr(b.value)})"
                return base if isinstance(op, ast.Eq) else f"(.not {base})"
            if type(op) in CMP:
                ta, tb = self.term(a), self.term(b)
                if ta is not None and tb is not None:
                    return f"(.cmp {ta} {CMP[type(op)]} {tb})"
            return self.flag(e)
        return self.flag(e)

    # ---- statements ------------------------------------------------------------------------
    @staticmethod
    def has(node_list, kinds):
        for n in node_list:
            for sub in ast.walk(n):
                if isinstance(sub, kinds):
                    return True
                if isinstance(sub, ast.Call) and ast.unparse(sub.func) == "check_is_fitted" and ast.Raise in (kinds if isinstance(kinds, tuple) else (kinds,)):
                    return True
        return False

    def block(self, stmts):
        if not stmts:
            return ".pass"
        s, rest = stmts[0], stmts[1:]
        stop = self.cfg.get("stop_after")
        if stop and ast.unparse(s).startswith(stop):
            self.truncated = self.truncated or f"line {s.lineno}: {stop!r}"
            return ".pass"
        if isinstance(s, ast.Return):
            return ".pass"
        if isinstance(s, ast.Raise):
            name = ast.unparse(s.exc.func if isinstance(s.exc, ast.Call) else s.exc) if s.exc is not None else "?"
            return f"(.raise {ERRS.get(name, '.other')})"
        if isinstance(s, ast.Expr) and isinstance(s.value, ast.Call) and ast.unparse(s.value.func) == "check_is_fitted":
            a = s.value.args
            what = f"{ast.unparse(a[0])}.{a[1].value}" if len(a) >= 2 and isinstance(a[1], ast.Constant) else ast.unparse(s.value)
            self.atoms["flag"].add(what)
            return f"(.seq (.checkFitted {lstr(what)}) {self.block(rest)})"
        if isinstance(s, ast.If):
            branches = s.body + s.orelse
            if self.has(branches, (ast.Return,)):
                # a `return` ends the function: attach the continuation to each branch separately
                return f"(.ite {self.expr(s.test)} {self.block(s.body + rest)} {self.block(s.orelse + rest)})"
            if self.has(branches, (ast.Raise,)):
                return f"(.seq (.ite {self.expr(s.test)} {self.block(s.body)} {self.block(s.orelse)}) {self.block(rest)})"
            return self.block(rest)
        if isinstance(s, ast.With):
            return self.block(s.body + rest)
        if isinstance(s, (ast.For, ast.While, ast.Try)) and self.has([s], (ast.Raise,)):
            self.truncated = self.truncated or f"line {s.lineno}: {type(s).__name__} containing raise"
            return ".pass"
        return self.block(rest)

    def tree(self):
        if self.fn is None:
            return None
        body = self.fn.body
        if body and isinstance(body[0], ast.Expr) and isinstance(body[0].value, ast.Constant) and isinstance(body[0].value.value, str):
            body = body[1:]
        return self.block(body)


PROOF = """  simp only [tree_{id}, Spec_{id}, Pre_{id}, GTree.eval, GExpr.eval, GTerm.eval] at *
{gens}  {cases}guard_finish
"""


def analyse(repo: Path):
    out = []
    for cfg in SITES:
        s = Site(cfg, repo)
        t = s.tree()
        out.append((cfg, s, t))
    return out


def emit(sites, out_path: Path):
    lines = ["/- GENERATED by harness/translate_guards.py from the current pysensors source – do not edit. -/",
             "import PsVerif.Model.GuardSpecs", "set_option linter.unusedVariables false", "set_option linter.unusedSimpArgs false",
             "namespace PsVerif.Gen", "open PsVerif", ""]
    table = []
    for cfg, s, t in sites:
        sid = cfg["id"]
        if t is None:
            lines.append(f"/-- {cfg['file']}::{cfg['cls']}.{cfg['func']} NOT FOUND in the source -/")
            lines.append(f"theorem guard_{sid} : False := by trivial   -- entry point missing")
            table.append({"site": sid, "found": False})
            continue
        lines.append(f"/-- {cfg['file']}::{(cfg['cls'] + '.') if cfg['cls'] else ''}{cfg['func']}"
                     + (f" (translated up to {s.truncated})" if s.truncated else "") + " -/")
        lines.append(f"def tree_{sid} : GTree :=\n  {t}")
        if cfg.get("fitted_first"):
            f = cfg["fitted_first"]
            lines.append(f"theorem guard_{sid} (env : GEnv) (h : env.flag {lstr(f)} = false) : tree_{sid}.eval env = .raises .notFitted := by")
            lines.append(f"  simp [tree_{sid}, GTree.eval, h]\n")
            table.append({"site": sid, "found": True, "function": f"{cfg['file']}::{cfg['func']}", "truncated_at": s.truncated,
                          "atoms": {k: sorted(v) for k, v in s.atoms.items()}, "tree": t, "kind": "fitted_first"})
            continue
        gens, cases = "", ""
        for i, v in enumerate(sorted(s.atoms["var"])):
            gens += f"  generalize env.var {lstr(v)} = v{i} at *\n"
            cases += f"cases v{i} <;> "
        lines.append(f"theorem guard_{sid} (env : GEnv) (h : Pre_{sid} env) : tree_{sid}.eval env = Spec_{sid} env := by")
        lines.append(PROOF.format(id=sid, gens=gens, cases=cases))
        table.append({"site": sid, "found": True, "function": f"{cfg['file']}::{cfg['func']}", "truncated_at": s.truncated,
                      "atoms": {k: sorted(v) for k, v in s.atoms.items()}, "tree": t})
    lines.append("end PsVerif.Gen")
    text = "\n".join(lines) + "\n"
    out_path.parent.mkdir(parents=True, exist_ok=True)
    if not out_path.exists() or out_path.read_text() != text:
        out_path.write_text(text)
    return table


if __name__ == "__main__":
    import sys
    repo = Path(sys.argv[1] if len(sys.argv) > 1 else "/repo")
    for cfg, s, t in analyse(repo):
        print(f"== {cfg['id']}  ({cfg['file']}::{cfg['func']})" + (f"  [up to {s.truncated}]" if s.truncated else ""))
        print("  ", t)
        print("   atoms:", {k: sorted(v) for k, v in s.atoms.items() if v})
