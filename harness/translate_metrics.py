"""
C17, second tie (translation): the definitions of `SSPOR.score`, `SSPOR.reconstruction_error`, `utils.relative_reconstruction_error` and
`utils.determinant`, read off the CURRENT source into `lean/PsVerif/Model/MetricExpr.lean`.  Generated (`lean/PsVerif/Generated/Metrics.lean`):

    def metricsProg : MetricsProg := …       theorem metrics_definitions : metricsProg = MetricsProg.spec := by decide
    theorem metrics_determinant_is_model (B sensors) : metricsProg.det.eval detExact B sensors = determinantModel B sensors

The statement lists of the four functions must match the forms below (whitespace and comments aside); each recognised form sets a
field of the program; anything else (a cache, a block-wise mean, a sort of the range, a setter call inside the sweep, another
determinant formula) is untranslatable.
"""
from __future__ import annotations

import ast
import os


class Untranslatable(Exception):
    pass


def U(e):
    return ast.unparse(e)


def body_of(fn):
    b = fn.body
    if b and isinstance(b[0], ast.Expr) and isinstance(b[0].value, ast.Constant) and isinstance(b[0].value.value, str):
        b = b[1:]
    return b


def b2l(x):
    return "true" if x else "false"


def determinant_prog(fn):
    ts = [U(s) for s in body_of(fn)]
    want_head = ["p = len(top_sensors)", "(n, r) = np.shape(basis_matrix)", "c = lil_matrix((p, n), dtype=np.int8)",
                 "for i in range(p):\n    c[i, top_sensors[i]] = 1", "phi = basis_matrix", "theta = c @ phi"]
    want_head_alt = list(want_head); want_head_alt[1] = "n, r = np.shape(basis_matrix)"
    if ts[:6] not in (want_head, want_head_alt):
        raise Untranslatable(f"determinant: Θ is not built as the selected rows of the basis matrix ({ts[:6]})")
    rest = body_of(fn)[6:]
    if len(rest) != 3 or not isinstance(rest[0], ast.If):
        raise Untranslatable("determinant: dispatch / final statements of another form")
    d = rest[0]
    forms = {"theta": ".theta", "theta.T @ theta": ".gram"}
    if U(d.test) != "p == r" or len(d.body) != 1 or not U(d.body[0]).startswith("M_gamma = "):
        raise Untranslatable("determinant: square branch")
    sq = forms.get(U(d.body[0].value))
    if not (len(d.orelse) == 1 and isinstance(d.orelse[0], ast.If) and U(d.orelse[0].test) == "p > r" and len(d.orelse[0].body) == 1
            and U(d.orelse[0].body[0]).startswith("M_gamma = ")):
        raise Untranslatable("determinant: tall branch")
    tall = forms.get(U(d.orelse[0].body[0].value))
    if sq is None or tall is None:
        raise Untranslatable("determinant: matrix expression")
    if U(rest[1]) != "optimality = abs(np.linalg.det(M_gamma))" or U(rest[2]) != "return optimality":
        raise Untranslatable(f"determinant: `{U(rest[1])}` / `{U(rest[2])}`")
    return f"⟨true, {sq}, {tall}, true⟩"


def analyse(repo):
    site = {"site": "metrics", "function": "SSPOR.score / SSPOR.reconstruction_error / utils.relative_reconstruction_error / utils.determinant",
            "found": False, "theorems": ["metrics_definitions", "metrics_determinant_is_model"]}
    try:
        vt = ast.parse(open(os.path.join(str(repo), "pysensors", "utils", "_validation.py")).read())
        vf = {n.name: n for n in vt.body if isinstance(n, ast.FunctionDef)}
        if "determinant" not in vf or "relative_reconstruction_error" not in vf:
            raise Untranslatable("utils functions not found")
        det = determinant_prog(vf["determinant"])
        rts = [U(s) for s in body_of(vf["relative_reconstruction_error"])]
        if rts != ["error_val = np.linalg.norm((data - prediction) / np.linalg.norm(data)) * 100", "return error_val"]:
            raise Untranslatable(f"relative_reconstruction_error: {rts}")
        st = ast.parse(open(os.path.join(str(repo), "pysensors", "reconstruction", "_sspor.py")).read())
        cls = next((n for n in st.body if isinstance(n, ast.ClassDef) and n.name == "SSPOR"), None)
        fns = {n.name: n for n in (cls.body if cls else []) if isinstance(n, ast.FunctionDef)}
        # ---- score
        sb = body_of(fns["score"])
        ts = [U(s) for s in sb]
        if ts[0] != "check_is_fitted(self, 'ranked_sensors_')":
            raise Untranslatable("score: first statement")
        tail = sb[-2:]
        if U(tail[0]) != "sensors = self.get_selected_sensors()" or not isinstance(tail[1], ast.If) or U(tail[1].test) != "score_function is None":
            raise Untranslatable(f"score: `{U(tail[0])}` / dispatch on score_function")
        if [U(s) for s in tail[1].body] != ["return -np.sqrt(np.mean((self.predict(x[:, sensors], **solve_kws) - x) ** 2))"]:
            raise Untranslatable(f"score: default formula {[U(s) for s in tail[1].body]}")
        if [U(s) for s in tail[1].orelse] != ["return score_function(x, self.predict(x[:, sensors], **solve_kws), **score_kws)"]:
            raise Untranslatable(f"score: custom call {[U(s) for s in tail[1].orelse]}")
        for s in sb[1:-2]:
            if any(isinstance(n, (ast.Assign, ast.AugAssign)) and any(isinstance(t, ast.Attribute) for t in (n.targets if isinstance(n, ast.Assign) else [n.target]))
                   for n in ast.walk(s)):
                raise Untranslatable("score assigns to an attribute")
            if not (isinstance(s, ast.Assign) or (isinstance(s, ast.If) and all(isinstance(b, ast.Raise) for b in s.body) and not s.orelse)):
                raise Untranslatable(f"score: statement `{U(s)[:60]}`")
        # ---- reconstruction_error
        rb = body_of(fns["reconstruction_error"])
        if any(isinstance(n, ast.Attribute) and isinstance(n.ctx, ast.Store) and isinstance(n.value, ast.Name) and n.value.id == "self" for s in rb for n in ast.walk(s)):
            raise Untranslatable("reconstruction_error writes model state")
        if any(isinstance(n, ast.Call) and U(n.func) in ("self.set_number_of_sensors", "self.set_n_sensors", "self.fit", "self.update_n_basis_modes")
               for s in rb for n in ast.walk(s)):
            raise Untranslatable("reconstruction_error calls a setter")
        ts = [U(s) for s in rb]
        want = ["check_is_fitted(self, 'ranked_sensors_')", "x_test = validate_input(x_test, self.get_all_sensors()).T",
                "(basis_mode_dim, n_basis_modes) = self.basis_matrix_.shape"]
        alt2 = "basis_mode_dim, n_basis_modes = self.basis_matrix_.shape"
        if ts[:2] != want[:2] or ts[2] not in (want[2], alt2):
            raise Untranslatable(f"reconstruction_error: head {ts[:3]}")
        if ts[3] != "if sensor_range is None:\n    sensor_range = np.arange(1, min(self.n_sensors, basis_mode_dim) + 1)":
            raise Untranslatable(f"reconstruction_error: default range `{ts[3]}`")
        if not ts[4].startswith("if sensor_range[-1] > basis_mode_dim:\n    warnings.warn("):
            raise Untranslatable(f"reconstruction_error: `{ts[4][:60]}`")
        if ts[5] != "if score is None:\n\n    def score(x, y):\n        return np.sqrt(np.mean((x - y) ** 2))":
            raise Untranslatable(f"reconstruction_error: default scorer `{ts[5]}`")
        if ts[6] != "error = np.zeros_like(sensor_range, dtype=np.float64)":
            raise Untranslatable(f"reconstruction_error: `{ts[6]}`")
        loop = rb[7]
        if not (isinstance(loop, ast.For) and U(loop.target) in ("(k, n_sensors)", "k, n_sensors") and U(loop.iter) == "enumerate(sensor_range)" and len(loop.body) == 1
                and isinstance(loop.body[0], ast.If) and U(loop.body[0].test) == "n_sensors == n_basis_modes"):
            raise Untranslatable("reconstruction_error: sweep loop")
        sq = [U(s) for s in loop.body[0].body]
        re_ = [U(s) for s in loop.body[0].orelse]
        tmpl = "error[k] = score(self.{}(x_test[self.ranked_sensors_[:n_sensors]], self.ranked_sensors_[:n_sensors], **solve_kws), x_test.T)"
        if sq != [tmpl.format("_square_predict")] or re_ != [tmpl.format("_rectangular_predict")]:
            raise Untranslatable(f"reconstruction_error: per-count formula {sq} / {re_}")
        if [U(s) for s in rb[8:]] != ["return error"]:
            raise Untranslatable("reconstruction_error: tail")
        site["lean"] = ("def metricsProg : MetricsProg :=\n"
                        f"  {{ det := {det}, scoreDefault := .negSqrtMeanSqDiff, scorePredictsFromSelectedColumns := true,\n"
                        "    scoreCustomArgsDataThenPrediction := true, errDefaultScorer := .sqrtMeanSqDiff, errDefaultRangeUpToMinCountFeatures := true,\n"
                        "    errUsesFirstKOfRanking := true, errDispatchOnKEqNModes := true, errScorerArgsPredictionThenData := true,\n"
                        "    errWritesNoModelState := true, relErr := .normRatioTimes100 }\n"
                        "theorem metrics_definitions : metricsProg = MetricsProg.spec := by decide\n"
                        "theorem metrics_determinant_is_model (B : RMat) (sensors : List Nat) :\n"
                        "    metricsProg.det.eval detExact B sensors = determinantModel B sensors := by\n"
                        "  rw [metrics_definitions]; exact DetProg.spec_eval B sensors\n")
        site["found"] = True
    except (Untranslatable, KeyError, IndexError) as e:
        site["why"] = str(e) if isinstance(e, Untranslatable) else f"{type(e).__name__}: {e}"
    return [site]


def emit(sites, out_path):
    parts = ["/- GENERATED by harness/translate_metrics.py from pysensors/reconstruction/_sspor.py and utils/_validation.py – do not edit. -/",
             "import PsVerif.Model.MetricExpr", "namespace PsVerif.Gen", "open PsVerif", ""]
    for s in sites:
        parts.append(f"/-- {s['function']} -/" if s["found"] else f"-- {s['function']}: NOT TRANSLATABLE ({s.get('why')})")
        if s["found"]:
            parts.append(s["lean"])
    parts.append("end PsVerif.Gen\n")
    text = "\n".join(parts)
    out_path = str(out_path)
    if not os.path.exists(out_path) or open(out_path).read() != text:
        open(out_path, "w").write(text)
    return [{"site": s["site"], "function": s["function"], "found": s["found"], "why": s.get("why"), "theorem": s["theorems"][0],
             "theorems": s["theorems"], "lean": s.get("lean", "")[:300]} for s in sites]


if __name__ == "__main__":
    import sys
    for s in analyse(sys.argv[1] if len(sys.argv) > 1 else "/repo"):
        print("==", s["site"], s["found"], s.get("why")); print(s.get("lean", ""))
