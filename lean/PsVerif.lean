import PsVerif.Model.Bookkeeping
import PsVerif.Props.C01
