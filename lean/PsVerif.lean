-- root of the `PsVerif` library: models, helper lemmas, property theorems
import PsVerif.Model.Bookkeeping
import PsVerif.Model.Gram
import PsVerif.Model.NormCalc
import PsVerif.Model.Proto
import PsVerif.Lemmas.Argmax
import PsVerif.Lemmas.Greedy
import PsVerif.Lemmas.GramAlg
import PsVerif.Lemmas.SqrtOrder
import PsVerif.Lemmas.Masked
import PsVerif.Props.C01
import PsVerif.Props.C03
import PsVerif.Props.C04
