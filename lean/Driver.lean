/-
  Line-protocol driver: one request per line on stdin, one response per line on stdout.
  Runs the *executable model definitions that the theorems are about*.
-/
import PsVerif.Model.Bookkeeping
import PsVerif.Model.Gram
import PsVerif.Model.NormCalc
import PsVerif.Model.Proto
import PsVerif.Model.Sspor
import PsVerif.Model.Recon
import PsVerif.Model.Sspoc
import PsVerif.Model.Geometry
import PsVerif.Model.Validation
open PsVerif PsVerif.Proto

def showVerdicts (vs : List StepVerdict) : String :=
  " ".intercalate (vs.map fun v =>
    s!"{showB v.ok},{v.chosen},{showRat v.chosenN2},{showB v.chosenMasked},{v.bestOff},{showB v.uniq}")

def showVerdictsV (vs : List StepVerdict) : String :=
  " ".intercalate (vs.map fun v =>
    s!"{showB v.ok},{v.chosen},{showRat v.chosenN2},{showB v.chosenMasked},{v.bestOff},{showB v.uniq}," ++
      ":".intercalate (v.candN2.map showRat))

def showSsporObs (st : Sspor) (e : Option Err) : String :=
  let status := match e with | none => "ok" | some e => "E:" ++ e.name
  let sel := match st.selected with | .ok l => "[" ++ showNats l ++ "]" | .error _ => "!"
  let rk := match st.ranking with | some l => "[" ++ showNats l ++ "]" | none => "!"
  let bm := match st.bm with | some (a, b) => s!"({a},{b})" | none => "None"
  let sq := match st.predictSquare with | some true => "sq" | some false => "rect" | none => "-"
  s!"{status}|{showOptNat st.nSensors}|{sel}|{rk}|{bm}|{sq}|{showOptNat st.basis.nModes}|{showOptNat st.nBasisModes}"

def showSspocObs (st : Sspoc) (e : Option Err) : String :=
  let status := match e with | none => "ok" | some e => "E:" ++ e.name
  let ns := match st.nSensors with | none => "None" | some (.int z) => toString z | some .other => "x"
  let kind := match st.predictKind with
    | .notFitted => "notfitted" | .dummy => "dummy" | .raw => "raw" | .projected => "projected"
  let cons := if decide st.Consistent then "1" else "0"
  s!"{status}|{ns}|[{showNats st.sel}]|{kind}|{cons}"

def showMat (M : RMat) : String :=
  let n := M.nrows
  let m := M.ncols
  s!"{n} {m} " ++ " ".intercalate ((M.toList.map fun r => r.toList.map showRat).flatten)

def pShape : P Shape := do
  let k ← tok
  match k with
  | "circle" => do let cx ← rat; let cy ← rat; let r ← rat; pure (.circle cx cy r)
  | "cylinder" => do
    let cx ← rat; let cy ← rat; let cz ← rat; let r ← rat; let h ← rat; let a ← tok
    let ax ← (match a with | "X" => pure CylAxis.X | "Y" => pure CylAxis.Y | "Z" => pure CylAxis.Z | _ => failure : P CylAxis)
    pure (.cylinder cx cy cz r h ax)
  | "parabola" => do let h ← rat; let k ← rat; let a ← rat; pure (.parabola h k a)
  | "ellipse" => do
    let cx ← rat; let cy ← rat; let w ← rat; let h ← rat; let c ← rat; let s ← rat
    pure (.ellipse cx cy w h c s)
  | "polygon" => do
    let n ← nat
    let rec go : Nat → List (Rat × Rat) → P (List (Rat × Rat))
      | 0, acc => pure acc.reverse
      | k + 1, acc => do let x ← rat; let y ← rat; go k ((x, y) :: acc)
    let vs ← go n []
    pure (.polygon vs)
  | _ => failure

def pLoc : P Loc := do
  let t ← tok
  if t == "in" then pure .inside else if t == "out" then pure .outside else failure

/-- sensors with explicit coordinates: `n (id x y z)*`; or a square grid: `grid side ranking` -/
def pCoords : P ((Nat → Pt) × List Nat) := do
  let mode ← tok
  if mode == "grid" then do
    let side ← nat; let rk ← listOf nat
    pure (gridPt side, rk)
  else if mode == "pts" then do
    let n ← nat
    let rec go : Nat → List (Nat × Pt) → P (List (Nat × Pt))
      | 0, acc => pure acc.reverse
      | k + 1, acc => do
        let i ← nat; let x ← rat; let y ← rat; let z ← rat
        go k ((i, { x := x, y := y, z := z }) :: acc)
    let ps ← go n []
    pure ((fun i => ((ps.find? fun q => q.1 == i).map (·.2)).getD { x := 0, y := 0 }), ps.map (·.1))
  else failure

def pOptRatPair : P (Option Rat × Option Rat) := do
  let a ← optRat; let b ← optRat; pure (a, b)

def pPyArg : P PyArg := do
  let t ← tok
  if t == "s" then pure .str else if t == "l" then pure .list else if t == "n" then pure .none
  else if t == "f0" then pure (.float false) else if t == "f1" then pure (.float true) else
  match t.splitOn ":" with
  | ["pi", v] => match v.toInt? with | some z => pure (.pyInt z) | none => failure
  | ["ni", v] => match v.toInt? with | some z => pure (.npInt z) | none => failure
  | _ => failure

def showOutcome : Outcome → String
  | .ok => "ok"
  | .raises e => "E:" ++ e.name

def handle : P String := do
  let cmd ← tok
  match cmd with
  | "perm" => do
    let n ← nat; let k ← nat; let tr ← listOf nat
    pure s!"ok {showNats (pivLoop (traceOracle tr) n k).toList}"
  | "sspor" => do
    let kind ← basisKind; let nm ← optNat; let ctor ← optPyCount; let ops ← listOf ssporOp
    match Sspor.init { kind := kind, nModes := nm, fitted := none } ctor with
    | none => pure "ctor-error"
    | some st0 =>
      let (_, outs) := ops.foldl (fun (acc : Sspor × List String) op =>
        let (st', e) := acc.1.step op
        (st', showSsporObs st' e :: acc.2)) (st0, [])
      pure ("ok " ++ " ; ".intercalate outs.reverse)
  | "sspoc" => do
    let ns ← optPyCount; let thr ← optRat; let ops ← listOf sspocOp
    let (_, outs) := ops.foldl (fun (acc : Sspoc × List String) op =>
      let (st', e) := acc.1.step op
      (st', showSspocObs st' e :: acc.2)) (Sspoc.init ns thr, [])
    pure ("ok " ++ " ; ".intercalate outs.reverse)
  | "agg" => do
    let k ← tok; let row ← listOf rat
    let a ← (match k with | "max" => pure Agg.max | "min" => pure Agg.min | "mean" => pure Agg.mean | "median" => pure Agg.median | _ => failure : P Agg)
    pure s!"ok {showRat (aggRow a row)}"
  | "topn" => do
    let mag ← listOf rat; let n ← nat
    pure s!"ok {showNats (topN mag n)}"
  | "thresh" => do
    let mag ← listOf rat; let τ ← rat
    pure s!"ok {showNats (threshSel mag τ)}"
  | "dthresh" => do
    let mag ← listOf rat; let ss ← rat; let r ← nat; let c ← nat
    pure s!"ok {showNats (defaultThreshSel mag ss r c)}"
  | "shape" => do
    let sh ← pShape; let loc ← pLoc; let (coord, rk) ← pCoords
    pure s!"ok {showNats (constraintIndices (sh.constrained loc) coord rk)}"
  | "line" => do
    let x1 ← rat; let x2 ← rat; let y1 ← rat; let y2 ← rat; let (coord, rk) ← pCoords
    pure s!"ok {showNats (constraintIndices (lineConstrained x1 x2 y1 y2) coord rk)}"
  | "box" => do
    let a ← rat; let b ← rat; let c ← rat; let d ← rat; let n ← nat; let rk ← listOf nat
    pure s!"ok {showNats (boxIndices a b c d n rk)}"
  | "dfbox" => do
    let a ← rat; let b ← rat; let c ← rat; let d ← rat; let rows ← listOf pOptRatPair
    pure s!"ok {showNats (dfBoxIndices a b c d rows)}"
  | "modname" => do
    let t ← tok
    pure s!"ok {String.ofList (moduleName t.toList)}"
  | "modnameold" => do
    let t ← tok
    pure s!"ok {String.ofList (moduleNameOld t.toList)}"
  | "ravel" => do
    let side ← nat; let x ← nat; let y ← nat
    pure s!"ok {ravelF side x y}"
  | "vrule" => do
    let ep ← tok
    match ep with
    | "basisctor" => do let a ← bool; let v ← pPyArg; pure ("ok " ++ showOutcome (basisCtor a v))
    | "basisrep" => do let f ← bool; let nm ← nat; let v ← pPyArg; pure ("ok " ++ showOutcome (basisRep f nm v))
    | "identityfit" => do let k ← optNat; let ne ← nat; pure ("ok " ++ showOutcome (identityFit k ne))
    | "validate" => do let a ← bool; let w ← nat; let e ← optNat; pure ("ok " ++ showOutcome (validateInput a w e))
    | "predictguard" => do
      let f ← bool; let a ← bool; let w ← nat; let ns ← nat
      pure ("ok " ++ showOutcome (ssporPredictGuard f a w ns))
    | "fullguard" => do let f ← bool; let w ← nat; let nf ← nat; pure ("ok " ++ showOutcome (ssporFullStateGuard f w nf))
    | "ccqrctor" => do let d ← optNat; pure ("ok " ++ showOutcome (ccqrCtor d))
    | "ccqrfit" => do let l ← optNat; let n ← nat; pure ("ok " ++ showOutcome (ccqrFit l n))
    | "gqropt" => do let t ← tok; pure ("ok " ++ showOutcome (gqrOption (if t == "EMPTY" then "" else t)))
    | "boxguard" => do
      let n ← nat; let ints ← bool; let a ← rat; let b ← rat; let c ← rat; let d ← rat; let nx ← bool; let ny ← bool
      pure ("ok " ++ showOutcome (boxGuard n ints a b c d nx ny))
    | "ssporctor" => do
      let v ← pPyArg
      match v with
      | .none => pure "ok ok"
      | _ => pure ("ok " ++ (match Sspor.init { kind := .identity, nModes := none, fitted := none } (some v.toCount) with
          | some _ => "ok" | none => "E:ValueError"))
    | _ => failure
  | "predict" => do
    let B ← mat; let sensors ← listOf nat; let Y ← mat
    match predictExact B sensors Y with
    | some R => pure s!"ok {showMat R}"
    | none => pure "none"
  | "det" => do
    let B ← mat; let sensors ← listOf nat
    match determinantModel B sensors with
    | some d => pure s!"ok {showRat d}"
    | none => pure "none"
  | "tailshuffle" => do
    let m ← nat; let pre ← listOf nat; let tail ← listOf nat
    pure s!"ok {showNats (tailShuffle (fun _ => tail) m pre)}"
  | "replay" => do
    -- replay B costs cfg δ trace
    let B ← mat; let costs ← listOf rat; let cfg ← gqrCfg; let δs ← listOf rat; let tr ← listOf nat
    if !cfg.inDomain then pure "domain" else
    let (st, vs) := replay (fun c => costs.getD c 0) cfg.mask δs B tr
    pure s!"ok {showNats st.p.toList} | {showVerdicts vs}"
  | "replayv" => do
    let B ← mat; let costs ← listOf rat; let cfg ← gqrCfg; let δs ← listOf rat; let tr ← listOf nat
    if !cfg.inDomain then pure "domain" else
    let (st, vs) := replay (fun c => costs.getD c 0) cfg.mask δs B tr
    pure s!"ok {showNats st.p.toList} | {showVerdictsV vs}"
  | "rank" => do
    let B ← mat; let costs ← listOf rat; let cfg ← gqrCfg
    if !cfg.inDomain then pure "domain" else
    let st := greedyRun (fun c => costs.getD c 0) cfg.mask B (kOf B)
    pure s!"ok {showNats st.p.toList}"
  | "mask" => do
    let cfg ← gqrCfg; let j ← nat; let p ← listOf nat
    if !cfg.inDomain then pure "domain" else
    pure s!"ok {showBools (cfg.mask j p.toArray)}"
  | "gesqrt" => do
    let a ← rat; let c ← rat; let b ← rat; let d ← rat
    pure s!"ok {showB (geSqrt a c b d)}"
  | _ => failure

def tokenize (s : String) : List String :=
  let rec go : List Char → List Char → List String → List String
    | [], cur, acc => (if cur.isEmpty then acc else String.ofList cur.reverse :: acc).reverse
    | c :: cs, cur, acc =>
      if c == ' ' || c == '\t' || c == '\n' || c == '\r' then
        go cs [] (if cur.isEmpty then acc else String.ofList cur.reverse :: acc)
      else go cs (c :: cur) acc
  go s.toList [] []

def respond (line : String) : String :=
  let toks := tokenize line
  match (handle.run toks) with
  | some (s, []) => s
  | some (_, _) => "bad-request trailing"
  | none => "bad-request"

partial def loop (h : IO.FS.Stream) (out : IO.FS.Stream) : IO Unit := do
  let line ← h.getLine
  if line.isEmpty then return ()
  out.putStrLn (respond line)
  loop h out

def main : IO Unit := do
  let out ← IO.getStdout
  loop (← IO.getStdin) out
  out.flush
