/-
  Rank link for C02, end to end: ONE default (unconstrained, zero-cost) exact run of `r ≤ rank B` steps – or of
  more steps, e.g. the `min(n, m)` steps the code makes – ranks first `r` sensors whose rows are linearly
  independent.  Composes the per-step statement `full_rank_picks_nonzero` (Lemmas/RankLink.lean) with the
  prefix stability of the run (Lemmas/Greedy.lean, Lemmas/Masked.lean) and `leading_rows_independent` (C03).
-/
import PsVerif.Lemmas.RankLink
import PsVerif.Lemmas.Masked
namespace PsVerif
open Matrix

/-- the tracked permutation always has one entry per sensor -/
theorem greedyRun_size (costs : Nat → Rat) (mask : Mask) (B : RMat) (k : Nat) :
    (greedyRun costs mask B k).p.size = B.size := by
  unfold greedyRun
  exact greedyRunFrom_size _ _ _ _ _ _

/-- every entry of the tracked permutation is a sensor index -/
theorem greedyRun_entry_lt (costs : Nat → Rat) (mask : Mask) (B : RMat) (k i : Nat)
    (hi : i < (greedyRun costs mask B k).p.size) : (greedyRun costs mask B k).p[i] < B.size := by
  have hperm := greedyRunFrom_toList_perm gramSys costs mask (gram B) B.size k
  have hmem : (greedyRun costs mask B k).p[i] ∈ (greedyRun costs mask B k).p.toList :=
    Array.mem_toList_iff.mpr (Array.getElem_mem hi)
  unfold greedyRun at hmem ⊢
  exact List.mem_range.mp (hperm.mem_iff.mp hmem)

/-- **prefix stability (list form).** Later steps do not change what was ranked before: the first `j` entries
after `k ≥ j` steps are the first `j` entries after `j` steps. -/
theorem greedyRun_take_stable (costs : Nat → Rat) (mask : Mask) (B : RMat) (j k : Nat) (hjk : j ≤ k) :
    (greedyRun costs mask B k).p.toList.take j = (greedyRun costs mask B j).p.toList.take j := by
  unfold greedyRun
  exact greedyRunFrom_take_take gramSys costs mask (gram B) B.size j k hjk

/-- **prefix stability (entry form).** The pick of step `j` is entry `j` of every later state. -/
theorem greedyRun_getElem?_stable (costs : Nat → Rat) (mask : Mask) (B : RMat) (j k : Nat) (hjk : j < k) :
    (greedyRun costs mask B (j + 1)).p[j]? = (greedyRun costs mask B k).p[j]? := by
  unfold greedyRun
  exact (greedyRunFrom_prefix gramSys costs mask (gram B) B.size j k hjk).symm

/-- two runs of at least `j + 1` steps agree on entry `j` -/
theorem greedyRun_getElem?_stable' (costs : Nat → Rat) (mask : Mask) (B : RMat) (j k k' : Nat)
    (hjk : j < k) (hjk' : j < k') :
    (greedyRun costs mask B k).p[j]? = (greedyRun costs mask B k').p[j]? := by
  rw [← greedyRun_getElem?_stable costs mask B j k hjk, greedyRun_getElem?_stable costs mask B j k' hjk']

/-- the first `r ≤ n` entries of the ranking are `r` entries -/
theorem greedyRun_take_length (costs : Nat → Rat) (mask : Mask) (B : RMat) (k r : Nat) (hrn : r ≤ B.size) :
    ((greedyRun costs mask B k).p.toList.take r).length = r := by
  rw [List.length_take, Array.length_toList, greedyRun_size]
  omega

/-- **C02 (QR clause, one run): every leading pick is non-zero when ranked.** In ONE default run of `r ≤ rank B`
steps each of the `r` ranked sensors had non-zero residual against the sensors ranked before it *in that run*. -/
theorem qr_leading_picks_nonzero (B : RMat) (m : Nat) (hB : B.WF B.size m) (r : Nat)
    (hr : r ≤ Module.finrank ℚ (Submodule.span ℚ (Set.range fun a : Fin B.size => B.vec m a)))
    (hrn : r ≤ B.size) :
    let picks := (greedyRun (fun _ => 0) noMask B r).p.toList.take r
    ∀ j (hj : j < picks.length),
      mgsResid (B.vec m) (picks.take j) picks[j] ⬝ᵥ mgsResid (B.vec m) (picks.take j) picks[j] ≠ 0 := by
  intro picks j hj
  have hlen : picks.length = r := greedyRun_take_length _ _ B r r hrn
  have hjr : j < r := hlen ▸ hj
  -- the pick of step `j` of the run of `j + 1` steps is entry `j` of this run
  have hq : (greedyRun (fun _ => 0) noMask B (j + 1)).p[j]? = some picks[j] := by
    have h := greedyRunFrom_take_getElem? gramSys (fun _ => 0) noMask (gram B) B.size r j hjr
    unfold greedyRun
    rw [← h]
    exact List.getElem?_eq_getElem hj
  -- the sensors ranked before it are those of the run of `j` steps
  have htake : picks.take j = (greedyRun (fun _ => 0) noMask B j).p.toList.take j := by
    show ((greedyRun (fun _ => 0) noMask B r).p.toList.take r).take j = _
    rw [List.take_take, Nat.min_eq_left (Nat.le_of_lt hjr)]
    exact greedyRun_take_stable _ _ B j r (Nat.le_of_lt hjr)
  rw [htake]
  exact full_rank_picks_nonzero B m hB r hr j hjr (by omega) picks[j] hq

/-- **C02 (QR clause, one run).** The first `r` ranked sensors of ONE default run of `r` steps have linearly
independent rows whenever `rank B ≥ r`. -/
theorem qr_leading_rows_independent (B : RMat) (m : Nat) (hB : B.WF B.size m) (r : Nat)
    (hr : r ≤ Module.finrank ℚ (Submodule.span ℚ (Set.range fun a : Fin B.size => B.vec m a)))
    (hrn : r ≤ B.size) :
    let picks := (greedyRun (fun _ => 0) noMask B r).p.toList.take r
    LinearIndependent ℚ (fun i : Fin picks.length => B.vec m picks[i]) := by
  intro picks
  exact leading_rows_independent (B.vec m) picks (qr_leading_picks_nonzero B m hB r hr hrn)

/-- transport along an equality of pick lists -/
theorem linearIndependent_of_list_eq {m : Nat} (rows : Nat → Fin m → ℚ) {l l' : List Nat} (h : l = l')
    (hli : LinearIndependent ℚ (fun i : Fin l'.length => rows l'[i])) :
    LinearIndependent ℚ (fun i : Fin l.length => rows l[i]) := by
  subst h
  exact hli

/-- **C02 (QR clause, the ranking the code returns).** Running MORE steps (`k ≥ r`; the code makes
`k = min(n, m)`) leaves the first `r` entries as they are, so they are independent rows as well. -/
theorem qr_leading_rows_independent_of_le (B : RMat) (m : Nat) (hB : B.WF B.size m) (r : Nat)
    (hr : r ≤ Module.finrank ℚ (Submodule.span ℚ (Set.range fun a : Fin B.size => B.vec m a)))
    (hrn : r ≤ B.size) (k : Nat) (hrk : r ≤ k) :
    let picks := (greedyRun (fun _ => 0) noMask B k).p.toList.take r
    LinearIndependent ℚ (fun i : Fin picks.length => B.vec m picks[i]) := by
  intro picks
  have h : picks = (greedyRun (fun _ => 0) noMask B r).p.toList.take r :=
    greedyRun_take_stable _ _ B r k hrk
  exact linearIndependent_of_list_eq (B.vec m) h (qr_leading_rows_independent B m hB r hr hrn)

/-- … in particular for `qrModel B`, the ranking of the default optimizer (`kOf B = min(n, m)` steps) -/
theorem qrModel_leading_rows_independent (B : RMat) (m : Nat) (hB : B.WF B.size m) (r : Nat)
    (hr : r ≤ Module.finrank ℚ (Submodule.span ℚ (Set.range fun a : Fin B.size => B.vec m a)))
    (hrk : r ≤ kOf B) :
    let picks := (qrModel B).take r
    LinearIndependent ℚ (fun i : Fin picks.length => B.vec m picks[i]) := by
  have hrn : r ≤ B.size := le_trans hrk (Nat.min_le_left _ _)
  exact qr_leading_rows_independent_of_le B m hB r hr hrn (kOf B) hrk

/-- the same statement for the leading sensors given as a function: any `τ` that lists the first `r` entries
of a default run of `k ≥ r` steps selects linearly independent rows -/
theorem qr_leading_rows_independent_fn (B : RMat) (m : Nat) (hB : B.WF B.size m) (r : Nat)
    (hr : r ≤ Module.finrank ℚ (Submodule.span ℚ (Set.range fun a : Fin B.size => B.vec m a)))
    (hrn : r ≤ B.size) (k : Nat) (hrk : r ≤ k) (τ : Fin r → Nat)
    (hτ : ∀ i : Fin r, (greedyRun (fun _ => 0) noMask B k).p[i.val]? = some (τ i)) :
    LinearIndependent ℚ (fun i : Fin r => B.vec m (τ i)) := by
  have hli := qr_leading_rows_independent B m hB r hr hrn
  have hlen : ((greedyRun (fun _ => 0) noMask B r).p.toList.take r).length = r :=
    greedyRun_take_length _ _ B r r hrn
  have hcomp := hli.comp (Fin.cast hlen.symm) (Fin.cast_injective _)
  convert hcomp using 1
  funext i
  have h1 : ((greedyRun (fun _ => 0) noMask B r).p.toList.take r)[i.val]? = some (τ i) := by
    rw [List.getElem?_take, if_pos i.2, Array.getElem?_toList, ← hτ i]
    by_cases hk : k = r
    · rw [hk]
    · exact greedyRun_getElem?_stable' _ _ B i.val r k i.2 (by omega)
  have h2 := List.getElem?_eq_some_iff.mp h1
  obtain ⟨_, h3⟩ := h2
  simp only [Function.comp_apply]
  congr 1
  exact h3.symm

/-- the first `p ≤ n` entries of the default ranking after `k` steps, as sensor indices -/
def qrSensors (B : RMat) (k p : Nat) (hp : p ≤ B.size) : Fin p → Fin B.size := fun i =>
  ⟨(greedyRun (fun _ => 0) noMask B k).p[i.val]'(by rw [greedyRun_size]; omega),
    greedyRun_entry_lt _ _ B k i.val _⟩

theorem qrSensors_spec (B : RMat) (k p : Nat) (hp : p ≤ B.size) (i : Nat) (hi : i < p) :
    (greedyRun (fun _ => 0) noMask B k).p[i]? = some (qrSensors B k p hp ⟨i, hi⟩).val := by
  unfold qrSensors
  exact Array.getElem?_eq_getElem _

/-- the selected sensors are distinct (`qrSensors` is a prefix of a permutation) -/
theorem qrSensors_injective (B : RMat) (k p : Nat) (hp : p ≤ B.size) :
    Function.Injective (qrSensors B k p hp) := by
  intro i i' h
  have hnd : (greedyRun (fun _ => 0) noMask B k).p.toList.Nodup := by
    unfold greedyRun
    exact (greedyRunFrom_toList_perm gramSys _ _ (gram B) B.size k).nodup_iff.mpr List.nodup_range
  have hv := congrArg Fin.val h
  simp only [qrSensors] at hv
  have hsz := greedyRun_size (fun _ => 0) noMask B k
  have := (List.Nodup.getElem_inj_iff hnd (i := i.val) (j := i'.val)
    (hi := by rw [Array.length_toList]; omega) (hj := by rw [Array.length_toList]; omega)).mp
    (by simpa using hv)
  exact Fin.ext this

/-- for a well-formed `n × m` matrix with `m ≤ n` the code's `min(n, m)` steps are at least `m` steps -/
theorem le_kOf (B : RMat) (m : Nat) (hB : B.WF B.size m) (hmn : m ≤ B.size) : m ≤ kOf B := by
  unfold kOf RMat.nrows RMat.ncols
  by_cases h0 : 0 < B.size
  · have := hB.2 0 h0
    simp only [Array.getD_eq_getD_getElem?, Array.getElem?_eq_getElem h0, Option.getD_some, this]
    omega
  · omega

end PsVerif
