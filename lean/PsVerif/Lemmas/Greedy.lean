/-
  Helper lemmas: invariants of the generic greedy run (`greedyRunFrom`) for every residual
  system, cost vector and mask.  Core Lean only.
-/
import PsVerif.Model.Gram
import PsVerif.Lemmas.Argmax
namespace PsVerif

variable {σ : Type}

theorem applyPivot_perm (S : ResidSys σ) (st : GState σ) (j i : Nat) :
    (applyPivot S st j i).p.Perm st.p := by
  unfold applyPivot
  split
  · exact Array.swap_perm _ _
  · exact Array.Perm.refl _

theorem applyPivot_size (S : ResidSys σ) (st : GState σ) (j i : Nat) :
    (applyPivot S st j i).p.size = st.p.size := by
  unfold applyPivot
  split <;> simp

theorem applyPivot_getElem? (S : ResidSys σ) (st : GState σ) (j i : Nat)
    (hj : j < st.p.size) (hi : i < st.p.size) (k : Nat) :
    (applyPivot S st j i).p[k]? =
      if i = k then some st.p[j] else if j = k then some st.p[i] else st.p[k]? := by
  unfold applyPivot
  rw [dif_pos ⟨hj, hi⟩]
  exact Array.getElem?_swap _ _

theorem applyPivot_lin (S : ResidSys σ) (st : GState σ) (j i : Nat)
    (hj : j < st.p.size) (hi : i < st.p.size) :
    (applyPivot S st j i).lin = S.elim st.lin st.p[i] := by
  unfold applyPivot
  rw [dif_pos ⟨hj, hi⟩]

theorem applyPivot_prefix (S : ResidSys σ) (st : GState σ) (j i k : Nat) (hji : j ≤ i)
    (hk : k < j) : (applyPivot S st j i).p[k]? = st.p[k]? := by
  unfold applyPivot
  split
  · rename_i h
    rw [Array.getElem?_swap]
    rw [if_neg (by omega), if_neg (by omega)]
  · rfl

theorem greedyStep_perm (S : ResidSys σ) (costs : Nat → Rat) (mask : Mask) (st : GState σ)
    (j : Nat) : (greedyStep S costs mask st j).p.Perm st.p :=
  applyPivot_perm S st j _

theorem foldl_greedyStep_perm (S : ResidSys σ) (costs : Nat → Rat) (mask : Mask)
    (js : List Nat) (st : GState σ) :
    (js.foldl (greedyStep S costs mask) st).p.Perm st.p := by
  induction js generalizing st with
  | nil => exact Array.Perm.refl _
  | cons j js ih => exact (ih _).trans (greedyStep_perm S costs mask st j)

/-- (I1) the tracked index array stays a permutation of `0..n-1` -/
theorem greedyRunFrom_perm (S : ResidSys σ) (costs : Nat → Rat) (mask : Mask) (s0 : σ) (n k : Nat) :
    (greedyRunFrom S costs mask s0 n k).p.Perm (Array.range n) :=
  foldl_greedyStep_perm S costs mask _ _

theorem greedyRunFrom_size (S : ResidSys σ) (costs : Nat → Rat) (mask : Mask) (s0 : σ) (n k : Nat) :
    (greedyRunFrom S costs mask s0 n k).p.size = n := by
  have h := (greedyRunFrom_perm S costs mask s0 n k).size_eq
  simpa using h

theorem greedyRunFrom_toList_perm (S : ResidSys σ) (costs : Nat → Rat) (mask : Mask) (s0 : σ)
    (n k : Nat) : (greedyRunFrom S costs mask s0 n k).p.toList.Perm (List.range n) := by
  have h := (greedyRunFrom_perm S costs mask s0 n k).toList
  simpa using h

theorem greedyRunFrom_succ (S : ResidSys σ) (costs : Nat → Rat) (mask : Mask) (s0 : σ) (n k : Nat) :
    greedyRunFrom S costs mask s0 n (k + 1) =
      greedyStep S costs mask (greedyRunFrom S costs mask s0 n k) k := by
  unfold greedyRunFrom
  rw [List.range_succ, List.foldl_append]
  rfl

/-- a step at position `j` only touches positions `≥ j` -/
theorem greedyStep_prefix (S : ResidSys σ) (costs : Nat → Rat) (mask : Mask) (st : GState σ)
    (j i : Nat) (hi : i < j) :
    (greedyStep S costs mask st j).p[i]? = st.p[i]? :=
  applyPivot_prefix S st j _ i (Nat.le_add_right _ _) hi

/-- (I2) prefix stability: the pick of step `j` is entry `j` of every later state -/
theorem greedyRunFrom_prefix (S : ResidSys σ) (costs : Nat → Rat) (mask : Mask) (s0 : σ)
    (n j k : Nat) (hjk : j < k) :
    (greedyRunFrom S costs mask s0 n k).p[j]? = (greedyRunFrom S costs mask s0 n (j + 1)).p[j]? := by
  induction k with
  | zero => omega
  | succ k ih =>
    by_cases hjk' : j = k
    · subst hjk'; rfl
    · rw [greedyRunFrom_succ, greedyStep_prefix _ _ _ _ _ _ (by omega)]
      exact ih (by omega)

/-- the score list of step `j` has one entry per candidate -/
theorem candScores_length (S : ResidSys σ) (st : GState σ) (costs : Nat → Rat) (mask : Mask)
    (j : Nat) : (candScores S st costs mask j).length = st.p.size - j := by
  unfold candScores
  simp only [List.length_zipWith, List.length_drop, List.length_append, List.length_replicate,
    Array.length_toList]
  omega

/-- the offset chosen at a step `j` inside the array is in range -/
theorem greedyStep_off_lt (S : ResidSys σ) (costs : Nat → Rat) (mask : Mask) (st : GState σ)
    (j : Nat) (hj : j < st.p.size) :
    j + firstArgmaxBy scoreGe (candScores S st costs mask j) < st.p.size := by
  have hlen := candScores_length S st costs mask j
  have hne : candScores S st costs mask j ≠ [] := by
    intro h; rw [h] at hlen; simp at hlen; omega
  have := firstArgmaxBy_lt scoreGe _ hne
  omega

/-- the residual state after `k ≤ n` steps is the elimination of the first `k` picks, in order -/
theorem greedyRunFrom_lin (S : ResidSys σ) (costs : Nat → Rat) (mask : Mask) (s0 : σ)
    (n k : Nat) (hk : k ≤ n) :
    (greedyRunFrom S costs mask s0 n k).lin =
      ((greedyRunFrom S costs mask s0 n k).p.toList.take k).foldl S.elim s0 := by
  induction k with
  | zero => simp [greedyRunFrom]
  | succ k ih =>
    have ih := ih (by omega)
    have hsz := greedyRunFrom_size S costs mask s0 n k
    have hsz' := greedyRunFrom_size S costs mask s0 n (k + 1)
    rw [greedyRunFrom_succ] at hsz' ⊢
    generalize greedyRunFrom S costs mask s0 n k = st at *
    have hj : k < st.p.size := by omega
    have hoff := greedyStep_off_lt S costs mask st k hj
    unfold greedyStep at hsz' ⊢
    have hki : k ≤ k + firstArgmaxBy scoreGe (candScores S st costs mask k) :=
      Nat.le_add_right _ _
    generalize k + firstArgmaxBy scoreGe (candScores S st costs mask k) = i at *
    rw [applyPivot_lin S st k i hj hoff]
    have htake : (applyPivot S st k i).p.toList.take (k + 1) = st.p.toList.take k ++ [st.p[i]] := by
      rw [List.take_succ_eq_append_getElem (by simpa using (by omega : k < (applyPivot S st k i).p.size))]
      congr 1
      · apply List.ext_getElem?
        intro m
        rw [List.getElem?_take, List.getElem?_take]
        split
        · rw [Array.getElem?_toList, Array.getElem?_toList]
          exact applyPivot_prefix S st k i m hki (by assumption)
        · rfl
      · have h := applyPivot_getElem? S st k i hj hoff k
        rw [Array.getElem_toList]
        have hks : k < (applyPivot S st k i).p.size := by omega
        rw [Array.getElem?_eq_getElem hks] at h
        by_cases hik : i = k
        · subst hik; simp at h; rw [h]
        · rw [if_neg hik, if_pos rfl] at h
          simpa using h
    rw [htake, List.foldl_append, ← ih]
    rfl

/-- (I3) the candidates of step `j` are exactly the sensors not picked so far -/
theorem greedyRunFrom_cands (S : ResidSys σ) (costs : Nat → Rat) (mask : Mask) (s0 : σ)
    (n j : Nat) (c : Nat) :
    c ∈ (greedyRunFrom S costs mask s0 n j).p.toList.drop j ↔
      (c < n ∧ c ∉ (greedyRunFrom S costs mask s0 n j).p.toList.take j) := by
  have hperm := greedyRunFrom_toList_perm S costs mask s0 n j
  generalize (greedyRunFrom S costs mask s0 n j).p.toList = l at *
  have hnd : l.Nodup := hperm.nodup_iff.mpr List.nodup_range
  have hmem : ∀ x, x ∈ l ↔ x < n := by
    intro x; rw [hperm.mem_iff, List.mem_range]
  have hsplit : l.take j ++ l.drop j = l := List.take_append_drop j l
  rw [← hsplit] at hnd
  have hdisj := (List.nodup_append.mp hnd).2.2
  constructor
  · intro hc
    refine ⟨(hmem c).mp (List.mem_of_mem_drop hc), ?_⟩
    intro ht
    exact hdisj c ht c hc rfl
  · rintro ⟨hc, hnt⟩
    have : c ∈ l.take j ++ l.drop j := by rw [hsplit]; exact (hmem c).mpr hc
    rcases List.mem_append.mp this with h | h
    · exact absurd h hnt
    · exact h

theorem candScores_nonneg (S : ResidSys σ) (st : GState σ) (costs : Nat → Rat) (mask : Mask)
    (j : Nat) (hnn : ∀ c, 0 ≤ S.norm2 st.lin c) :
    ∀ x ∈ candScores S st costs mask j, 0 ≤ x.1 := by
  intro x hx
  unfold candScores at hx
  rw [List.mem_iff_getElem] at hx
  obtain ⟨m, hm, rfl⟩ := hx
  rw [List.getElem_zipWith]
  simp only
  split
  · exact Rat.le_refl
  · exact hnn _

/-- (I4)+(greedy rule) the pick of step `j < n` is the first candidate whose masked score
`√norm² − cost` is maximal.  `hnn` = squared norms are non-negative in the state reached
before the step (true of every state of a Gram system); `hord` = `scoreGe` is a total preorder on scores with non-negative first component
(proved from `geSqrt_iff` in Props/C04). -/
theorem greedy_pick_max (S : ResidSys σ) (costs : Nat → Rat) (mask : Mask) (s0 : σ)
    (hord : GeOrderOn (fun x : Score => 0 ≤ x.1) scoreGe)
    (n j : Nat) (hj : j < n)
    (hnn : ∀ c, 0 ≤ S.norm2 (greedyRunFrom S costs mask s0 n j).lin c) :
    let st := greedyRunFrom S costs mask s0 n j
    let sc := candScores S st costs mask j
    let off := firstArgmaxBy scoreGe sc
    ∃ (h : off < sc.length),
      (greedyRunFrom S costs mask s0 n (j + 1)).p[j]? = st.p[j + off]? ∧
      (∀ i (hi : i < sc.length), scoreGe sc[off] sc[i] = true) ∧
      (∀ i (hi : i < off), scoreGe (sc[i]'(Nat.lt_trans hi h)) sc[off] = false) := by
  intro st sc off
  have hsz : st.p.size = n := greedyRunFrom_size S costs mask s0 n j
  have hjs : j < st.p.size := by omega
  have hoff : j + off < st.p.size := greedyStep_off_lt S costs mask st j hjs
  have hlen : sc.length = st.p.size - j := candScores_length S st costs mask j
  have h : off < sc.length := by omega
  have hP := candScores_nonneg S st costs mask j hnn
  refine ⟨h, ?_, ?_, ?_⟩
  · rw [greedyRunFrom_succ]
    show (applyPivot S st j (j + off)).p[j]? = _
    rw [applyPivot_getElem? S st j (j + off) hjs hoff j]
    by_cases h0 : j + off = j
    · rw [if_pos h0]; simp [h0]
    · rw [if_neg h0, if_pos rfl]; simp
  · intro i hi
    exact firstArgmaxBy_max hord sc hP i hi h
  · intro i hi
    exact firstArgmaxBy_first hord sc hP i h hi

end PsVerif
