/-
  L1, whole loop: the elimination loop of `CCQR.fit` (and of `GQR.fit` on non-zero pivots) over ℝ, on the full matrix
  `R = Bᵀ` with columns indexed by SENSOR (the code's column swap only renames positions – `Model/Bookkeeping`), refines
  the iterated Schur complement of the exact model: after any sequence of pivots the Gram matrix of the rows not yet
  eliminated IS the model's state.  Consequently the column norms `dlens` the code computes at every step are, in exact
  real arithmetic, the square roots of the model's `norm2`, and the pivot decision `argmax (dlens − costs)` is the
  model's `firstArgmaxBy scoreGe`.
-/
import PsVerif.Lemmas.Householder
import PsVerif.Lemmas.GramAlg
import PsVerif.Lemmas.SqrtOrder
import PsVerif.Lemmas.Argmax
namespace PsVerif
open Matrix

variable {m n : ℕ}

/-- Gram entry of columns `a`, `b` over the rows not yet eliminated (`i ≥ row`):
`np.sum(R[row:, a] * R[row:, b])`; for `a = b` the square of the code's `dlens` entry -/
noncomputable def tailDot (R : Matrix (Fin m) (Fin n) ℝ) (row : ℕ) (a b : Fin n) : ℝ :=
  ∑ i : Fin m, if row ≤ i.val then R i a * R i b else 0

/-- `qr_reflector(R[row:, …])` for the chosen column `c`, padded with zeros above `row`:
`u = x/‖x‖; u[0] += sign(u[0]) + (u[0] == 0); u /= sqrt(abs(u[0]))` -/
noncomputable def reflectorAt (R : Matrix (Fin m) (Fin n) ℝ) (row : ℕ) (c : Fin n) : Fin m → ℝ :=
  let ρ := Real.sqrt (tailDot R row c c)
  let v0 : ℝ := ∑ i : Fin m, if i.val = row then R i c / ρ else 0
  let σ : ℝ := if v0 < 0 then -1 else 1
  fun i => (if i.val < row then 0 else if i.val = row then R i c / ρ + σ else R i c / ρ) / Real.sqrt |v0 + σ|

/-- one iteration of the loop body for pivot column (sensor) `c`.  Zero residual: the reflector is the zero vector, nothing
changes and `row` does not advance (CCQR after the zero-pivot fix).  Otherwise `R[row:, :] -= outer(u, u·R[row:, :])`,
`R[row+1:, c] = 0`, `row += 1`. -/
noncomputable def hhStep (st : Matrix (Fin m) (Fin n) ℝ × ℕ) (c : Fin n) : Matrix (Fin m) (Fin n) ℝ × ℕ :=
  if tailDot st.1 st.2 c c = 0 then st
  else
    (fun i a => if a = c ∧ st.2 < i.val then 0
                else st.1 i a - reflectorAt st.1 st.2 c i * ∑ k, reflectorAt st.1 st.2 c k * st.1 k a,
     st.2 + 1)

/-- the Schur step of the model on real Gram functions -/
noncomputable def schurR (G : Fin n → Fin n → ℝ) (c : Fin n) : Fin n → Fin n → ℝ :=
  if G c c = 0 then G else fun a b => G a b - G a c * G c b / G c c

/-! ### the one-step algebra on an arbitrary finite set `S` of active rows with pivot row `r ∈ S` -/
section core
variable {ι κ : Type*}

private noncomputable def gN (S : Finset ι) (x : ι → ℝ) : ℝ := ∑ j ∈ S, x j * x j
private noncomputable def gv (S : Finset ι) (x : ι → ℝ) (i : ι) : ℝ := x i / Real.sqrt (gN S x)
private noncomputable def gs (S : Finset ι) (r : ι) (x : ι → ℝ) : ℝ := if gv S x r < 0 then -1 else 1
/-- the reflector of the column `x` restricted to `S`, pivot coordinate `r` -/
private noncomputable def reflG [DecidableEq ι] (S : Finset ι) (r : ι) (x : ι → ℝ) (i : ι) : ℝ :=
  (if i = r then gv S x i + gs S r x else gv S x i) / Real.sqrt |gv S x r + gs S r x|

private lemma gs_sq (S : Finset ι) (r : ι) (x : ι → ℝ) : gs S r x ^ 2 = 1 := by
  unfold gs; split_ifs <;> norm_num

private lemma gs_mul (S : Finset ι) (r : ι) (x : ι → ℝ) : gs S r x * gv S x r = |gv S x r| := by
  unfold gs; split_ifs with h
  · rw [abs_of_neg h]; ring
  · rw [abs_of_nonneg (not_lt.mp h)]; ring

private lemma abs_add_gs (S : Finset ι) (r : ι) (x : ι → ℝ) :
    |gv S x r + gs S r x| = 1 + |gv S x r| := by
  unfold gs; split_ifs with h
  · rw [abs_of_neg h, abs_of_neg (by linarith)]; ring
  · have h' := not_lt.mp h
    rw [abs_of_nonneg h', abs_of_nonneg (by linarith)]; ring

private lemma reflG_eq [DecidableEq ι] (S : Finset ι) (r : ι) (x : ι → ℝ) (i : ι) :
    reflG S r x i = (if i = r then gv S x i + gs S r x else gv S x i) / Real.sqrt (1 + |gv S x r|) := by
  rw [← abs_add_gs]; rfl

private lemma gbeta_pos (S : Finset ι) (r : ι) (x : ι → ℝ) : 0 < 1 + |gv S x r| := by positivity

private lemma sum_gv_sq (S : Finset ι) (x : ι → ℝ) (hN : 0 < gN S x) : ∑ i ∈ S, gv S x i ^ 2 = 1 := by
  unfold gv
  simp only [div_pow]
  rw [← Finset.sum_div, Real.sq_sqrt hN.le]
  have : ∑ i ∈ S, x i ^ 2 = gN S x := by unfold gN; simp only [pow_two]
  rw [this]; exact div_self hN.ne'

private lemma gcol_eq (S : Finset ι) (x : ι → ℝ) (hN : 0 < gN S x) (k : ι) :
    x k = Real.sqrt (gN S x) * gv S x k := by
  have hρ' := Real.sqrt_pos.mpr hN
  unfold gv; field_simp

private lemma sum_erase_w [DecidableEq ι] (S : Finset ι) (r : ι) (f g : ι → ℝ) (F : ℝ → ι → ℝ) :
    ∑ i ∈ S.erase r, F (if i = r then f i else g i) i = ∑ i ∈ S.erase r, F (g i) i :=
  Finset.sum_congr rfl (fun i hi => by rw [if_neg (Finset.ne_of_mem_erase hi)])

private lemma reflG_norm [DecidableEq ι] (S : Finset ι) (r : ι) (hr : r ∈ S) (x : ι → ℝ) (hN : 0 < gN S x) :
    ∑ i ∈ S, reflG S r x i ^ 2 = 2 := by
  have hβ := gbeta_pos S r x
  simp only [reflG_eq, div_pow]
  rw [← Finset.sum_div, Real.sq_sqrt hβ.le, ← Finset.add_sum_erase S _ hr,
    sum_erase_w S r _ _ (fun w _ => w ^ 2), if_pos rfl]
  have h1 := sum_gv_sq S x hN
  rw [← Finset.add_sum_erase S _ hr] at h1
  rw [div_eq_iff hβ.ne']
  linear_combination h1 + 2 * gs_mul S r x + gs_sq S r x

private lemma reflG_dot [DecidableEq ι] (S : Finset ι) (r : ι) (hr : r ∈ S) (x : ι → ℝ) (hN : 0 < gN S x) :
    ∑ k ∈ S, reflG S r x k * x k = Real.sqrt (gN S x) * Real.sqrt (1 + |gv S x r|) := by
  have hβ := gbeta_pos S r x
  have hβ' := Real.sqrt_pos.mpr hβ
  have key : ∑ k ∈ S, (if k = r then gv S x k + gs S r x else gv S x k) * gv S x k
      = 1 + |gv S x r| := by
    have h1 := sum_gv_sq S x hN
    rw [← Finset.add_sum_erase S _ hr] at h1 ⊢
    rw [sum_erase_w S r _ _ (fun w i => w * gv S x i), if_pos rfl]
    simp only [pow_two] at h1
    linear_combination h1 + gs_mul S r x
  calc ∑ k ∈ S, reflG S r x k * x k
      = ∑ k ∈ S, Real.sqrt (gN S x) / Real.sqrt (1 + |gv S x r|) *
          ((if k = r then gv S x k + gs S r x else gv S x k) * gv S x k) := by
        refine Finset.sum_congr rfl (fun k _ => ?_)
        have hk := gcol_eq S x hN k
        rw [reflG_eq]
        linear_combination ((if k = r then gv S x k + gs S r x else gv S x k) / Real.sqrt (1 + |gv S x r|)) * hk
    _ = Real.sqrt (gN S x) / Real.sqrt (1 + |gv S x r|) * (1 + |gv S x r|) := by
        rw [← Finset.mul_sum, key]
    _ = Real.sqrt (gN S x) * Real.sqrt (1 + |gv S x r|) := by
        have := Real.mul_self_sqrt hβ.le
        rw [div_mul_eq_mul_div, div_eq_iff hβ'.ne']
        linear_combination (-Real.sqrt (gN S x)) * this

/-- the reflected pivot column vanishes on `S` away from the pivot coordinate -/
private lemma reflG_pivot [DecidableEq ι] (S : Finset ι) (r : ι) (hr : r ∈ S) (x : ι → ℝ) (hN : 0 < gN S x)
    (i : ι) (hi : i ≠ r) : x i - reflG S r x i * ∑ k ∈ S, reflG S r x k * x k = 0 := by
  have hβ' := Real.sqrt_pos.mpr (gbeta_pos S r x)
  rw [reflG_dot S r hr x hN, reflG_eq, if_neg hi]
  have hk := gcol_eq S x hN i
  rw [div_mul_eq_mul_div, sub_eq_zero, eq_div_iff hβ'.ne']
  linear_combination (Real.sqrt (1 + |gv S x r|)) * hk

/-- a reflection with `‖u‖² = 2` on `S` preserves the Gram entries over `S` -/
private lemma core_gram (S : Finset ι) (R : ι → κ → ℝ) (u : ι → ℝ) (hu : ∑ i ∈ S, u i ^ 2 = 2) (a b : κ) :
    ∑ i ∈ S, (R i a - u i * ∑ k ∈ S, u k * R k a) * (R i b - u i * ∑ k ∈ S, u k * R k b)
      = ∑ i ∈ S, R i a * R i b := by
  obtain ⟨sa, hsa⟩ : ∃ s, ∑ k ∈ S, u k * R k a = s := ⟨_, rfl⟩
  obtain ⟨sb, hsb⟩ : ∃ s, ∑ k ∈ S, u k * R k b = s := ⟨_, rfl⟩
  rw [hsa, hsb]
  have h : ∀ i, (R i a - u i * sa) * (R i b - u i * sb) =
      R i a * R i b - sb * (u i * R i a) - sa * (u i * R i b) + sa * sb * u i ^ 2 := by
    intro i; ring
  simp only [h, Finset.sum_add_distrib, Finset.sum_sub_distrib, ← Finset.mul_sum, hu, hsa, hsb]
  ring

/-- if column `c` of `A` vanishes on `S` away from `r`, dropping row `r` is the Schur complement -/
private lemma core_schur [DecidableEq ι] (S : Finset ι) (r : ι) (hr : r ∈ S) (A : ι → κ → ℝ) (c : κ)
    (hcol : ∀ i ∈ S.erase r, A i c = 0) (hpos : ∑ i ∈ S, A i c * A i c ≠ 0) (a b : κ) :
    ∑ i ∈ S.erase r, A i a * A i b =
      ∑ i ∈ S, A i a * A i b - (∑ i ∈ S, A i a * A i c) * (∑ i ∈ S, A i c * A i b) / ∑ i ∈ S, A i c * A i c := by
  have z1 : ∀ a : κ, ∑ i ∈ S.erase r, A i a * A i c = 0 := fun a =>
    Finset.sum_eq_zero (fun i hi => by rw [hcol i hi, mul_zero])
  have z2 : ∀ b : κ, ∑ i ∈ S.erase r, A i c * A i b = 0 := fun b =>
    Finset.sum_eq_zero (fun i hi => by rw [hcol i hi, zero_mul])
  have h1 : ∑ i ∈ S, A i a * A i c = A r a * A r c := by
    rw [← Finset.add_sum_erase S _ hr, z1, add_zero]
  have h2 : ∑ i ∈ S, A i c * A i b = A r c * A r b := by
    rw [← Finset.add_sum_erase S _ hr, z2, add_zero]
  have h3 : ∑ i ∈ S, A i c * A i c = A r c * A r c := by
    rw [← Finset.add_sum_erase S _ hr, z1, add_zero]
  rw [h3] at hpos
  have hx : A r c ≠ 0 := by
    intro h0; rw [h0] at hpos; simp at hpos
  rw [h1, h2, h3, ← Finset.add_sum_erase S (fun i => A i a * A i b) hr]
  field_simp
  ring

end core

/-! ### specialisation to the rows `i ≥ row` of the full matrix -/

private lemma tailDot_eq_sum (M : Matrix (Fin m) (Fin n) ℝ) (row : ℕ) (a b : Fin n) :
    tailDot M row a b = ∑ i ∈ Finset.univ.filter (fun i : Fin m => row ≤ i.val), M i a * M i b := by
  unfold tailDot; rw [Finset.sum_filter]

private lemma filter_succ_eq_erase (row : ℕ) (h : row < m) :
    Finset.univ.filter (fun i : Fin m => row + 1 ≤ i.val) =
      (Finset.univ.filter (fun i : Fin m => row ≤ i.val)).erase ⟨row, h⟩ := by
  ext i
  simp only [Finset.mem_filter, Finset.mem_univ, true_and, Finset.mem_erase, ne_eq, Fin.ext_iff]
  omega

private lemma tailDot_eq_zero_of_ge (M : Matrix (Fin m) (Fin n) ℝ) (row : ℕ) (h : m ≤ row) (a b : Fin n) :
    tailDot M row a b = 0 := by
  unfold tailDot
  exact Finset.sum_eq_zero (fun i _ => if_neg (by have := i.2; omega))

private lemma tailDot_self_nonneg (M : Matrix (Fin m) (Fin n) ℝ) (row : ℕ) (c : Fin n) :
    0 ≤ tailDot M row c c := by
  unfold tailDot
  exact Finset.sum_nonneg (fun i _ => by split_ifs; exacts [mul_self_nonneg _, le_refl _])

/-- the code's reflector is the abstract one on the active rows and zero above them -/
private lemma reflectorAt_eq (R : Matrix (Fin m) (Fin n) ℝ) (row : ℕ) (c : Fin n) (h : row < m) (i : Fin m) :
    reflectorAt R row c i =
      if row ≤ i.val then
        reflG (Finset.univ.filter (fun i : Fin m => row ≤ i.val)) ⟨row, h⟩ (fun k => R k c) i
      else 0 := by
  have hv0 : (∑ k : Fin m, if k.val = row then R k c / Real.sqrt (tailDot R row c c) else 0)
      = R ⟨row, h⟩ c / Real.sqrt (tailDot R row c c) := by
    rw [Finset.sum_eq_single (⟨row, h⟩ : Fin m)]
    · simp
    · intro k _ hk; rw [if_neg]; intro e; exact hk (Fin.ext e)
    · intro hh; exact absurd (Finset.mem_univ _) hh
  unfold reflectorAt
  simp only [hv0]
  rw [tailDot_eq_sum]
  by_cases h1 : row ≤ i.val
  · rw [if_pos h1, if_neg (not_lt.mpr h1)]
    unfold reflG gs gv gN
    by_cases h2 : i.val = row
    · have h3 : i = ⟨row, h⟩ := Fin.ext h2
      subst h3
      simp
    · have h3 : i ≠ ⟨row, h⟩ := fun e => h2 (by rw [e])
      rw [if_neg h2, if_neg h3]
  · rw [if_neg h1, if_pos (not_le.mp h1), zero_div]

/-- one step: the Gram matrix of the remaining rows after the step is the Schur complement of the one before -/
theorem hhStep_tailDot (R : Matrix (Fin m) (Fin n) ℝ) (row : ℕ) (c : Fin n) :
    tailDot (hhStep (R, row) c).1 (hhStep (R, row) c).2 = schurR (tailDot R row) c := by
  by_cases h0 : tailDot R row c c = 0
  · have e : hhStep (R, row) c = (R, row) := by
      unfold hhStep; rw [if_pos h0]
    rw [e]; unfold schurR; rw [if_pos h0]
  · have hrow : row < m := by
      by_contra hh
      exact h0 (tailDot_eq_zero_of_ge R row (not_lt.mp hh) c c)
    have e : hhStep (R, row) c =
        (fun i a => if a = c ∧ row < i.val then 0
                    else R i a - reflectorAt R row c i * ∑ k, reflectorAt R row c k * R k a, row + 1) := by
      unfold hhStep; rw [if_neg h0]
      rfl
    rw [e]; unfold schurR; rw [if_neg h0]
    funext a b
    simp only []
    refine (tailDot_eq_sum _ (row + 1) a b).trans ?_
    rw [filter_succ_eq_erase row hrow]
    set S : Finset (Fin m) := Finset.univ.filter (fun i : Fin m => row ≤ i.val) with hS
    set r : Fin m := ⟨row, hrow⟩ with hr
    have hrS : r ∈ S := by simp [hS, hr]
    set x : Fin m → ℝ := fun k => R k c with hx
    have hN : 0 < gN S x := by
      have : gN S x = tailDot R row c c := (tailDot_eq_sum R row c c).symm
      rw [this]; exact lt_of_le_of_ne (tailDot_self_nonneg R row c) (Ne.symm h0)
    set u : Fin m → ℝ := reflG S r x with hu'
    have hu : ∀ i, reflectorAt R row c i = if row ≤ i.val then u i else 0 := reflectorAt_eq R row c hrow
    have hdot : ∀ a, ∑ k, reflectorAt R row c k * R k a = ∑ k ∈ S, u k * R k a := by
      intro a
      rw [hS, Finset.sum_filter]
      refine Finset.sum_congr rfl (fun k _ => ?_)
      rw [hu]; split_ifs <;> simp
    have hpiv : ∀ i ∈ S.erase r, R i c - u i * ∑ k ∈ S, u k * R k c = 0 := fun i hi =>
      reflG_pivot S r hrS x hN i (Finset.ne_of_mem_erase hi)
    have hA : ∀ i ∈ S.erase r, ∀ a,
        (if a = c ∧ row < i.val then 0
         else R i a - reflectorAt R row c i * ∑ k, reflectorAt R row c k * R k a)
          = R i a - u i * ∑ k ∈ S, u k * R k a := by
      intro i hi a
      have hiS : row ≤ i.val := by
        have := Finset.mem_of_mem_erase hi
        simpa [hS] using this
      rw [hdot, hu, if_pos hiS]
      split_ifs with hc
      · rw [hc.1]; exact (hpiv i hi).symm
      · rfl
    rw [Finset.sum_congr rfl (fun i hi => by rw [hA i hi a, hA i hi b])]
    have hG : ∀ a b, ∑ i ∈ S, (R i a - u i * ∑ k ∈ S, u k * R k a) * (R i b - u i * ∑ k ∈ S, u k * R k b)
        = tailDot R row a b := by
      intro a b; rw [tailDot_eq_sum]; exact core_gram S R u (reflG_norm S r hrS x hN) a b
    have key := core_schur S r hrS (fun i a => R i a - u i * ∑ k ∈ S, u k * R k a) c hpiv
      (by rw [hG]; exact h0) a b
    simp only [hG] at key
    exact key

private lemma hhRun_tailDot_aux (picks : List (Fin n)) : ∀ st : Matrix (Fin m) (Fin n) ℝ × ℕ,
    tailDot (picks.foldl hhStep st).1 (picks.foldl hhStep st).2 = picks.foldl schurR (tailDot st.1 st.2) := by
  induction picks with
  | nil => intro st; rfl
  | cons c cs ih =>
    intro st
    obtain ⟨R, row⟩ := st
    rw [List.foldl_cons, List.foldl_cons, ih (hhStep (R, row) c), hhStep_tailDot]

/-- **whole loop.** After any sequence of pivots the Gram matrix of the rows not yet eliminated is the iterated Schur
complement of the initial Gram matrix. -/
theorem hhRun_tailDot (R0 : Matrix (Fin m) (Fin n) ℝ) (picks : List (Fin n)) :
    tailDot (picks.foldl hhStep (R0, 0)).1 (picks.foldl hhStep (R0, 0)).2 = picks.foldl schurR (tailDot R0 0) := by
  exact hhRun_tailDot_aux picks (R0, 0)

/-- the real matrix `R = Bᵀ` of a rational basis matrix `B` (`n` sensors × `m` modes) -/
noncomputable def transposeR (B : RMat) (m n : ℕ) : Matrix (Fin m) (Fin n) ℝ := fun i a => ((B.get a.val i.val : ℚ) : ℝ)

/-- the initial Gram matrix of the loop is the model's `gram B` -/
theorem tailDot_transposeR (B : RMat) (m : ℕ) (hB : B.WF B.size m) (a b : Fin B.size) :
    tailDot (transposeR B m B.size) 0 a b = (((gram B).get a.val b.val : ℚ) : ℝ) := by
  rw [gram_get B m hB a.val b.val a.2 b.2]
  unfold tailDot transposeR dotProduct RMat.vec
  simp only [Nat.zero_le, if_true, Rat.cast_sum, Rat.cast_mul]

/-- the real Schur step is the cast of the model's rational `schur` -/
theorem schurR_cast (G : RMat) (n : ℕ) (hG : G.WF n n) (c : Fin n) :
    schurR (fun a b : Fin n => ((G.get a.val b.val : ℚ) : ℝ)) c =
      fun a b : Fin n => (((schur G c.val).get a.val b.val : ℚ) : ℝ) := by
  unfold schurR
  by_cases h : G.get c.val c.val = 0
  · have h' : ((G.get c.val c.val : ℚ) : ℝ) = 0 := by rw [h, Rat.cast_zero]
    rw [if_pos h']
    funext a b
    rw [schur_get G n hG, if_pos h]
  · have h' : ¬ ((G.get c.val c.val : ℚ) : ℝ) = 0 := fun e => h (Rat.cast_eq_zero.mp e)
    rw [if_neg h']
    funext a b
    rw [schur_get G n hG, if_neg h, Rat.cast_sub, Rat.cast_div, Rat.cast_mul]

private lemma schurR_fold_cast (n : ℕ) (picks : List (Fin n)) : ∀ (G : RMat), G.WF n n →
    picks.foldl schurR (fun a b : Fin n => ((G.get a.val b.val : ℚ) : ℝ)) =
      fun a b : Fin n => ((((picks.map Fin.val).foldl schur G).get a.val b.val : ℚ) : ℝ) := by
  induction picks with
  | nil => intro G _; rfl
  | cons c cs ih =>
    intro G hG
    rw [List.foldl_cons, List.map_cons, List.foldl_cons, schurR_cast G n hG c,
      ih (schur G c.val) (schur_wf G n c.val hG)]

/-- **L1 refinement, whole loop.** Running the Householder loop of the code over ℝ on `Bᵀ` with any pivot sequence, the
squared column norms and all Gram entries of the rows not yet eliminated are exactly (the casts of) the entries of the
exact model's state after the same picks. -/
theorem householder_loop_refines_model (B : RMat) (m : ℕ) (hB : B.WF B.size m) (picks : List (Fin B.size))
    (a b : Fin B.size) :
    tailDot (picks.foldl hhStep (transposeR B m B.size, 0)).1 (picks.foldl hhStep (transposeR B m B.size, 0)).2 a b
      = ((((picks.map Fin.val).foldl schur (gram B)).get a.val b.val : ℚ) : ℝ) := by
  rw [hhRun_tailDot]
  have h0 : tailDot (transposeR B m B.size) 0 =
      fun a b : Fin B.size => (((gram B).get a.val b.val : ℚ) : ℝ) := by
    funext a b; exact tailDot_transposeR B m hB a b
  rw [h0, schurR_fold_cast B.size picks (gram B) (gram_wf B)]

/-- pivot decision of the code over ℝ: `np.argmax(dlens − costs)` = first index whose value no later one strictly exceeds -/
noncomputable def realArgmax (vals : List ℝ) : Nat :=
  firstArgmaxBy (fun x y => @decide (y ≤ x) (Classical.propDecidable _)) vals

/-- **the decisions agree.** For candidates with rational squared norms `n2 ≥ 0` and rational costs, the code's
`argmax(√n2 − cost)` over ℝ is the model's `firstArgmaxBy scoreGe`. -/
theorem realArgmax_eq_model (sc : List Score) (hnn : ∀ x ∈ sc, 0 ≤ x.1) :
    realArgmax (sc.map fun x => Real.sqrt ((x.1 : ℚ) : ℝ) - ((x.2 : ℚ) : ℝ)) = firstArgmaxBy scoreGe sc := by
  unfold realArgmax
  apply firstArgmaxBy_map scoreGe _ (fun x : Score => Real.sqrt ((x.1 : ℚ) : ℝ) - ((x.2 : ℚ) : ℝ)) sc
  intro x hx y hy
  rw [Bool.eq_iff_iff, scoreGe_iff x y (hnn x hx) (hnn y hy), decide_eq_true_iff]
  rfl

end PsVerif
