/-
  Helper lemmas: specification of `firstArgmaxBy` (numpy's argmax) for any "≥" test that is a
  total preorder on the elements that occur.  Core Lean only.
-/
import PsVerif.Model.Gram
namespace PsVerif

/-- `ge` is a total preorder on the elements satisfying `P`. -/
structure GeOrderOn {α : Type} (P : α → Prop) (ge : α → α → Bool) : Prop where
  total : ∀ a b, P a → P b → ge a b = true ∨ ge b a = true
  trans : ∀ a b c, P a → P b → P c → ge a b = true → ge b c = true → ge a c = true

theorem firstArgmaxByAux_lt {α : Type} (ge : α → α → Bool) :
    ∀ (xs : List α) (bi : Nat) (bv : α) (i : Nat), bi < i →
      firstArgmaxByAux ge bi bv i xs < i + xs.length := by
  intro xs
  induction xs with
  | nil => intro bi bv i h; simpa [firstArgmaxByAux] using h
  | cons x xs ih =>
    intro bi bv i h
    simp only [firstArgmaxByAux, List.length_cons]
    split
    · have := ih bi bv (i + 1) (by omega); omega
    · have := ih i x (i + 1) (by omega); omega

theorem firstArgmaxByAux_spec {α : Type} {P : α → Prop} {ge : α → α → Bool} (hge : GeOrderOn P ge)
    (l : List α) (hP : ∀ x ∈ l, P x) :
    ∀ (xs : List α) (bi i : Nat) (hbi : bi < i) (hil : i ≤ l.length) (_hxs : l.drop i = xs)
      (_hmax : ∀ k (hk : k < i), ge (l[bi]) (l[k]) = true)
      (_hfirst : ∀ k (hk : k < bi), ge (l[k]) (l[bi]) = false),
      ∃ (hr : firstArgmaxByAux ge bi l[bi] i xs < l.length),
        (∀ k (hk : k < l.length), ge (l[firstArgmaxByAux ge bi l[bi] i xs]) l[k] = true) ∧
        (∀ k (hk : k < firstArgmaxByAux ge bi l[bi] i xs),
          ge (l[k]) (l[firstArgmaxByAux ge bi l[bi] i xs]) = false) := by
  intro xs
  induction xs with
  | nil =>
    intro bi i hbi hil hxs hmax hfirst
    have hlen : l.length ≤ i := by
      have := congrArg List.length hxs
      simp at this; omega
    simp only [firstArgmaxByAux]
    refine ⟨by omega, ?_, ?_⟩
    · intro k hk; exact hmax k (by omega)
    · intro k hk; exact hfirst k hk
  | cons x xs ih =>
    intro bi i hbi hil hxs hmax hfirst
    have hlen : i < l.length := by
      have := congrArg List.length hxs
      simp at this; omega
    rw [List.drop_eq_getElem_cons hlen] at hxs
    have hx : l[i] = x := (List.cons.inj hxs).1
    have hxs' : l.drop (i + 1) = xs := (List.cons.inj hxs).2
    subst hx
    simp only [firstArgmaxByAux]
    split
    · rename_i hc
      refine ih bi (i + 1) (by omega) (by omega) hxs' ?_ hfirst
      intro k hk
      by_cases hki : k = i
      · subst hki; exact hc
      · exact hmax k (by omega)
    · rename_i hc
      have hPi : P l[i] := hP _ (List.getElem_mem _)
      have hPb : P l[bi] := hP _ (List.getElem_mem _)
      have hib : ge l[i] l[bi] = true := by
        rcases hge.total l[i] l[bi] hPi hPb with h | h
        · exact h
        · exact absurd h hc
      refine ih i (i + 1) (by omega) (by omega) hxs' ?_ ?_
      · intro k hk
        by_cases hki : k = i
        · subst hki
          rcases hge.total l[k] l[k] hPi hPi with h | h <;> exact h
        · exact hge.trans _ _ _ hPi hPb (hP _ (List.getElem_mem _)) hib (hmax k (by omega))
      · intro k hk
        cases hkk : ge l[k] l[i] with
        | false => rfl
        | true =>
          exact absurd (hge.trans _ _ _ hPb (hP _ (List.getElem_mem _)) hPi (hmax k hk) hkk) hc

theorem firstArgmaxBy_spec {α : Type} {P : α → Prop} {ge : α → α → Bool} (hge : GeOrderOn P ge)
    (xs : List α) (hP : ∀ x ∈ xs, P x) (hne : xs ≠ []) :
    ∃ (hr : firstArgmaxBy ge xs < xs.length),
      (∀ k (hk : k < xs.length), ge (xs[firstArgmaxBy ge xs]) xs[k] = true) ∧
      (∀ k (hk : k < firstArgmaxBy ge xs), ge (xs[k]) (xs[firstArgmaxBy ge xs]) = false) := by
  cases xs with
  | nil => exact absurd rfl hne
  | cons x xs =>
    have h := firstArgmaxByAux_spec hge (x :: xs) hP xs 0 1 (by omega) (by simp) (by simp)
      (by
        intro k hk
        have : k = 0 := by omega
        subst this
        have hPx : P x := hP x (by simp)
        simp only [List.getElem_cons_zero]
        rcases hge.total x x hPx hPx with h | h <;> exact h)
      (by intro k hk; omega)
    simpa [firstArgmaxBy] using h

theorem firstArgmaxBy_lt {α : Type} (ge : α → α → Bool) (xs : List α) (h : xs ≠ []) :
    firstArgmaxBy ge xs < xs.length := by
  cases xs with
  | nil => exact absurd rfl h
  | cons x xs =>
    have := firstArgmaxByAux_lt ge xs 0 x 1 (by omega)
    simp only [firstArgmaxBy, List.length_cons]; omega

/-- the element at the returned index is `ge` every element -/
theorem firstArgmaxBy_max {α : Type} {P : α → Prop} {ge : α → α → Bool} (hge : GeOrderOn P ge)
    (xs : List α) (hP : ∀ x ∈ xs, P x) (i : Nat) (hi : i < xs.length)
    (h0 : firstArgmaxBy ge xs < xs.length) :
    ge (xs[firstArgmaxBy ge xs]'h0) xs[i] = true := by
  have hne : xs ≠ [] := by intro h; subst h; simp at hi
  obtain ⟨_, h1, _⟩ := firstArgmaxBy_spec hge xs hP hne
  exact h1 i hi

/-- it is the *first* such index: every earlier element is strictly beaten -/
theorem firstArgmaxBy_first {α : Type} {P : α → Prop} {ge : α → α → Bool} (hge : GeOrderOn P ge)
    (xs : List α) (hP : ∀ x ∈ xs, P x) (i : Nat) (h0 : firstArgmaxBy ge xs < xs.length)
    (hi : i < firstArgmaxBy ge xs) :
    ge (xs[i]'(Nat.lt_trans hi h0)) (xs[firstArgmaxBy ge xs]'h0) = false := by
  have hne : xs ≠ [] := by intro h; subst h; simp at h0
  obtain ⟨_, _, h2⟩ := firstArgmaxBy_spec hge xs hP hne
  exact h2 i hi

theorem firstArgmaxByAux_map {α β : Type} (ge : α → α → Bool) (ge' : β → β → Bool) (f : α → β) :
    ∀ (xs : List α) (bi : Nat) (bv : α) (i : Nat),
      (∀ x ∈ bv :: xs, ∀ y ∈ bv :: xs, ge' (f x) (f y) = ge x y) →
      firstArgmaxByAux ge' bi (f bv) i (xs.map f) = firstArgmaxByAux ge bi bv i xs := by
  intro xs
  induction xs with
  | nil => intro bi bv i _; rfl
  | cons x xs ih =>
    intro bi bv i h
    simp only [List.map_cons, firstArgmaxByAux]
    rw [h bv (by simp) x (by simp)]
    split
    · exact ih bi bv (i + 1) (by
        intro a ha b hb
        exact h a (by simp at ha ⊢; rcases ha with ha | ha <;> simp [ha])
          b (by simp at hb ⊢; rcases hb with hb | hb <;> simp [hb]))
    · exact ih i x (i + 1) (by
        intro a ha b hb
        exact h a (by simp at ha ⊢; rcases ha with ha | ha <;> simp [ha])
          b (by simp at hb ⊢; rcases hb with hb | hb <;> simp [hb]))

/-- the result only depends on the comparison outcomes: mapping the elements through `f`
with `ge' (f x) (f y) = ge x y` does not change the index -/
theorem firstArgmaxBy_map {α β : Type} (ge : α → α → Bool) (ge' : β → β → Bool) (f : α → β)
    (xs : List α) (h : ∀ x ∈ xs, ∀ y ∈ xs, ge' (f x) (f y) = ge x y) :
    firstArgmaxBy ge' (xs.map f) = firstArgmaxBy ge xs := by
  cases xs with
  | nil => rfl
  | cons x xs => exact firstArgmaxByAux_map ge ge' f xs 0 x 1 h

end PsVerif
