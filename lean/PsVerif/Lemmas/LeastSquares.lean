/-
  Helper lemmas (Mathlib): least squares over an ordered field through the normal equations.
  `M` = sensor rows of the basis matrix (p sensors × m modes), `B` = basis matrix (n × m).
-/
import Mathlib.LinearAlgebra.Matrix.DotProduct
import Mathlib.Data.Matrix.Mul
import Mathlib.Tactic.Ring
import Mathlib.Tactic.Linarith
import Mathlib.Tactic.Abel
import Mathlib.Tactic.FieldSimp
import Mathlib.Algebra.BigOperators.Field
import Mathlib.Algebra.Order.Field.Rat
namespace PsVerif
open Matrix

variable {p m n : ℕ}

/-- `c` solves the normal equations of `min ‖M c − y‖` -/
def NormalEq (M : Matrix (Fin p) (Fin m) ℚ) (y : Fin p → ℚ) (c : Fin m → ℚ) : Prop :=
  Mᵀ *ᵥ (M *ᵥ c) = Mᵀ *ᵥ y

/-- squared Euclidean norm -/
def sq (v : Fin p → ℚ) : ℚ := v ⬝ᵥ v

theorem sq_nonneg' (v : Fin p → ℚ) : 0 ≤ sq v := by
  unfold sq dotProduct
  exact Finset.sum_nonneg (fun i _ => mul_self_nonneg _)

theorem sq_eq_zero_iff (v : Fin p → ℚ) : sq v = 0 ↔ v = 0 := by
  unfold sq
  exact dotProduct_self_eq_zero

/-- adjointness: `(M d) ⬝ w = d ⬝ (Mᵀ w)` -/
theorem mulVec_dot_adj (M : Matrix (Fin p) (Fin m) ℚ) (d : Fin m → ℚ) (w : Fin p → ℚ) :
    (M *ᵥ d) ⬝ᵥ w = d ⬝ᵥ (Mᵀ *ᵥ w) := by
  rw [dotProduct_comm, Matrix.dotProduct_mulVec, ← Matrix.mulVec_transpose, dotProduct_comm]

/-- Pythagoras: orthogonal summands -/
theorem sq_add_of_orth (u v : Fin p → ℚ) (h : v ⬝ᵥ u = 0) : sq (u + v) = sq u + sq v := by
  unfold sq
  rw [add_dotProduct, dotProduct_add, dotProduct_add, h, dotProduct_comm u v, h]
  ring

/-- the residual of a solution of the normal equations is orthogonal to the range of `M` -/
theorem normalEq_orth (M : Matrix (Fin p) (Fin m) ℚ) (y : Fin p → ℚ) (c : Fin m → ℚ)
    (h : NormalEq M y c) (d : Fin m → ℚ) : (M *ᵥ d) ⬝ᵥ (M *ᵥ c - y) = 0 := by
  have h0 : Mᵀ *ᵥ (M *ᵥ c - y) = 0 := by
    rw [Matrix.mulVec_sub]; unfold NormalEq at h; rw [h, sub_self]
  rw [mulVec_dot_adj, h0, dotProduct_zero]

/-- **normal equations ⇒ least-squares optimal** (Pythagoras) -/
theorem ls_optimal (M : Matrix (Fin p) (Fin m) ℚ) (y : Fin p → ℚ) (c : Fin m → ℚ)
    (h : NormalEq M y c) (c' : Fin m → ℚ) : sq (M *ᵥ c - y) ≤ sq (M *ᵥ c' - y) := by
  have e : M *ᵥ c' - y = (M *ᵥ c - y) + M *ᵥ (c' - c) := by
    rw [Matrix.mulVec_sub]; abel
  rw [e, sq_add_of_orth _ _ (normalEq_orth M y c h (c' - c))]
  have := sq_nonneg' (M *ᵥ (c' - c))
  linarith

/-- independent columns (full column rank): the normal equations have at most one solution -/
theorem ls_unique (M : Matrix (Fin p) (Fin m) ℚ) (hinj : Function.Injective M.mulVec)
    (y : Fin p → ℚ) (c c' : Fin m → ℚ) (h : NormalEq M y c) (h' : NormalEq M y c') : c = c' := by
  unfold NormalEq at h h'
  have h0 : Mᵀ *ᵥ (M *ᵥ (c - c')) = 0 := by
    rw [Matrix.mulVec_sub, Matrix.mulVec_sub, h, h', sub_self]
  have h1 : sq (M *ᵥ (c - c')) = 0 := by
    unfold sq
    rw [mulVec_dot_adj, h0, dotProduct_zero]
  have h2 : M *ᵥ (c - c') = 0 := (sq_eq_zero_iff _).1 h1
  have h3 : c - c' = 0 := hinj (by rw [h2, Matrix.mulVec_zero])
  exact sub_eq_zero.1 h3

/-- **in-span signals are reproduced**: if the measurements are `M a`, the coefficients are `a` -/
theorem ls_recovers (M : Matrix (Fin p) (Fin m) ℚ) (hinj : Function.Injective M.mulVec)
    (a c : Fin m → ℚ) (h : NormalEq M (M *ᵥ a) c) : c = a := by
  exact ls_unique M hinj (M *ᵥ a) c a h rfl

/-- independent rows (full row rank, no more sensors than modes): every solution of the normal
equations interpolates the measurements -/
theorem ls_interpolates (M : Matrix (Fin p) (Fin m) ℚ) (hrow : Function.Injective Mᵀ.mulVec)
    (y : Fin p → ℚ) (c : Fin m → ℚ) (h : NormalEq M y c) : M *ᵥ c = y := by
  have h0 : Mᵀ *ᵥ (M *ᵥ c - y) = 0 := by
    rw [Matrix.mulVec_sub]; unfold NormalEq at h; rw [h, sub_self]
  have h1 : M *ᵥ c - y = 0 := hrow (by rw [h0, Matrix.mulVec_zero])
  exact sub_eq_zero.1 h1

/-- the normal equations are linear in `(y, c)` -/
theorem normalEq_linear (M : Matrix (Fin p) (Fin m) ℚ) (y₁ y₂ : Fin p → ℚ) (c₁ c₂ : Fin m → ℚ)
    (h₁ : NormalEq M y₁ c₁) (h₂ : NormalEq M y₂ c₂) (α β : ℚ) :
    NormalEq M (α • y₁ + β • y₂) (α • c₁ + β • c₂) := by
  unfold NormalEq at *
  rw [Matrix.mulVec_add, Matrix.mulVec_add, Matrix.mulVec_add, Matrix.mulVec_smul,
    Matrix.mulVec_smul, Matrix.mulVec_smul, Matrix.mulVec_smul, Matrix.mulVec_smul,
    Matrix.mulVec_smul, h₁, h₂]

/-- minimum-norm form `c = Mᵀ z` with `M Mᵀ z = y`: it solves `M c = y`, hence the normal
equations, and has the smallest norm among all solutions of `M c' = y` -/
theorem minnorm_spec (M : Matrix (Fin p) (Fin m) ℚ) (y : Fin p → ℚ) (z : Fin p → ℚ)
    (hz : M *ᵥ (Mᵀ *ᵥ z) = y) :
    M *ᵥ (Mᵀ *ᵥ z) = y ∧ NormalEq M y (Mᵀ *ᵥ z) ∧
      ∀ c' : Fin m → ℚ, M *ᵥ c' = y → (Mᵀ *ᵥ z) ⬝ᵥ (Mᵀ *ᵥ z) ≤ c' ⬝ᵥ c' := by
  refine ⟨hz, ?_, ?_⟩
  · unfold NormalEq; rw [hz]
  · intro c' hc'
    have hk : M *ᵥ (c' - Mᵀ *ᵥ z) = 0 := by
      rw [Matrix.mulVec_sub, hz, hc', sub_self]
    have horth : (c' - Mᵀ *ᵥ z) ⬝ᵥ (Mᵀ *ᵥ z) = 0 := by
      rw [← mulVec_dot_adj, hk, zero_dotProduct]
    have e : c' = Mᵀ *ᵥ z + (c' - Mᵀ *ᵥ z) := by abel
    have hp := sq_add_of_orth (Mᵀ *ᵥ z) (c' - Mᵀ *ᵥ z) horth
    rw [← e] at hp
    have := sq_nonneg' (c' - Mᵀ *ᵥ z)
    unfold sq at hp this
    linarith

/-- the minimum-norm solution is unique -/
theorem minnorm_unique (M : Matrix (Fin p) (Fin m) ℚ) (y : Fin p → ℚ) (z z' : Fin p → ℚ)
    (hz : M *ᵥ (Mᵀ *ᵥ z) = y) (hz' : M *ᵥ (Mᵀ *ᵥ z') = y) : Mᵀ *ᵥ z = Mᵀ *ᵥ z' := by
  have hk : M *ᵥ (Mᵀ *ᵥ z - Mᵀ *ᵥ z') = 0 := by
    rw [Matrix.mulVec_sub, hz, hz', sub_self]
  have e : Mᵀ *ᵥ z - Mᵀ *ᵥ z' = Mᵀ *ᵥ (z - z') := by rw [Matrix.mulVec_sub]
  have h1 : sq (Mᵀ *ᵥ z - Mᵀ *ᵥ z') = 0 := by
    unfold sq
    nth_rewrite 2 [e]
    rw [← mulVec_dot_adj, hk, zero_dotProduct]
  exact sub_eq_zero.1 ((sq_eq_zero_iff _).1 h1)

/-- relative error: dividing the difference by the norm of the data scales its squared norm -/
theorem rel_error_sq (d q : Fin p → ℚ) (s : ℚ) (hs : s ≠ 0) :
    sq (fun i => (d i - q i) / s) = sq (fun i => d i - q i) / (s * s) := by
  unfold sq dotProduct
  rw [Finset.sum_div]
  refine Finset.sum_congr rfl (fun i _ => ?_)
  field_simp

/-- selection matrix of a sensor list: row `i` is the unit vector of sensor `σ i` -/
def selMatrix (σ : Fin p → Fin n) : Matrix (Fin p) (Fin n) ℚ := fun i j => if σ i = j then 1 else 0

/-- `C · Φ` gathers the sensor rows of the basis matrix -/
theorem gather_eq_selection_mul (σ : Fin p → Fin n) (B : Matrix (Fin n) (Fin m) ℚ) :
    selMatrix σ * B = fun i j => B (σ i) j := by
  ext i j
  simp [selMatrix, Matrix.mul_apply]

end PsVerif
