/-
  Helper lemmas (Mathlib): the array-level Gram / Schur model is the Gram matrix of the
  modified-Gram–Schmidt residual vectors.
-/
import Mathlib.LinearAlgebra.Matrix.DotProduct
import Mathlib.Tactic.Ring
import Mathlib.Algebra.BigOperators.Fin
import Mathlib.Tactic.FieldSimp
import Mathlib.Tactic.Linarith
import Mathlib.Algebra.Order.Field.Rat
import Mathlib.LinearAlgebra.LinearIndependent.Defs
import Mathlib.LinearAlgebra.Span.Basic
import Mathlib.LinearAlgebra.LinearIndependent.Lemmas
import PsVerif.Model.Gram
namespace PsVerif
open Matrix

/-- `M` has `n` rows, each of length `m` -/
def RMat.WF (M : RMat) (n m : Nat) : Prop := M.size = n ∧ ∀ i (h : i < M.size), (M[i]).size = m

/-- row `a` as a vector of `m` rational coefficients -/
def RMat.vec (M : RMat) (m : Nat) (a : Nat) : Fin m → ℚ := fun i => M.get a i.val

theorem RMat.get_ofFn (n m : Nat) (f : Nat → Nat → Rat) (i j : Nat) :
    (RMat.ofFn n m f).get i j = if i < n ∧ j < m then f i j else 0 := by
  unfold RMat.get RMat.ofFn
  by_cases hi : i < n <;> by_cases hj : j < m <;> simp [Array.getD_eq_getD_getElem?, hi, hj]

theorem RMat.ofFn_wf (n m : Nat) (f : Nat → Nat → Rat) : (RMat.ofFn n m f).WF n m := by
  unfold RMat.WF RMat.ofFn
  simp

theorem RMat.get_eq_zero_of_ge {M : RMat} {n m : Nat} (h : M.WF n m) (i j : Nat)
    (hij : n ≤ i ∨ m ≤ j) : M.get i j = 0 := by
  obtain ⟨h1, h2⟩ := h
  unfold RMat.get
  by_cases hi : i < M.size
  · have := h2 i hi
    rcases hij with hij | hij
    · omega
    · simp [Array.getD_eq_getD_getElem?, hi]
      have : ¬ j < (M[i]).size := by omega
      simp [this]
  · simp [Array.getD_eq_getD_getElem?, hi]

theorem gram_wf (B : RMat) : (gram B).WF B.size B.size := RMat.ofFn_wf _ _ _

theorem dotL_eq_sum : ∀ (m : Nat) (l1 l2 : List Rat), l1.length = m → l2.length = m →
    dotL l1 l2 = ∑ i : Fin m, l1.getD i 0 * l2.getD i 0
  | 0, [], [], _, _ => by simp [dotL]
  | m+1, a :: as, b :: bs, h1, h2 => by
    simp only [List.length_cons, Nat.add_right_cancel_iff] at h1 h2
    rw [dotL, dotL_eq_sum m as bs h1 h2, Fin.sum_univ_succ]
    simp

/-- entries of the Gram matrix are dot products of sensor rows -/
theorem gram_get (B : RMat) (m : Nat) (hB : B.WF B.size m) (a b : Nat)
    (ha : a < B.size) (hb : b < B.size) :
    (gram B).get a b = B.vec m a ⬝ᵥ B.vec m b := by
  unfold gram
  rw [RMat.get_ofFn, if_pos ⟨ha, hb⟩]
  have h1 : (B.row a).length = m := by
    unfold RMat.row; simp [Array.getD_eq_getD_getElem?, ha, hB.2 a ha]
  have h2 : (B.row b).length = m := by
    unfold RMat.row; simp [Array.getD_eq_getD_getElem?, hb, hB.2 b hb]
  rw [dotL_eq_sum m _ _ h1 h2]
  unfold dotProduct RMat.vec RMat.get RMat.row
  apply Finset.sum_congr rfl
  intro i _
  simp [Array.getD_eq_getD_getElem?, List.getD_eq_getElem?_getD]

theorem schur_wf (G : RMat) (n q : Nat) (hG : G.WF n n) : (schur G q).WF n n := by
  unfold schur
  simp only
  split
  · exact hG
  · rw [hG.1]; exact RMat.ofFn_wf _ _ _

/-- entries after one Schur-complement step -/
theorem schur_get (G : RMat) (n : Nat) (hG : G.WF n n) (q a b : Nat) :
    (schur G q).get a b =
      if G.get q q = 0 then G.get a b else G.get a b - G.get a q * G.get q b / G.get q q := by
  unfold schur
  simp only
  split
  · rfl
  · rw [RMat.get_ofFn, hG.1]
    split
    · rfl
    · rename_i h
      have : n ≤ a ∨ n ≤ b := by omega
      rcases this with h | h
      · rw [RMat.get_eq_zero_of_ge hG a b (Or.inl h), RMat.get_eq_zero_of_ge hG a q (Or.inl h)]; simp
      · rw [RMat.get_eq_zero_of_ge hG a b (Or.inr h), RMat.get_eq_zero_of_ge hG q b (Or.inr h)]; simp

/-- modified Gram–Schmidt deflation of `a` against the residual direction `q`
(nothing is removed when `q` is the zero vector) -/
def deflate {m : Nat} (q a : Fin m → ℚ) : Fin m → ℚ :=
  if q ⬝ᵥ q = 0 then a else a - ((a ⬝ᵥ q) / (q ⬝ᵥ q)) • q

/-- residual sensor rows after ranking the sensors `picks` in that order: each pick deflates
every row against the *current* residual of the picked sensor -/
def mgsResid {m : Nat} (rows : Nat → Fin m → ℚ) : List Nat → (Nat → Fin m → ℚ)
  | [] => rows
  | q :: qs => mgsResid (fun a => deflate (rows q) (rows a)) qs

theorem dot_self_nonneg {m : Nat} (q : Fin m → ℚ) : 0 ≤ q ⬝ᵥ q :=
  Finset.sum_nonneg (fun _ _ => mul_self_nonneg _)

theorem deflate_dot {m : Nat} (q a b : Fin m → ℚ) (hq : q ⬝ᵥ q ≠ 0) :
    deflate q a ⬝ᵥ deflate q b = a ⬝ᵥ b - (a ⬝ᵥ q) * (q ⬝ᵥ b) / (q ⬝ᵥ q) := by
  unfold deflate
  rw [if_neg hq, if_neg hq]
  simp only [sub_dotProduct, dotProduct_sub, smul_dotProduct, dotProduct_smul, smul_eq_mul,
    dotProduct_comm b q]
  field_simp
  ring

theorem deflate_orth {m : Nat} (q a : Fin m → ℚ) (hq : q ⬝ᵥ q ≠ 0) : deflate q a ⬝ᵥ q = 0 := by
  unfold deflate
  rw [if_neg hq]
  simp only [sub_dotProduct, smul_dotProduct, smul_eq_mul]
  field_simp
  ring

theorem deflate_norm_le {m : Nat} (q a : Fin m → ℚ) :
    deflate q a ⬝ᵥ deflate q a ≤ a ⬝ᵥ a := by
  by_cases hq : q ⬝ᵥ q = 0
  · unfold deflate; rw [if_pos hq]
  · rw [deflate_dot q a a hq, dotProduct_comm q a]
    have h1 : 0 < q ⬝ᵥ q := lt_of_le_of_ne (dot_self_nonneg q) (Ne.symm hq)
    have h2 : 0 ≤ (a ⬝ᵥ q) * (a ⬝ᵥ q) / (q ⬝ᵥ q) :=
      div_nonneg (mul_self_nonneg _) h1.le
    linarith

theorem schur_fold_aux {m : Nat} (n : Nat) : ∀ (picks : List Nat) (G : RMat) (rows : Nat → Fin m → ℚ),
    G.WF n n → (∀ a b, a < n → b < n → G.get a b = rows a ⬝ᵥ rows b) →
    (∀ q ∈ picks, q < n) →
    ∀ a b, a < n → b < n →
      (picks.foldl schur G).get a b = mgsResid rows picks a ⬝ᵥ mgsResid rows picks b
  | [], G, rows, _, hG, _ => by simpa [mgsResid] using hG
  | q :: qs, G, rows, hwf, hG, hp => by
    rw [List.foldl_cons, mgsResid]
    have hq : q < n := hp q (by simp)
    apply schur_fold_aux n qs (schur G q) _ (schur_wf G n q hwf)
    · intro a b ha hb
      rw [schur_get G n hwf, hG q q hq hq, hG a b ha hb, hG a q ha hq, hG q b hq hb]
      split
      · rename_i h0
        simp only [deflate, if_pos h0]
      · rename_i h0
        rw [deflate_dot _ _ _ h0]
    · intro x hx
      exact hp x (by simp [hx])

theorem schur_fold_wf_aux (n : Nat) : ∀ (picks : List Nat) (G : RMat), G.WF n n →
    (picks.foldl schur G).WF n n
  | [], _, h => h
  | q :: qs, G, h => schur_fold_wf_aux n qs (schur G q) (schur_wf G n q h)

/-- **Schur diagonal = squared MGS residual.** The state reached by eliminating `picks` from
the Gram matrix of `B` is the Gram matrix of the MGS residual rows. -/
theorem schur_fold_eq_mgs (B : RMat) (m : Nat) (hB : B.WF B.size m) (picks : List Nat)
    (hp : ∀ q ∈ picks, q < B.size) (a b : Nat) (ha : a < B.size) (hb : b < B.size) :
    (picks.foldl schur (gram B)).get a b =
      mgsResid (B.vec m) picks a ⬝ᵥ mgsResid (B.vec m) picks b :=
  schur_fold_aux B.size picks (gram B) (B.vec m) (gram_wf B)
    (fun a b ha hb => gram_get B m hB a b ha hb) hp a b ha hb

theorem schur_fold_wf (B : RMat) (picks : List Nat) :
    (picks.foldl schur (gram B)).WF B.size B.size :=
  schur_fold_wf_aux B.size picks (gram B) (gram_wf B)

/-- squared residual norms are non-negative -/
theorem schur_fold_diag_nonneg (B : RMat) (m : Nat) (hB : B.WF B.size m) (picks : List Nat)
    (hp : ∀ q ∈ picks, q < B.size) (a : Nat) :
    0 ≤ (picks.foldl schur (gram B)).get a a := by
  by_cases ha : a < B.size
  · rw [schur_fold_eq_mgs B m hB picks hp a a ha ha]
    exact dot_self_nonneg _
  · rw [RMat.get_eq_zero_of_ge (schur_fold_wf B picks) a a (Or.inl (by omega))]

/-- residual norms never grow when one more sensor is ranked -/
theorem schur_fold_diag_antitone (B : RMat) (m : Nat) (hB : B.WF B.size m) (picks : List Nat)
    (q : Nat) (hp : ∀ x ∈ picks, x < B.size) (hq : q < B.size) (a : Nat) (ha : a < B.size) :
    ((picks ++ [q]).foldl schur (gram B)).get a a ≤ (picks.foldl schur (gram B)).get a a := by
  rw [List.foldl_append, List.foldl_cons, List.foldl_nil,
    schur_get _ B.size (schur_fold_wf B picks),
    schur_fold_eq_mgs B m hB picks hp a a ha ha, schur_fold_eq_mgs B m hB picks hp q q hq hq,
    schur_fold_eq_mgs B m hB picks hp a q ha hq, schur_fold_eq_mgs B m hB picks hp q a hq ha]
  split
  · exact le_refl _
  · rename_i h0
    rw [← deflate_dot _ _ _ h0]
    exact deflate_norm_le _ _

theorem deflate_zero_right {m : Nat} (q : Fin m → ℚ) : deflate q 0 = 0 := by
  unfold deflate; split <;> simp

theorem deflate_self {m : Nat} (q : Fin m → ℚ) : deflate q q = 0 := by
  unfold deflate
  split
  · rename_i h; exact dotProduct_self_eq_zero.mp h
  · rename_i h; rw [div_self h, one_smul, sub_self]

theorem mgsResid_of_zero {m : Nat} : ∀ (picks : List Nat) (rows : Nat → Fin m → ℚ) (a : Nat),
    rows a = 0 → mgsResid rows picks a = 0
  | [], _, _, h => h
  | q :: qs, rows, a, h => by
    rw [mgsResid]
    apply mgsResid_of_zero qs
    show deflate (rows q) (rows a) = 0
    rw [h, deflate_zero_right]

theorem mgsResid_snoc {m : Nat} : ∀ (ps : List Nat) (rows : Nat → Fin m → ℚ) (q a : Nat),
    mgsResid rows (ps ++ [q]) a = deflate (mgsResid rows ps q) (mgsResid rows ps a)
  | [], _, _, _ => rfl
  | p :: ps, rows, q, a => by
    rw [List.cons_append, mgsResid, mgsResid, mgsResid_snoc ps]

/-- a ranked sensor has zero residual ever after -/
theorem mgsResid_pick_zero {m : Nat} (rows : Nat → Fin m → ℚ) (picks : List Nat) (q : Nat)
    (hq : q ∈ picks) : mgsResid rows picks q = 0 := by
  induction picks generalizing rows with
  | nil => simp at hq
  | cons p ps ih =>
    rw [mgsResid]
    by_cases h : q = p
    · subst h
      apply mgsResid_of_zero
      exact deflate_self _
    · apply ih
      simpa [h] using hq

theorem dot_span_zero {m : Nat} {x : Fin m → ℚ} {S : Set (Fin m → ℚ)}
    (h : ∀ y ∈ S, x ⬝ᵥ y = 0) {s : Fin m → ℚ} (hs : s ∈ Submodule.span ℚ S) : x ⬝ᵥ s = 0 := by
  induction hs using Submodule.span_induction with
  | mem y hy => exact h y hy
  | zero => simp
  | add a b _ _ ha hb => rw [dotProduct_add, ha, hb, add_zero]
  | smul c a _ ha => rw [dotProduct_smul, ha, smul_zero]

theorem mgs_key {m : Nat} (rows : Nat → Fin m → ℚ) (ps : List Nat) :
    (∀ a q, q ∈ ps → mgsResid rows ps a ⬝ᵥ rows q = 0) ∧
    (∀ a, rows a - mgsResid rows ps a ∈ Submodule.span ℚ (rows '' {p | p ∈ ps})) := by
  induction ps using List.reverseRecOn with
  | nil => simp [mgsResid]
  | append_singleton ps q ih =>
    obtain ⟨hO, hS⟩ := ih
    have hmono : Submodule.span ℚ (rows '' {p | p ∈ ps}) ≤
        Submodule.span ℚ (rows '' {p | p ∈ ps ++ [q]}) := by
      apply Submodule.span_mono
      rintro _ ⟨p, hp, rfl⟩
      exact ⟨p, List.mem_append_left _ hp, rfl⟩
    have hRq : ∀ x : Fin m → ℚ, (∀ p ∈ ps, x ⬝ᵥ rows p = 0) →
        x ⬝ᵥ rows q = x ⬝ᵥ mgsResid rows ps q := by
      intro x hx
      have h0 : x ⬝ᵥ (rows q - mgsResid rows ps q) = 0 := by
        apply dot_span_zero _ (hS q)
        rintro _ ⟨p, hp, rfl⟩
        exact hx p hp
      rw [dotProduct_sub] at h0
      linarith
    have hOps : ∀ a p, p ∈ ps → mgsResid rows (ps ++ [q]) a ⬝ᵥ rows p = 0 := by
      intro a p hp
      rw [mgsResid_snoc]
      unfold deflate
      split
      · exact hO a p hp
      · rw [sub_dotProduct, smul_dotProduct, hO a p hp, hO q p hp]; simp
    have hqmem : rows q ∈ Submodule.span ℚ (rows '' {p | p ∈ ps ++ [q]}) :=
      Submodule.subset_span ⟨q, by simp, rfl⟩
    constructor
    · intro a p hp
      rcases List.mem_append.mp hp with hp | hp
      · exact hOps a p hp
      · have : p = q := by simpa using hp
        subst this
        rw [hRq _ (fun p' hp' => hOps a p' hp'), mgsResid_snoc]
        by_cases h0 : mgsResid rows ps p ⬝ᵥ mgsResid rows ps p = 0
        · rw [dotProduct_self_eq_zero.mp h0]; simp
        · exact deflate_orth _ _ h0
    · intro a
      rw [mgsResid_snoc]
      unfold deflate
      split
      · exact hmono (hS a)
      · have hR : mgsResid rows ps q ∈ Submodule.span ℚ (rows '' {p | p ∈ ps ++ [q]}) := by
          have := Submodule.sub_mem _ hqmem (hmono (hS q))
          simpa using this
        have := Submodule.add_mem _ (hmono (hS a)) (Submodule.smul_mem _
          ((mgsResid rows ps a ⬝ᵥ mgsResid rows ps q) / (mgsResid rows ps q ⬝ᵥ mgsResid rows ps q)) hR)
        convert this using 1
        abel

theorem range_picks {α : Type*} (rows : Nat → α) (picks : List Nat) :
    Set.range (fun i : Fin picks.length => rows picks[i]) = rows '' {p | p ∈ picks} := by
  ext v
  constructor
  · rintro ⟨i, rfl⟩
    exact ⟨picks[i], List.getElem_mem _, rfl⟩
  · rintro ⟨p, hp, rfl⟩
    obtain ⟨i, hi, rfl⟩ := List.getElem_of_mem hp
    exact ⟨⟨i, hi⟩, rfl⟩

/-- the residual is orthogonal to every *original* row of an already ranked sensor -/
theorem mgsResid_orth_rows {m : Nat} (rows : Nat → Fin m → ℚ) (picks : List Nat) (a q : Nat)
    (hq : q ∈ picks) : mgsResid rows picks a ⬝ᵥ rows q = 0 :=
  (mgs_key rows picks).1 a q hq

/-- what was removed lies in the span of the ranked sensors' rows -/
theorem mgsResid_sub_mem_span {m : Nat} (rows : Nat → Fin m → ℚ) (picks : List Nat) (a : Nat) :
    rows a - mgsResid rows picks a ∈ Submodule.span ℚ (Set.range fun i : Fin picks.length => rows picks[i]) := by
  rw [range_picks]
  exact (mgs_key rows picks).2 a

theorem linearIndependent_of_notMem_span_lt {V : Type*} [AddCommGroup V] [Module ℚ V] :
    ∀ (n : Nat) (v : Fin n → V), (∀ j, v j ∉ Submodule.span ℚ (v '' {i | i < j})) →
      LinearIndependent ℚ v
  | 0, _, _ => linearIndependent_empty_type
  | n+1, v, h => by
    rw [linearIndependent_finSucc']
    constructor
    · apply linearIndependent_of_notMem_span_lt n (Fin.init v)
      intro j hj
      apply h j.castSucc
      refine Submodule.span_mono ?_ hj
      rintro _ ⟨i, hi, rfl⟩
      exact ⟨i.castSucc, by simpa using hi, rfl⟩
    · intro hmem
      apply h (Fin.last n)
      refine Submodule.span_mono ?_ hmem
      rintro _ ⟨i, rfl⟩
      exact ⟨i.castSucc, Fin.castSucc_lt_last i, rfl⟩

/-- if every pick had non-zero residual at the time it was ranked, the picked rows are
linearly independent -/
theorem picks_linearIndependent {m : Nat} (rows : Nat → Fin m → ℚ) (picks : List Nat)
    (hpos : ∀ j (hj : j < picks.length),
      mgsResid rows (picks.take j) picks[j] ⬝ᵥ mgsResid rows (picks.take j) picks[j] ≠ 0) :
    LinearIndependent ℚ (fun i : Fin picks.length => rows picks[i]) := by
  apply linearIndependent_of_notMem_span_lt
  intro j hmem
  apply hpos j j.2
  obtain ⟨hO, hS⟩ := mgs_key rows (picks.take j)
  have hrow : rows picks[j] ∈ Submodule.span ℚ (rows '' {p | p ∈ picks.take j}) := by
    refine Submodule.span_mono ?_ hmem
    rintro _ ⟨i, hi, rfl⟩
    refine ⟨picks[i], ?_, rfl⟩
    have hi' : i.val < j.val := hi
    exact List.mem_iff_getElem.mpr ⟨i.val, by simp [List.length_take]; omega, by simp⟩
  have hR : mgsResid rows (picks.take j) picks[j] ∈
      Submodule.span ℚ (rows '' {p | p ∈ picks.take j}) := by
    have := Submodule.sub_mem _ hrow (hS picks[j])
    simpa using this
  apply dot_span_zero _ hR
  rintro _ ⟨p, hp, rfl⟩
  exact hO _ p hp
end PsVerif
