/-
  Helper lemmas for C06: region-constrained runs stay greedy inside the permitted class,
  coincide with the unconstrained run while the constraint is inactive, and coincide with the
  prohibitive-cost CCQR run when the allowance is zero.
-/
import PsVerif.Lemmas.Masked
namespace PsVerif

variable {σ : Type}

theorem effN_some_C (N : Nat) (A : List Nat) (hN : 1 ≤ N) : effN (some N) A = N := by
  cases N with
  | zero => omega
  | succ m => rfl

/-! ### the supplied ranking `A` and the unconstrained run -/

/-- the first `j ≤ N` unconstrained picks are `A.take j` -/
theorem unc_take (S : ResidSys σ) (s0 : σ) (n N : Nat) (A : List Nat)
    (hA : A.take N = (greedyRunFrom S zc noMask s0 n N).p.toList.take N) (j : Nat) (hj : j ≤ N) :
    (greedyRunFrom S zc noMask s0 n j).p.toList.take j = A.take j := by
  have h1 : A.take j = (A.take N).take j := by rw [List.take_take, Nat.min_eq_left hj]
  rw [h1, hA, List.take_take, Nat.min_eq_left hj]
  exact (greedyRunFrom_take_take S zc noMask s0 n j N hj).symm

/-- the unconstrained pick of step `j < N` is `A[j]` -/
theorem unc_pick (S : ResidSys σ) (s0 : σ) (n N : Nat) (A : List Nat)
    (hA : A.take N = (greedyRunFrom S zc noMask s0 n N).p.toList.take N) (j : Nat) (hj : j < N)
    (q : Nat) (hq : (greedyRunFrom S zc noMask s0 n (j + 1)).p[j]? = some q) : A[j]? = some q := by
  have h := greedyRunFrom_take_getElem? S zc noMask s0 n N j hj
  rw [← hA, List.getElem?_take, if_pos hj] at h
  rw [h]; exact hq

/-- if no entry `A[j]`, `j < N`, is zeroed at its step, the first `N` constrained picks are `A.take N` -/
theorem inactive_eq_unc (S : ResidSys σ) (φ : Nat → Nat → Bool) (s0 : σ) (n N k : Nat)
    (A : List Nat) (hNn : N ≤ n)
    (hA : A.take N = (greedyRunFrom S zc noMask s0 n N).p.toList.take N)
    (hnn0 : ∀ j < N, ∀ c, 0 ≤ S.norm2 (greedyRunFrom S zc noMask s0 n j).lin c) (hk : N ≤ k)
    (hφ : ∀ j < N, ∀ q, A[j]? = some q → φ j q = false) :
    (greedyRunFrom S zc (pmask φ) s0 n k).p.toList.take N = A.take N := by
  rw [greedyRunFrom_take _ _ _ _ _ _ _ hk,
    masked_run_coincide S φ s0 n N hNn hnn0
      (fun j hj q hq => hφ j hj q (unc_pick S s0 n N A hA j hj q hq)), ← hA]

/-! ### masks that are inactive -/

theorem maxNMasked_of_le_C (L A : List Nat) (s N c : Nat) (h : regionCount L A N ≤ s) :
    maxNMasked L A s N c = false := by
  unfold maxNMasked
  have : ¬ regionCount L A N > s := by omega
  simp [this]

theorem exactNMasked_of_ge (L A : List Nat) (s N j c : Nat) (h : s ≤ regionCount L A N) :
    exactNMasked L A s N j c = maxNMasked L A s N c := by
  unfold exactNMasked
  have : ¬ regionCount L A N < s := by omega
  simp [this]

theorem masked_inactive_unc (L A : List Nat) (s N j c : Nat) :
    GqrCfg.masked { opt := .unconstrained, L := L, s := s, A := A, nSensors := some N } j c = false :=
  rfl

theorem masked_maxN_eq (L A : List Nat) (s N j c : Nat) (hN : 1 ≤ N) :
    GqrCfg.masked { opt := .maxN, L := L, s := s, A := A, nSensors := some N } j c =
      maxNMasked L A s N c := by
  simp [GqrCfg.masked, effN_some_C N A hN]

theorem masked_exactN_eq (L A : List Nat) (s N j c : Nat) (hN : 1 ≤ N) :
    GqrCfg.masked { opt := .exactN, L := L, s := s, A := A, nSensors := some N } j c =
      exactNMasked L A s N j c := by
  simp [GqrCfg.masked, effN_some_C N A hN]

theorem masked_pred_eq (L A : List Nat) (s N j c : Nat) :
    GqrCfg.masked { opt := .predetermined, L := L, s := s, A := A, nSensors := some N } j c =
      predMasked L s N j c := rfl

theorem masked_inactive_maxN (L A : List Nat) (s N j c : Nat) (hN : 1 ≤ N)
    (h : (A.take N).countP (inL L) ≤ s) :
    GqrCfg.masked { opt := .maxN, L := L, s := s, A := A, nSensors := some N } j c = false := by
  rw [masked_maxN_eq L A s N j c hN]
  exact maxNMasked_of_le_C L A s N c h

theorem masked_inactive_exactN (L A : List Nat) (s N j c : Nat) (hN : 1 ≤ N)
    (h : (A.take N).countP (inL L) = s) :
    GqrCfg.masked { opt := .exactN, L := L, s := s, A := A, nSensors := some N } j c = false := by
  rw [masked_exactN_eq L A s N j c hN, exactNMasked_of_ge L A s N j c (by unfold regionCount; omega)]
  exact maxNMasked_of_le_C L A s N c (by unfold regionCount; omega)

theorem masked_inactive_pred (L A : List Nat) (s N j q : Nat) (hs : s ≤ N) (hj : j < N)
    (hq : A[j]? = some q)
    (h1 : ∀ x ∈ (A.take N).take (N - s), inL L x = false)
    (h2 : ∀ x ∈ (A.take N).drop (N - s), inL L x = true) :
    GqrCfg.masked { opt := .predetermined, L := L, s := s, A := A, nSensors := some N } j q = false := by
  rw [masked_pred_eq]
  unfold predMasked
  have hq' : (A.take N)[j]? = some q := by rw [List.getElem?_take, if_pos hj]; exact hq
  by_cases hjs : j < N - s
  · have hm : q ∈ (A.take N).take (N - s) := by
      apply List.mem_of_getElem? (i := j)
      rw [List.getElem?_take, if_pos hjs]; exact hq'
    rw [h1 q hm]
    have : ¬ ((N : Int) - (s : Int) ≤ (j : Int) ∧ j ≤ N) := by omega
    rw [decide_eq_false this]; rfl
  · have hm : q ∈ (A.take N).drop (N - s) := by
      apply List.mem_of_getElem? (i := j - (N - s))
      rw [List.getElem?_drop]
      have : N - s + (j - (N - s)) = j := by omega
      rw [this]; exact hq'
    rw [h2 q hm]
    have : ((N : Int) - (s : Int) ≤ (j : Int) ∧ j ≤ N) := by omega
    rw [decide_eq_true this]; rfl

/-! ### counting -/

theorem exists_drop_of_countP_lt (p : List Nat) (ψ : Nat → Bool) (j : Nat)
    (h : (p.take j).countP ψ < p.countP ψ) : ∃ c ∈ p.drop j, ψ c = true := by
  have h1 := List.countP_append (p := ψ) (l₁ := p.take j) (l₂ := p.drop j)
  rw [List.take_append_drop] at h1
  have hpos : 0 < (p.drop j).countP ψ := by omega
  exact List.countP_pos_iff.mp hpos

/-- size of a class (`b = true`: outside the region, `b = false`: inside) in a full permutation -/
theorem countP_class_perm (L : List Nat) (n : Nat) (hL : ∀ x ∈ L, x < n) (hLn : L.Nodup)
    (p : List Nat) (hp : p.Perm (List.range n)) (b : Bool) :
    p.countP (fun c => inL L c == !b) = if b then n - L.length else L.length := by
  cases b with
  | false =>
    have : (fun c => inL L c == !false) = inL L := by funext c; cases inL L c <;> rfl
    rw [this]; exact countP_region_perm L n hL hLn p hp
  | true =>
    have : (fun c => inL L c == !true) = fun c => !(inL L c) := by
      funext c; cases inL L c <;> rfl
    rw [this]; exact countP_not_region_perm L n hL hLn p hp

theorem countP_class_add (L : List Nat) (l : List Nat) (b : Bool) :
    l.countP (fun c => inL L c == b) + l.countP (fun c => inL L c == !b) = l.length := by
  have h := List.length_eq_countP_add_countP (fun c => inL L c == b) (l := l)
  have e : (fun a => decide ¬((inL L a == b) = true)) = fun c => inL L c == !b := by
    funext c; cases inL L c <;> cases b <;> rfl
  rw [e] at h
  omega

theorem countP_class_true (L : List Nat) (l : List Nat) :
    l.countP (fun c => inL L c == true) = l.countP (inL L) := by
  congr 1; funext c; cases inL L c <;> rfl

/-- the picks after step `j` are the picks before it plus the pick of step `j` -/
theorem picks_succ (S : ResidSys σ) (costs : Nat → Rat) (mask : Mask) (s0 : σ) (n j : Nat) (q : Nat)
    (hq : (greedyRunFrom S costs mask s0 n (j + 1)).p[j]? = some q) :
    (greedyRunFrom S costs mask s0 n (j + 1)).p.toList.take (j + 1) =
      (greedyRunFrom S costs mask s0 n j).p.toList.take j ++ [q] := by
  rw [List.take_add_one, Array.getElem?_toList, hq,
    greedyRunFrom_take_take S costs mask s0 n j (j + 1) (by omega)]
  rfl

/-- a candidate of a later step was not picked before an earlier step -/
theorem cand_not_mem_earlier (S : ResidSys σ) (costs : Nat → Rat) (mask : Mask) (s0 : σ)
    (n j0 j c : Nat) (hj0 : j0 ≤ j) (hc : c ∈ (greedyRunFrom S costs mask s0 n j).p.toList.drop j) :
    c < n ∧ c ∉ (greedyRunFrom S costs mask s0 n j0).p.toList.take j0 := by
  obtain ⟨h1, h2⟩ := (greedyRunFrom_cands S costs mask s0 n j c).mp hc
  refine ⟨h1, fun hm => h2 ?_⟩
  rw [← greedyRunFrom_take_take S costs mask s0 n j0 j hj0] at hm
  have : (greedyRunFrom S costs mask s0 n j).p.toList.take j0 =
      ((greedyRunFrom S costs mask s0 n j).p.toList.take j).take j0 := by
    rw [List.take_take, Nat.min_eq_left hj0]
  rw [this] at hm
  exact List.mem_of_mem_take hm

/-! ### single steps -/

/-- no candidate zeroed: the pick has the globally largest norm -/
theorem pick_max_of_nomask (S : ResidSys σ) (φ : Nat → Nat → Bool) (s0 : σ) (n j : Nat) (hj : j < n)
    (hnn : ∀ c, 0 ≤ S.norm2 (greedyRunFrom S zc (pmask φ) s0 n j).lin c) (q : Nat)
    (hq : (greedyRunFrom S zc (pmask φ) s0 n (j + 1)).p[j]? = some q)
    (hφ : ∀ c ∈ (greedyRunFrom S zc (pmask φ) s0 n j).p.toList.drop j, φ j c = false) :
    q ∈ (greedyRunFrom S zc (pmask φ) s0 n j).p.toList.drop j ∧
      ∀ c ∈ (greedyRunFrom S zc (pmask φ) s0 n j).p.toList.drop j,
        S.norm2 (greedyRunFrom S zc (pmask φ) s0 n j).lin c ≤
          S.norm2 (greedyRunFrom S zc (pmask φ) s0 n j).lin q := by
  obtain ⟨hmem, hmax⟩ := masked_pick_spec S φ s0 n j hj hnn q hq
  refine ⟨hmem, fun c hc => ?_⟩
  have := hmax c hc
  simpa [mval, hφ c hc, hφ q hmem] using this

/-- one whole class zeroed (`b = true`: the region, `b = false`: its complement) while the other
class still has a candidate of positive norm: the pick belongs to the other class and has the
largest norm there. -/
theorem pick_of_classmask (S : ResidSys σ) (φ : Nat → Nat → Bool) (s0 : σ) (n j : Nat) (hj : j < n)
    (hnn : ∀ c, 0 ≤ S.norm2 (greedyRunFrom S zc (pmask φ) s0 n j).lin c) (q : Nat)
    (hq : (greedyRunFrom S zc (pmask φ) s0 n (j + 1)).p[j]? = some q) (L : List Nat) (b : Bool)
    (hφ : ∀ c ∈ (greedyRunFrom S zc (pmask φ) s0 n j).p.toList.drop j, φ j c = (inL L c == b))
    (hex : ∃ c ∈ (greedyRunFrom S zc (pmask φ) s0 n j).p.toList.drop j,
      inL L c = !b ∧ 0 < S.norm2 (greedyRunFrom S zc (pmask φ) s0 n j).lin c) :
    q ∈ (greedyRunFrom S zc (pmask φ) s0 n j).p.toList.drop j ∧ inL L q = !b ∧ φ j q = false ∧
      0 < S.norm2 (greedyRunFrom S zc (pmask φ) s0 n j).lin q ∧
      ∀ c ∈ (greedyRunFrom S zc (pmask φ) s0 n j).p.toList.drop j, inL L c = inL L q →
        S.norm2 (greedyRunFrom S zc (pmask φ) s0 n j).lin c ≤
          S.norm2 (greedyRunFrom S zc (pmask φ) s0 n j).lin q := by
  obtain ⟨hmem, -⟩ := masked_pick_spec S φ s0 n j hj hnn q hq
  obtain ⟨c, hc, hcb, hcpos⟩ := hex
  have hφc : φ j c = false := by rw [hφ c hc, hcb]; cases b <;> rfl
  obtain ⟨hφq, hqpos, hmax⟩ := masked_pick_unmasked S φ s0 n j hj hnn q hq ⟨c, hc, hφc, hcpos⟩
  have hqb : inL L q = !b := by
    have := hφ q hmem; rw [hφq] at this
    revert this; cases inL L q <;> cases b <;> simp
  refine ⟨hmem, hqb, hφq, hqpos, fun d hd hdq => hmax d hd ?_⟩
  rw [hφ d hd, hdq, hqb]; cases b <;> rfl

/-! ### a phase `[j0, j1)` of steps during which one whole class is zeroed -/

section Phase
variable (S : ResidSys σ) (φ : Nat → Nat → Bool) (s0 : σ) (n : Nat) (L : List Nat)

local notation "R" => greedyRunFrom S zc (pmask φ) s0 n
local notation "cls" b => fun c => inL L c == !b

/-- a step of the phase, given that the permitted class is not exhausted -/
theorem phase_pick (hL : ∀ x ∈ L, x < n) (hLn : L.Nodup) (b : Bool) (j0 j : Nat) (hj0 : j0 ≤ j)
    (hj : j < n) (hnn : ∀ c, 0 ≤ S.norm2 (R j).lin c)
    (hpos : ∀ c ∈ (R j).p.toList.drop j, 0 < S.norm2 (R j).lin c)
    (hφ : ∀ c, c < n → c ∉ (R j0).p.toList.take j0 → φ j c = (inL L c == b))
    (hcnt : ((R j).p.toList.take j).countP (cls b) < if b then n - L.length else L.length)
    (q : Nat) (hq : (R (j + 1)).p[j]? = some q) :
    q ∈ (R j).p.toList.drop j ∧ inL L q = !b ∧ φ j q = false ∧ 0 < S.norm2 (R j).lin q ∧
      ∀ c ∈ (R j).p.toList.drop j, inL L c = inL L q →
        S.norm2 (R j).lin c ≤ S.norm2 (R j).lin q := by
  apply pick_of_classmask S φ s0 n j hj hnn q hq L b
  · intro c hc
    obtain ⟨h1, h2⟩ := cand_not_mem_earlier S zc (pmask φ) s0 n j0 j c hj0 hc
    exact hφ c h1 h2
  · rw [← countP_class_perm L n hL hLn _ (greedyRunFrom_toList_perm S zc (pmask φ) s0 n j) b] at hcnt
    obtain ⟨c, hc, hcb⟩ := exists_drop_of_countP_lt _ _ j hcnt
    refine ⟨c, hc, ?_, hpos c hc⟩
    revert hcb; cases inL L c <;> cases b <;> simp

/-- during the phase every pick belongs to the permitted class -/
theorem phase_count (hL : ∀ x ∈ L, x < n) (hLn : L.Nodup) (b : Bool) (j0 j1 : Nat) (hj1 : j1 ≤ n)
    (hnn : ∀ j, j0 ≤ j → j < j1 → ∀ c, 0 ≤ S.norm2 (R j).lin c)
    (hpos : ∀ j, j0 ≤ j → j < j1 → ∀ c ∈ (R j).p.toList.drop j, 0 < S.norm2 (R j).lin c)
    (hφ : ∀ j, j0 ≤ j → j < j1 → ∀ c, c < n → c ∉ (R j0).p.toList.take j0 →
      φ j c = (inL L c == b))
    (hK : ((R j0).p.toList.take j0).countP (cls b) + (j1 - j0) ≤
      if b then n - L.length else L.length) :
    ∀ d, j0 + d ≤ j1 → ((R (j0 + d)).p.toList.take (j0 + d)).countP (cls b) =
      ((R j0).p.toList.take j0).countP (cls b) + d := by
  intro d
  induction d with
  | zero => intro _; rfl
  | succ d ih =>
    intro hd
    have ih := ih (by omega)
    obtain ⟨q, hq⟩ := pick_exists S zc (pmask φ) s0 n (j0 + d) (j0 + d + 1) (by omega)
    have hp := phase_pick S φ s0 n L hL hLn b j0 (j0 + d) (by omega) (by omega)
      (hnn _ (by omega) (by omega)) (hpos _ (by omega) (by omega)) (hφ _ (by omega) (by omega))
      (by rw [ih]; omega) q hq
    have hqb := hp.2.1
    rw [show j0 + (d + 1) = j0 + d + 1 by omega, picks_succ S zc (pmask φ) s0 n (j0 + d) q hq,
      List.countP_append, ih, List.countP_singleton, hqb]
    simp
    omega

/-- every step of the phase picks the best candidate of the permitted class -/
theorem phase_step (hL : ∀ x ∈ L, x < n) (hLn : L.Nodup) (b : Bool) (j0 j1 : Nat) (hj1 : j1 ≤ n)
    (hnn : ∀ j, j0 ≤ j → j < j1 → ∀ c, 0 ≤ S.norm2 (R j).lin c)
    (hpos : ∀ j, j0 ≤ j → j < j1 → ∀ c ∈ (R j).p.toList.drop j, 0 < S.norm2 (R j).lin c)
    (hφ : ∀ j, j0 ≤ j → j < j1 → ∀ c, c < n → c ∉ (R j0).p.toList.take j0 →
      φ j c = (inL L c == b))
    (hK : ((R j0).p.toList.take j0).countP (cls b) + (j1 - j0) ≤
      if b then n - L.length else L.length)
    (j : Nat) (hj0 : j0 ≤ j) (hj : j < j1) (q : Nat) (hq : (R (j + 1)).p[j]? = some q) :
    q ∈ (R j).p.toList.drop j ∧ inL L q = !b ∧ φ j q = false ∧ 0 < S.norm2 (R j).lin q ∧
      ∀ c ∈ (R j).p.toList.drop j, inL L c = inL L q →
        S.norm2 (R j).lin c ≤ S.norm2 (R j).lin q := by
  have hc := phase_count S φ s0 n L hL hLn b j0 j1 hj1 hnn hpos hφ hK (j - j0) (by omega)
  rw [show j0 + (j - j0) = j by omega] at hc
  exact phase_pick S φ s0 n L hL hLn b j0 j hj0 (by omega) (hnn j hj0 hj) (hpos j hj0 hj)
    (hφ j hj0 hj) (by rw [hc]; omega) q hq

end Phase

/-! ### a coinciding phase `[0, j0)` followed by a class phase `[j0, N)` -/

section TwoPhase
variable (S : ResidSys σ) (φ : Nat → Nat → Bool) (s0 : σ) (n N : Nat) (L A : List Nat)

local notation "R" => greedyRunFrom S zc (pmask φ) s0 n
local notation "U" => greedyRunFrom S zc noMask s0 n
local notation "cls" b => fun c => inL L c == !b

theorem coincide_run (hNn : N ≤ n) (hA : A.take N = (U N).p.toList.take N)
    (hnn0 : ∀ j < N, ∀ c, 0 ≤ S.norm2 (U j).lin c) (j0 : Nat) (hj0 : j0 ≤ N)
    (hφ1 : ∀ j < j0, ∀ q, A[j]? = some q → φ j q = false) (j : Nat) (hj : j ≤ j0) :
    R j = U j :=
  masked_run_coincide S φ s0 n j (by omega) (fun i hi => hnn0 i (by omega))
    (fun i hi q hq => hφ1 i (by omega) q (unc_pick S s0 n N A hA i (by omega) q hq))

theorem coincide_pick_max (hNn : N ≤ n) (hA : A.take N = (U N).p.toList.take N)
    (hnn0 : ∀ j < N, ∀ c, 0 ≤ S.norm2 (U j).lin c) (j0 : Nat) (hj0 : j0 ≤ N)
    (hφ1 : ∀ j < j0, ∀ q, A[j]? = some q → φ j q = false) (j : Nat) (hj : j < j0)
    (q : Nat) (hq : (R (j + 1)).p[j]? = some q) :
    A[j]? = some q ∧ q ∈ (R j).p.toList.drop j ∧
      ∀ c ∈ (R j).p.toList.drop j, S.norm2 (R j).lin c ≤ S.norm2 (R j).lin q := by
  have e1 := coincide_run S φ s0 n N A hNn hA hnn0 j0 hj0 hφ1 j (by omega)
  have e2 := coincide_run S φ s0 n N A hNn hA hnn0 j0 hj0 hφ1 (j + 1) (by omega)
  rw [e2] at hq
  rw [e1]
  refine ⟨unc_pick S s0 n N A hA j (by omega) q hq, ?_⟩
  exact pick_max_of_nomask S (fun _ _ => false) s0 n j (by omega) (hnn0 j (by omega)) q hq
    (fun _ _ => rfl)

theorem two_phase_step (hNn : N ≤ n) (hL : ∀ x ∈ L, x < n) (hLn : L.Nodup)
    (hA : A.take N = (U N).p.toList.take N)
    (hnn0 : ∀ j < N, ∀ c, 0 ≤ S.norm2 (U j).lin c)
    (hnn : ∀ j < N, ∀ c, 0 ≤ S.norm2 (R j).lin c)
    (hpos : ∀ j < N, ∀ c ∈ (R j).p.toList.drop j, 0 < S.norm2 (R j).lin c)
    (b : Bool) (j0 : Nat) (hj0 : j0 ≤ N)
    (hφ1 : ∀ j < j0, ∀ q, A[j]? = some q → φ j q = false)
    (hφ2 : ∀ j, j0 ≤ j → j < N → ∀ c, c < n → c ∉ A.take j0 → φ j c = (inL L c == b))
    (hK : (A.take j0).countP (cls b) + (N - j0) ≤ if b then n - L.length else L.length)
    (j : Nat) (hj : j < N) (q : Nat) (hq : (R (j + 1)).p[j]? = some q) :
    q ∈ (R j).p.toList.drop j ∧
      (∀ c ∈ (R j).p.toList.drop j, inL L c = inL L q →
        S.norm2 (R j).lin c ≤ S.norm2 (R j).lin q) ∧
      (j < j0 → A[j]? = some q) ∧
      (j0 ≤ j → inL L q = !b ∧ φ j q = false ∧ 0 < S.norm2 (R j).lin q) := by
  have hP : (R j0).p.toList.take j0 = A.take j0 := by
    rw [coincide_run S φ s0 n N A hNn hA hnn0 j0 hj0 hφ1 j0 (Nat.le_refl _),
      unc_take S s0 n N A hA j0 hj0]
  by_cases hjj : j < j0
  · obtain ⟨h1, h2, h3⟩ := coincide_pick_max S φ s0 n N A hNn hA hnn0 j0 hj0 hφ1 j hjj q hq
    exact ⟨h2, fun c hc _ => h3 c hc, fun _ => h1, fun h => by omega⟩
  · have hjj' : j0 ≤ j := by omega
    obtain ⟨h1, h2, h3, h4, h5⟩ := phase_step S φ s0 n L hL hLn b j0 N hNn
      (fun i _ hi => hnn i hi) (fun i _ hi => hpos i hi)
      (fun i hi0 hi c hc hcn => hφ2 i hi0 hi c hc (hP ▸ hcn)) (by rw [hP]; exact hK)
      j hjj' hj q hq
    exact ⟨h1, h5, fun h => by omega, fun _ => ⟨h2, h3, h4⟩⟩

end TwoPhase

/-! ### the three masks, candidate by candidate -/

theorem predMasked_eq (L : List Nat) (s N j c : Nat) (hs : s ≤ N) (hj : j < N) :
    predMasked L s N j c = (inL L c == decide (j < N - s)) := by
  unfold predMasked
  by_cases h : j < N - s
  · have : ¬ ((N : Int) - (s : Int) ≤ (j : Int) ∧ j ≤ N) := by omega
    rw [decide_eq_false this, decide_eq_true h]; cases inL L c <;> rfl
  · have : ((N : Int) - (s : Int) ≤ (j : Int) ∧ j ≤ N) := by omega
    rw [decide_eq_true this, decide_eq_false h]; cases inL L c <;> rfl

theorem countP_take_le_C (A : List Nat) (ψ : Nat → Bool) (j : Nat) : (A.take j).countP ψ ≤ j :=
  Nat.le_trans List.countP_le_length (List.length_take_le j A)

theorem countP_take_add_le (A : List Nat) (ψ : Nat → Bool) (j d : Nat) :
    (A.take (j + d)).countP ψ ≤ (A.take j).countP ψ + d := by
  rw [List.take_add, List.countP_append]
  have := countP_take_le_C (A.drop j) ψ d
  omega

theorem countP_take_mono_C (A : List Nat) (ψ : Nat → Bool) (j d : Nat) :
    (A.take j).countP ψ ≤ (A.take (j + d)).countP ψ := by
  rw [List.take_add, List.countP_append]
  omega

/-- discrete intermediate value: the running count passes through every value -/
theorem exists_take_countP_eq (A : List Nat) (ψ : Nat → Bool) (s : Nat) :
    ∀ N, s ≤ (A.take N).countP ψ → ∃ j ≤ N, (A.take j).countP ψ = s := by
  intro N
  induction N with
  | zero =>
    intro h
    refine ⟨0, Nat.le_refl _, ?_⟩
    simp at h ⊢; omega
  | succ N ih =>
    intro h
    by_cases he : (A.take (N + 1)).countP ψ = s
    · exact ⟨N + 1, Nat.le_refl _, he⟩
    · have h1 := countP_take_add_le A ψ N 1
      obtain ⟨j, hj, h⟩ := ih (by omega)
      exact ⟨j, by omega, h⟩

theorem exists_least_nat (P : Nat → Prop) (N : Nat) (h : P N) :
    ∃ j0 ≤ N, P j0 ∧ ∀ j < j0, ¬ P j := by
  induction N using Nat.strong_induction_on with
  | _ N ih =>
    by_cases hex : ∃ j < N, P j
    · obtain ⟨j, hj, hp⟩ := hex
      obtain ⟨j0, h1, h2, h3⟩ := ih j hj hp
      exact ⟨j0, by omega, h2, h3⟩
    · exact ⟨N, Nat.le_refl _, h, fun j hj hp => hex ⟨j, hj, hp⟩⟩

/-- once `s` region sensors occur among `A.take j1`, the banned sensors are the region sensors
of the rest of `A` -/
theorem bannedOf_eq (L A : List Nat) (s j1 : Nat) (h : (A.take j1).countP (inL L) = s) :
    bannedOf L A s = (A.drop j1).filter (inL L) := by
  unfold bannedOf
  have e : A.filter (inL L) = (A.take j1).filter (inL L) ++ (A.drop j1).filter (inL L) := by
    rw [← List.filter_append, List.take_append_drop]
  rw [e]
  exact List.drop_left' (by rw [← List.countP_eq_length_filter]; exact h)

theorem maxNMasked_take (L A : List Nat) (s N j1 q : Nat) (hAnd : A.Nodup)
    (h : (A.take j1).countP (inL L) = s) (hq : q ∈ A.take j1) : maxNMasked L A s N q = false := by
  unfold maxNMasked
  rw [bannedOf_eq L A s j1 h]
  have hnd : (A.take j1 ++ A.drop j1).Nodup := by rw [List.take_append_drop]; exact hAnd
  have hdisj := (List.nodup_append.mp hnd).2.2
  have : ((A.drop j1).filter (inL L)).contains q = false := by
    rw [Bool.eq_false_iff]
    intro hc
    rw [List.contains_iff_mem, List.mem_filter] at hc
    exact hdisj q hq q hc.1 rfl
  rw [this, Bool.and_false]

theorem maxNMasked_drop (L A : List Nat) (s N n j1 c : Nat) (hAp : A.Perm (List.range n))
    (ht : s < regionCount L A N) (h : (A.take j1).countP (inL L) = s) (hc : c < n)
    (hcn : c ∉ A.take j1) : maxNMasked L A s N c = (inL L c == true) := by
  unfold maxNMasked
  rw [bannedOf_eq L A s j1 h, decide_eq_true (by omega : regionCount L A N > s), Bool.true_and]
  have hcA : c ∈ A.take j1 ++ A.drop j1 := by
    rw [List.take_append_drop, hAp.mem_iff, List.mem_range]; exact hc
  have hcd : c ∈ A.drop j1 := by
    rcases List.mem_append.mp hcA with h | h
    · exact absurd h hcn
    · exact h
  cases hi : inL L c with
  | false =>
    rw [Bool.eq_iff_iff]
    simp [List.mem_filter, hi]
  | true =>
    rw [Bool.eq_iff_iff]
    simp [List.mem_filter, hi, hcd]

theorem exactNMasked_lt (L A : List Nat) (s N j c : Nat) (ht : regionCount L A N < s)
    (hj : j < N) :
    exactNMasked L A s N j c =
      (decide (N ≤ j + s - (A.take j).countP (inL L)) && !(inL L c)) := by
  unfold exactNMasked
  simp only [if_pos ht]
  have h1 := countP_take_le_C A (inL L) j
  have h2 := countP_take_mono_C A (inL L) j (N - j)
  rw [show j + (N - j) = N by omega] at h2
  unfold regionCount at ht ⊢
  congr 1
  rw [decide_eq_decide]
  omega

/-- `max_n` with more than `s` region sensors among `A.take N`: no zeroing of `A.take j1`,
afterwards exactly the region candidates are zeroed; enough outside sensors remain. -/
theorem maxN_two_phase (L A : List Nat) (s N n j1 : Nat) (hNn : N ≤ n)
    (hAp : A.Perm (List.range n)) (ht : s < regionCount L A N) (hj1 : j1 ≤ N)
    (h : (A.take j1).countP (inL L) = s) (hout : N - s ≤ n - L.length) :
    (∀ j < j1, ∀ q, A[j]? = some q → maxNMasked L A s N q = false) ∧
    (∀ c, c < n → c ∉ A.take j1 → maxNMasked L A s N c = (inL L c == true)) ∧
    (A.take j1).countP (fun c => inL L c == !true) + (N - j1) ≤ n - L.length := by
  have hAnd : A.Nodup := hAp.nodup_iff.mpr List.nodup_range
  refine ⟨?_, ?_, ?_⟩
  · intro j hj q hq
    apply maxNMasked_take L A s N j1 q hAnd h
    apply List.mem_of_getElem? (i := j)
    rw [List.getElem?_take, if_pos hj]; exact hq
  · intro c hc hcn
    exact maxNMasked_drop L A s N n j1 c hAp ht h hc hcn
  · have h1 := countP_class_add L (A.take j1) true
    rw [countP_class_true, h] at h1
    have h2 : (A.take j1).length = j1 := by
      rw [List.length_take, hAp.length_eq, List.length_range]; omega
    have h3 := countP_take_mono_C A (inL L) j1 (N - j1)
    rw [show j1 + (N - j1) = N by omega] at h3
    have h4 := countP_take_le_C A (inL L) N
    unfold regionCount at ht
    omega

/-- `exact_n` with fewer than `s` region sensors among `A.take N`: there is a step `j0` before
which nothing is zeroed and from which on exactly the outside candidates are zeroed. -/
theorem exactN_two_phase (L A : List Nat) (s N : Nat) (ht : regionCount L A N < s)
    (hin : s ≤ L.length) :
    ∃ j0 ≤ N, (∀ j < j0, ∀ c, exactNMasked L A s N j c = false) ∧
      (∀ j, j0 ≤ j → j < N → ∀ c, exactNMasked L A s N j c = (inL L c == false)) ∧
      (A.take j0).countP (fun c => inL L c == !false) + (N - j0) ≤ L.length := by
  have hPN : N ≤ N + s - (A.take N).countP (inL L) := by
    unfold regionCount at ht; omega
  obtain ⟨j0, hj0, hP, hmin⟩ :=
    exists_least_nat (fun j => N ≤ j + s - (A.take j).countP (inL L)) N hPN
  refine ⟨j0, hj0, ?_, ?_, ?_⟩
  · intro j hj c
    rw [exactNMasked_lt L A s N j c ht (by omega), decide_eq_false (hmin j hj), Bool.false_and]
  · intro j hj hjN c
    have h1 := countP_take_add_le A (inL L) j0 (j - j0)
    rw [show j0 + (j - j0) = j by omega] at h1
    have h2 := countP_take_le_C A (inL L) j0
    have : N ≤ j + s - (A.take j).countP (inL L) := by
      omega
    rw [exactNMasked_lt L A s N j c ht hjN, decide_eq_true this, Bool.true_and]
    cases inL L c <;> rfl
  · have h2 := countP_take_le_C A (inL L) j0
    have e : (A.take j0).countP (fun c => inL L c == !false) = (A.take j0).countP (inL L) :=
      countP_class_true L (A.take j0)
    rw [e]
    omega

/-! ### C06 own-class maximality, option by option -/

theorem picks_length (S : ResidSys σ) (costs : Nat → Rat) (mask : Mask) (s0 : σ) (n j : Nat)
    (hj : j ≤ n) : ((greedyRunFrom S costs mask s0 n j).p.toList.take j).length = j := by
  rw [List.length_take, Array.length_toList, greedyRunFrom_size]; omega

section OwnClass
variable (S : ResidSys σ) (φ : Nat → Nat → Bool) (s0 : σ) (n N s : Nat) (L A : List Nat)

local notation "R" => greedyRunFrom S zc (pmask φ) s0 n
local notation "U" => greedyRunFrom S zc noMask s0 n

theorem own_class_max_unc (hφ : ∀ j c, φ j c = false) (j : Nat) (hj : j < n)
    (hnn : ∀ c, 0 ≤ S.norm2 (R j).lin c) (q : Nat) (hq : (R (j + 1)).p[j]? = some q) :
    q ∈ (R j).p.toList.drop j ∧ ∀ c ∈ (R j).p.toList.drop j, inL L c = inL L q →
      S.norm2 (R j).lin c ≤ S.norm2 (R j).lin q := by
  obtain ⟨h1, h2⟩ := pick_max_of_nomask S φ s0 n j hj hnn q hq (fun c _ => hφ j c)
  exact ⟨h1, fun c hc _ => h2 c hc⟩

/-- predetermined: steps `< N - s` pick the best outside candidate, the others the best region
candidate -/
theorem pred_step (hNn : N ≤ n) (hL : ∀ x ∈ L, x < n) (hLn : L.Nodup)
    (hφ : ∀ j c, φ j c = predMasked L s N j c)
    (hs : s ≤ N) (hin : s ≤ L.length) (hout : N - s ≤ n - L.length)
    (hnn : ∀ j < N, ∀ c, 0 ≤ S.norm2 (R j).lin c)
    (hpos : ∀ j < N, ∀ c ∈ (R j).p.toList.drop j, 0 < S.norm2 (R j).lin c)
    (j : Nat) (hj : j < N) (q : Nat) (hq : (R (j + 1)).p[j]? = some q) :
    q ∈ (R j).p.toList.drop j ∧ inL L q = !decide (j < N - s) ∧ φ j q = false ∧
      0 < S.norm2 (R j).lin q ∧
      ∀ c ∈ (R j).p.toList.drop j, inL L c = inL L q →
        S.norm2 (R j).lin c ≤ S.norm2 (R j).lin q := by
  have hφ' : ∀ i < N, ∀ c, φ i c = (inL L c == decide (i < N - s)) := fun i hi c => by
    rw [hφ, predMasked_eq L s N i c hs hi]
  have hφ1 : ∀ i, 0 ≤ i → i < N - s → ∀ c, c < n → c ∉ (R 0).p.toList.take 0 →
      φ i c = (inL L c == true) := fun i _ hi c _ _ => by
    rw [hφ' i (by omega) c, decide_eq_true hi]
  have hK1 : ((R 0).p.toList.take 0).countP (fun c => inL L c == !true) + (N - s - 0) ≤
      if true then n - L.length else L.length := by
    rw [List.take_zero, List.countP_nil]; simp only [if_true]; omega
  have hnn1 : ∀ i, 0 ≤ i → i < N - s → ∀ c, 0 ≤ S.norm2 (R i).lin c :=
    fun i _ hi => hnn i (by omega)
  have hpos1 : ∀ i, 0 ≤ i → i < N - s → ∀ c ∈ (R i).p.toList.drop i, 0 < S.norm2 (R i).lin c :=
    fun i _ hi => hpos i (by omega)
  by_cases hjs : j < N - s
  · have := phase_step S φ s0 n L hL hLn true 0 (N - s) (by omega) hnn1 hpos1 hφ1 hK1 j
      (Nat.zero_le _) hjs q hq
    rw [decide_eq_true hjs]
    exact this
  · have hc1 := phase_count S φ s0 n L hL hLn true 0 (N - s) (by omega) hnn1 hpos1 hφ1 hK1
      (N - s) (by omega)
    rw [Nat.zero_add, List.take_zero, List.countP_nil, Nat.zero_add] at hc1
    have hadd := countP_class_add L ((R (N - s)).p.toList.take (N - s)) true
    rw [hc1, picks_length S zc (pmask φ) s0 n (N - s) (by omega)] at hadd
    have hφ2 : ∀ i, N - s ≤ i → i < N → ∀ c, c < n → c ∉ (R (N - s)).p.toList.take (N - s) →
        φ i c = (inL L c == false) := fun i hi0 hi c _ _ => by
      rw [hφ' i hi c, decide_eq_false (by omega)]
    have hK2 : ((R (N - s)).p.toList.take (N - s)).countP (fun c => inL L c == !false) +
        (N - (N - s)) ≤ if false then n - L.length else L.length := by
      simp only [Bool.not_false, Bool.false_eq_true, if_false]; omega
    have := phase_step S φ s0 n L hL hLn false (N - s) N hNn
      (fun i _ hi => hnn i hi) (fun i _ hi => hpos i hi) hφ2 hK2 j (by omega) hj q hq
    rw [decide_eq_false hjs]
    exact this

theorem own_class_max_maxN (hNn : N ≤ n) (hL : ∀ x ∈ L, x < n) (hLn : L.Nodup)
    (hAp : A.Perm (List.range n)) (hA : A.take N = (U N).p.toList.take N)
    (hnn0 : ∀ j < N, ∀ c, 0 ≤ S.norm2 (U j).lin c)
    (hφ : ∀ j c, φ j c = maxNMasked L A s N c) (hout : N - s ≤ n - L.length)
    (hnn : ∀ j < N, ∀ c, 0 ≤ S.norm2 (R j).lin c)
    (hpos : ∀ j < N, ∀ c ∈ (R j).p.toList.drop j, 0 < S.norm2 (R j).lin c)
    (j : Nat) (hj : j < N) (q : Nat) (hq : (R (j + 1)).p[j]? = some q) :
    q ∈ (R j).p.toList.drop j ∧ ∀ c ∈ (R j).p.toList.drop j, inL L c = inL L q →
      S.norm2 (R j).lin c ≤ S.norm2 (R j).lin q := by
  by_cases ht : regionCount L A N ≤ s
  · exact own_class_max_unc S φ s0 n L
      (fun i c => by rw [hφ]; exact maxNMasked_of_le_C L A s N c ht) j (by omega) (hnn j hj) q hq
  · have ht' : s < regionCount L A N := by omega
    obtain ⟨j1, hj1, hc⟩ := exists_take_countP_eq A (inL L) s N (by unfold regionCount at ht'; omega)
    obtain ⟨h1, h2, h3⟩ := maxN_two_phase L A s N n j1 hNn hAp ht' hj1 hc hout
    obtain ⟨r1, r2, -, -⟩ := two_phase_step S φ s0 n N L A hNn hL hLn hA hnn0 hnn hpos true j1 hj1
      (fun i hi q hq => by rw [hφ]; exact h1 i hi q hq)
      (fun i _ _ c hc hcn => by rw [hφ]; exact h2 c hc hcn) h3 j hj q hq
    exact ⟨r1, r2⟩

theorem own_class_max_exactN (hNn : N ≤ n) (hL : ∀ x ∈ L, x < n) (hLn : L.Nodup)
    (hAp : A.Perm (List.range n)) (hA : A.take N = (U N).p.toList.take N)
    (hnn0 : ∀ j < N, ∀ c, 0 ≤ S.norm2 (U j).lin c)
    (hφ : ∀ j c, φ j c = exactNMasked L A s N j c)
    (hin : s ≤ L.length) (hout : N - s ≤ n - L.length)
    (hnn : ∀ j < N, ∀ c, 0 ≤ S.norm2 (R j).lin c)
    (hpos : ∀ j < N, ∀ c ∈ (R j).p.toList.drop j, 0 < S.norm2 (R j).lin c)
    (j : Nat) (hj : j < N) (q : Nat) (hq : (R (j + 1)).p[j]? = some q) :
    q ∈ (R j).p.toList.drop j ∧ ∀ c ∈ (R j).p.toList.drop j, inL L c = inL L q →
      S.norm2 (R j).lin c ≤ S.norm2 (R j).lin q := by
  by_cases ht : regionCount L A N < s
  · obtain ⟨j0, hj0, h1, h2, h3⟩ := exactN_two_phase L A s N ht hin
    obtain ⟨r1, r2, -, -⟩ := two_phase_step S φ s0 n N L A hNn hL hLn hA hnn0 hnn hpos false j0 hj0
      (fun i hi q _ => by rw [hφ]; exact h1 i hi q)
      (fun i hi0 hi c _ _ => by rw [hφ]; exact h2 i hi0 hi c) h3 j hj q hq
    exact ⟨r1, r2⟩
  · exact own_class_max_maxN S φ s0 n N s L A hNn hL hLn hAp hA hnn0
      (fun i c => by rw [hφ, exactNMasked_of_ge L A s N i c (by omega)]) hout hnn hpos j hj q hq

end OwnClass

/-! ### allowance zero: the constrained run is the prohibitive-cost CCQR run -/

/-- a zero-cost candidate beats every candidate whose cost exceeds its norm -/
theorem scoreGe_prohib_ge (a b C : Rat) (ha : 0 ≤ a) (hC0 : 0 < C) (hbC : b < C * C) :
    scoreGe (a, 0) (b, C) = true := by
  unfold scoreGe geSqrt
  have h1 : ¬ ((0 : Rat) - C ≥ 0) := by intro h; linarith
  simp only [h1, if_false, Bool.or_eq_true, decide_eq_true_eq]
  left
  have : -(0 - C) * -(0 - C) = C * C := by ring
  rw [this]; linarith

/-- … and is never matched by it -/
theorem scoreGe_prohib_lt (a b C : Rat) (ha : 0 ≤ a) (hC0 : 0 < C) (hbC : b < C * C) :
    scoreGe (b, C) (a, 0) = false := by
  unfold scoreGe geSqrt
  have h1 : C - 0 ≥ 0 := by linarith
  simp only [h1, if_true]
  have h2 : ¬ (b - a - (C - 0) * (C - 0) ≥ 0) := by
    intro h
    have : (C - 0) * (C - 0) = C * C := by ring
    rw [this] at h; linarith
  rw [decide_eq_false h2, Bool.false_and]

/-- One step: if the masked zero-cost pick lies outside the region, is not zeroed, and no outside
candidate is zeroed, the unmasked step with prohibitive region costs makes the same pick. -/
theorem prohibitive_step_eq (S : ResidSys σ) (φ : Nat → Nat → Bool) (L : List Nat) (C : Rat)
    (st : GState σ) (j : Nat) (hj : j < st.p.size) (hnn : ∀ c, 0 ≤ S.norm2 st.lin c)
    (hC0 : 0 < C) (hC : ∀ c, S.norm2 st.lin c < C * C) (q : Nat)
    (hq : (greedyStep S zc (pmask φ) st j).p[j]? = some q)
    (hqL : inL L q = false) (hqφ : φ j q = false)
    (hout : ∀ c ∈ st.p.toList.drop j, inL L c = false → φ j c = false) :
    greedyStep S (fun c => if inL L c then C else 0) noMask st j =
      greedyStep S zc (pmask φ) st j := by
  unfold greedyStep
  congr 2
  have hsc0 := candScores_pmask S st (fun c => if inL L c then C else 0) (fun _ _ => false) j
  rw [← noMask_eq_pmask] at hsc0
  have hscφ := candScores_pmask S st zc φ j
  have hoffφ := greedyStep_off_lt S zc (pmask φ) st j hj
  have hlen0 : (candScores S st (fun c => if inL L c then C else 0) noMask j).length =
      (st.p.toList.drop j).length := by rw [hsc0, List.length_map]
  have hlenφ : (candScores S st zc (pmask φ) j).length = (st.p.toList.drop j).length := by
    rw [hscφ, List.length_map]
  have hP0 := candScores_nonneg S st (fun c => if inL L c then C else 0) noMask j hnn
  have hPφ := candScores_nonneg S st zc (pmask φ) j hnn
  have hneφ : candScores S st zc (pmask φ) j ≠ [] := by
    intro h; rw [h] at hlenφ; simp at hlenφ; omega
  obtain ⟨hr, hmax, hfirst⟩ := firstArgmaxBy_spec scoreGe_order _ hPφ hneφ
  set off := firstArgmaxBy scoreGe (candScores S st zc (pmask φ) j) with hoffdef
  have hoffl : off < (st.p.toList.drop j).length := hlenφ ▸ hr
  have hqeq : q = (st.p.toList.drop j)[off] := by
    unfold greedyStep at hq
    rw [← hoffdef, applyPivot_getElem? S st j (j + off) hj hoffφ j] at hq
    have h1 : st.p[j + off]? = some q := by
      by_cases h0 : j + off = j
      · rw [if_pos h0] at hq; rw [h0, Array.getElem?_eq_getElem hj]; exact hq
      · rw [if_neg h0, if_pos rfl] at hq; rw [Array.getElem?_eq_getElem hoffφ]; exact hq
    have h2 : (st.p.toList.drop j)[off]? = some q := by
      rw [List.getElem?_drop]; simpa using h1
    rw [List.getElem?_eq_getElem hoffl] at h2
    exact (Option.some.inj h2).symm
  have hmvq : mval S φ st j (st.p.toList.drop j)[off] = S.norm2 st.lin (st.p.toList.drop j)[off] := by
    rw [← hqeq]; simp [mval, hqφ]
  have hcq : (if inL L (st.p.toList.drop j)[off] then C else 0) = (0 : Rat) := by
    rw [← hqeq, hqL]; rfl
  have e0 : ∀ i (hi : i < (candScores S st (fun c => if inL L c then C else 0) noMask j).length),
      (candScores S st (fun c => if inL L c then C else 0) noMask j)[i] =
        (S.norm2 st.lin ((st.p.toList.drop j)[i]'(hlen0 ▸ hi)),
          if inL L ((st.p.toList.drop j)[i]'(hlen0 ▸ hi)) then C else 0) := by
    intro i hi; simp [hsc0, mval]
  have eφ : ∀ i (hi : i < (candScores S st zc (pmask φ) j).length),
      (candScores S st zc (pmask φ) j)[i] =
        (mval S φ st j ((st.p.toList.drop j)[i]'(hlenφ ▸ hi)), (0 : Rat)) := by
    intro i hi; simp [hscφ]
  apply firstArgmaxBy_unique scoreGe_order _ hP0 off (by omega)
  · intro k hk
    have hkφ : k < (candScores S st zc (pmask φ) j).length := by omega
    have hkl : k < (st.p.toList.drop j).length := by omega
    rw [e0 off (by omega), e0 k hk, hcq]
    cases hLk : inL L (st.p.toList.drop j)[k] with
    | true =>
      simp only [if_true]
      exact scoreGe_prohib_ge _ _ C (hnn _) hC0 (hC _)
    | false =>
      have h := hmax k hkφ
      rw [eφ off hr, eφ k hkφ, scoreGe_same_cost, hmvq] at h
      have hmk : mval S φ st j (st.p.toList.drop j)[k] = S.norm2 st.lin (st.p.toList.drop j)[k] := by
        unfold mval; rw [hout _ (List.getElem_mem hkl) hLk]; rfl
      rw [hmk] at h
      simp only [Bool.false_eq_true, if_false]
      rw [scoreGe_same_cost]; exact h
  · intro k hk
    have hkφ : k < (candScores S st zc (pmask φ) j).length := by omega
    have hkl : k < (st.p.toList.drop j).length := by omega
    rw [e0 off (by omega), e0 k (by omega), hcq]
    cases hLk : inL L (st.p.toList.drop j)[k] with
    | true =>
      simp only [if_true]
      exact scoreGe_prohib_lt _ _ C (hnn _) hC0 (hC _)
    | false =>
      have h := hfirst k hk
      rw [eφ off hr, eφ k hkφ, scoreGe_same_cost, hmvq] at h
      have hmk : mval S φ st j (st.p.toList.drop j)[k] = S.norm2 st.lin (st.p.toList.drop j)[k] := by
        unfold mval; rw [hout _ (List.getElem_mem hkl) hLk]; rfl
      rw [hmk] at h
      simp only [Bool.false_eq_true, if_false]
      rw [scoreGe_same_cost]; exact h

section Prohibitive
variable (S : ResidSys σ) (φ : Nat → Nat → Bool) (s0 : σ) (n N : Nat) (L A : List Nat)

local notation "R" => greedyRunFrom S zc (pmask φ) s0 n
local notation "U" => greedyRunFrom S zc noMask s0 n

/-- runs: if every one of the first `N` constrained picks lies outside the region, is not zeroed,
and no outside candidate is ever zeroed, the constrained run is the prohibitive-cost run -/
theorem prohibitive_run_eq (C : Rat) (hNn : N ≤ n)
    (hnn : ∀ j < N, ∀ c, 0 ≤ S.norm2 (R j).lin c) (hC0 : 0 < C)
    (hC : ∀ j < N, ∀ c, S.norm2 (R j).lin c < C * C)
    (hstep : ∀ j < N, ∀ q, (R (j + 1)).p[j]? = some q → inL L q = false ∧ φ j q = false ∧
      ∀ c ∈ (R j).p.toList.drop j, inL L c = false → φ j c = false) :
    ∀ j ≤ N, greedyRunFrom S (fun c => if inL L c then C else 0) noMask s0 n j = R j := by
  intro j
  induction j with
  | zero => intro _; rfl
  | succ j ih =>
    intro hj
    rw [greedyRunFrom_succ, greedyRunFrom_succ, ih (by omega)]
    obtain ⟨q, hq⟩ := pick_exists S zc (pmask φ) s0 n j (j + 1) (by omega)
    obtain ⟨h1, h2, h3⟩ := hstep j (by omega) q hq
    rw [greedyRunFrom_succ] at hq
    have hsz := greedyRunFrom_size S zc (pmask φ) s0 n j
    exact prohibitive_step_eq S φ L C (R j) j (by omega) (hnn j (by omega)) hC0 (hC j (by omega))
      q hq h1 h2 h3

theorem s0_step_pred (hNn : N ≤ n) (hL : ∀ x ∈ L, x < n) (hLn : L.Nodup)
    (hφ : ∀ j c, φ j c = predMasked L 0 N j c) (hout : N ≤ n - L.length)
    (hnn : ∀ j < N, ∀ c, 0 ≤ S.norm2 (R j).lin c)
    (hpos : ∀ j < N, ∀ c ∈ (R j).p.toList.drop j, 0 < S.norm2 (R j).lin c)
    (j : Nat) (hj : j < N) (q : Nat) (hq : (R (j + 1)).p[j]? = some q) :
    inL L q = false ∧ φ j q = false ∧
      ∀ c ∈ (R j).p.toList.drop j, inL L c = false → φ j c = false := by
  obtain ⟨-, h2, h3, -, -⟩ := pred_step S φ s0 n N 0 L hNn hL hLn hφ (Nat.zero_le _)
    (Nat.zero_le _) (by omega) hnn hpos j hj q hq
  rw [decide_eq_true (by omega : j < N - 0)] at h2
  refine ⟨h2, h3, fun c _ hc => ?_⟩
  rw [hφ, predMasked_eq L 0 N j c (Nat.zero_le _) hj, hc, decide_eq_true (by omega : j < N - 0)]
  rfl

theorem s0_step_maxN (hNn : N ≤ n) (hL : ∀ x ∈ L, x < n) (hLn : L.Nodup)
    (hAp : A.Perm (List.range n)) (hA : A.take N = (U N).p.toList.take N)
    (hnn0 : ∀ j < N, ∀ c, 0 ≤ S.norm2 (U j).lin c)
    (hφ : ∀ j c, φ j c = maxNMasked L A 0 N c) (hout : N ≤ n - L.length)
    (hnn : ∀ j < N, ∀ c, 0 ≤ S.norm2 (R j).lin c)
    (hpos : ∀ j < N, ∀ c ∈ (R j).p.toList.drop j, 0 < S.norm2 (R j).lin c)
    (j : Nat) (hj : j < N) (q : Nat) (hq : (R (j + 1)).p[j]? = some q) :
    inL L q = false ∧ φ j q = false ∧
      ∀ c ∈ (R j).p.toList.drop j, inL L c = false → φ j c = false := by
  by_cases ht : regionCount L A N ≤ 0
  · have hφ0 : ∀ i c, φ i c = false := fun i c => by
      rw [hφ]; exact maxNMasked_of_le_C L A 0 N c ht
    obtain ⟨hAq, -, -⟩ := coincide_pick_max S φ s0 n N A hNn hA hnn0 N (Nat.le_refl _)
      (fun i _ c _ => hφ0 i c) j hj q hq
    have hqm : q ∈ A.take N := by
      apply List.mem_of_getElem? (i := j)
      rw [List.getElem?_take, if_pos hj]; exact hAq
    have hz : (A.take N).countP (inL L) = 0 := by unfold regionCount at ht; omega
    rw [List.countP_eq_zero] at hz
    refine ⟨?_, hφ0 j q, fun c _ _ => hφ0 j c⟩
    have := hz q hqm
    revert this; cases inL L q <;> simp
  · have ht' : 0 < regionCount L A N := by omega
    have hc0 : (A.take 0).countP (inL L) = 0 := by rw [List.take_zero, List.countP_nil]
    obtain ⟨h1, h2, h3⟩ := maxN_two_phase L A 0 N n 0 hNn hAp ht' (Nat.zero_le _) hc0 (by omega)
    obtain ⟨-, -, -, r4⟩ := two_phase_step S φ s0 n N L A hNn hL hLn hA hnn0 hnn hpos true 0
      (Nat.zero_le _) (fun i hi q hq => by rw [hφ]; exact h1 i hi q hq)
      (fun i _ _ c hc hcn => by rw [hφ]; exact h2 c hc hcn) h3 j hj q hq
    obtain ⟨r5, r6, -⟩ := r4 (Nat.zero_le _)
    refine ⟨r5, r6, fun c hc hcL => ?_⟩
    have hcn := ((greedyRunFrom_cands S zc (pmask φ) s0 n j c).mp hc).1
    rw [hφ, h2 c hcn (by rw [List.take_zero]; exact List.not_mem_nil), hcL]
    rfl

theorem s0_step_exactN (hNn : N ≤ n) (hL : ∀ x ∈ L, x < n) (hLn : L.Nodup)
    (hAp : A.Perm (List.range n)) (hA : A.take N = (U N).p.toList.take N)
    (hnn0 : ∀ j < N, ∀ c, 0 ≤ S.norm2 (U j).lin c)
    (hφ : ∀ j c, φ j c = exactNMasked L A 0 N j c) (hout : N ≤ n - L.length)
    (hnn : ∀ j < N, ∀ c, 0 ≤ S.norm2 (R j).lin c)
    (hpos : ∀ j < N, ∀ c ∈ (R j).p.toList.drop j, 0 < S.norm2 (R j).lin c)
    (j : Nat) (hj : j < N) (q : Nat) (hq : (R (j + 1)).p[j]? = some q) :
    inL L q = false ∧ φ j q = false ∧
      ∀ c ∈ (R j).p.toList.drop j, inL L c = false → φ j c = false :=
  s0_step_maxN S φ s0 n N L A hNn hL hLn hAp hA hnn0
    (fun i c => by rw [hφ, exactNMasked_of_ge L A 0 N i c (Nat.zero_le _)]) hout hnn hpos j hj q hq

end Prohibitive

end PsVerif
