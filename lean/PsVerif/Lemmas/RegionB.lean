/-
  Helper lemmas for C05 (exact_n): counting region sensors among the picks of a constrained run.
-/
import PsVerif.Lemmas.Masked
namespace PsVerif

variable {σ : Type}

/-! ### list counting -/

theorem countP_take_le_succ (l : List Nat) (ψ : Nat → Bool) (j : Nat) :
    (l.take j).countP ψ ≤ (l.take (j + 1)).countP ψ ∧
      (l.take (j + 1)).countP ψ ≤ (l.take j).countP ψ + 1 := by
  rw [List.take_add_one, List.countP_append]
  have h : (l[j]?.toList).countP ψ ≤ 1 := by
    refine le_trans (List.countP_le_length) ?_
    cases l[j]? <;> simp
  omega

theorem countP_take_le (l : List Nat) (ψ : Nat → Bool) (j : Nat) :
    (l.take j).countP ψ ≤ j :=
  le_trans List.countP_le_length (List.length_take_le j l)

theorem countP_take_mono (l : List Nat) (ψ : Nat → Bool) {i j : Nat} (hij : i ≤ j) :
    (l.take i).countP ψ ≤ (l.take j).countP ψ := by
  induction j with
  | zero => have : i = 0 := by omega
            subst this; exact le_refl _
  | succ j ih =>
    by_cases h : i = j + 1
    · subst h; exact le_refl _
    · exact le_trans (ih (by omega)) (countP_take_le_succ l ψ j).1

/-- if the first `j` entries do not exhaust the `ψ`-entries, one is left among the rest -/
theorem exists_mem_drop_of_countP_lt_B (p : List Nat) (ψ : Nat → Bool) (j : Nat)
    (h : (p.take j).countP ψ < p.countP ψ) : ∃ c ∈ p.drop j, ψ c = true := by
  have h1 : p.countP ψ = (p.take j).countP ψ + (p.drop j).countP ψ := by
    rw [← List.countP_append, List.take_append_drop]
  have h2 : 0 < (p.drop j).countP ψ := by omega
  exact List.countP_pos_iff.mp h2

/-- members of a prefix with at most `s` `ψ`-entries are not among the `ψ`-entries beyond the
first `s` -/
theorem not_mem_filter_drop_of_take (A : List Nat) (ψ : Nat → Bool) (hA : A.Nodup) (j s : Nat)
    (h : (A.take j).countP ψ ≤ s) : ∀ x ∈ A.take j, x ∉ (A.filter ψ).drop s := by
  intro x hx hb
  have hsplit : A.filter ψ = (A.take j).filter ψ ++ (A.drop j).filter ψ := by
    rw [← List.filter_append, List.take_append_drop]
  rw [hsplit, List.drop_append] at hb
  have hlen : ((A.take j).filter ψ).length ≤ s := by
    rw [← List.countP_eq_length_filter]; exact h
  rw [List.drop_eq_nil_of_le hlen, List.nil_append] at hb
  have hx2 : x ∈ A.drop j := List.mem_of_mem_filter (List.mem_of_mem_drop hb)
  have hnd : (A.take j ++ A.drop j).Nodup := by rw [List.take_append_drop]; exact hA
  exact (List.nodup_append.mp hnd).2.2 x hx x hx2 rfl

/-- a duplicate-free list inside a list of length `s` has at most `s` entries -/
theorem length_le_of_nodup_subset (l m : List Nat) (hl : l.Nodup) (h : ∀ x ∈ l, x ∈ m) :
    l.length ≤ m.length :=
  (List.subperm_of_subset hl h).length_le

/-! ### arithmetic of the running region count -/

/-- under-filled case: there is a switch step `j0` before which no step is forced, from which on
every step is forced, and at which exactly the missing number of steps is left -/
theorem underfill_switch (cnt : Nat → Nat) (N s : Nat) (h0 : cnt 0 = 0)
    (hup : ∀ j, cnt j ≤ cnt (j + 1)) (hstep : ∀ j, cnt (j + 1) ≤ cnt j + 1)
    (hs : s ≤ N) (ht : cnt N < s) :
    ∃ j0, j0 < N ∧ (∀ j, j < j0 → j + s < N + cnt j) ∧
      (∀ j, j0 ≤ j → N + cnt j ≤ j + s) ∧ j0 + s = N + cnt j0 := by
  have hex : ∃ j, N + cnt j ≤ j + s := ⟨N, by omega⟩
  classical
  let j0 := Nat.find hex
  have hj0 : N + cnt j0 ≤ j0 + s := Nat.find_spec hex
  have hmin : ∀ j, j < j0 → j + s < N + cnt j := by
    intro j hj
    have := Nat.find_min hex hj
    omega
  have hmono : ∀ j, j0 ≤ j → N + cnt j ≤ j + s := by
    intro j hj
    induction j with
    | zero => have : j0 = 0 := by omega
              rw [this] at hj0; exact hj0
    | succ j ih =>
      by_cases hjj : j0 = j + 1
      · rw [hjj] at hj0; exact hj0
      · have := ih (by omega)
        have := hstep j
        omega
  have heq : j0 + s = N + cnt j0 := by
    rcases Nat.eq_zero_or_pos j0 with hz | hp
    · rw [hz] at hj0 ⊢; omega
    · obtain ⟨k, hk⟩ : ∃ k, j0 = k + 1 := ⟨j0 - 1, by omega⟩
      have h1 := hmin k (by omega)
      have h2 := hup k
      rw [hk] at hj0 ⊢
      omega
  refine ⟨j0, ?_, hmin, hmono, heq⟩
  have hle : j0 ≤ N := Nat.find_min' hex (by omega)
  rcases Nat.lt_or_ge j0 N with h | h
  · exact h
  · have : j0 = N := by omega
    rw [this] at heq; omega

/-- over-filled case: there is a step `j1 < N` up to which exactly `s` region sensors occur -/
theorem overfill_switch (cnt : Nat → Nat) (N s : Nat) (h0 : cnt 0 = 0)
    (hstep : ∀ j, cnt (j + 1) ≤ cnt j + 1) (ht : s < cnt N) :
    ∃ j1, j1 < N ∧ cnt j1 = s := by
  have hex : ∃ j, s < cnt j := ⟨N, ht⟩
  classical
  let j0 := Nat.find hex
  have hj0 : s < cnt j0 := Nat.find_spec hex
  have hle : j0 ≤ N := Nat.find_min' hex ht
  rcases Nat.eq_zero_or_pos j0 with hz | hp
  · rw [hz, h0] at hj0; omega
  · obtain ⟨k, hk⟩ : ∃ k, j0 = k + 1 := ⟨j0 - 1, by omega⟩
    have h1 := Nat.find_min hex (show k < j0 by omega)
    have h2 := hstep k
    rw [hk] at hj0
    exact ⟨k, by omega, by omega⟩

/-! ### picks of a run -/

/-- the first `j + 1` picks are the first `j` picks followed by the pick of step `j` -/
theorem run_take_succ (S : ResidSys σ) (costs : Nat → Rat) (mask : Mask) (s0 : σ) (n j q : Nat)
    (hq : (greedyRunFrom S costs mask s0 n (j + 1)).p[j]? = some q) :
    (greedyRunFrom S costs mask s0 n (j + 1)).p.toList.take (j + 1) =
      (greedyRunFrom S costs mask s0 n j).p.toList.take j ++ [q] := by
  rw [List.take_add_one, greedyRunFrom_take_take S costs mask s0 n j (j + 1) (by omega),
    Array.getElem?_toList, hq]
  rfl

/-- a member of the first `N` picks is the pick of some step `j < N` -/
theorem run_mem_take (S : ResidSys σ) (costs : Nat → Rat) (mask : Mask) (s0 : σ) (n N x : Nat)
    (hx : x ∈ (greedyRunFrom S costs mask s0 n N).p.toList.take N) :
    ∃ j, j < N ∧ (greedyRunFrom S costs mask s0 n (j + 1)).p[j]? = some x := by
  obtain ⟨j, hj, hjx⟩ := List.getElem_of_mem hx
  have hjN : j < N := by
    have := List.length_take_le N (greedyRunFrom S costs mask s0 n N).p.toList
    omega
  refine ⟨j, hjN, ?_⟩
  rw [← greedyRunFrom_take_getElem? S costs mask s0 n N j hjN, List.getElem?_eq_getElem hj, hjx]

/-- counting: if the picks so far do not exhaust the `ψ`-sensors, a `ψ`-candidate is left -/
theorem run_exists_cand (S : ResidSys σ) (costs : Nat → Rat) (mask : Mask) (s0 : σ) (n j : Nat)
    (ψ : Nat → Bool)
    (h : ((greedyRunFrom S costs mask s0 n j).p.toList.take j).countP ψ < (List.range n).countP ψ) :
    ∃ c ∈ (greedyRunFrom S costs mask s0 n j).p.toList.drop j, ψ c = true := by
  apply exists_mem_drop_of_countP_lt_B
  rw [(greedyRunFrom_toList_perm S costs mask s0 n j).countP_eq]
  exact h

/-- if some candidate is not zeroed, the pick is not zeroed (positive candidate norms) -/
theorem pick_unmasked_of_cand (S : ResidSys σ) (φ : Nat → Nat → Bool) (s0 : σ) (n N j : Nat)
    (hNn : N ≤ n) (hj : j < N)
    (hnn : ∀ j < N, ∀ c, 0 ≤ S.norm2 (greedyRunFrom S zc (pmask φ) s0 n j).lin c)
    (hpos : ∀ j < N, ∀ c ∈ (greedyRunFrom S zc (pmask φ) s0 n j).p.toList.drop j,
      0 < S.norm2 (greedyRunFrom S zc (pmask φ) s0 n j).lin c)
    (q : Nat) (hq : (greedyRunFrom S zc (pmask φ) s0 n (j + 1)).p[j]? = some q)
    (hex : ∃ c ∈ (greedyRunFrom S zc (pmask φ) s0 n j).p.toList.drop j, φ j c = false) :
    φ j q = false := by
  obtain ⟨c, hc, hφ⟩ := hex
  exact (masked_pick_unmasked S φ s0 n j (by omega) (hnn j hj) q hq
    ⟨c, hc, hφ, hpos j hj c hc⟩).1

/-- from a step `j0` on at which exactly `N - j0` region sensors are missing, and from which on
all outside sensors are zeroed, every pick is a region sensor -/
theorem forced_region_count (S : ResidSys σ) (φ : Nat → Nat → Bool) (s0 : σ) (n N : Nat)
    (L : List Nat) (hNn : N ≤ n) (hL : ∀ x ∈ L, x < n) (hLn : L.Nodup)
    (hnn : ∀ j < N, ∀ c, 0 ≤ S.norm2 (greedyRunFrom S zc (pmask φ) s0 n j).lin c)
    (hpos : ∀ j < N, ∀ c ∈ (greedyRunFrom S zc (pmask φ) s0 n j).p.toList.drop j,
      0 < S.norm2 (greedyRunFrom S zc (pmask φ) s0 n j).lin c)
    (j0 c0 s : Nat)
    (hforced : ∀ j, j0 ≤ j → j < N → ∀ c, φ j c = !inL L c)
    (hin : s ≤ L.length) (heq : j0 + s = N + c0)
    (hc0 : ((greedyRunFrom S zc (pmask φ) s0 n j0).p.toList.take j0).countP (inL L) = c0) :
    ∀ j, j0 ≤ j → j ≤ N →
      ((greedyRunFrom S zc (pmask φ) s0 n j).p.toList.take j).countP (inL L) = c0 + (j - j0) := by
  intro j
  induction j with
  | zero =>
    intro h0 _
    have : j0 = 0 := by omega
    subst this; simpa using hc0
  | succ j ih =>
    intro h0 hjN
    by_cases hjj : j0 = j + 1
    · subst hjj; simpa using hc0
    · have ih := ih (by omega) (by omega)
      have hreg := countP_inL_range L n hL hLn
      obtain ⟨c, hc, hcL⟩ := run_exists_cand S zc (pmask φ) s0 n j (inL L) (by rw [ih, hreg]; omega)
      obtain ⟨q, hq⟩ := pick_exists S zc (pmask φ) s0 n j (j + 1) (by omega)
      have hφq := pick_unmasked_of_cand S φ s0 n N j hNn (by omega) hnn hpos q hq
        ⟨c, hc, by rw [hforced j (by omega) (by omega) c, hcL]; rfl⟩
      rw [hforced j (by omega) (by omega) q] at hφq
      have hqL : inL L q = true := by simpa using hφq
      rw [run_take_succ S zc (pmask φ) s0 n j q hq, List.countP_append, ih]
      simp [hqL]; omega

/-- if the zeroed sensors leave room for `N` picks, no pick of the first `N` steps is zeroed -/
theorem banned_never_picked (S : ResidSys σ) (φ : Nat → Nat → Bool) (s0 : σ) (n N : Nat)
    (B : List Nat) (hNn : N ≤ n) (hB : ∀ x ∈ B, x < n) (hBn : B.Nodup)
    (hφ : ∀ j c, φ j c = inL B c) (hroom : N + B.length ≤ n)
    (hnn : ∀ j < N, ∀ c, 0 ≤ S.norm2 (greedyRunFrom S zc (pmask φ) s0 n j).lin c)
    (hpos : ∀ j < N, ∀ c ∈ (greedyRunFrom S zc (pmask φ) s0 n j).p.toList.drop j,
      0 < S.norm2 (greedyRunFrom S zc (pmask φ) s0 n j).lin c)
    (j : Nat) (hj : j < N) (q : Nat)
    (hq : (greedyRunFrom S zc (pmask φ) s0 n (j + 1)).p[j]? = some q) : inL B q = false := by
  have hcnt := countP_not_region_perm B n hB hBn (List.range n) (List.Perm.refl _)
  have hle := countP_take_le (greedyRunFrom S zc (pmask φ) s0 n j).p.toList
    (fun c => !(inL B c)) j
  obtain ⟨c, hc, hcB⟩ := run_exists_cand S zc (pmask φ) s0 n j (fun c => !(inL B c))
    (by rw [hcnt]; omega)
  have := pick_unmasked_of_cand S φ s0 n N j hNn hj hnn hpos q hq
    ⟨c, hc, by rw [hφ]; simpa using hcB⟩
  rw [hφ] at this; exact this

/-! ### the unconstrained ranking `A` -/

/-- the first `j ≤ N` entries of `A` are the first `j` unconstrained picks -/
theorem A_take_eq (S : ResidSys σ) (s0 : σ) (n N : Nat) (A : List Nat)
    (hA : A.take N = (greedyRunFrom S zc noMask s0 n N).p.toList.take N) (j : Nat) (hj : j ≤ N) :
    A.take j = (greedyRunFrom S zc noMask s0 n j).p.toList.take j := by
  have h := congrArg (List.take j) hA
  rw [List.take_take, List.take_take, Nat.min_eq_left hj] at h
  rw [h]
  exact greedyRunFrom_take_take S zc noMask s0 n j N hj

/-- if no entry of `A.take J` is zeroed at its step, the constrained run makes the picks
`A.take J` -/
theorem coincide_take (S : ResidSys σ) (φ : Nat → Nat → Bool) (s0 : σ) (n N : Nat) (A : List Nat)
    (hNn : N ≤ n)
    (hA : A.take N = (greedyRunFrom S zc noMask s0 n N).p.toList.take N)
    (hnn0 : ∀ j < N, ∀ c, 0 ≤ S.norm2 (greedyRunFrom S zc noMask s0 n j).lin c)
    (J : Nat) (hJ : J ≤ N) (hφ : ∀ j < J, ∀ q, A[j]? = some q → φ j q = false) :
    (greedyRunFrom S zc (pmask φ) s0 n J).p.toList.take J = A.take J := by
  rw [A_take_eq S s0 n N A hA J hJ]
  rw [masked_run_coincide S φ s0 n J (by omega) (fun j hj => hnn0 j (by omega))]
  intro j hj q hq
  apply hφ j hj q
  rw [← hq, ← greedyRunFrom_take_getElem? S zc noMask s0 n N j (by omega), ← hA,
    List.getElem?_take, if_pos (by omega)]

/-! ### exact_n -/

theorem regionCount_zero (L A : List Nat) : regionCount L A 0 = 0 := by
  simp [regionCount]

/-- **core of C05/exact_n**, on the mask given candidate by candidate -/
theorem exactN_count_core (S : ResidSys σ) (s0 : σ) (n N s : Nat) (L A : List Nat)
    (hNn : N ≤ n) (hL : ∀ x ∈ L, x < n) (hLn : L.Nodup) (hAp : A.Perm (List.range n))
    (hA : A.take N = (greedyRunFrom S zc noMask s0 n N).p.toList.take N)
    (hnn0 : ∀ j < N, ∀ c, 0 ≤ S.norm2 (greedyRunFrom S zc noMask s0 n j).lin c)
    (hs : s ≤ N) (hin : s ≤ L.length) (hout : N - s ≤ n - L.length)
    (hnn : ∀ j < N, ∀ c,
      0 ≤ S.norm2 (greedyRunFrom S zc (pmask (exactNMasked L A s N)) s0 n j).lin c)
    (hpos : ∀ j < N,
      ∀ c ∈ (greedyRunFrom S zc (pmask (exactNMasked L A s N)) s0 n j).p.toList.drop j,
        0 < S.norm2 (greedyRunFrom S zc (pmask (exactNMasked L A s N)) s0 n j).lin c) :
    ((greedyRunFrom S zc (pmask (exactNMasked L A s N)) s0 n N).p.toList.take N).countP (inL L)
      = s := by
  have hAnd : A.Nodup := hAp.nodup_iff.mpr List.nodup_range
  have hAL : A.countP (inL L) = L.length := countP_region_perm L n hL hLn A hAp
  have hLle : L.length ≤ n := by
    have := List.countP_le_length (p := inL L) (l := A)
    rw [hAL, hAp.length_eq, List.length_range] at this; exact this
  have hup : ∀ j, regionCount L A j ≤ regionCount L A (j + 1) :=
    fun j => (countP_take_le_succ A (inL L) j).1
  have hstep : ∀ j, regionCount L A (j + 1) ≤ regionCount L A j + 1 :=
    fun j => (countP_take_le_succ A (inL L) j).2
  have hcntle : ∀ j, regionCount L A j ≤ j := fun j => countP_take_le A (inL L) j
  have hcntmono : ∀ {i j}, i ≤ j → regionCount L A i ≤ regionCount L A j :=
    fun h => countP_take_mono A (inL L) h
  rcases Nat.lt_trichotomy (regionCount L A N) s with ht | ht | ht
  · -- under-filled
    obtain ⟨j0, hj0N, hbefore, hafter, heq⟩ :=
      underfill_switch (regionCount L A) N s (regionCount_zero L A) hup hstep hs ht
    have hφ : ∀ j c, exactNMasked L A s N j c =
        (decide ((N : Int) > j ∧ (j : Int) ≥ (N : Int) - ((s : Int) - (regionCount L A j : Int)))
          && !(inL L c)) := by
      intro j c; unfold exactNMasked; simp only [if_pos ht]
    have h1 := coincide_take S (exactNMasked L A s N) s0 n N A hNn hA hnn0 j0 (by omega) (by
      intro j hj q _
      rw [hφ]
      have := hbefore j hj
      have : ¬ ((N : Int) > j ∧ (j : Int) ≥ (N : Int) - ((s : Int) - (regionCount L A j : Int))) := by
        omega
      rw [decide_eq_false this]; rfl)
    have h2 := forced_region_count S (exactNMasked L A s N) s0 n N L hNn hL hLn hnn hpos j0
      (regionCount L A j0) s (by
        intro j hj hjN c
        rw [hφ]
        have := hafter j hj
        have : ((N : Int) > j ∧ (j : Int) ≥ (N : Int) - ((s : Int) - (regionCount L A j : Int))) := by
          omega
        rw [decide_eq_true this]; rfl) hin heq (by rw [h1]; rfl) N (by omega) (by omega)
    rw [h2]; omega
  · -- exactly filled: nothing is zeroed
    have hφ : ∀ j c, exactNMasked L A s N j c = false := by
      intro j c; unfold exactNMasked maxNMasked
      simp only [if_neg (show ¬ regionCount L A N < s by omega)]
      simp [ht]
    have h1 := coincide_take S (exactNMasked L A s N) s0 n N A hNn hA hnn0 N (by omega)
      (fun j _ q _ => hφ j q)
    rw [h1]; exact ht
  · -- over-filled
    have hφ : ∀ j c, exactNMasked L A s N j c = inL (bannedOf L A s) c := by
      intro j c; unfold exactNMasked maxNMasked
      simp only [if_neg (show ¬ regionCount L A N < s by omega)]
      simp [ht, inL]
    have hfl : (A.filter (inL L)).length = L.length := by
      rw [← List.countP_eq_length_filter]; exact hAL
    have htL : regionCount L A N ≤ L.length := by
      rw [← hAL]
      have := countP_take_mono A (inL L) (show N ≤ max N A.length from le_max_left _ _)
      rw [List.take_of_length_le (le_max_right _ _)] at this
      exact this
    have hBn : (bannedOf L A s).Nodup := List.Nodup.sublist (List.drop_sublist _ _) (hAnd.filter _)
    have hBlen : (bannedOf L A s).length = L.length - s := by
      unfold bannedOf; rw [List.length_drop, hfl]
    have hBlt : ∀ x ∈ bannedOf L A s, x < n := by
      intro x hx
      have : x ∈ A := List.mem_of_mem_filter (List.mem_of_mem_drop hx)
      exact List.mem_range.mp (hAp.mem_iff.mp this)
    have hnever := banned_never_picked S (exactNMasked L A s N) s0 n N (bannedOf L A s) hNn hBlt
      hBn hφ (by rw [hBlen]; omega) hnn hpos
    have hRp := greedyRunFrom_toList_perm S zc (pmask (exactNMasked L A s N)) s0 n N
    apply Nat.le_antisymm
    · -- at most `s`: every region pick is among the first `s` region sensors of `A`
      rw [List.countP_eq_length_filter]
      have hrnd : ((greedyRunFrom S zc (pmask (exactNMasked L A s N)) s0 n N).p.toList.take
          N).Nodup :=
        List.Nodup.sublist (List.take_sublist _ _) (hRp.nodup_iff.mpr List.nodup_range)
      refine le_trans (length_le_of_nodup_subset _ ((A.filter (inL L)).take s)
        (hrnd.filter _) ?_) (List.length_take_le _ _)
      intro x hx
      obtain ⟨hxr, hxL⟩ := List.mem_filter.mp hx
      obtain ⟨j, hj, hjx⟩ := run_mem_take S zc _ s0 n N x hxr
      have hnb := hnever j hj x hjx
      have hxn : x < n := List.mem_range.mp (hRp.mem_iff.mp (List.mem_of_mem_take hxr))
      have hxA : x ∈ A := hAp.mem_iff.mpr (List.mem_range.mpr hxn)
      have hxF : x ∈ A.filter (inL L) := List.mem_filter.mpr ⟨hxA, hxL⟩
      rw [← List.take_append_drop s (A.filter (inL L))] at hxF
      rcases List.mem_append.mp hxF with h | h
      · exact h
      · exfalso
        have hb : inL (bannedOf L A s) x = true := by
          unfold inL bannedOf; exact List.contains_iff_mem.mpr h
        rw [hnb] at hb; exact Bool.false_ne_true hb
    · -- at least `s`: the run coincides with the unconstrained one up to the `s`-th region sensor
      obtain ⟨j1, hj1N, hj1⟩ :=
        overfill_switch (regionCount L A) N s (regionCount_zero L A) hstep ht
      have hnb := not_mem_filter_drop_of_take A (inL L) hAnd j1 s (le_of_eq hj1)
      have h1 := coincide_take S (exactNMasked L A s N) s0 n N A hNn hA hnn0 j1 (by omega) (by
        intro j hj q hq
        rw [hφ]
        have hq' : q ∈ A.take j1 := by
          rw [List.mem_iff_getElem?]
          exact ⟨j, by rw [List.getElem?_take, if_pos hj]; exact hq⟩
        have hnq := hnb q hq'
        cases hc : inL (bannedOf L A s) q with
        | false => rfl
        | true => exact absurd (List.contains_iff_mem.mp hc) hnq)
      have hm := countP_take_mono (greedyRunFrom S zc (pmask (exactNMasked L A s N)) s0 n N).p.toList
        (inL L) (show j1 ≤ N by omega)
      rw [greedyRunFrom_take_take S zc _ s0 n j1 N (by omega), h1] at hm
      exact hj1 ▸ hm

end PsVerif
