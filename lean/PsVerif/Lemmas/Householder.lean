/-
  L1: the Householder step exactly as written in `qr_reflector` / `CCQR.fit` / `GQR.fit`, over ℝ, refines
  the Schur-complement step of the exact model: after the reflector is applied and the pivot row and
  column are dropped, the Gram matrix of the trailing block is the Schur complement of the Gram matrix.
-/
import Mathlib.Analysis.Real.Sqrt
import Mathlib.Data.Matrix.Mul
import Mathlib.Algebra.BigOperators.Fin
import Mathlib.Algebra.BigOperators.Field
import Mathlib.Tactic.Ring
import Mathlib.Tactic.FieldSimp
import Mathlib.Tactic.Linarith
import Mathlib.Tactic.Positivity
import Mathlib.Tactic.LinearCombination
namespace PsVerif

variable {p q : ℕ}

/-- squared norm of column `c` of the trailing block -/
noncomputable def colNorm2 (T : Matrix (Fin (p + 1)) (Fin q) ℝ) (c : Fin q) : ℝ := ∑ i, T i c ^ 2

/-- Gram entry of two columns (sensors) of the trailing block -/
noncomputable def colDot (T : Matrix (Fin (p + 1)) (Fin q) ℝ) (a b : Fin q) : ℝ := ∑ i, T i a * T i b

/-- `u = r[:, i_piv] / dlen; u[0] += sign(u[0]) + (u[0] == 0); u /= sqrt(abs(u[0]))` -/
noncomputable def reflector (T : Matrix (Fin (p + 1)) (Fin q) ℝ) (piv : Fin q) : Fin (p + 1) → ℝ :=
  let ρ := Real.sqrt (colNorm2 T piv)
  let v : Fin (p + 1) → ℝ := fun i => T i piv / ρ
  let σ : ℝ := if v 0 < 0 then -1 else 1          -- np.sign(v0) + (v0 == 0)
  let w : Fin (p + 1) → ℝ := fun i => if i = 0 then v 0 + σ else v i
  fun i => w i / Real.sqrt |w 0|

/-- `R[j:, j:] -= np.outer(u, np.dot(u, R[j:, j:]))` -/
noncomputable def applyReflector (T : Matrix (Fin (p + 1)) (Fin q) ℝ) (u : Fin (p + 1) → ℝ) :
    Matrix (Fin (p + 1)) (Fin q) ℝ :=
  fun i c => T i c - u i * ∑ k, u k * T k c


/-! ### auxiliary names for the `let`s of `reflector` -/

/-- the normalised pivot column `v = T[:, piv] / ρ` -/
private noncomputable def hv (T : Matrix (Fin (p + 1)) (Fin q) ℝ) (piv : Fin q) : Fin (p + 1) → ℝ :=
  fun i => T i piv / Real.sqrt (colNorm2 T piv)

/-- the sign `σ` -/
private noncomputable def hs (T : Matrix (Fin (p + 1)) (Fin q) ℝ) (piv : Fin q) : ℝ :=
  if hv T piv 0 < 0 then -1 else 1

private lemma hs_sq (T : Matrix (Fin (p + 1)) (Fin q) ℝ) (piv : Fin q) : hs T piv ^ 2 = 1 := by
  unfold hs; split_ifs <;> norm_num

private lemma hs_mul (T : Matrix (Fin (p + 1)) (Fin q) ℝ) (piv : Fin q) :
    hs T piv * hv T piv 0 = |hv T piv 0| := by
  unfold hs; split_ifs with h
  · rw [abs_of_neg h]; ring
  · rw [abs_of_nonneg (not_lt.mp h)]; ring

private lemma abs_add_hs (T : Matrix (Fin (p + 1)) (Fin q) ℝ) (piv : Fin q) :
    |hv T piv 0 + hs T piv| = 1 + |hv T piv 0| := by
  unfold hs; split_ifs with h
  · rw [abs_of_neg h, abs_of_neg (by linarith)]; ring
  · have h' := not_lt.mp h
    rw [abs_of_nonneg h', abs_of_nonneg (by linarith)]; ring

private lemma reflector_eq (T : Matrix (Fin (p + 1)) (Fin q) ℝ) (piv : Fin q) (i : Fin (p + 1)) :
    reflector T piv i =
      (if i = 0 then hv T piv 0 + hs T piv else hv T piv i) / Real.sqrt (1 + |hv T piv 0|) := by
  rw [← abs_add_hs]
  unfold reflector hs hv
  simp only [if_true]

private lemma sum_v_sq (T : Matrix (Fin (p + 1)) (Fin q) ℝ) (piv : Fin q) (hρ : 0 < colNorm2 T piv) :
    ∑ i, hv T piv i ^ 2 = 1 := by
  unfold hv
  simp only [div_pow]
  rw [← Finset.sum_div, Real.sq_sqrt hρ.le]
  show colNorm2 T piv / colNorm2 T piv = 1
  exact div_self hρ.ne'

private lemma col_eq (T : Matrix (Fin (p + 1)) (Fin q) ℝ) (piv : Fin q) (hρ : 0 < colNorm2 T piv)
    (k : Fin (p + 1)) : T k piv = Real.sqrt (colNorm2 T piv) * hv T piv k := by
  have hρ' := Real.sqrt_pos.mpr hρ
  unfold hv; field_simp

private lemma beta_pos (T : Matrix (Fin (p + 1)) (Fin q) ℝ) (piv : Fin q) :
    0 < 1 + |hv T piv 0| := by positivity

private lemma reflector_dot_pivot (T : Matrix (Fin (p + 1)) (Fin q) ℝ) (piv : Fin q)
    (hρ : 0 < colNorm2 T piv) :
    ∑ k, reflector T piv k * T k piv =
      Real.sqrt (colNorm2 T piv) * Real.sqrt (1 + |hv T piv 0|) := by
  have hβ := beta_pos T piv
  have hβ' := Real.sqrt_pos.mpr hβ
  have key : ∑ k, (if k = 0 then hv T piv 0 + hs T piv else hv T piv k) * hv T piv k
      = 1 + |hv T piv 0| := by
    have h1 := sum_v_sq T piv hρ
    rw [Fin.sum_univ_succ] at h1 ⊢
    simp only [pow_two] at h1
    simp only [Fin.succ_ne_zero, if_false, if_true]
    linear_combination h1 + hs_mul T piv
  calc ∑ k, reflector T piv k * T k piv
      = ∑ k, Real.sqrt (colNorm2 T piv) / Real.sqrt (1 + |hv T piv 0|) *
          ((if k = 0 then hv T piv 0 + hs T piv else hv T piv k) * hv T piv k) := by
        refine Finset.sum_congr rfl (fun k _ => ?_)
        rw [reflector_eq, col_eq T piv hρ k]; ring
    _ = Real.sqrt (colNorm2 T piv) / Real.sqrt (1 + |hv T piv 0|) * (1 + |hv T piv 0|) := by
        rw [← Finset.mul_sum, key]
    _ = Real.sqrt (colNorm2 T piv) * Real.sqrt (1 + |hv T piv 0|) := by
        have := Real.mul_self_sqrt hβ.le
        rw [div_mul_eq_mul_div, div_eq_iff hβ'.ne']
        linear_combination (-Real.sqrt (colNorm2 T piv)) * this

private lemma colNorm2_eq_colDot (T : Matrix (Fin (p + 1)) (Fin q) ℝ) (c : Fin q) :
    colNorm2 T c = colDot T c c := by
  unfold colNorm2 colDot; simp only [pow_two]

/-- the reflector has squared length 2, so `I − u uᵀ` is an orthogonal reflection -/
theorem reflector_norm (T : Matrix (Fin (p + 1)) (Fin q) ℝ) (piv : Fin q) (hρ : 0 < colNorm2 T piv) :
    ∑ i, reflector T piv i ^ 2 = 2 := by
  have hβ := beta_pos T piv
  simp only [reflector_eq, div_pow]
  rw [← Finset.sum_div, Real.sq_sqrt hβ.le, Fin.sum_univ_succ]
  simp only [Fin.succ_ne_zero, if_false, if_true]
  have h1 := sum_v_sq T piv hρ
  rw [Fin.sum_univ_succ] at h1
  rw [div_eq_iff hβ.ne']
  linear_combination h1 + 2 * hs_mul T piv + hs_sq T piv

/-- the reflection preserves all Gram entries of the block -/
theorem applyReflector_gram (T : Matrix (Fin (p + 1)) (Fin q) ℝ) (u : Fin (p + 1) → ℝ)
    (hu : ∑ i, u i ^ 2 = 2) (a b : Fin q) :
    colDot (applyReflector T u) a b = colDot T a b := by
  unfold colDot applyReflector
  obtain ⟨sa, hsa⟩ : ∃ s, ∑ k, u k * T k a = s := ⟨_, rfl⟩
  obtain ⟨sb, hsb⟩ : ∃ s, ∑ k, u k * T k b = s := ⟨_, rfl⟩
  rw [hsa, hsb]
  have h : ∀ i, (T i a - u i * sa) * (T i b - u i * sb) =
      T i a * T i b - sb * (u i * T i a) - sa * (u i * T i b) + sa * sb * u i ^ 2 := by
    intro i; ring
  simp only [h, Finset.sum_add_distrib, Finset.sum_sub_distrib, ← Finset.mul_sum, hu, hsa, hsb]
  ring

/-- the pivot column is mapped onto the first coordinate axis: everything below row 0 vanishes
(this is what `R[j+1:, j] = 0` writes explicitly) -/
theorem applyReflector_pivot_column (T : Matrix (Fin (p + 1)) (Fin q) ℝ) (piv : Fin q)
    (hρ : 0 < colNorm2 T piv) (i : Fin p) :
    applyReflector T (reflector T piv) i.succ piv = 0 := by
  have hβ' := Real.sqrt_pos.mpr (beta_pos T piv)
  unfold applyReflector
  rw [reflector_dot_pivot T piv hρ, reflector_eq, if_neg (Fin.succ_ne_zero i), col_eq T piv hρ i.succ]
  field_simp
  ring

/-- **Householder refines Schur.** After the step, the Gram matrix of the block without its first row
is the Schur complement of the old Gram matrix with respect to the pivot – the step of the exact
model (`schur`). Hence the column norms the code computes at the next step are the square roots of the
model's Schur diagonal, in exact real arithmetic. -/
theorem householder_refines_schur (T : Matrix (Fin (p + 1)) (Fin q) ℝ) (piv : Fin q)
    (hρ : 0 < colNorm2 T piv) (a b : Fin q) :
    ∑ i : Fin p, applyReflector T (reflector T piv) i.succ a * applyReflector T (reflector T piv) i.succ b =
      colDot T a b - colDot T a piv * colDot T piv b / colNorm2 T piv := by
  have hu := reflector_norm T piv hρ
  have hcol := applyReflector_pivot_column T piv hρ
  have hsplit : ∀ a b : Fin q, colDot T a b =
      applyReflector T (reflector T piv) 0 a * applyReflector T (reflector T piv) 0 b +
      ∑ i : Fin p, applyReflector T (reflector T piv) i.succ a *
        applyReflector T (reflector T piv) i.succ b := by
    intro a b
    rw [← applyReflector_gram T _ hu a b, colDot, Fin.sum_univ_succ]
  have h1 := hsplit a piv
  have h2 := hsplit piv b
  have h3 := hsplit piv piv
  simp only [hcol, mul_zero, zero_mul, Finset.sum_const_zero, add_zero] at h1 h2 h3
  rw [colNorm2_eq_colDot] at hρ ⊢
  rw [h3] at hρ
  have hx : applyReflector T (reflector T piv) 0 piv ≠ 0 := by
    intro h0; rw [h0] at hρ; simp at hρ
  rw [h1, h2, h3, hsplit a b]
  field_simp
  ring

end PsVerif
