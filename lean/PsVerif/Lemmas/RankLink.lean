/-
  Rank link for C02: for a basis matrix of full column rank m, the first m greedy (default QR) picks of
  the exact model all have non-zero residual, hence the selected rows are independent and determine the
  coefficients.  Builds on Lemmas/GramAlg.lean and Props/C03.lean.
-/
import PsVerif.Props.C03
import Mathlib.LinearAlgebra.Dimension.Finrank
import Mathlib.LinearAlgebra.FiniteDimensional.Defs
import Mathlib.LinearAlgebra.Dimension.Constructions
namespace PsVerif
open Matrix

/-- if the residual of every sensor row (after ranking `picks`) is zero, every sensor row lies in the span
of the picked rows -/
theorem rows_in_span_of_resid_zero {m : ℕ} (rows : Nat → Fin m → ℚ) (picks : List Nat) (a : Nat)
    (h : mgsResid rows picks a = 0) :
    rows a ∈ Submodule.span ℚ (Set.range fun i : Fin picks.length => rows picks[i]) := by
  have := mgsResid_sub_mem_span rows picks a
  rwa [h, sub_zero] at this

/-- the span of all `n` sensor rows has dimension at most the number of picks once every residual is zero -/
theorem finrank_rows_le_of_all_resid_zero {m : ℕ} (rows : Nat → Fin m → ℚ) (n : ℕ) (picks : List Nat)
    (h : ∀ a, a < n → mgsResid rows picks a = 0) :
    Module.finrank ℚ (Submodule.span ℚ (Set.range fun a : Fin n => rows a)) ≤ picks.length := by
  have hle : Submodule.span ℚ (Set.range fun a : Fin n => rows a) ≤
      Submodule.span ℚ (Set.range fun i : Fin picks.length => rows picks[i]) := by
    rw [Submodule.span_le, Set.range_subset_iff]
    intro a
    exact rows_in_span_of_resid_zero rows picks a (h a a.2)
  have h1 := Submodule.finrank_mono hle
  have h2 := finrank_range_le_card (R := ℚ) (fun i : Fin picks.length => rows picks[i])
  rw [Fintype.card_fin] at h2
  exact h1.trans h2

/-- **C02 (QR clause, rank link).** If the sensor rows of `B` span a space of dimension `r` (the rank of
`B`), then each of the first `r` picks of the default (unconstrained, zero-cost) exact run has non-zero
residual at the time it is ranked. -/
theorem full_rank_picks_nonzero (B : RMat) (m : Nat) (hB : B.WF B.size m) (r : Nat)
    (hr : r ≤ Module.finrank ℚ (Submodule.span ℚ (Set.range fun a : Fin B.size => B.vec m a)))
    (j : Nat) (hj : j < r) (hjn : j < B.size) (q : Nat)
    (hq : (greedyRun (fun _ => 0) noMask B (j + 1)).p[j]? = some q) :
    let picks := (greedyRun (fun _ => 0) noMask B j).p.toList.take j
    mgsResid (B.vec m) picks q ⬝ᵥ mgsResid (B.vec m) picks q ≠ 0 := by
  intro picks hz
  have hall := zero_pick_all_zero B m hB j hjn q hq hz
  have hfin := finrank_rows_le_of_all_resid_zero (B.vec m) B.size picks hall
  have hlen : picks.length = j := by
    have hs : (greedyRun (fun _ => 0) noMask B j).p.size = B.size := by
      unfold greedyRun
      exact greedyRunFrom_size _ _ _ _ _ _
    simp only [picks, List.length_take, Array.length_toList, hs]
    omega
  omega

end PsVerif
