/-
  Helper lemmas for C05 (predetermined, max_n): counting arguments showing that a candidate which
  is not zeroed always remains, hence (by `masked_pick_unmasked`) the pick is never zeroed.
-/
import PsVerif.Lemmas.Masked
namespace PsVerif

variable {σ : Type}

/-- if the first `j` entries do not exhaust the `ψ`-elements of `l`, one remains in `l.drop j` -/
theorem exists_mem_drop_of_countP_lt (l : List Nat) (ψ : Nat → Bool) (j : Nat)
    (h : (l.take j).countP ψ < l.countP ψ) : ∃ c ∈ l.drop j, ψ c = true := by
  have h1 : l.countP ψ = (l.take j).countP ψ + (l.drop j).countP ψ := by
    rw [← List.countP_append, List.take_append_drop]
  have h2 : 0 < (l.drop j).countP ψ := by omega
  exact List.countP_pos_iff.mp h2

/-- a duplicate-free list has at most `B.length` `P`-elements if they all lie in `B` -/
theorem countP_le_length_of_nodup (l B : List Nat) (P : Nat → Bool) (hl : l.Nodup)
    (h : ∀ x ∈ l, P x = true → x ∈ B) : l.countP P ≤ B.length := by
  rw [List.countP_eq_length_filter]
  apply List.Subperm.length_le
  apply List.subperm_of_subset (hl.filter _)
  intro x hx
  rw [List.mem_filter] at hx
  exact h x hx.1 hx.2

/-- counting the complement of a Boolean predicate -/
theorem countP_not_add (l : List Nat) (P : Nat → Bool) :
    l.countP (fun c => !(P c)) + l.countP P = l.length := by
  induction l with
  | nil => rfl
  | cons a l ih =>
    rw [List.countP_cons, List.countP_cons, List.length_cons]
    cases P a <;> simp <;> omega

/-- (pick is not zeroed) if the sensors picked before step `j` do not exhaust the sensors that
are not zeroed at step `j`, and no candidate has zero norm, the pick of step `j` is not zeroed -/
theorem masked_pick_of_count (S : ResidSys σ) (φ : Nat → Nat → Bool) (s0 : σ) (n j : Nat)
    (hj : j < n)
    (hnn : ∀ c, 0 ≤ S.norm2 (greedyRunFrom S zc (pmask φ) s0 n j).lin c)
    (hpos : ∀ c ∈ (greedyRunFrom S zc (pmask φ) s0 n j).p.toList.drop j,
      0 < S.norm2 (greedyRunFrom S zc (pmask φ) s0 n j).lin c)
    (hcount : ((greedyRunFrom S zc (pmask φ) s0 n j).p.toList.take j).countP (fun c => !(φ j c)) <
      (greedyRunFrom S zc (pmask φ) s0 n j).p.toList.countP (fun c => !(φ j c)))
    (q : Nat) (hq : (greedyRunFrom S zc (pmask φ) s0 n (j + 1)).p[j]? = some q) :
    φ j q = false := by
  obtain ⟨c, hc, hφc⟩ := exists_mem_drop_of_countP_lt _ _ j hcount
  have hφc' : φ j c = false := by simpa using hφc
  exact (masked_pick_unmasked S φ s0 n j hj hnn q hq ⟨c, hc, hφc', hpos c hc⟩).1

/-! ### predetermined -/

theorem predMasked_before (L : List Nat) (s N j c : Nat) (hj : j < N - s) :
    predMasked L s N j c = inL L c := by
  unfold predMasked
  have : ¬ ((N : Int) - (s : Int) ≤ (j : Int) ∧ j ≤ N) := by omega
  rw [decide_eq_false this]; simp

theorem predMasked_window (L : List Nat) (s N j c : Nat) (h1 : N - s ≤ j) (h2 : j ≤ N) :
    predMasked L s N j c = !(inL L c) := by
  unfold predMasked
  have : ((N : Int) - (s : Int) ≤ (j : Int) ∧ j ≤ N) := by omega
  rw [decide_eq_true this]; simp

/-- before the window the pick lies outside the region -/
theorem pred_pick_outside (S : ResidSys σ) (L : List Nat) (s N : Nat) (s0 : σ) (n j : Nat)
    (hL : ∀ x ∈ L, x < n) (hLn : L.Nodup) (hjs : j < N - s) (hout : N - s ≤ n - L.length)
    (hnn : ∀ c, 0 ≤ S.norm2 (greedyRunFrom S zc (pmask (predMasked L s N)) s0 n j).lin c)
    (hpos : ∀ c ∈ (greedyRunFrom S zc (pmask (predMasked L s N)) s0 n j).p.toList.drop j,
      0 < S.norm2 (greedyRunFrom S zc (pmask (predMasked L s N)) s0 n j).lin c)
    (q : Nat)
    (hq : (greedyRunFrom S zc (pmask (predMasked L s N)) s0 n (j + 1)).p[j]? = some q) :
    inL L q = false := by
  have hjn : j < n := by omega
  rw [← predMasked_before L s N j q hjs]
  apply masked_pick_of_count S (predMasked L s N) s0 n j hjn hnn hpos _ q hq
  have hfun : (fun c => !(predMasked L s N j c)) = fun c => !(inL L c) := by
    funext c; rw [predMasked_before L s N j c hjs]
  rw [hfun, countP_not_region_perm L n hL hLn _ (greedyRunFrom_toList_perm _ _ _ _ _ _)]
  have h1 := List.countP_le_length (p := fun c => !(inL L c))
    (l := (greedyRunFrom S zc (pmask (predMasked L s N)) s0 n j).p.toList.take j)
  rw [List.length_take] at h1
  omega

/-- inside the window the pick lies inside the region, provided the picks before the window
lie outside -/
theorem pred_pick_inside (S : ResidSys σ) (L : List Nat) (s N : Nat) (s0 : σ) (n j : Nat)
    (hL : ∀ x ∈ L, x < n) (hLn : L.Nodup) (h1 : N - s ≤ j) (h2 : j < N) (hNn : N ≤ n)
    (hin : s ≤ L.length)
    (hprev : ∀ x ∈ ((greedyRunFrom S zc (pmask (predMasked L s N)) s0 n j).p.toList.take j).take
      (N - s), inL L x = false)
    (hnn : ∀ c, 0 ≤ S.norm2 (greedyRunFrom S zc (pmask (predMasked L s N)) s0 n j).lin c)
    (hpos : ∀ c ∈ (greedyRunFrom S zc (pmask (predMasked L s N)) s0 n j).p.toList.drop j,
      0 < S.norm2 (greedyRunFrom S zc (pmask (predMasked L s N)) s0 n j).lin c)
    (q : Nat)
    (hq : (greedyRunFrom S zc (pmask (predMasked L s N)) s0 n (j + 1)).p[j]? = some q) :
    inL L q = true := by
  have hjn : j < n := by omega
  have hm : predMasked L s N j q = false := by
    apply masked_pick_of_count S (predMasked L s N) s0 n j hjn hnn hpos _ q hq
    have hfun : (fun c => !(predMasked L s N j c)) = inL L := by
      funext c; rw [predMasked_window L s N j c h1 (by omega)]; simp
    rw [hfun, countP_region_perm L n hL hLn _ (greedyRunFrom_toList_perm _ _ _ _ _ _)]
    have htl : ((greedyRunFrom S zc (pmask (predMasked L s N)) s0 n j).p.toList.take j).length ≤ j := by
      rw [List.length_take]; omega
    generalize (greedyRunFrom S zc (pmask (predMasked L s N)) s0 n j).p.toList.take j = t at hprev htl ⊢
    have hsplit : t.countP (inL L) =
        (t.take (N - s)).countP (inL L) + (t.drop (N - s)).countP (inL L) := by
      rw [← List.countP_append, List.take_append_drop]
    have hz : (t.take (N - s)).countP (inL L) = 0 := by
      rw [List.countP_eq_zero]
      intro x hx; rw [hprev x hx]; simp
    have hle := List.countP_le_length (p := inL L) (l := t.drop (N - s))
    rw [List.length_drop] at hle
    omega
  rw [predMasked_window L s N j q h1 (by omega)] at hm
  simpa using hm

/-- the first `N - s` picks of the predetermined run lie outside the region, the next `s` inside -/
theorem pred_split_run (S : ResidSys σ) (L : List Nat) (s N : Nat) (s0 : σ) (n : Nat)
    (hL : ∀ x ∈ L, x < n) (hLn : L.Nodup) (hNn : N ≤ n)
    (hin : s ≤ L.length) (hout : N - s ≤ n - L.length)
    (hnn : ∀ j < N, ∀ c, 0 ≤ S.norm2 (greedyRunFrom S zc (pmask (predMasked L s N)) s0 n j).lin c)
    (hpos : ∀ j < N, ∀ c ∈ (greedyRunFrom S zc (pmask (predMasked L s N)) s0 n j).p.toList.drop j,
      0 < S.norm2 (greedyRunFrom S zc (pmask (predMasked L s N)) s0 n j).lin c) :
    (∀ x ∈ ((greedyRunFrom S zc (pmask (predMasked L s N)) s0 n N).p.toList.take N).take (N - s),
        inL L x = false) ∧
    (∀ x ∈ ((greedyRunFrom S zc (pmask (predMasked L s N)) s0 n N).p.toList.take N).drop (N - s),
        inL L x = true) := by
  have hget := fun j hj => greedyRunFrom_take_getElem? S zc (pmask (predMasked L s N)) s0 n N j hj
  have htk : ∀ j, j ≤ N → (greedyRunFrom S zc (pmask (predMasked L s N)) s0 n j).p.toList.take j =
      ((greedyRunFrom S zc (pmask (predMasked L s N)) s0 n N).p.toList.take N).take j := by
    intro j hj
    rw [List.take_take, Nat.min_eq_left hj]
    exact (greedyRunFrom_take_take S zc _ s0 n j N hj).symm
  have hlen : ((greedyRunFrom S zc (pmask (predMasked L s N)) s0 n N).p.toList.take N).length ≤ N := by
    rw [List.length_take]; omega
  generalize (greedyRunFrom S zc (pmask (predMasked L s N)) s0 n N).p.toList.take N = r at *
  have part1 : ∀ x ∈ r.take (N - s), inL L x = false := by
    intro x hx
    obtain ⟨i, hi⟩ := List.mem_iff_getElem?.mp hx
    rw [List.getElem?_take] at hi
    split at hi
    · rename_i his
      rw [hget i (by omega)] at hi
      exact pred_pick_outside S L s N s0 n i hL hLn his hout (hnn i (by omega)) (hpos i (by omega)) x hi
    · exact absurd hi (by simp)
  refine ⟨part1, ?_⟩
  intro x hx
  obtain ⟨i, hi⟩ := List.mem_iff_getElem?.mp hx
  rw [List.getElem?_drop] at hi
  have hiN : N - s + i < N := by
    have := (List.getElem?_eq_some_iff.mp hi).1
    omega
  rw [hget _ hiN] at hi
  refine pred_pick_inside S L s N s0 n (N - s + i) hL hLn (by omega) hiN hNn hin ?_
    (hnn _ hiN) (hpos _ hiN) x hi
  rw [htk _ (by omega), List.take_take, Nat.min_eq_left (by omega)]
  exact part1

/-! ### max_n -/

theorem effN_some (N : Nat) (A : List Nat) (hN : 1 ≤ N) : effN (some N) A = N := by
  cases N with
  | zero => omega
  | succ m => rfl

theorem maxNMasked_of_le (L A : List Nat) (s N c : Nat) (h : regionCount L A N ≤ s) :
    maxNMasked L A s N c = false := by
  unfold maxNMasked
  have : ¬ (regionCount L A N > s) := by omega
  rw [decide_eq_false this]; rfl

theorem maxNMasked_of_gt (L A : List Nat) (s N c : Nat) (h : s < regionCount L A N) :
    maxNMasked L A s N c = (bannedOf L A s).contains c := by
  unfold maxNMasked
  have : regionCount L A N > s := h
  rw [decide_eq_true this]; rfl

/-- if the unconstrained ranking already respects the bound, `max_n` zeroes nothing -/
theorem maxN_mask_noMask (L A : List Nat) (s N : Nat) (h : regionCount L A N ≤ s) :
    pmask (fun _ c => maxNMasked L A s N c) = noMask := by
  rw [noMask_eq_pmask]
  congr 1
  funext j c
  exact maxNMasked_of_le L A s N c h

theorem regionCount_le (L A : List Nat) (N n : Nat) (hL : ∀ x ∈ L, x < n) (hLn : L.Nodup)
    (hAp : A.Perm (List.range n)) : regionCount L A N ≤ L.length := by
  unfold regionCount
  rw [← countP_region_perm L n hL hLn A hAp]
  exact (List.take_sublist N A).countP_le

theorem bannedOf_length (L A : List Nat) (s n : Nat) (hL : ∀ x ∈ L, x < n) (hLn : L.Nodup)
    (hAp : A.Perm (List.range n)) : (bannedOf L A s).length = L.length - s := by
  unfold bannedOf
  rw [List.length_drop, ← List.countP_eq_length_filter, countP_region_perm L n hL hLn A hAp]

/-- with the banned sensors zeroed, the pick of a step `j < N` is not banned -/
theorem maxN_pick_not_banned (S : ResidSys σ) (L A : List Nat) (s N : Nat) (s0 : σ) (n j : Nat)
    (hL : ∀ x ∈ L, x < n) (hLn : L.Nodup) (hAp : A.Perm (List.range n))
    (hjN : j < N) (hNn : N ≤ n) (hsL : s ≤ L.length) (hout : N - s ≤ n - L.length)
    (hnn : ∀ c, 0 ≤ S.norm2
      (greedyRunFrom S zc (pmask (fun _ c => (bannedOf L A s).contains c)) s0 n j).lin c)
    (hpos : ∀ c ∈
      (greedyRunFrom S zc (pmask (fun _ c => (bannedOf L A s).contains c)) s0 n j).p.toList.drop j,
      0 < S.norm2
        (greedyRunFrom S zc (pmask (fun _ c => (bannedOf L A s).contains c)) s0 n j).lin c)
    (q : Nat)
    (hq : (greedyRunFrom S zc (pmask (fun _ c => (bannedOf L A s).contains c)) s0 n (j + 1)).p[j]?
      = some q) :
    (bannedOf L A s).contains q = false := by
  have hjn : j < n := by omega
  apply masked_pick_of_count S (fun _ c => (bannedOf L A s).contains c) s0 n j hjn hnn hpos _ q hq
  have hperm := greedyRunFrom_toList_perm S zc
    (pmask (fun _ c => (bannedOf L A s).contains c)) s0 n j
  have h1 := List.countP_le_length (p := fun c => !((bannedOf L A s).contains c))
    (l := (greedyRunFrom S zc (pmask (fun _ c => (bannedOf L A s).contains c)) s0 n j).p.toList.take j)
  rw [List.length_take] at h1
  generalize (greedyRunFrom S zc (pmask (fun _ c => (bannedOf L A s).contains c)) s0 n j).p.toList
    = l at *
  have hnd : l.Nodup := hperm.nodup_iff.mpr List.nodup_range
  have hlen : l.length = n := by rw [hperm.length_eq, List.length_range]
  have h2 := countP_not_add l (fun c => (bannedOf L A s).contains c)
  have h3 : l.countP (fun c => (bannedOf L A s).contains c) ≤ (bannedOf L A s).length :=
    countP_le_length_of_nodup l _ _ hnd (fun x _ hx => List.contains_iff_mem.mp hx)
  rw [bannedOf_length L A s n hL hLn hAp] at h3
  have h4 : L.length ≤ n := by
    rw [← countP_region_perm L n hL hLn l hperm, ← hlen]
    exact List.countP_le_length
  omega

/-- `max_n`, case "the unconstrained ranking violates the bound": the first `N` picks contain at
most `s` region sensors (all of them among the first `s` region sensors of `A`) -/
theorem maxN_count_run_gt (S : ResidSys σ) (L A : List Nat) (s N : Nat) (s0 : σ) (n : Nat)
    (hL : ∀ x ∈ L, x < n) (hLn : L.Nodup) (hAp : A.Perm (List.range n))
    (hNn : N ≤ n) (hout : N - s ≤ n - L.length) (ht : s < regionCount L A N)
    (hnn : ∀ j < N, ∀ c, 0 ≤ S.norm2
      (greedyRunFrom S zc (pmask (fun _ c => maxNMasked L A s N c)) s0 n j).lin c)
    (hpos : ∀ j < N, ∀ c ∈
      (greedyRunFrom S zc (pmask (fun _ c => maxNMasked L A s N c)) s0 n j).p.toList.drop j,
      0 < S.norm2 (greedyRunFrom S zc (pmask (fun _ c => maxNMasked L A s N c)) s0 n j).lin c) :
    ((greedyRunFrom S zc (pmask (fun _ c => maxNMasked L A s N c)) s0 n N).p.toList.take N).countP
      (inL L) ≤ s := by
  have hφ : (fun (_ : Nat) c => maxNMasked L A s N c) = fun _ c => (bannedOf L A s).contains c := by
    funext j c; exact maxNMasked_of_gt L A s N c ht
  rw [hφ] at hnn hpos ⊢
  have hsL : s ≤ L.length := by
    have := regionCount_le L A N n hL hLn hAp; omega
  have hget := fun j hj => greedyRunFrom_take_getElem? S zc
    (pmask (fun _ c => (bannedOf L A s).contains c)) s0 n N j hj
  have hperm := greedyRunFrom_toList_perm S zc
    (pmask (fun _ c => (bannedOf L A s).contains c)) s0 n N
  have hnd : ((greedyRunFrom S zc (pmask (fun _ c => (bannedOf L A s).contains c)) s0 n
      N).p.toList.take N).Nodup :=
    (hperm.nodup_iff.mpr List.nodup_range).sublist (List.take_sublist _ _)
  have hmem : ∀ x ∈ (greedyRunFrom S zc (pmask (fun _ c => (bannedOf L A s).contains c)) s0 n
      N).p.toList.take N, x ∈ A := by
    intro x hx
    rw [hAp.mem_iff, ← hperm.mem_iff]
    exact List.mem_of_mem_take hx
  have hlen : ((greedyRunFrom S zc (pmask (fun _ c => (bannedOf L A s).contains c)) s0 n
      N).p.toList.take N).length ≤ N := by
    rw [List.length_take]; omega
  generalize (greedyRunFrom S zc (pmask (fun _ c => (bannedOf L A s).contains c)) s0 n
      N).p.toList.take N = r at *
  have hb : r.countP (inL L) ≤ ((A.filter (inL L)).take s).length := by
    apply countP_le_length_of_nodup r _ _ hnd
    intro x hx hxL
    obtain ⟨i, hi⟩ := List.mem_iff_getElem?.mp hx
    have hiN : i < N := by
      have := (List.getElem?_eq_some_iff.mp hi).1
      omega
    rw [hget i hiN] at hi
    have hnb := maxN_pick_not_banned S L A s N s0 n i hL hLn hAp hiN hNn hsL hout
      (hnn i hiN) (hpos i hiN) x hi
    have hxA : x ∈ A.filter (inL L) := List.mem_filter.mpr ⟨hmem x hx, hxL⟩
    rw [← List.take_append_drop s (A.filter (inL L))] at hxA
    rcases List.mem_append.mp hxA with h | h
    · exact h
    · exfalso
      have : (bannedOf L A s).contains x = true := List.contains_iff_mem.mpr h
      rw [hnb] at this
      exact absurd this (by simp)
  rw [List.length_take] at hb
  omega

/-- `max_n`, case "the unconstrained ranking respects the bound": the run is the unconstrained
run -/
theorem maxN_count_run_le (S : ResidSys σ) (L A : List Nat) (s N : Nat) (s0 : σ) (n : Nat)
    (hA : A.take N = (greedyRunFrom S zc noMask s0 n N).p.toList.take N)
    (ht : regionCount L A N ≤ s) :
    ((greedyRunFrom S zc (pmask (fun _ c => maxNMasked L A s N c)) s0 n N).p.toList.take N).countP
      (inL L) ≤ s := by
  rw [maxN_mask_noMask L A s N ht, ← hA]
  exact ht

end PsVerif
