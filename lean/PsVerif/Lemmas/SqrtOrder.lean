/-
  Helper lemmas (Mathlib): `geSqrt` decides `√a − c ≥ √b − d` exactly; hence `scoreGe` is a total
  preorder on scores with non-negative squared norm.
-/
import Mathlib.Analysis.Real.Sqrt
import Mathlib.Tactic.Ring
import Mathlib.Tactic.Linarith
import Mathlib.Tactic.Positivity
import Mathlib.Algebra.Order.Field.Rat
import Mathlib.Data.Rat.Cast.Order
import PsVerif.Model.Gram
import PsVerif.Lemmas.Argmax
namespace PsVerif

/-- real core: `√b + t ≤ √a` for `t ≥ 0` by squaring twice -/
theorem sqrt_add_le_iff (a b t : ℝ) (ha : 0 ≤ a) (hb : 0 ≤ b) (ht : 0 ≤ t) :
    Real.sqrt b + t ≤ Real.sqrt a ↔ (0 ≤ a - b - t ^ 2 ∧ 4 * t ^ 2 * b ≤ (a - b - t ^ 2) ^ 2) := by
  have hx := Real.sqrt_nonneg a
  have hy := Real.sqrt_nonneg b
  have hxx : Real.sqrt a ^ 2 = a := Real.sq_sqrt ha
  have hyy : Real.sqrt b ^ 2 = b := Real.sq_sqrt hb
  generalize Real.sqrt a = x at *
  generalize Real.sqrt b = y at *
  subst hxx hyy
  have hty : 0 ≤ 2 * t * y := by positivity
  constructor
  · intro h
    have h2 : (y + t) ^ 2 ≤ x ^ 2 := pow_le_pow_left₀ (by positivity) h 2
    have h3 : 2 * t * y ≤ x ^ 2 - y ^ 2 - t ^ 2 := by nlinarith
    refine ⟨le_trans hty h3, ?_⟩
    have h4 : (2 * t * y) ^ 2 ≤ (x ^ 2 - y ^ 2 - t ^ 2) ^ 2 := pow_le_pow_left₀ hty h3 2
    nlinarith
  · rintro ⟨hu, h⟩
    have h4 : (2 * t * y) ^ 2 ≤ (x ^ 2 - y ^ 2 - t ^ 2) ^ 2 := by nlinarith
    have h3 : 2 * t * y ≤ x ^ 2 - y ^ 2 - t ^ 2 := le_of_sq_le_sq h4 hu
    have h2 : (y + t) ^ 2 ≤ x ^ 2 := by nlinarith
    exact le_of_sq_le_sq h2 hx

/-- real core, other sign: `√b ≤ √a + s` for `s ≥ 0` -/
theorem sqrt_le_add_iff (a b s : ℝ) (ha : 0 ≤ a) (hb : 0 ≤ b) (hs : 0 ≤ s) :
    Real.sqrt b ≤ Real.sqrt a + s ↔
      (b - a - s ^ 2 ≤ 0 ∨ (b - a - s ^ 2) ^ 2 ≤ 4 * s ^ 2 * a) := by
  have hx := Real.sqrt_nonneg a
  have hy := Real.sqrt_nonneg b
  have hxx : Real.sqrt a ^ 2 = a := Real.sq_sqrt ha
  have hyy : Real.sqrt b ^ 2 = b := Real.sq_sqrt hb
  generalize Real.sqrt a = x at *
  generalize Real.sqrt b = y at *
  subst hxx hyy
  have hsx : 0 ≤ 2 * s * x := by positivity
  have key : y ≤ x + s ↔ y ^ 2 - x ^ 2 - s ^ 2 ≤ 2 * s * x := by
    constructor
    · intro h
      have h2 : y ^ 2 ≤ (x + s) ^ 2 := pow_le_pow_left₀ hy h 2
      nlinarith
    · intro h
      have h2 : y ^ 2 ≤ (x + s) ^ 2 := by nlinarith
      exact le_of_sq_le_sq h2 (by positivity)
  rw [key]
  constructor
  · intro h
    by_cases hv : y ^ 2 - x ^ 2 - s ^ 2 ≤ 0
    · exact Or.inl hv
    · right
      have hv' : 0 ≤ y ^ 2 - x ^ 2 - s ^ 2 := le_of_lt (not_le.mp hv)
      have h4 : (y ^ 2 - x ^ 2 - s ^ 2) ^ 2 ≤ (2 * s * x) ^ 2 := pow_le_pow_left₀ hv' h 2
      nlinarith
  · rintro (hv | h)
    · exact le_trans hv hsx
    · have h4 : (y ^ 2 - x ^ 2 - s ^ 2) ^ 2 ≤ (2 * s * x) ^ 2 := by nlinarith
      exact le_of_sq_le_sq h4 hsx

/-- **`geSqrt` is exact**: for non-negative squared norms it decides the comparison of
`√a − c` with `√b − d` over the reals. -/
theorem geSqrt_iff (a c b d : ℚ) (ha : 0 ≤ a) (hb : 0 ≤ b) :
    geSqrt a c b d = true ↔ Real.sqrt (a : ℝ) - (c : ℝ) ≥ Real.sqrt (b : ℝ) - (d : ℝ) := by
  have haR : (0 : ℝ) ≤ (a : ℝ) := by exact_mod_cast ha
  have hbR : (0 : ℝ) ≤ (b : ℝ) := by exact_mod_cast hb
  unfold geSqrt
  by_cases ht : c - d ≥ 0
  · simp only [ht, if_true, Bool.and_eq_true, decide_eq_true_eq, ge_iff_le]
    have htR : (0 : ℝ) ≤ (c : ℝ) - (d : ℝ) := by exact_mod_cast ht
    have h1 : Real.sqrt (b : ℝ) - (d : ℝ) ≤ Real.sqrt (a : ℝ) - (c : ℝ) ↔
        Real.sqrt (b : ℝ) + ((c : ℝ) - (d : ℝ)) ≤ Real.sqrt (a : ℝ) := by
      constructor <;> intro h <;> linarith
    rw [h1, sqrt_add_le_iff _ _ _ haR hbR htR]
    have e1 : (0 ≤ a - b - (c - d) * (c - d)) ↔
        (0 : ℝ) ≤ (a : ℝ) - (b : ℝ) - ((c : ℝ) - (d : ℝ)) ^ 2 := by
      rw [← Rat.cast_le (K := ℝ)]; push_cast; rw [sq]
    have e2 : (4 * (c - d) * (c - d) * b ≤ (a - b - (c - d) * (c - d)) * (a - b - (c - d) * (c - d))) ↔
        4 * ((c : ℝ) - (d : ℝ)) ^ 2 * (b : ℝ) ≤ ((a : ℝ) - (b : ℝ) - ((c : ℝ) - (d : ℝ)) ^ 2) ^ 2 := by
      rw [← Rat.cast_le (K := ℝ)]; push_cast
      constructor <;> intro h <;> nlinarith [h]
    rw [e1, e2]
  · simp only [ht, if_false, Bool.or_eq_true, decide_eq_true_eq, ge_iff_le]
    have ht' : 0 ≤ -(c - d) := by
      have := not_le.mp ht
      linarith
    have htR : (0 : ℝ) ≤ -((c : ℝ) - (d : ℝ)) := by exact_mod_cast ht'
    have h1 : Real.sqrt (b : ℝ) - (d : ℝ) ≤ Real.sqrt (a : ℝ) - (c : ℝ) ↔
        Real.sqrt (b : ℝ) ≤ Real.sqrt (a : ℝ) + (-((c : ℝ) - (d : ℝ))) := by
      constructor <;> intro h <;> linarith
    rw [h1, sqrt_le_add_iff _ _ _ haR hbR htR]
    have e1 : (b - a - -(c - d) * -(c - d) ≤ 0) ↔
        (b : ℝ) - (a : ℝ) - (-((c : ℝ) - (d : ℝ))) ^ 2 ≤ 0 := by
      rw [← Rat.cast_le (K := ℝ)]; push_cast; rw [sq]
    have e2 : ((b - a - -(c - d) * -(c - d)) * (b - a - -(c - d) * -(c - d)) ≤ 4 * -(c - d) * -(c - d) * a) ↔
        ((b : ℝ) - (a : ℝ) - (-((c : ℝ) - (d : ℝ))) ^ 2) ^ 2 ≤ 4 * (-((c : ℝ) - (d : ℝ))) ^ 2 * (a : ℝ) := by
      rw [← Rat.cast_le (K := ℝ)]; push_cast
      constructor <;> intro h <;> nlinarith [h]
    rw [e1, e2]

/-- the real-valued score `√norm² − cost` of a candidate -/
noncomputable def scoreR (x : Score) : ℝ := Real.sqrt (x.1 : ℝ) - (x.2 : ℝ)

theorem scoreGe_iff (x y : Score) (hx : 0 ≤ x.1) (hy : 0 ≤ y.1) :
    scoreGe x y = true ↔ scoreR y ≤ scoreR x := by
  unfold scoreGe scoreR
  exact geSqrt_iff x.1 x.2 y.1 y.2 hx hy

theorem scoreGe_order : GeOrderOn (fun x : Score => 0 ≤ x.1) scoreGe := by
  constructor
  · intro a b ha hb
    rw [scoreGe_iff a b ha hb, scoreGe_iff b a hb ha]
    exact le_total _ _
  · intro a b c ha hb hc
    rw [scoreGe_iff a b ha hb, scoreGe_iff b c hb hc, scoreGe_iff a c ha hc]
    intro h1 h2
    exact le_trans h2 h1

/-- adding the same constant to both costs does not change the comparison -/
theorem geSqrt_shift (a c b d t : ℚ) : geSqrt a (c + t) b (d + t) = geSqrt a c b d := by
  unfold geSqrt
  rw [show c + t - (d + t) = c - d by ring]

set_option linter.unusedVariables false in -- `ha`, `hb` are not needed but kept in the statement
/-- with equal costs the comparison is that of the squared norms -/
theorem geSqrt_same_cost (a b c : ℚ) (ha : 0 ≤ a) (hb : 0 ≤ b) :
    geSqrt a c b c = decide (b ≤ a) := by
  unfold geSqrt
  rw [Bool.eq_iff_iff]
  simp only [sub_self, ge_iff_le, le_refl, if_true, mul_zero, zero_mul, sub_zero,
    Bool.and_eq_true, decide_eq_true_eq, sub_nonneg]
  constructor
  · intro h; exact h.1
  · intro h; exact ⟨h, mul_self_nonneg _⟩

/-- positive rescaling (norms by `s`, hence squared norms by `s²`, costs by `s`) -/
theorem geSqrt_scale (a c b d s : ℚ) (hs : 0 < s) (ha : 0 ≤ a) (hb : 0 ≤ b) :
    geSqrt (s * s * a) (s * c) (s * s * b) (s * d) = geSqrt a c b d := by
  have hsa : 0 ≤ s * s * a := by positivity
  have hsb : 0 ≤ s * s * b := by positivity
  have hsR : (0 : ℝ) < (s : ℝ) := by exact_mod_cast hs
  have haR : (0 : ℝ) ≤ (a : ℝ) := by exact_mod_cast ha
  have hbR : (0 : ℝ) ≤ (b : ℝ) := by exact_mod_cast hb
  have hsq : ∀ z : ℝ, 0 ≤ z → Real.sqrt ((s : ℝ) * (s : ℝ) * z) = (s : ℝ) * Real.sqrt z := by
    intro z hz
    rw [Real.sqrt_mul' _ hz, Real.sqrt_mul_self hsR.le]
  rw [Bool.eq_iff_iff, geSqrt_iff _ _ _ _ hsa hsb, geSqrt_iff _ _ _ _ ha hb]
  push_cast
  rw [hsq _ haR, hsq _ hbR]
  constructor
  · intro h
    have : (s : ℝ) * (Real.sqrt (b : ℝ) - (d : ℝ)) ≤ (s : ℝ) * (Real.sqrt (a : ℝ) - (c : ℝ)) := by
      linarith
    exact le_of_mul_le_mul_left this hsR
  · intro h
    have : (s : ℝ) * (Real.sqrt (b : ℝ) - (d : ℝ)) ≤ (s : ℝ) * (Real.sqrt (a : ℝ) - (c : ℝ)) :=
      mul_le_mul_of_nonneg_left h hsR.le
    linarith

end PsVerif
