/-
  Helper lemmas: greedy steps under candidate-wise masks (`pmask φ`), zero costs.
  Imports Mathlib only through Lemmas/SqrtOrder (order properties of `scoreGe`).
-/
import PsVerif.Lemmas.Greedy
import PsVerif.Lemmas.SqrtOrder
import PsVerif.Model.NormCalc
namespace PsVerif

variable {σ : Type}

/-- zero cost vector -/
abbrev zc : Nat → Rat := fun _ => 0

/-- masked value of a candidate: its squared residual norm, or 0 when zeroed -/
def mval (S : ResidSys σ) (φ : Nat → Nat → Bool) (st : GState σ) (j c : Nat) : Rat :=
  if φ j c then 0 else S.norm2 st.lin c

theorem candScores_pmask (S : ResidSys σ) (st : GState σ) (costs : Nat → Rat)
    (φ : Nat → Nat → Bool) (j : Nat) :
    candScores S st costs (pmask φ) j =
      (st.p.toList.drop j).map fun c => (mval S φ st j c, costs c) := by
  unfold candScores
  simp only [pmask]
  generalize st.p.toList.drop j = l
  generalize List.replicate st.p.size false = r
  induction l with
  | nil => simp
  | cons c cs ih =>
    rw [List.map_cons, List.cons_append, List.zipWith_cons_cons, ih]
    simp [mval]

theorem noMask_eq_pmask : noMask = pmask (fun _ _ => false) := by
  rfl

/-- with equal costs `scoreGe` compares the squared norms -/
theorem scoreGe_same_cost (a b c : Rat) : scoreGe (a, c) (b, c) = decide (b ≤ a) := by
  unfold scoreGe geSqrt
  rw [Bool.eq_iff_iff]
  simp only [sub_self, ge_iff_le, le_refl, if_true, mul_zero, zero_mul, sub_zero,
    Bool.and_eq_true, decide_eq_true_eq, sub_nonneg]
  exact ⟨fun h => h.1, fun h => ⟨h, mul_self_nonneg _⟩⟩

/-- The pick of a masked zero-cost step is a candidate whose masked value is maximal. -/
theorem masked_pick_spec (S : ResidSys σ) (φ : Nat → Nat → Bool) (s0 : σ) (n j : Nat) (hj : j < n)
    (hnn : ∀ c, 0 ≤ S.norm2 (greedyRunFrom S zc (pmask φ) s0 n j).lin c) (q : Nat)
    (hq : (greedyRunFrom S zc (pmask φ) s0 n (j + 1)).p[j]? = some q) :
    let st := greedyRunFrom S zc (pmask φ) s0 n j
    q ∈ st.p.toList.drop j ∧ ∀ c ∈ st.p.toList.drop j, mval S φ st j c ≤ mval S φ st j q := by
  intro st
  have hnn' : ∀ c, 0 ≤ mval S φ st j c := by
    intro c; unfold mval; split
    · exact Rat.le_refl
    · exact hnn c
  obtain ⟨hoff, hpick, hmax, -⟩ := greedy_pick_max S zc (pmask φ) s0 scoreGe_order n j hj hnn
  have hsc := candScores_pmask S st zc φ j
  have hlen : (candScores S st zc (pmask φ) j).length = (st.p.toList.drop j).length := by
    rw [hsc, List.length_map]
  set off := firstArgmaxBy scoreGe (candScores S st zc (pmask φ) j) with hoffdef
  have hoff' : off < (st.p.toList.drop j).length := hlen ▸ hoff
  have hqeq : q = (st.p.toList.drop j)[off] := by
    have h1 : st.p[j + off]? = some q := by rw [← hpick]; exact hq
    have h2 : (st.p.toList.drop j)[off]? = some q := by
      rw [List.getElem?_drop]; simpa using h1
    rw [List.getElem?_eq_getElem hoff'] at h2
    exact (Option.some.inj h2).symm
  refine ⟨hqeq ▸ List.getElem_mem hoff', ?_⟩
  intro c hc
  obtain ⟨i, hi, rfl⟩ := List.getElem_of_mem hc
  have hi' : i < (candScores S st zc (pmask φ) j).length := hlen ▸ hi
  have h := hmax i hi'
  have e1 : (candScores S st zc (pmask φ) j)[off] =
      (mval S φ st j (st.p.toList.drop j)[off], (0 : Rat)) := by
    simp [hsc]
  have e2 : (candScores S st zc (pmask φ) j)[i] =
      (mval S φ st j (st.p.toList.drop j)[i], (0 : Rat)) := by
    simp [hsc]
  rw [e1, e2, scoreGe_same_cost] at h
  rw [hqeq]
  exact of_decide_eq_true h

/-- there always is a pick at a step `j < n` -/
theorem pick_exists (S : ResidSys σ) (costs : Nat → Rat) (mask : Mask) (s0 : σ) (n j k : Nat)
    (hj : j < n) : ∃ q, (greedyRunFrom S costs mask s0 n k).p[j]? = some q := by
  have hsz := greedyRunFrom_size S costs mask s0 n k
  exact ⟨(greedyRunFrom S costs mask s0 n k).p[j], Array.getElem?_eq_getElem (by omega)⟩

/-- (I5) if some candidate is not zeroed and has positive norm, the pick is not zeroed, has
positive norm, and has the largest norm among the candidates that are not zeroed. -/
theorem masked_pick_unmasked (S : ResidSys σ) (φ : Nat → Nat → Bool) (s0 : σ) (n j : Nat)
    (hj : j < n)
    (hnn : ∀ c, 0 ≤ S.norm2 (greedyRunFrom S zc (pmask φ) s0 n j).lin c) (q : Nat)
    (hq : (greedyRunFrom S zc (pmask φ) s0 n (j + 1)).p[j]? = some q)
    (hex : ∃ c ∈ (greedyRunFrom S zc (pmask φ) s0 n j).p.toList.drop j,
      φ j c = false ∧ 0 < S.norm2 (greedyRunFrom S zc (pmask φ) s0 n j).lin c) :
    let st := greedyRunFrom S zc (pmask φ) s0 n j
    φ j q = false ∧ 0 < S.norm2 st.lin q ∧
      ∀ c ∈ st.p.toList.drop j, φ j c = false → S.norm2 st.lin c ≤ S.norm2 st.lin q := by
  intro st
  obtain ⟨hmem, hmax⟩ := masked_pick_spec S φ s0 n j hj hnn q hq
  obtain ⟨c, hc, hφc, hpos⟩ := hex
  have hc' : mval S φ st j c = S.norm2 st.lin c := by simp [mval, hφc]
  have hqpos : 0 < mval S φ st j q := by
    have := hmax c hc
    rw [hc'] at this
    exact lt_of_lt_of_le hpos this
  have hφq : φ j q = false := by
    cases h : φ j q with
    | false => rfl
    | true => simp [mval, h] at hqpos
  have hq' : mval S φ st j q = S.norm2 st.lin q := by simp [mval, hφq]
  refine ⟨hφq, hq' ▸ hqpos, ?_⟩
  intro d hd hφd
  have := hmax d hd
  have hd' : mval S φ st j d = S.norm2 st.lin d := by simp [mval, hφd]
  rw [hd', hq'] at this
  exact this

/-- uniqueness of the first argmax: an index whose element is `ge` every element and strictly
beats every earlier one is the index returned by `firstArgmaxBy` -/
theorem firstArgmaxBy_unique {α : Type} {P : α → Prop} {ge : α → α → Bool} (hge : GeOrderOn P ge)
    (xs : List α) (hP : ∀ x ∈ xs, P x) (i : Nat) (hi : i < xs.length)
    (hmax : ∀ k (hk : k < xs.length), ge xs[i] xs[k] = true)
    (hfirst : ∀ k (hk : k < i), ge xs[k] xs[i] = false) :
    firstArgmaxBy ge xs = i := by
  have hne : xs ≠ [] := by intro h; subst h; simp at hi
  obtain ⟨hr, h1, h2⟩ := firstArgmaxBy_spec hge xs hP hne
  rcases Nat.lt_trichotomy (firstArgmaxBy ge xs) i with h | h | h
  · have a := hfirst _ h
    have b := hmax _ hr
    have c := h1 i hi
    rw [a] at c; exact absurd c (by simp)
  · exact h
  · have a := h2 i h
    have b := hmax _ hr
    rw [a] at b; exact absurd b (by simp)

/-- Coincidence of one step: if the pick of the unmasked step is not zeroed by `φ`, the masked
step makes the same pick (every other value is unchanged or lowered). -/
theorem masked_step_coincide (S : ResidSys σ) (φ : Nat → Nat → Bool) (st : GState σ) (j : Nat)
    (hj : j < st.p.size) (hnn : ∀ c, 0 ≤ S.norm2 st.lin c) (q0 : Nat)
    (hq0 : (greedyStep S zc noMask st j).p[j]? = some q0) (hφ : φ j q0 = false) :
    greedyStep S zc (pmask φ) st j = greedyStep S zc noMask st j := by
  unfold greedyStep
  congr 2
  have hsc0 := candScores_pmask S st zc (fun _ _ => false) j
  rw [← noMask_eq_pmask] at hsc0
  have hscφ := candScores_pmask S st zc φ j
  have hoff0 := greedyStep_off_lt S zc noMask st j hj
  have hlen0 : (candScores S st zc noMask j).length = (st.p.toList.drop j).length := by
    rw [hsc0, List.length_map]
  have hlenφ : (candScores S st zc (pmask φ) j).length = (st.p.toList.drop j).length := by
    rw [hscφ, List.length_map]
  have hP0 := candScores_nonneg S st zc noMask j hnn
  have hPφ := candScores_nonneg S st zc (pmask φ) j hnn
  have hne0 : candScores S st zc noMask j ≠ [] := by
    intro h; rw [h] at hlen0; simp at hlen0; omega
  obtain ⟨hr, hmax, hfirst⟩ := firstArgmaxBy_spec scoreGe_order _ hP0 hne0
  set off := firstArgmaxBy scoreGe (candScores S st zc noMask j) with hoffdef
  have hoffl : off < (st.p.toList.drop j).length := hlen0 ▸ hr
  have hqeq : q0 = (st.p.toList.drop j)[off] := by
    unfold greedyStep at hq0
    rw [← hoffdef, applyPivot_getElem? S st j (j + off) hj hoff0 j] at hq0
    have h1 : st.p[j + off]? = some q0 := by
      by_cases h0 : j + off = j
      · rw [if_pos h0] at hq0; rw [h0, Array.getElem?_eq_getElem hj]; exact hq0
      · rw [if_neg h0, if_pos rfl] at hq0; rw [Array.getElem?_eq_getElem hoff0]; exact hq0
    have h2 : (st.p.toList.drop j)[off]? = some q0 := by
      rw [List.getElem?_drop]; simpa using h1
    rw [List.getElem?_eq_getElem hoffl] at h2
    exact (Option.some.inj h2).symm
  have hmv_le : ∀ c, mval S φ st j c ≤ S.norm2 st.lin c := by
    intro c; unfold mval; split
    · exact hnn c
    · exact Rat.le_refl
  have hmvq : mval S φ st j (st.p.toList.drop j)[off] = S.norm2 st.lin (st.p.toList.drop j)[off] := by
    rw [← hqeq]; simp [mval, hφ]
  have e0 : ∀ i (hi : i < (candScores S st zc noMask j).length),
      (candScores S st zc noMask j)[i] =
        (S.norm2 st.lin ((st.p.toList.drop j)[i]'(hlen0 ▸ hi)), (0 : Rat)) := by
    intro i hi; simp [hsc0, mval]
  have eφ : ∀ i (hi : i < (candScores S st zc (pmask φ) j).length),
      (candScores S st zc (pmask φ) j)[i] =
        (mval S φ st j ((st.p.toList.drop j)[i]'(hlenφ ▸ hi)), (0 : Rat)) := by
    intro i hi; simp [hscφ]
  apply firstArgmaxBy_unique scoreGe_order _ hPφ off (by omega)
  · intro k hk
    have hk0 : k < (candScores S st zc noMask j).length := by omega
    have h := hmax k hk0
    rw [e0 off hr, e0 k hk0, scoreGe_same_cost] at h
    rw [eφ off (by omega), eφ k hk, scoreGe_same_cost, hmvq]
    exact decide_eq_true (le_trans (hmv_le _) (of_decide_eq_true h))
  · intro k hk
    have h := hfirst k hk
    have hk0 : k < (candScores S st zc noMask j).length := by omega
    rw [e0 off hr, e0 k hk0, scoreGe_same_cost] at h
    rw [eφ off (by omega), eφ k (by omega), scoreGe_same_cost, hmvq]
    have h' := of_decide_eq_false h
    exact decide_eq_false (fun hle => h' (le_trans hle (hmv_le _)))

/-- Coincidence of runs: if none of the first `J` unconstrained picks is zeroed at its step,
the constrained run equals the unconstrained run for `J` steps. -/
theorem masked_run_coincide (S : ResidSys σ) (φ : Nat → Nat → Bool) (s0 : σ) (n J : Nat)
    (hJ : J ≤ n)
    (hnn : ∀ j < J, ∀ c, 0 ≤ S.norm2 (greedyRunFrom S zc noMask s0 n j).lin c)
    (hφ : ∀ j < J, ∀ q, (greedyRunFrom S zc noMask s0 n (j + 1)).p[j]? = some q → φ j q = false) :
    greedyRunFrom S zc (pmask φ) s0 n J = greedyRunFrom S zc noMask s0 n J := by
  induction J with
  | zero => rfl
  | succ J ih =>
    have ih := ih (by omega) (fun j hj => hnn j (by omega)) (fun j hj => hφ j (by omega))
    rw [greedyRunFrom_succ, greedyRunFrom_succ, ih]
    have hsz := greedyRunFrom_size S zc noMask s0 n J
    obtain ⟨q0, hq0⟩ := pick_exists S zc noMask s0 n J (J + 1) (by omega)
    have hφq := hφ J (by omega) q0 hq0
    rw [greedyRunFrom_succ] at hq0
    exact masked_step_coincide S φ _ J (by omega) (hnn J (by omega)) q0 hq0 hφq

/-- the first `N` entries after `k ≥ N` steps are the first `N` picks -/
theorem greedyRunFrom_take (S : ResidSys σ) (costs : Nat → Rat) (mask : Mask) (s0 : σ)
    (n N k : Nat) (hNk : N ≤ k) :
    (greedyRunFrom S costs mask s0 n k).p.toList.take N =
      (greedyRunFrom S costs mask s0 n N).p.toList.take N := by
  apply List.ext_getElem?
  intro m
  rw [List.getElem?_take, List.getElem?_take]
  split
  · rename_i hm
    rw [Array.getElem?_toList, Array.getElem?_toList]
    rw [greedyRunFrom_prefix S costs mask s0 n m k (by omega)]
    by_cases hN : N = m + 1
    · subst hN; rfl
    · rw [greedyRunFrom_prefix S costs mask s0 n m N (by omega)]
  · rfl

/-- entry `j` of the first `N` picks, as the pick of step `j` -/
theorem greedyRunFrom_take_getElem? (S : ResidSys σ) (costs : Nat → Rat) (mask : Mask) (s0 : σ)
    (n N j : Nat) (hj : j < N) :
    ((greedyRunFrom S costs mask s0 n N).p.toList.take N)[j]? =
      (greedyRunFrom S costs mask s0 n (j + 1)).p[j]? := by
  rw [List.getElem?_take, if_pos hj, Array.getElem?_toList]
  by_cases hN : N = j + 1
  · subst hN; rfl
  · exact greedyRunFrom_prefix S costs mask s0 n j N (by omega)

/-- the picks before step `j` are the first `j` entries at any later time -/
theorem greedyRunFrom_take_take (S : ResidSys σ) (costs : Nat → Rat) (mask : Mask) (s0 : σ)
    (n j k : Nat) (hjk : j ≤ k) :
    (greedyRunFrom S costs mask s0 n k).p.toList.take j =
      (greedyRunFrom S costs mask s0 n j).p.toList.take j := by
  exact greedyRunFrom_take S costs mask s0 n j k hjk

theorem countP_inL_range (L : List Nat) (n : Nat) (hL : ∀ x ∈ L, x < n) (hLn : L.Nodup) :
    (List.range n).countP (inL L) = L.length := by
  rw [List.countP_eq_length_filter]
  apply List.Perm.length_eq
  rw [List.perm_ext_iff_of_nodup (List.nodup_range.filter _) hLn]
  intro a
  simp only [List.mem_filter, List.mem_range, inL, List.contains_iff_mem]
  exact ⟨fun h => h.2, fun h => ⟨hL a h, h⟩⟩

/-- counting region sensors in a full permutation -/
theorem countP_region_perm (L : List Nat) (n : Nat) (hL : ∀ x ∈ L, x < n) (hLn : L.Nodup)
    (p : List Nat) (hp : p.Perm (List.range n)) : p.countP (inL L) = L.length := by
  rw [hp.countP_eq]
  exact countP_inL_range L n hL hLn

/-- … and outside the region -/
theorem countP_not_region_perm (L : List Nat) (n : Nat) (hL : ∀ x ∈ L, x < n) (hLn : L.Nodup)
    (p : List Nat) (hp : p.Perm (List.range n)) :
    p.countP (fun c => !(inL L c)) = n - L.length := by
  rw [hp.countP_eq]
  have h1 := countP_inL_range L n hL hLn
  have h2 := List.length_eq_countP_add_countP (inL L) (l := List.range n)
  rw [List.length_range, h1] at h2
  have h3 : List.countP (fun c => !(inL L c)) (List.range n) =
      List.countP (fun a => decide ¬(inL L a) = true) (List.range n) := by
    congr 1; funext c; cases inL L c <;> rfl
  rw [h3]; omega

end PsVerif
