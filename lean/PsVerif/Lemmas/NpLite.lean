/-
  Lemmas about the numpy vocabulary of `Model/NpLite.lean` and about the counting loop of `max_n`, used by the proof scripts
  the translator `harness/translate_normcalc.py` attaches to the regenerated functions.
-/
import PsVerif.Model.NormCalc
import PsVerif.Model.NpLite
namespace PsVerif
open Np

theorem Np.zeroAt_replicate (m : List Bool) : Np.zeroAt (List.replicate m.length false) m = m := by
  induction m with
  | nil => rfl
  | cons b m ih =>
    simp only [List.length_cons, List.replicate_succ, Np.zeroAt, List.zipWith_cons_cons, Bool.false_or]
    exact congrArg _ ih

theorem Np.replicate_false_eq_map {α : Type} (xs : List α) (f : α → Bool) (h : ∀ x ∈ xs, f x = false) :
    List.replicate xs.length false = xs.map f := by
  induction xs with
  | nil => rfl
  | cons a xs ih =>
    simp only [List.length_cons, List.replicate_succ, List.map_cons]
    rw [h a (by simp), ih (fun x hx => h x (by simp [hx]))]

theorem Np.zeroAt_idem (dl m : List Bool) : Np.zeroAt (Np.zeroAt dl m) m = Np.zeroAt dl m := by
  induction dl generalizing m with
  | nil => simp [Np.zeroAt]
  | cons a dl ih =>
    cases m with
    | nil => simp [Np.zeroAt]
    | cons b m =>
      simp only [Np.zeroAt, List.zipWith_cons_cons] at ih ⊢
      rw [ih m]
      cases a <;> cases b <;> rfl

theorem inL_eq (L : List Nat) : inL L = fun c => decide (c ∈ L) := by
  funext c; simp [inL]

theorem Np.sel_isin (A L : List Nat) : Np.sel A (Np.isin A L false) = A.filter (inL L) := by
  rw [inL_eq]
  induction A with
  | nil => rfl
  | cons a A ih =>
    simp only [Np.sel, Np.isin, Bool.bne_false, List.contains_eq_mem] at ih ⊢
    by_cases hm : a ∈ L
    · simp [hm, ih]
    · simp [hm, ih]

theorem Np.count_isin (X L : List Nat) : Np.count (Np.isin X L false) = X.countP (inL L) := by
  rw [inL_eq]
  induction X with
  | nil => rfl
  | cons a X ih =>
    simp only [Np.count, Np.isin, Bool.bne_false, List.contains_eq_mem] at ih ⊢
    by_cases hm : a ∈ L
    · simp [hm, List.countP_cons, ih]
    · simp [hm, List.countP_cons, ih]

theorem Np.count_isin_take (A L : List Nat) (k : Nat) :
    Np.count (Np.isin (A.take k) L false) = regionCount L A k := by
  rw [Np.count_isin]; rfl

theorem regionCount_succ (L A : List Nat) (k : Nat) (hk : k < A.length) :
    regionCount L A (k + 1) = regionCount L A k + (if inL L (A.getD k 0) then 1 else 0) := by
  unfold regionCount
  rw [List.take_succ, List.countP_append]
  have : A[k]? = some (A.getD k 0) := by
    rw [List.getD_eq_getElem?_getD, List.getElem?_eq_getElem hk]; simp
  rw [this]
  simp [List.countP_cons]

/-- the counting loop of `max_n`, as the translator emits it: after `N ≤ len A` rounds the counter is the number of region
sensors among `A[:N]`, and the norm vector has been zeroed at `m` iff the counter exceeded `s` at some round – which (the
counter only grows) is iff it exceeds `s` at the end. -/
theorem maxN_loop (L A : List Nat) (s : Nat) (m dl : List Bool) (N : Nat) (hN : N ≤ A.length) :
    (List.range N).foldl (fun (st : Nat × List Bool) i =>
        if Np.isin1 (A.getD i 0) L false then
          (st.1 + 1, if decide (((st.1 + 1 : Nat) : Int) > ((s : Nat) : Int)) then Np.zeroAt st.2 m else st.2)
        else st) (0, dl)
      = (regionCount L A N, if regionCount L A N > s then Np.zeroAt dl m else dl) := by
  induction N with
  | zero => simp [regionCount]
  | succ k ih =>
    have hk : k < A.length := hN
    rw [List.range_succ, List.foldl_append, ih (Nat.le_of_lt hk)]
    simp only [List.foldl_cons, List.foldl_nil, Np.isin1, Bool.bne_false]
    rw [regionCount_succ L A k hk]
    simp only [inL]
    by_cases hc : L.contains (A.getD k 0) = true
    · simp only [hc, if_true]
      by_cases h1 : regionCount L A k > s
      · have h2 : regionCount L A k + 1 > s := by omega
        have h3 : ((regionCount L A k + 1 : Nat) : Int) > ((s : Nat) : Int) := by exact_mod_cast h2
        simp only [h1, h2, h3, if_true, decide_true, Np.zeroAt_idem]
      · by_cases h2 : regionCount L A k + 1 > s
        · have h3 : ((regionCount L A k + 1 : Nat) : Int) > ((s : Nat) : Int) := by exact_mod_cast h2
          simp only [h1, h2, h3, if_true, if_false, decide_true]
        · have h3 : ¬ ((regionCount L A k + 1 : Nat) : Int) > ((s : Nat) : Int) := by
            intro h; apply h2; exact_mod_cast h
          simp only [h1, h2, h3, if_false, decide_false]
          simp
    · have hc' : L.contains (A.getD k 0) = false := by simpa using hc
      simp only [hc', Bool.false_eq_true, if_false, Nat.add_zero]

end PsVerif
