/-
  The specification tree of `SSPOR.update_n_basis_modes` (Model/LifeExpr.lean) evaluates to the machine's `updateModes`.
-/
import PsVerif.Model.LifeExpr
namespace PsVerif

theorem updModesSpec_denotes (st : Sspor) (a : UpdArgs) :
    LTree.updModesSpec.eval st a = some (st.updateModes a.v a.x a.oracle) := by
  obtain ⟨v, x, o⟩ := a
  cases v with
  | other =>
    simp [LTree.updModesSpec, LTree.eval, LTree.condSem, LTree.excSem, Sspor.updateModes]
  | int z =>
    by_cases hz : z ≤ 0
    · simp [LTree.updModesSpec, LTree.eval, LTree.condSem, LTree.excSem, Sspor.updateModes, hz]
    · cases hnm : st.basis.nModes with
      | none =>
        cases x with
        | none =>
          simp [LTree.updModesSpec, LTree.eval, LTree.condSem, LTree.excSem, Sspor.updateModes, hz, hnm]
        | some p =>
          obtain ⟨ne, nf⟩ := p
          by_cases hk : z.toNat > ne
          · simp [LTree.updModesSpec, LTree.eval, LTree.condSem, LTree.excSem, Sspor.updateModes, hz, hnm, hk]
          · simp only [LTree.updModesSpec, LTree.eval, LTree.condSem, LTree.actSem, LTree.excSem, Sspor.updateModes, hz, hnm, hk]
            simp
            split <;> simp_all
      | some nm =>
        cases hb : (st.basis.fitted.isSome && decide (z ≤ (nm : Int))) with
        | true =>
          have hc : st.basis.fitted.isSome = true ∧ z ≤ (nm : Int) := by simpa using hb
          simp [LTree.updModesSpec, LTree.eval, LTree.condSem, LTree.actSem, LTree.excSem, Sspor.updateModes, hz, hnm, hb, hc]
          split <;> simp_all
        | false =>
          have hc : ¬ (st.basis.fitted.isSome = true ∧ z ≤ (nm : Int)) := by
            intro h
            have : (st.basis.fitted.isSome && decide (z ≤ (nm : Int))) = true := by simpa using h
            rw [hb] at this
            cases this
          cases x with
          | none =>
            simp [LTree.updModesSpec, LTree.eval, LTree.condSem, LTree.excSem, Sspor.updateModes, hz, hnm, hb, hc]
          | some p =>
            obtain ⟨ne, nf⟩ := p
            by_cases hk : z.toNat > ne
            · simp [LTree.updModesSpec, LTree.eval, LTree.condSem, LTree.excSem, Sspor.updateModes, hz, hnm, hb, hc, hk]
            · simp [LTree.updModesSpec, LTree.eval, LTree.condSem, LTree.actSem, LTree.excSem, Sspor.updateModes, hz, hnm, hb, hc, hk]
              split <;> simp_all

/-- the specification tree of `_validate_n_sensors` evaluates to step 3 of the machine's `fit` -/
theorem validateSpec_denotes (st : Sspor) (a : UpdArgs) :
    LTree.validateSpec.eval st a = some st.validateN := by
  cases hbm : st.bm with
  | none => simp [LTree.validateSpec, LTree.eval, LTree.actSem, Sspor.validateN, hbm]
  | some shape =>
    cases hn : st.nSensors with
    | none =>
      simp [LTree.validateSpec, LTree.eval, LTree.actSem, LTree.condSem, Sspor.validateN, hbm, hn]
    | some k =>
      cases hd : st.defaulted with
      | true =>
        simp [LTree.validateSpec, LTree.eval, LTree.actSem, LTree.condSem, Sspor.validateN, hbm, hn, hd]
      | false =>
        by_cases hk : k > shape.1
        · simp [LTree.validateSpec, LTree.eval, LTree.actSem, LTree.condSem, LTree.excSem, Sspor.validateN, hbm, hn, hd, hk]
        · simp [LTree.validateSpec, LTree.eval, LTree.actSem, LTree.condSem, LTree.excSem, Sspor.validateN, hbm, hn, hd, hk]

/-- the specification tree of `set_number_of_sensors` evaluates to the machine's `setN` -/
theorem setNSpec_denotes (st : Sspor) (a : UpdArgs) :
    LTree.setNSpec.eval st a = some (st.setN a.v) := by
  obtain ⟨v, x, o⟩ := a
  cases hr : st.ranking with
  | none => simp [LTree.setNSpec, LTree.eval, LTree.actSem, Sspor.setN, hr]
  | some r =>
    cases v with
    | other => simp [LTree.setNSpec, LTree.eval, LTree.actSem, LTree.condSem, LTree.excSem, Sspor.setN, hr]
    | int z =>
      by_cases hz : z ≤ 0
      · simp [LTree.setNSpec, LTree.eval, LTree.actSem, LTree.condSem, LTree.excSem, Sspor.setN, hr, hz]
      · by_cases hl : z > (r.length : Int)
        · simp [LTree.setNSpec, LTree.eval, LTree.actSem, LTree.condSem, LTree.excSem, Sspor.setN, hr, hz, hl]
        · simp [LTree.setNSpec, LTree.eval, LTree.actSem, LTree.condSem, LTree.excSem, Sspor.setN, hr, hz, hl]

/-- … and `Sspor.fit` IS: basis step, matrix representation, that validation, then the ranking -/
theorem Sspor.fit_eq_validate (st : Sspor) (ne nf : Nat) (pf : Bool) (o : List Nat) :
    st.fit ne nf pf o =
      (let p := if pf then (st.basis, if st.basis.fitted.isSome then none else some Err.notFitted) else st.basis.fit ne nf
       match p.2 with
       | some e => ({ st with basis := p.1 }, some e)
       | none =>
         match p.1.rep st.nBasisModes with
         | .error e => ({ st with basis := p.1 }, some e)
         | .ok shape =>
           match ({ st with basis := p.1, bm := some shape } : Sspor).validateN with
           | (st3, some e) => (st3, some e)
           | (st3, none) => ({ st3 with ranking := some o }, none)) := by
  unfold Sspor.fit Sspor.validateN
  generalize (if pf = true then
      (st.basis, if st.basis.fitted.isSome then none else some Err.notFitted)
    else st.basis.fit ne nf) = p
  obtain ⟨b, e1⟩ := p
  cases e1 with
  | some e => rfl
  | none =>
    simp only []
    cases b.rep st.nBasisModes with
    | error e => rfl
    | ok shape =>
      simp only []
      cases hn : st.nSensors with
      | none => rfl
      | some k =>
        simp only []
        cases hd : st.defaulted with
        | true => rfl
        | false =>
          by_cases h : k > shape.1 <;> simp [h]

end PsVerif
