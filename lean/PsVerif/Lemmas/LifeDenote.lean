/-
  The specification tree of `SSPOR.update_n_basis_modes` (Model/LifeExpr.lean) evaluates to the machine's `updateModes`.
-/
import PsVerif.Model.LifeExpr
namespace PsVerif

theorem updModesSpec_denotes (st : Sspor) (a : UpdArgs) :
    LTree.updModesSpec.eval st a = some (st.updateModes a.v a.x a.oracle) := by
  obtain ⟨v, x, o⟩ := a
  cases v with
  | other =>
    simp [LTree.updModesSpec, LTree.eval, LTree.condSem, LTree.excSem, Sspor.updateModes]
  | int z =>
    by_cases hz : z ≤ 0
    · simp [LTree.updModesSpec, LTree.eval, LTree.condSem, LTree.excSem, Sspor.updateModes, hz]
    · cases hnm : st.basis.nModes with
      | none =>
        cases x with
        | none =>
          simp [LTree.updModesSpec, LTree.eval, LTree.condSem, LTree.excSem, Sspor.updateModes, hz, hnm]
        | some p =>
          obtain ⟨ne, nf⟩ := p
          by_cases hk : z.toNat > ne
          · simp [LTree.updModesSpec, LTree.eval, LTree.condSem, LTree.excSem, Sspor.updateModes, hz, hnm, hk]
          · simp only [LTree.updModesSpec, LTree.eval, LTree.condSem, LTree.actSem, LTree.excSem, Sspor.updateModes, hz, hnm, hk]
            simp
            split <;> simp_all
      | some nm =>
        cases hb : (st.basis.fitted.isSome && decide (z ≤ (nm : Int))) with
        | true =>
          have hc : st.basis.fitted.isSome = true ∧ z ≤ (nm : Int) := by simpa using hb
          simp [LTree.updModesSpec, LTree.eval, LTree.condSem, LTree.actSem, LTree.excSem, Sspor.updateModes, hz, hnm, hb, hc]
          split <;> simp_all
        | false =>
          have hc : ¬ (st.basis.fitted.isSome = true ∧ z ≤ (nm : Int)) := by
            intro h
            have : (st.basis.fitted.isSome && decide (z ≤ (nm : Int))) = true := by simpa using h
            rw [hb] at this
            cases this
          cases x with
          | none =>
            simp [LTree.updModesSpec, LTree.eval, LTree.condSem, LTree.excSem, Sspor.updateModes, hz, hnm, hb, hc]
          | some p =>
            obtain ⟨ne, nf⟩ := p
            by_cases hk : z.toNat > ne
            · simp [LTree.updModesSpec, LTree.eval, LTree.condSem, LTree.excSem, Sspor.updateModes, hz, hnm, hb, hc, hk]
            · simp [LTree.updModesSpec, LTree.eval, LTree.condSem, LTree.actSem, LTree.excSem, Sspor.updateModes, hz, hnm, hb, hc, hk]
              split <;> simp_all

end PsVerif
