/-
  Relabelling equivariance of the greedy ranking (C18, third clause).
  Tie-breaking in the code is by position (numpy argmax takes the first maximiser), so a relabelling of the
  sensors can change the result exactly where two candidates tie.  Where every choice is strict, the ranking is
  characterised without reference to positions (`StrictGreedy`), and therefore commutes with relabelling.
-/
import PsVerif.Lemmas.Greedy
import PsVerif.Lemmas.SqrtOrder
import PsVerif.Lemmas.GramAlg
import PsVerif.Lemmas.Masked
import PsVerif.Props.C04
namespace PsVerif

variable {σ : Type}

/-- `qs` is a *strictly greedy* sequence of picks for the residual system started at `s0` over the sensors `0..n-1`:
distinct sensors, and at every step the pick strictly beats every other sensor not picked so far
(`¬ (√norm²(c) − cost(c) ≥ √norm²(q) − cost(q))`).  No positions occur in this definition. -/
def StrictGreedy (S : ResidSys σ) (costs : Nat → Rat) (s0 : σ) (n : Nat) (qs : List Nat) : Prop :=
  qs.Nodup ∧ (∀ q ∈ qs, q < n) ∧
  ∀ (j : Nat) (hj : j < qs.length) (c : Nat), c < n → c ∉ qs.take (j + 1) →
    scoreGe (S.norm2 ((qs.take j).foldl S.elim s0) c, costs c)
            (S.norm2 ((qs.take j).foldl S.elim s0) qs[j], costs qs[j]) = false

/-- the greedy run reproduces every prefix of a strictly greedy sequence -/
theorem strict_greedy_prefix (S : ResidSys σ) (costs : Nat → Rat) (s0 : σ) (n : Nat) (qs : List Nat)
    (hnn : ∀ (picks : List Nat) (c : Nat), 0 ≤ S.norm2 (picks.foldl S.elim s0) c)
    (h : StrictGreedy S costs s0 n qs) (k : Nat) (hk : k ≤ qs.length) :
    (greedyRunFrom S costs noMask s0 n k).p.toList.take k = qs.take k := by
  obtain ⟨hnd, hlt, hstrict⟩ := h
  have hlen_n : qs.length ≤ n := by
    have hsub : qs ⊆ List.range n := fun q hq => List.mem_range.mpr (hlt q hq)
    simpa using (hnd.subperm hsub).length_le
  induction k with
  | zero => simp
  | succ k ih =>
    have ih := ih (by omega)
    have hkq : k < qs.length := by omega
    have hkn : k < n := by omega
    have hsz : (greedyRunFrom S costs noMask s0 n k).p.size = n := greedyRunFrom_size S costs noMask s0 n k
    have hlin : (greedyRunFrom S costs noMask s0 n k).lin = (qs.take k).foldl S.elim s0 := by
      rw [greedyRunFrom_lin S costs noMask s0 n k (by omega), ih]
    have hnnst : ∀ c, 0 ≤ S.norm2 (greedyRunFrom S costs noMask s0 n k).lin c := by
      intro c; rw [hlin]; exact hnn _ _
    have hcands := greedyRunFrom_cands S costs noMask s0 n k
    have hsz' : (greedyRunFrom S costs noMask s0 n (k + 1)).p.size = n :=
      greedyRunFrom_size S costs noMask s0 n (k + 1)
    have hpre : ∀ m, m < k → (greedyRunFrom S costs noMask s0 n (k + 1)).p[m]? =
        (greedyRunFrom S costs noMask s0 n k).p[m]? := by
      intro m hmk
      rw [greedyRunFrom_succ]
      exact greedyStep_prefix S costs noMask _ k m hmk
    obtain ⟨hoff, hpick, hmax, _⟩ := greedy_pick_max S costs noMask s0 scoreGe_order n k hkn hnnst
    have hscform := candScores_noMask S (greedyRunFrom S costs noMask s0 n k) costs k
    generalize greedyRunFrom S costs noMask s0 n (k + 1) = st1 at *
    generalize greedyRunFrom S costs noMask s0 n k = st at *
    generalize hsc : candScores S st costs noMask k = sc at *
    generalize hoffdef : firstArgmaxBy scoreGe sc = off at *
    have hsclen : sc.length = (st.p.toList.drop k).length := by rw [hscform, List.length_map]
    -- qs[k] is a candidate
    have hqk_cand : qs[k] ∈ st.p.toList.drop k := by
      rw [hcands qs[k]]
      refine ⟨hlt _ (List.getElem_mem _), ?_⟩
      rw [ih]
      intro hmem
      have := List.nodup_iff_injective_getElem.mp hnd
      rw [List.mem_take_iff_getElem] at hmem
      obtain ⟨i, hi, hieq⟩ := hmem
      have hi' : i < qs.length := by omega
      have : (⟨i, hi'⟩ : Fin qs.length) = ⟨k, hkq⟩ := this hieq
      have : i = k := by simpa using this
      omega
    obtain ⟨i, hi, hieq⟩ := List.getElem_of_mem hqk_cand
    -- the chosen candidate
    have hoff' : off < (st.p.toList.drop k).length := by omega
    set c := (st.p.toList.drop k)[off] with hc
    have hc_eq : c = qs[k] := by
      by_contra hne
      have hc_mem : c ∈ st.p.toList.drop k := List.getElem_mem _
      have hc_props := (hcands c).mp hc_mem
      rw [ih] at hc_props
      have hnot : c ∉ qs.take (k + 1) := by
        rw [List.take_succ_eq_append_getElem hkq]
        intro hm
        rcases List.mem_append.mp hm with hm | hm
        · exact hc_props.2 hm
        · exact hne (by simpa using hm)
      have hfalse := hstrict k hkq c hc_props.1 hnot
      have hi_sc : i < sc.length := by omega
      have htrue := hmax i hi_sc
      have e1 : sc[off] = (S.norm2 st.lin c, costs c) := by
        simp only [hscform, List.getElem_map]; rfl
      have e2 : sc[i] = (S.norm2 st.lin qs[k], costs qs[k]) := by
        simp only [hscform, List.getElem_map, hieq]
      rw [e1, e2, hlin] at htrue
      rw [htrue] at hfalse
      exact Bool.noConfusion hfalse
    -- assemble
    have hk1 : k < st1.p.toList.length := by
      simpa using (by omega : k < st1.p.size)
    rw [List.take_succ_eq_append_getElem hk1, List.take_succ_eq_append_getElem hkq]
    congr 1
    · rw [← ih]
      apply List.ext_getElem?
      intro m
      rw [List.getElem?_take, List.getElem?_take]
      split
      · rename_i hmk
        rw [Array.getElem?_toList, Array.getElem?_toList]
        exact hpre m hmk
      · rfl
    · congr 1
      have h1 : st1.p[k]? = st.p[k + off]? := hpick
      have hko : k + off < st.p.size := by
        have : (st.p.toList.drop k).length = st.p.size - k := by simp
        omega
      have : st1.p.toList[k] = st.p[k + off] := by
        rw [Array.getElem_toList]
        have hks : k < st1.p.size := by omega
        rw [Array.getElem?_eq_getElem hks, Array.getElem?_eq_getElem hko] at h1
        exact Option.some.inj h1
      rw [this, ← hc_eq, hc, List.getElem_drop]
      simp

/-- **uniqueness**: a strictly greedy sequence IS what the (unmasked) greedy run produces. -/
theorem strict_greedy_unique (S : ResidSys σ) (costs : Nat → Rat) (s0 : σ) (n : Nat) (qs : List Nat)
    (hnn : ∀ (picks : List Nat) (c : Nat), 0 ≤ S.norm2 (picks.foldl S.elim s0) c)
    (h : StrictGreedy S costs s0 n qs) :
    (greedyRunFrom S costs noMask s0 n qs.length).p.toList.take qs.length = qs := by
  have := strict_greedy_prefix S costs s0 n qs hnn h qs.length (Nat.le_refl _)
  simpa using this

/-- conversely, if every choice of the greedy run is strict, its leading picks are a strictly greedy sequence -/
theorem greedy_run_strict (S : ResidSys σ) (costs : Nat → Rat) (s0 : σ) (n k : Nat) (hk : k ≤ n)
    (hnn : ∀ (picks : List Nat) (c : Nat), 0 ≤ S.norm2 (picks.foldl S.elim s0) c)
    (hstrict : ∀ j, j < k → ∀ c, c < n →
      c ∉ (greedyRunFrom S costs noMask s0 n k).p.toList.take (j + 1) →
      scoreGe (S.norm2 (((greedyRunFrom S costs noMask s0 n k).p.toList.take j).foldl S.elim s0) c, costs c)
              (S.norm2 (((greedyRunFrom S costs noMask s0 n k).p.toList.take j).foldl S.elim s0)
                ((greedyRunFrom S costs noMask s0 n k).p.toList.getD j 0),
               costs ((greedyRunFrom S costs noMask s0 n k).p.toList.getD j 0)) = false) :
    StrictGreedy S costs s0 n ((greedyRunFrom S costs noMask s0 n k).p.toList.take k) := by
  have hperm := greedyRunFrom_toList_perm S costs noMask s0 n k
  generalize (greedyRunFrom S costs noMask s0 n k).p.toList = l at *
  have hnd : l.Nodup := hperm.nodup_iff.mpr List.nodup_range
  have hlen : l.length = n := by simpa using hperm.length_eq
  refine ⟨hnd.sublist (List.take_sublist _ _), ?_, ?_⟩
  · intro q hq
    exact List.mem_range.mp (hperm.mem_iff.mp (List.mem_of_mem_take hq))
  · intro j hj c hc hnot
    have hjk : j < k := by
      rw [List.length_take] at hj; omega
    have h1 : (l.take k).take (j + 1) = l.take (j + 1) := by
      rw [List.take_take]; congr 1; omega
    have h2 : (l.take k).take j = l.take j := by
      rw [List.take_take]; congr 1; omega
    have hjl : j < l.length := by omega
    have h3 : (l.take k)[j] = l.getD j 0 := by
      rw [List.getElem_take, List.getD_eq_getElem?_getD, List.getElem?_eq_getElem hjl]
      rfl
    rw [h1] at hnot
    rw [h2, h3]
    exact hstrict j hjk c hc hnot

/-- the same system seen through a relabelling `π` of the sensors: new sensor `c` is old sensor `π c` -/
def ResidSys.relabel (S : ResidSys σ) (π : Nat → Nat) : ResidSys σ :=
  { norm2 := fun s c => S.norm2 s (π c), elim := fun s q => S.elim s (π q) }

theorem foldl_relabel_map (S : ResidSys σ) (π πinv : Nat → Nat) (n : Nat)
    (hπ' : ∀ c, c < n → πinv c < n ∧ π (πinv c) = c) :
    ∀ (l : List Nat) (s : σ), (∀ q ∈ l, q < n) →
      (l.map πinv).foldl (S.relabel π).elim s = l.foldl S.elim s
  | [], _, _ => rfl
  | q :: l, s, h => by
    rw [List.map_cons, List.foldl_cons, List.foldl_cons]
    have hq : π (πinv q) = q := (hπ' q (h q (by simp))).2
    have : (S.relabel π).elim s (πinv q) = S.elim s q := by
      show S.elim s (π (πinv q)) = S.elim s q
      rw [hq]
    rw [this]
    exact foldl_relabel_map S π πinv n hπ' l _ (fun x hx => h x (by simp [hx]))

theorem foldl_relabel (S : ResidSys σ) (π : Nat → Nat) (l : List Nat) (s : σ) :
    l.foldl (S.relabel π).elim s = (l.map π).foldl S.elim s := by
  rw [List.foldl_map]; rfl

/-- a strictly greedy sequence of the original system, read in the new labels, is strictly greedy for the
relabelled system -/
theorem strictGreedy_relabel (S : ResidSys σ) (costs : Nat → Rat) (s0 : σ) (n : Nat) (qs : List Nat)
    (π πinv : Nat → Nat)
    (hπ : ∀ c, c < n → π c < n ∧ πinv (π c) = c) (hπ' : ∀ c, c < n → πinv c < n ∧ π (πinv c) = c)
    (h : StrictGreedy S costs s0 n qs) :
    StrictGreedy (S.relabel π) (fun c => costs (π c)) s0 n (qs.map πinv) := by
  obtain ⟨hnd, hlt, hstrict⟩ := h
  refine ⟨?_, ?_, ?_⟩
  · refine List.Nodup.map_on ?_ hnd
    intro x hx y hy hxy
    rw [← (hπ' x (hlt x hx)).2, hxy, (hπ' y (hlt y hy)).2]
  · intro q hq
    obtain ⟨x, hx, rfl⟩ := List.mem_map.mp hq
    exact (hπ' x (hlt x hx)).1
  · intro j hj c hc hnot
    have hj' : j < qs.length := by simpa using hj
    rw [← List.map_take] at hnot ⊢
    rw [foldl_relabel_map S π πinv n hπ' (qs.take j) s0
      (fun q hq => hlt q (List.mem_of_mem_take hq))]
    show scoreGe (S.norm2 _ (π c), costs (π c))
      (S.norm2 _ (π (qs.map πinv)[j]), costs (π (qs.map πinv)[j])) = false
    rw [List.getElem_map, (hπ' _ (hlt _ (List.getElem_mem hj'))).2]
    apply hstrict j hj' (π c) (hπ c hc).1
    intro hmem
    apply hnot
    rw [List.mem_map]
    exact ⟨π c, hmem, (hπ c hc).2⟩

/-- **C18 (relabelling).** If the picks `qs` of the original problem are strict at every step, the greedy run on
the relabelled problem (sensor rows, costs relabelled alike) produces the relabelled picks. -/
theorem relabel_equivariant (S : ResidSys σ) (costs : Nat → Rat) (s0 : σ) (n : Nat) (qs : List Nat)
    (π πinv : Nat → Nat)
    (hπ : ∀ c, c < n → π c < n ∧ πinv (π c) = c) (hπ' : ∀ c, c < n → πinv c < n ∧ π (πinv c) = c)
    (hnn : ∀ (picks : List Nat) (c : Nat), 0 ≤ S.norm2 (picks.foldl S.elim s0) c)
    (h : StrictGreedy S costs s0 n qs) :
    (greedyRunFrom (S.relabel π) (fun c => costs (π c)) noMask s0 n qs.length).p.toList.take qs.length
      = qs.map πinv := by
  have h' := strictGreedy_relabel S costs s0 n qs π πinv hπ hπ' h
  have hnn' : ∀ (picks : List Nat) (c : Nat),
      0 ≤ (S.relabel π).norm2 (picks.foldl (S.relabel π).elim s0) c := by
    intro picks c
    rw [foldl_relabel]
    exact hnn _ _
  have := strict_greedy_unique (S.relabel π) (fun c => costs (π c)) s0 n (qs.map πinv) hnn' h'
  simpa using this

theorem schur_relabel_aux (n : Nat) (π : Nat → Nat) (hπ : ∀ c, c < n → π c < n) :
    ∀ (picks : List Nat) (G G' : RMat), G.WF n n → G'.WF n n →
      (∀ a b, a < n → b < n → G'.get a b = G.get (π a) (π b)) →
      (∀ q ∈ picks, q < n) → ∀ a b, a < n → b < n →
      (picks.foldl schur G').get a b = ((picks.map π).foldl schur G).get (π a) (π b)
  | [], _, _, _, _, h, _ => by simpa using h
  | q :: qs, G, G', hG, hG', h, hp => by
    rw [List.map_cons, List.foldl_cons, List.foldl_cons]
    have hq : q < n := hp q (by simp)
    apply schur_relabel_aux n π hπ qs (schur G (π q)) (schur G' q) (schur_wf G n _ hG)
      (schur_wf G' n _ hG')
    · intro a b ha hb
      rw [schur_get G' n hG', schur_get G n hG, h q q hq hq, h a b ha hb, h a q ha hq, h q b hq hb]
    · intro x hx
      exact hp x (by simp [hx])

theorem gram_relabel_base (B B' : RMat) (hsz : B'.size = B.size) (π : Nat → Nat)
    (hπ : ∀ c, c < B.size → π c < B.size)
    (hrows : ∀ c, c < B.size → B'.row c = B.row (π c))
    (a b : Nat) (ha : a < B.size) (hb : b < B.size) :
    (gram B').get a b = (gram B).get (π a) (π b) := by
  unfold gram
  rw [RMat.get_ofFn, RMat.get_ofFn, hsz, if_pos ⟨ha, hb⟩, if_pos ⟨hπ a ha, hπ b hb⟩,
    hrows a ha, hrows b hb]

/-- the Gram matrix of the relabelled rows is the relabelled Gram matrix, and Schur steps commute with the
relabelling: the Gram system of `B'` (`B'` row `c` = `B` row `π c`) simulates the relabelled Gram system of `B`. -/
theorem gram_relabel_sim (B B' : RMat) (m : Nat) (hB : B.WF B.size m) (hB' : B'.WF B.size m)
    (π πinv : Nat → Nat)
    (hπ : ∀ c, c < B.size → π c < B.size ∧ πinv (π c) = c)
    (hπ' : ∀ c, c < B.size → πinv c < B.size ∧ π (πinv c) = c)
    (hrows : ∀ c, c < B.size → B'.row c = B.row (π c))
    (picks : List Nat) (hp : ∀ q ∈ picks, q < B.size) (a b : Nat) (ha : a < B.size) (hb : b < B.size) :
    (picks.foldl schur (gram B')).get a b = ((picks.map π).foldl schur (gram B)).get (π a) (π b) := by
  have hsz : B'.size = B.size := hB'.1
  have hwf' : (gram B').WF B.size B.size := by
    have := gram_wf B'
    rwa [hsz] at this
  exact schur_relabel_aux B.size π (fun c hc => (hπ c hc).1) picks (gram B) (gram B') (gram_wf B) hwf'
    (gram_relabel_base B B' hsz π (fun c hc => (hπ c hc).1) hrows) hp a b ha hb

theorem schur_of_ge (G : RMat) (n q : Nat) (hG : G.WF n n) (hq : n ≤ q) : schur G q = G := by
  unfold schur
  simp only
  rw [if_pos (RMat.get_eq_zero_of_ge hG q q (Or.inl hq))]

theorem schur_fold_filter (n : Nat) : ∀ (picks : List Nat) (G : RMat), G.WF n n →
    picks.foldl schur G = (picks.filter (fun q => decide (q < n))).foldl schur G
  | [], _, _ => rfl
  | q :: qs, G, hG => by
    rw [List.foldl_cons, List.filter_cons]
    by_cases hq : q < n
    · rw [if_pos (by simpa using hq), List.foldl_cons]
      exact schur_fold_filter n qs _ (schur_wf G n q hG)
    · rw [if_neg (by simpa using hq), schur_of_ge G n q hG (by omega)]
      exact schur_fold_filter n qs G hG

/-- squared norms are non-negative in every state of the Gram system (out-of-range picks eliminate nothing) -/
theorem gramSys_fold_nonneg (B : RMat) (m : Nat) (hB : B.WF B.size m) (picks : List Nat) (c : Nat) :
    0 ≤ gramSys.norm2 (picks.foldl gramSys.elim (gram B)) c := by
  show 0 ≤ (picks.foldl schur (gram B)).get c c
  rw [schur_fold_filter B.size picks (gram B) (gram_wf B)]
  apply schur_fold_diag_nonneg B m hB
  intro q hq
  simpa using (List.mem_filter.mp hq).2

/-- **C18 (relabelling, matrices).** `B'` is `B` with its sensor rows relabelled by `π` and the costs relabelled
alike.  If the exact picks `qs` on `B` are strict, the exact model's ranking of `B'` starts with the relabelled picks. -/
theorem relabel_equivariant_gram (B B' : RMat) (m : Nat) (hB : B.WF B.size m) (hB' : B'.WF B.size m)
    (costs : Nat → Rat) (π πinv : Nat → Nat)
    (hπ : ∀ c, c < B.size → π c < B.size ∧ πinv (π c) = c)
    (hπ' : ∀ c, c < B.size → πinv c < B.size ∧ π (πinv c) = c)
    (hrows : ∀ c, c < B.size → B'.row c = B.row (π c))
    (qs : List Nat) (h : StrictGreedy gramSys costs (gram B) B.size qs) :
    (greedyRunFrom gramSys (fun c => costs (π c)) noMask (gram B') B.size qs.length).p.toList.take qs.length
      = qs.map πinv := by
  have hsz : B'.size = B.size := hB'.1
  have hrel := strictGreedy_relabel gramSys costs (gram B) B.size qs π πinv hπ hπ' h
  obtain ⟨hnd, hlt, hstrict⟩ := h
  obtain ⟨hnd', hlt', hstrict'⟩ := hrel
  have hsg : StrictGreedy gramSys (fun c => costs (π c)) (gram B') B.size (qs.map πinv) := by
    refine ⟨hnd', hlt', ?_⟩
    intro j hj c hc hnot
    have key : ∀ x, x < B.size →
        gramSys.norm2 (((qs.map πinv).take j).foldl gramSys.elim (gram B')) x =
        (gramSys.relabel π).norm2 (((qs.map πinv).take j).foldl (gramSys.relabel π).elim (gram B)) x := by
      intro x hx
      rw [foldl_relabel]
      exact gram_relabel_sim B B' m hB hB' π πinv hπ hπ' hrows _
        (fun q hq => hlt' q (List.mem_of_mem_take hq)) x x hx hx
    rw [key c hc, key _ (hlt' _ (List.getElem_mem hj))]
    exact hstrict' j hj c hc hnot
  have hB'' : B'.WF B'.size m := by rw [hsz]; exact hB'
  have := strict_greedy_unique gramSys (fun c => costs (π c)) (gram B') B.size (qs.map πinv)
    (gramSys_fold_nonneg B' m hB'') hsg
  simpa using this

end PsVerif
