/-
  Meaning of the reflector steps and of the pivot rule of `Model/HhExpr.lean` over ℝ, and the proofs that the specification
  programs denote the objects the Householder theorems are about.
-/
import PsVerif.Model.HhExpr
import PsVerif.Lemmas.HouseholderLoop
namespace PsVerif
open Matrix

variable {p q : ℕ}

/-- numpy's `np.sign` on a real number -/
noncomputable def npSign (x : ℝ) : ℝ := if x < 0 then -1 else if x = 0 then 0 else 1

/-- one step on the vector under construction (`x` = pivot column, `ρ` = its norm) -/
noncomputable def ReflOp.apply (x : Fin (p + 1) → ℝ) (ρ : ℝ) : ReflOp → (Fin (p + 1) → ℝ) → (Fin (p + 1) → ℝ)
  | .divByNorm, _ => fun i => x i / ρ
  | .addSignHead fix, u => fun i => if i = 0 then u 0 + (npSign (u 0) + (if fix ∧ u 0 = 0 then 1 else 0)) else u i
  | .divBySqrtAbsHead, u => fun i => u i / Real.sqrt |u 0|

/-- running the steps (the first one overwrites the start value) -/
noncomputable def reflSteps (x : Fin (p + 1) → ℝ) (ρ : ℝ) (steps : List ReflOp) : Fin (p + 1) → ℝ :=
  steps.foldl (fun u op => op.apply x ρ u) x

/-- **the specification's reflector steps are the `reflector` of `Lemmas/Householder.lean`** (the object of `reflector_norm`,
`applyReflector_gram`, `householder_refines_schur`) – for CCQR and GQR alike -/
theorem spec_reflector_denotes (T : Matrix (Fin (p + 1)) (Fin q) ℝ) (piv : Fin q) :
    reflSteps (fun i => T i piv) (Real.sqrt (colNorm2 T piv)) HhProg.specCCQR.refl.steps = reflector T piv := by
  funext i
  simp only [HhProg.specCCQR, reflSteps, List.foldl_cons, List.foldl_nil, ReflOp.apply, reflector, npSign]
  have hs : ∀ v : ℝ, ((if v < 0 then (-1 : ℝ) else if v = 0 then 0 else 1) + (if True ∧ v = 0 then (1 : ℝ) else 0))
      = (if v < 0 then -1 else 1) := by
    intro v
    by_cases h1 : v < 0
    · have : v ≠ 0 := ne_of_lt h1
      simp [h1, this]
    · by_cases h2 : v = 0
      · simp [h2]
      · simp [h1, h2]
  simp only [if_true, hs]

theorem specGQR_same_steps : HhProg.specGQR.refl.steps = HhProg.specCCQR.refl.steps := rfl

/-- the pivot rule: `np.argmax` of the scores built from the candidates' norms (and costs / mask) -/
noncomputable def ScoreE.pick (norms2 costs : List ℝ) (masked : List Bool) : ScoreE → Nat
  | .normMinusCost .sqrtSumAbsSq => realArgmax ((norms2.zip costs).map fun nc => Real.sqrt nc.1 - nc.2)
  | .maskedNorm .sqrtSumAbsSq => realArgmax ((norms2.zip masked).map fun nm => if nm.2 then 0 else Real.sqrt nm.1)

/-- **the specification's pivot rule is the model's decision** (`firstArgmaxBy scoreGe`, the object of `ccqr_greedy_max`): for
rational squared norms ≥ 0 and rational costs -/
theorem spec_pick_is_model (sc : List Score) (hnn : ∀ x ∈ sc, 0 ≤ x.1) :
    HhProg.specCCQR.refl.score.pick (sc.map fun x => ((x.1 : ℚ) : ℝ)) (sc.map fun x => ((x.2 : ℚ) : ℝ)) []
      = firstArgmaxBy scoreGe sc := by
  simp only [HhProg.specCCQR, ScoreE.pick]
  rw [← realArgmax_eq_model sc hnn]
  congr 1
  rw [List.zip_map', List.map_map]
  rfl

end PsVerif
