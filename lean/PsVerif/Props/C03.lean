/-
  C03 — the default ranking follows the greedy max-residual (pivoted QR) rule.
  Property theorems only; helper lemmas are in Lemmas/{Argmax,Greedy,GramAlg,SqrtOrder}.lean.
-/
import PsVerif.Lemmas.Greedy
import PsVerif.Lemmas.GramAlg
import PsVerif.Lemmas.SqrtOrder
import PsVerif.Model.NormCalc
import PsVerif.Props.C04
import PsVerif.Props.C01
import PsVerif.Lemmas.Householder
import PsVerif.Lemmas.HouseholderLoop
namespace PsVerif
open Matrix

variable {σ : Type}

/-- **C03 (greedy rule, any residual system).** Without costs and constraints the sensor ranked
at step `j` has the largest squared residual norm among the sensors not yet ranked. -/
theorem qr_greedy_max (S : ResidSys σ) (s0 : σ) (n j : Nat) (hj : j < n)
    (hnn : ∀ c, 0 ≤ S.norm2 (greedyRunFrom S (fun _ => 0) noMask s0 n j).lin c) (q : Nat)
    (hq : (greedyRunFrom S (fun _ => 0) noMask s0 n (j + 1)).p[j]? = some q) :
    let st := greedyRunFrom S (fun _ => 0) noMask s0 n j
    q ∈ st.p.toList.drop j ∧ ∀ c ∈ st.p.toList.drop j, S.norm2 st.lin c ≤ S.norm2 st.lin q := by
  intro st
  obtain ⟨hmem, hmax⟩ := ccqr_greedy_max S (fun _ => 0) s0 n j hj hnn q hq
  refine ⟨hmem, fun c hc => ?_⟩
  have h := hmax c hc
  simp only [Rat.cast_zero, sub_zero] at h
  have h2 := (Real.sqrt_le_sqrt_iff (by exact_mod_cast hnn q)).mp h
  exact_mod_cast h2

/-- every state of the exact Gram model has non-negative squared residual norms -/
theorem gram_state_nonneg (B : RMat) (m : Nat) (hB : B.WF B.size m) (costs : Nat → Rat)
    (mask : Mask) (k : Nat) (hk : k ≤ B.size) (c : Nat) :
    0 ≤ gramSys.norm2 (greedyRun costs mask B k).lin c := by
  unfold greedyRun
  rw [greedyRunFrom_lin gramSys costs mask (gram B) B.size k hk]
  apply schur_fold_diag_nonneg B m hB
  intro x hx
  have hx' := List.mem_of_mem_take hx
  have hperm := (greedyRunFrom_perm gramSys costs mask (gram B) B.size k).toList
  have : x ∈ (Array.range B.size).toList := hperm.mem_iff.mp hx'
  simpa using this

/-- **C03 (headline).** In the exact model of the default optimizer, the sensor ranked at step `j`
has the largest residual norm *after removing what the sensors ranked before it explain* – the
modified-Gram–Schmidt residual of its row against the rows ranked earlier – among all sensors
not yet ranked.  Holds for every rectangular basis matrix, of any rank. -/
theorem qr_pick_max_mgs_residual (B : RMat) (m : Nat) (hB : B.WF B.size m) (j : Nat)
    (hj : j < B.size) (q : Nat)
    (hq : (greedyRun (fun _ => 0) noMask B (j + 1)).p[j]? = some q) :
    let picks := (greedyRun (fun _ => 0) noMask B j).p.toList.take j
    let resid := mgsResid (B.vec m) picks
    q < B.size ∧ q ∉ picks ∧
      ∀ c, c < B.size → c ∉ picks → resid c ⬝ᵥ resid c ≤ resid q ⬝ᵥ resid q := by
  intro picks resid
  have hnn := gram_state_nonneg B m hB (fun _ => 0) noMask j (Nat.le_of_lt hj)
  obtain ⟨hmem, hmax⟩ := qr_greedy_max gramSys (gram B) B.size j hj hnn q hq
  have hcand := greedyRunFrom_cands gramSys (fun _ => 0) noMask (gram B) B.size j
  have hqc := (hcand q).mp hmem
  have hpicks : ∀ x ∈ picks, x < B.size := by
    intro x hx
    have hx' := List.mem_of_mem_take hx
    have hperm := (greedyRunFrom_perm gramSys (fun _ => 0) noMask (gram B) B.size j).toList
    have : x ∈ (Array.range B.size).toList := hperm.mem_iff.mp hx'
    simpa using this
  have hlin : (greedyRun (fun _ => 0) noMask B j).lin = picks.foldl schur (gram B) :=
    greedyRunFrom_lin gramSys (fun _ => 0) noMask (gram B) B.size j (Nat.le_of_lt hj)
  refine ⟨hqc.1, hqc.2, fun c hc hcp => ?_⟩
  have h := hmax c ((hcand c).mpr ⟨hc, hcp⟩)
  have e1 := schur_fold_eq_mgs B m hB picks hpicks c c hc hc
  have e2 := schur_fold_eq_mgs B m hB picks hpicks q q hqc.1 hqc.1
  unfold greedyRun at hlin
  have h' : (picks.foldl schur (gram B)).get c c ≤ (picks.foldl schur (gram B)).get q q := by
    rw [← hlin]; exact h
  rw [e1, e2] at h'
  exact h'

/-- the residual used above is *the* orthogonal residual: it is orthogonal to the row of every
sensor ranked earlier, and differs from the sensor's own row by a combination of those rows -/
theorem mgs_residual_characterisation {m : Nat} (rows : Nat → Fin m → ℚ) (picks : List Nat) (a : Nat) :
    (∀ p ∈ picks, mgsResid rows picks a ⬝ᵥ rows p = 0) ∧
      rows a - mgsResid rows picks a ∈
        Submodule.span ℚ (Set.range fun i : Fin picks.length => rows picks[i]) :=
  ⟨fun p hp => mgsResid_orth_rows rows picks a p hp, mgsResid_sub_mem_span rows picks a⟩

/-- **C03 (independence).** As long as the ranked sensors had non-zero residual when they were
ranked (the first `r` picks of a rank-`r` matrix do, see `zero_pick_all_zero`), their rows are
linearly independent. -/
theorem leading_rows_independent {m : Nat} (rows : Nat → Fin m → ℚ) (picks : List Nat)
    (hpos : ∀ j (hj : j < picks.length),
      mgsResid rows (picks.take j) picks[j] ⬝ᵥ mgsResid rows (picks.take j) picks[j] ≠ 0) :
    LinearIndependent ℚ (fun i : Fin picks.length => rows picks[i]) :=
  picks_linearIndependent rows picks hpos

/-- if the greedy pick of step `j` has zero residual, every sensor not yet ranked has zero
residual: the rows ranked so far already span all sensor rows (so the number of picks with
non-zero residual is the rank). -/
theorem zero_pick_all_zero (B : RMat) (m : Nat) (hB : B.WF B.size m) (j : Nat)
    (hj : j < B.size) (q : Nat)
    (hq : (greedyRun (fun _ => 0) noMask B (j + 1)).p[j]? = some q) :
    let picks := (greedyRun (fun _ => 0) noMask B j).p.toList.take j
    let resid := mgsResid (B.vec m) picks
    resid q ⬝ᵥ resid q = 0 → ∀ c, c < B.size → resid c = 0 := by
  intro picks resid hz c hc
  obtain ⟨-, -, hmax⟩ := qr_pick_max_mgs_residual B m hB j hj q hq
  by_cases hcp : c ∈ picks
  · exact mgsResid_pick_zero _ picks c hcp
  · have h := hmax c hc hcp
    have h0 : resid c ⬝ᵥ resid c = 0 :=
      le_antisymm (hz ▸ h) (Finset.sum_nonneg fun i _ => mul_self_nonneg _)
    exact dotProduct_self_eq_zero.mp h0

/-- **C03 (CCQR without costs = QR)** – model identity for the whole run. -/
theorem ccqr_nocost_eq_qr (B : RMat) : ccqrModel [] B = qrModel B := ccqr_none_eq_qr B

/-- **C03 (GQR without constraints = QR)** – model identity for the whole run. -/
theorem gqr_unconstrained_eq_qr (B : RMat) (cfg : GqrCfg) (h : cfg.opt = .unconstrained) :
    gqrModel cfg.mask B = qrModel B := by
  have : cfg.mask = noMask := by
    funext j p
    have hm : cfg.masked j = fun _ => false := by
      funext c; simp [GqrCfg.masked, h]
    simp only [GqrCfg.mask, pmask, noMask, hm]
  rw [this]
  rfl

/-- **C03 (SSPOR).** An SSPOR model's leading `n_basis_modes` sensors are exactly the optimizer's
ranking of its own basis matrix: the shuffle of the unranked tail (any seed) does not touch them. -/
theorem sspor_lead_eq_optimizer (σ : List Nat → List Nat) (m : Nat) (r : List Nat) (hm : m ≤ r.length) :
    (tailShuffle σ m r).take m = r.take m :=
  tailShuffle_take σ m r hm

/-- **C03/C04 (L1: the code's Householder step refines the model's Schur step), over ℝ.** For the
reflector exactly as `qr_reflector` / `GQR.fit` build it (`u = t/‖t‖; u₀ += sign(u₀) + [u₀ = 0];
u /= √|u₀|`) and the update `R[j:, j:] -= outer(u, u·R[j:, j:])`: the Gram matrix of the trailing block
without its first row is the Schur complement of the previous Gram matrix with respect to the pivot.
So the column norms the code computes at the next step are, in exact arithmetic, the square roots of
the model's residual norms. -/
theorem householder_step_refines_schur {p q : ℕ} (T : Matrix (Fin (p + 1)) (Fin q) ℝ) (piv : Fin q)
    (hρ : 0 < colNorm2 T piv) (a b : Fin q) :
    ∑ i : Fin p, applyReflector T (reflector T piv) i.succ a * applyReflector T (reflector T piv) i.succ b =
      colDot T a b - colDot T a piv * colDot T piv b / colNorm2 T piv :=
  householder_refines_schur T piv hρ a b

/-- non-vacuity: a concrete run with a tie-free trace -/
example : qrModel #[#[1, 0], #[0, 2], #[3, 1]] = [2, 1, 0] := by decide +kernel

/-- **C03/C04 (L1, the whole loop).** Run the elimination loop of `CCQR.fit` over ℝ (`hhStep`: reflector of
`qr_reflector` on the rows not yet eliminated, applied to all columns, pivot column zeroed below, `row` advanced – or
nothing at all on a zero residual) on `Bᵀ` with ANY sequence of pivots: every Gram entry – in particular every squared
column norm `dlens²` the code computes next – of the rows not yet eliminated is exactly the entry of the exact model's
state after the same picks.  No rank or shape condition, any number of steps. -/
theorem householder_loop_refines_schur_model (B : RMat) (m : ℕ) (hB : B.WF B.size m) (picks : List (Fin B.size))
    (a b : Fin B.size) :
    tailDot (picks.foldl hhStep (transposeR B m B.size, 0)).1 (picks.foldl hhStep (transposeR B m B.size, 0)).2 a b
      = ((((picks.map Fin.val).foldl schur (gram B)).get a.val b.val : ℚ) : ℝ) :=
  householder_loop_refines_model B m hB picks a b

/-- **C03/C04 (the decision).** On candidates with rational squared norms ≥ 0 and rational costs, the code's
`np.argmax(dlens − costs)` over ℝ (first maximiser) is the model's `firstArgmaxBy scoreGe`. -/
theorem code_argmax_is_model_argmax (sc : List Score) (hnn : ∀ x ∈ sc, 0 ≤ x.1) :
    realArgmax (sc.map fun x => Real.sqrt ((x.1 : ℚ) : ℝ) - ((x.2 : ℚ) : ℝ)) = firstArgmaxBy scoreGe sc :=
  realArgmax_eq_model sc hnn

end PsVerif
