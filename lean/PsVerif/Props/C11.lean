/-
  C11 — bases return consistent mode matrices and inverses.  Property theorems only.
-/
import PsVerif.Model.Gram
import PsVerif.Model.Validation
import PsVerif.Lemmas.GramAlg
import Mathlib.Data.Matrix.Mul
import Mathlib.LinearAlgebra.Matrix.NonsingularInverse
import Mathlib.LinearAlgebra.Span.Basic
import Mathlib.Algebra.Order.Field.Rat
namespace PsVerif
open Matrix

/-- **C11 (prefix law).** Asking for `k` modes returns the first `k` columns of the full matrix:
taking `k` columns of the `k'`-column representation (`k ≤ k'`) is taking `k` columns. -/
theorem takeCols_takeCols (M : RMat) (k k' : Nat) (h : k ≤ k') :
    (M.takeCols k').takeCols k = M.takeCols k := by
  unfold RMat.takeCols
  rw [Array.map_map]
  apply Array.map_congr_left
  intro r _
  apply Array.ext
  · simp [Array.size_extract]; omega
  · intro i h1 h2
    simp [Array.getElem_extract]

/-- the retained entries are unchanged … -/
theorem takeCols_get (M : RMat) (k i j : Nat) (hj : j < k) : (M.takeCols k).get i j = M.get i j := by
  unfold RMat.get RMat.takeCols
  by_cases hi : i < M.size
  · simp only [Array.getD_eq_getD_getElem?, Array.getElem?_map, Array.getElem?_eq_getElem hi,
      Option.map_some, Option.getD_some]
    by_cases hj' : j < (M[i]).size
    · have : j < ((M[i]).extract 0 k).size := by simp [Array.size_extract]; omega
      rw [Array.getElem?_eq_getElem this]
      simp [hj']
    · have : ¬ j < ((M[i]).extract 0 k).size := by simp [Array.size_extract]; omega
      simp [hj']
  · simp [Array.getD_eq_getD_getElem?, hi]

/-- … and there is one row per sensor, at most `k` columns -/
theorem takeCols_shape (M : RMat) (k : Nat) :
    (M.takeCols k).size = M.size ∧ ∀ i (h : i < (M.takeCols k).size), ((M.takeCols k)[i]).size ≤ k := by
  unfold RMat.takeCols
  refine ⟨by simp, ?_⟩
  intro i h
  simp [Array.size_extract]

/-- **C11 (bound).** Asking a fitted basis for more modes than were fitted is rejected. -/
theorem rep_rejects_gt (nm : Nat) (z : Int) (hz : (nm : Int) < z) :
    basisRep true nm (.pyInt z) = .raises .valueError := by
  unfold basisRep
  simp only [PyArg.integral?, Bool.not_true, Bool.false_eq_true, if_false]
  have h1 : ¬ z ≤ 0 := by omega
  simp [h1, hz]

/-- **C11 (SVD / Custom): inverse = transpose.** With orthonormal modes the transpose recovers the
coordinates: it is a left inverse of the mode matrix. -/
theorem orthonormal_left_inverse {n k : ℕ} (U : Matrix (Fin n) (Fin k) ℚ) (h : Uᵀ * U = 1)
    (c : Fin k → ℚ) : Uᵀ *ᵥ (U *ᵥ c) = c := by
  rw [Matrix.mulVec_mulVec, h, Matrix.one_mulVec]

/-- **C11 (SVD): data of rank at most `k` are reproduced exactly by `k` modes** – if every training
example is a combination of the modes (`X = C·Uᵀ`), projecting onto the modes and back returns it. -/
theorem rank_k_reproduced {e n k : ℕ} (X : Matrix (Fin e) (Fin n) ℚ) (U : Matrix (Fin n) (Fin k) ℚ)
    (h : Uᵀ * U = 1) (C : Matrix (Fin e) (Fin k) ℚ) (hX : X = C * Uᵀ) : X * U * Uᵀ = X := by
  subst hX
  rw [Matrix.mul_assoc C, h, Matrix.mul_one]

/-- **C11 (RandomProjection): the pseudo-inverse is a left inverse** of a mode matrix with full
column rank (Gram-inverse form `(BᵀB)⁻¹Bᵀ`, which is what `pinv` computes then). -/
theorem gram_pinv_left_inverse {n k : ℕ} (B : Matrix (Fin n) (Fin k) ℚ) (h : IsUnit (Bᵀ * B).det) :
    ((Bᵀ * B)⁻¹ * Bᵀ) * B = 1 := by
  rw [Matrix.mul_assoc, Matrix.nonsing_inv_mul _ h]

/-- **C11 (RandomProjection): modes are combinations of the training examples** – every column of
`Xᵀ·Gᵀ` lies in the span of the training examples (rows of `X`, as vectors over the sensors). -/
theorem rp_modes_in_span {e n k : ℕ} (X : Matrix (Fin e) (Fin n) ℚ) (G : Matrix (Fin k) (Fin e) ℚ)
    (j : Fin k) : (fun i => (Xᵀ * Gᵀ) i j) ∈ Submodule.span ℚ (Set.range fun a : Fin e => X a) := by
  have : (fun i => (Xᵀ * Gᵀ) i j) = ∑ a, G j a • X a := by
    funext i
    simp [Matrix.mul_apply, Finset.sum_apply, mul_comm]
  rw [this]
  exact Submodule.sum_mem _ fun a _ => Submodule.smul_mem _ _ (Submodule.subset_span ⟨a, rfl⟩)

/-- Identity basis: the transpose of the first `k` training examples, exactly -/
def identityBasis (X : RMat) (k : Nat) : RMat := RMat.ofFn X.ncols k fun i j => X.get j i

/-- **C11 (Identity).** Entry (sensor `i`, mode `j`) of the Identity basis is training example `j` at
sensor `i` – the first examples are reproduced exactly. -/
theorem identity_exact (X : RMat) (k i j : Nat) (hi : i < X.ncols) (hj : j < k) :
    (identityBasis X k).get i j = X.get j i := by
  unfold identityBasis
  rw [RMat.get_ofFn, if_pos ⟨hi, hj⟩]

end PsVerif
