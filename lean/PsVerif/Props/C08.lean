/-
  C08 — classification sensors are the top-magnitude sensors, or those above threshold.
  Property theorems only (models: Model/Selection.lean, Model/Sspoc.lean).
-/
import PsVerif.Model.Selection
import PsVerif.Model.Sspoc
import Mathlib.Analysis.Real.Sqrt
import Mathlib.Data.Rat.Cast.Order
import Mathlib.Algebra.Order.Field.Rat
namespace PsVerif

theorem insertDesc_perm (mag : List Rat) (i : Nat) (l : List Nat) :
    (insertDesc mag i l).Perm (i :: l) := by
  induction l with
  | nil => simp [insertDesc]
  | cons j js ih =>
    unfold insertDesc
    split
    · exact List.Perm.refl _
    · exact (List.Perm.cons j ih).trans (List.Perm.swap i j js)

theorem insertDesc_sorted (mag : List Rat) (i : Nat) (l : List Nat)
    (h : l.Pairwise fun a b => mag.getD b 0 ≤ mag.getD a 0) :
    (insertDesc mag i l).Pairwise fun a b => mag.getD b 0 ≤ mag.getD a 0 := by
  induction l with
  | nil => simp [insertDesc]
  | cons j js ih =>
    rw [List.pairwise_cons] at h
    unfold insertDesc
    split
    · rename_i hlt
      rw [List.pairwise_cons]
      refine ⟨?_, List.pairwise_cons.mpr h⟩
      intro b hb
      rcases List.mem_cons.mp hb with rfl | hb
      · exact le_of_lt hlt
      · exact le_trans (h.1 b hb) (le_of_lt hlt)
    · rename_i hnlt
      rw [List.pairwise_cons]
      refine ⟨?_, ih h.2⟩
      intro b hb
      have hb' := (insertDesc_perm mag i js).mem_iff.mp hb
      rcases List.mem_cons.mp hb' with rfl | hb'
      · exact not_lt.mp hnlt
      · exact h.1 b hb'

theorem foldl_insertDesc_perm (mag : List Rat) (l acc : List Nat) :
    (l.foldl (fun acc i => insertDesc mag i acc) acc).Perm (l ++ acc) := by
  induction l generalizing acc with
  | nil => simp
  | cons i l ih =>
    rw [List.foldl_cons]
    refine (ih _).trans ?_
    refine (List.Perm.append_left l (insertDesc_perm mag i acc)).trans ?_
    simp

theorem foldl_insertDesc_sorted (mag : List Rat) (l acc : List Nat)
    (h : acc.Pairwise fun a b => mag.getD b 0 ≤ mag.getD a 0) :
    (l.foldl (fun acc i => insertDesc mag i acc) acc).Pairwise
      fun a b => mag.getD b 0 ≤ mag.getD a 0 := by
  induction l generalizing acc with
  | nil => simpa using h
  | cons i l ih =>
    rw [List.foldl_cons]
    exact ih _ (insertDesc_sorted mag i acc h)

/-- `argsort(-mag)` is a permutation of the sensor indices … -/
theorem argsortDesc_perm (mag : List Rat) : (argsortDesc mag).Perm (List.range mag.length) := by
  simpa [argsortDesc] using foldl_insertDesc_perm mag (List.range mag.length) []

/-- … listing them in non-increasing magnitude -/
theorem argsortDesc_sorted (mag : List Rat) :
    (argsortDesc mag).Pairwise fun i j => mag.getD j 0 ≤ mag.getD i 0 := by
  exact foldl_insertDesc_sorted mag _ [] List.Pairwise.nil

/-- **C08 (top-n).** For `n ≤ n_features` the selection has exactly `n` distinct valid sensors, in
non-increasing magnitude, and every unselected sensor has magnitude ≤ every selected one. -/
theorem topN_spec (mag : List Rat) (n : Nat) (hn : n ≤ mag.length) :
    (topN mag n).length = n ∧ (topN mag n).Nodup ∧ (∀ i ∈ topN mag n, i < mag.length) ∧
      ((topN mag n).Pairwise fun i j => mag.getD j 0 ≤ mag.getD i 0) ∧
      (∀ i ∈ topN mag n, ∀ j, j < mag.length → j ∉ topN mag n → mag.getD j 0 ≤ mag.getD i 0) := by
  have hp := argsortDesc_perm mag
  have hs := argsortDesc_sorted mag
  have hlen : (argsortDesc mag).length = mag.length := by
    rw [hp.length_eq, List.length_range]
  have hnd : (argsortDesc mag).Nodup := hp.nodup_iff.mpr List.nodup_range
  unfold topN
  refine ⟨?_, ?_, ?_, ?_, ?_⟩
  · rw [List.length_take, hlen]; omega
  · exact (List.take_sublist n _).nodup hnd
  · intro i hi
    exact List.mem_range.mp (hp.mem_iff.mp (List.mem_of_mem_take hi))
  · exact hs.sublist (List.take_sublist n _)
  · intro i hi j hj hnj
    have hjm : j ∈ argsortDesc mag := hp.mem_iff.mpr (List.mem_range.mpr hj)
    rw [← List.take_append_drop n (argsortDesc mag)] at hjm hs
    rcases List.mem_append.mp hjm with h | h
    · exact absurd h hnj
    · exact (List.pairwise_append.mp hs).2.2 i hi j h

/-- **C08 (prefix).** A smaller `n_sensors` yields a prefix of a larger one. -/
theorem topN_prefix (mag : List Rat) (n n' : Nat) (h : n ≤ n') : topN mag n <+: topN mag n' := by
  unfold topN
  have : (argsortDesc mag).take n = ((argsortDesc mag).take n').take n := by
    rw [List.take_take, Nat.min_eq_left h]
  rw [this]
  exact List.take_prefix _ _

/-- **C08 (threshold).** Exactly the sensors whose magnitude is at least the threshold. -/
theorem thresh_iff (mag : List Rat) (τ : Rat) (i : Nat) :
    i ∈ threshSel mag τ ↔ i < mag.length ∧ τ ≤ mag.getD i 0 := by
  simp [threshSel, List.mem_filter, List.mem_range]

theorem thresh_nodup (mag : List Rat) (τ : Rat) : (threshSel mag τ).Nodup := by
  unfold threshSel
  exact List.Nodup.filter _ List.nodup_range

/-- **C08.** Raising the threshold can only remove sensors. -/
theorem thresh_antitone (mag : List Rat) (τ τ' : Rat) (h : τ ≤ τ') :
    ∀ i ∈ threshSel mag τ', i ∈ threshSel mag τ := by
  intro i hi
  rw [thresh_iff] at hi ⊢
  exact ⟨hi.1, le_trans h hi.2⟩

theorem absR_nonneg (x : Rat) : 0 ≤ absR x := by
  unfold absR
  split
  · rename_i h; exact neg_nonneg.mpr (le_of_lt h)
  · rename_i h; exact not_lt.mp h

/-- magnitudes are non-negative for a coefficient vector and for `max`-aggregated rows -/
theorem magnitudes_nonneg_oneD (a : Agg) (coef : List (List Rat)) :
    ∀ m ∈ magnitudes a coef true, 0 ≤ m := by
  intro m hm
  simp only [magnitudes, if_true, List.mem_map] at hm
  obtain ⟨row, _, rfl⟩ := hm
  exact absR_nonneg _

/-- **C08.** Threshold 0 selects every sensor (magnitudes are non-negative). -/
theorem thresh_zero_all (mag : List Rat) (h : ∀ m ∈ mag, 0 ≤ m) :
    threshSel mag 0 = List.range mag.length := by
  unfold threshSel
  rw [List.filter_eq_self]
  intro i hi
  have hi' := List.mem_range.mp hi
  have : mag.getD i 0 = mag[i] := by
    simp [List.getD_eq_getElem?_getD, List.getElem?_eq_getElem hi']
  rw [this]
  exact decide_eq_true (h _ (List.getElem_mem hi'))

/-- **C08 (default threshold).** The selection used when neither `n_sensors` nor `threshold` is
given is the threshold selection at `‖s‖_F / (2·r·c)`: the squared comparison of the model is the
comparison with the real square root. -/
theorem default_threshold_sq (mag : List Rat) (sumSq : Rat) (r c : Nat) (hss : 0 ≤ sumSq)
    (hr : 0 < r) (hc : 0 < c) (i : Nat) :
    i ∈ defaultThreshSel mag sumSq r c ↔
      i < mag.length ∧ Real.sqrt (sumSq : ℝ) / (2 * (r : ℝ) * (c : ℝ)) ≤ ((mag.getD i 0 : ℚ) : ℝ) := by
  have _ := hss
  have hK : (0 : ℝ) < 2 * (r : ℝ) * (c : ℝ) := by positivity
  have hk : (((2 * r * c : ℕ) : ℚ) : ℝ) = 2 * (r : ℝ) * (c : ℝ) := by push_cast; ring
  simp only [defaultThreshSel, List.mem_filter, List.mem_range, Bool.and_eq_true,
    decide_eq_true_eq]
  refine and_congr_right fun _ => ?_
  generalize mag.getD i 0 = m
  rw [div_le_iff₀ hK, Real.sqrt_le_iff, mul_nonneg_iff_of_pos_right hK]
  refine and_congr ?_ ?_
  · exact Rat.cast_nonneg.symm
  · rw [← hk, ← Rat.cast_le (K := ℝ)]
    push_cast
    constructor <;> intro h <;> nlinarith [h]

/-- a rejected `update_sensors` call leaves the model unchanged -/
theorem update_rejected_unchanged (st : Sspoc) (n : Option PyCount) (thr : Option Rat) (xy : Bool)
    (mag : List Rat) (h : (st.updateSensors n thr xy mag none).2 ≠ none) :
    (st.updateSensors n thr xy mag none).1 = st := by
  revert h
  unfold Sspoc.updateSensors
  split
  · simp
  · split
    · simp
    · split
      · simp
      · dsimp only
        split
        · simp
        · split
          · simp
          · split <;> simp
    · dsimp only
      split <;> simp
    · dsimp only
      split <;> simp

theorem update_count_ok_gen (st : Sspoc) (n : Option PyCount) (thr : Option Rat) (xy : Bool)
    (mag : List Rat) (d : Option (List Nat)) (hmag : mag.length = st.nFeat)
    (h : (st.updateSensors n thr xy mag d).2 = none) :
    (st.updateSensors n thr xy mag d).1.CountOk := by
  revert h
  unfold Sspoc.updateSensors
  split
  · simp
  · split
    · simp
    · split
      · simp
      · dsimp only
        split
        · simp
        · split
          · simp
          · rename_i z h0 h1
            have hz : (0 : Int) ≤ z := by omega
            have hk : z.toNat ≤ mag.length := by omega
            have hl := (topN_spec mag z.toNat hk).1
            split <;> intro _ <;> simp [Sspoc.CountOk, hl, Int.toNat_of_nonneg hz]
    · dsimp only
      split <;> simp [Sspoc.CountOk]
    · dsimp only
      split <;> simp [Sspoc.CountOk]

/-- **C08 (reported count).** After every accepted `update_sensors` call on a fitted model the
reported `n_sensors` equals the number of selected sensors (`mag` has one entry per sensor). -/
theorem update_count_ok (st : Sspoc) (n : Option PyCount) (thr : Option Rat) (xy : Bool)
    (mag : List Rat) (hmag : mag.length = st.nFeat)
    (h : (st.updateSensors n thr xy mag none).2 = none) :
    (st.updateSensors n thr xy mag none).1.CountOk :=
  update_count_ok_gen st n thr xy mag none hmag h

/-- **C08 (reported count), also when the refit is refused.**  `update_sensors(…, xy)` whose refit data the classifier refuses
(finding F16: the call is rejected after the selection was stored) still leaves the reported count equal to the number of
selected sensors – whether the argument checks rejected the call (nothing changed) or the classifier did. -/
theorem updateRefused_count_ok (st : Sspoc) (n : Option PyCount) (thr : Option Rat) (mag : List Rat)
    (hmag : mag.length = st.nFeat) (h : st.CountOk) : (st.updateRefused n thr mag).1.CountOk := by
  unfold Sspoc.updateRefused
  cases he : (st.updateSensors n thr false mag none).2 with
  | some e =>
    simp only [he]
    have := update_rejected_unchanged st n thr false mag (by rw [he]; simp)
    rw [this]; exact h
  | none =>
    simp only [he]
    have hc := update_count_ok st n thr false mag hmag he
    split <;> exact hc

/-- … and after every accepted `fit` (the default selection has valid distinct indices) -/
theorem fit_count_ok (st : Sspoc) (nFeat : Nat) (refit : Bool) (mag : List Rat) (dflt : List Nat)
    (hmag : mag.length = nFeat) (h : (st.fit nFeat refit mag dflt).2 = none) :
    (st.fit nFeat refit mag dflt).1.CountOk := by
  revert h
  unfold Sspoc.fit
  dsimp only
  split
  · exact fun h => update_count_ok_gen _ _ _ _ _ _ hmag h
  · split
    · exact fun h => update_count_ok_gen _ _ _ _ _ _ hmag h
    · exact fun h => update_count_ok_gen _ _ _ _ _ _ hmag h

/-- what a history must satisfy for the count law: magnitudes come one per sensor, and fits are accepted (a REJECTED fit has already
replaced the coefficients and emptied the selection while `n_sensors` keeps the rejected request – same family as F11).  Updates may
be accepted, rejected by the argument checks, or refused by the classifier. -/
def SspocOpOK (st : Sspoc) : SspocOp → Prop
  | .fit nf r mag d => mag.length = nf ∧ (st.fit nf r mag d).2 = none
  | .update _ _ _ mag => mag.length = st.nFeat
  | .updateRefused _ _ mag => mag.length = st.nFeat

def SspocAllOK : Sspoc → List SspocOp → Prop
  | _, [] => True
  | st, op :: ops => SspocOpOK st op ∧ SspocAllOK (st.step op).1 ops

/-- **C08 (reported count, one call)** – accepted, rejected or refused -/
theorem sspoc_step_countOk (st : Sspoc) (op : SspocOp) (h : st.CountOk) (hop : SspocOpOK st op) :
    (st.step op).1.CountOk := by
  cases op with
  | fit nf r mag d =>
    simp only [Sspoc.step]
    exact fit_count_ok st nf r mag d hop.1 hop.2
  | update n thr xy mag =>
    simp only [Sspoc.step]
    cases he : (st.updateSensors n thr xy mag none).2 with
    | none => exact update_count_ok st n thr xy mag hop he
    | some e =>
      have := update_rejected_unchanged st n thr xy mag (by rw [he]; simp)
      rw [this]; exact h
  | updateRefused n thr mag =>
    simp only [Sspoc.step]
    exact updateRefused_count_ok st n thr mag hop h

/-- **C08 (reported count, every history).** From a freshly constructed model, after any sequence of accepted fits and of
`update_sensors` calls of any kind (accepted, rejected, refit refused by the classifier), the reported `n_sensors` equals the
number of selected sensors. -/
theorem sspoc_run_countOk (st : Sspoc) (ops : List SspocOp) (h : st.CountOk) (hall : SspocAllOK st ops) :
    (st.run ops).CountOk := by
  induction ops generalizing st with
  | nil => simpa [Sspoc.run] using h
  | cons op ops ih =>
    have : (st.run (op :: ops)) = ((st.step op).1).run ops := by simp [Sspoc.run]
    rw [this]
    exact ih _ (sspoc_step_countOk st op h hall.1) hall.2

theorem sspoc_init_countOk (ns : Option PyCount) (thr : Option Rat) : (Sspoc.init ns thr).CountOk := by
  intro hf
  simp [Sspoc.init] at hf

example : SspocAllOK (Sspoc.init (some (.int 2)) none)
    [.fit 4 true [3, 1, 2, 0] [0, 2], .updateRefused (some (.int 3)) none [3, 1, 2, 0], .update (some (.int 9)) none false [3, 1, 2, 0],
     .update none (some 2) true [3, 1, 2, 0]] := by
  simp only [SspocAllOK, SspocOpOK]
  decide

example : topN [1, 3, 3, 0, 2] 3 = [1, 2, 4] := by decide
example : threshSel [1, 3, 0, 2] 2 = [1, 3] := by decide

end PsVerif
