/-
  C20 — no call modifies the caller's arrays or the stored basis.
  Property theorems only.  `analysis_sound` is proved once; the per-function obligations
  `check prog_f = true` live in PsVerif/Generated/Alias.lean, which the translator rewrites from
  /repo's current source on every run.
-/
import PsVerif.Model.Alias
namespace PsVerif

/-- every statement of the trace is a statement of the program -/
def TraceOf (p : AProg) (tr : List (AStmt × Nat)) : Prop := ∀ sc ∈ tr, sc.1 ∈ p.stmts

private def Inv (p : AProg) (r : Roots) (st : AState) : Prop :=
  (∀ x b, st.env x = some b → b < p.nProt → (r.get x).contains b = true) ∧
  p.nProt ≤ st.next ∧ (∀ b, b < p.nProt → st.ver b = 0)

private theorem inv_init (p : AProg) (r : Roots) (hc : Roots.closed p r = true) :
    Inv p r (AState.init p) := by
  unfold Roots.closed at hc
  rw [Bool.and_eq_true] at hc
  refine ⟨?_, Nat.le_refl _, fun _ _ => rfl⟩
  intro x b hx hb
  simp only [AState.init] at hx
  split at hx
  · injection hx with hx
    subst hx
    exact (List.all_eq_true.mp hc.1) x (List.mem_range.mpr hb)
  · cases hx

private theorem inv_step (p : AProg) (r : Roots) (hc : Roots.closed p r = true)
    (hw : Roots.writesSafe p r = true) (st : AState) (hi : Inv p r st)
    (s : AStmt) (hs : s ∈ p.stmts) (c : Nat) : Inv p r (st.exec s c) := by
  obtain ⟨h1, h2, h3⟩ := hi
  unfold Roots.closed at hc
  rw [Bool.and_eq_true] at hc
  unfold Roots.writesSafe at hw
  cases s with
  | assign x srcs =>
    have hcl : ∀ y ∈ srcs, subList (r.get y) (r.get x) = true :=
      List.all_eq_true.mp (List.all_eq_true.mp hc.2 _ hs)
    simp only [AState.exec]
    split
    · rename_i b hb
      refine ⟨?_, h2, h3⟩
      intro y b' hy hb'
      simp only at hy
      split at hy
      · rename_i hyx
        subst hyx
        injection hy with hy
        subst hy
        have hmem : b ∈ srcs.filterMap st.env := List.mem_of_getElem? hb
        obtain ⟨z, hz, hzb⟩ := List.mem_filterMap.mp hmem
        have hin := h1 z b hzb hb'
        have hsub := hcl z hz
        unfold subList at hsub
        exact List.all_eq_true.mp hsub b (List.contains_iff_mem.mp hin)
      · exact h1 y b' hy hb'
    · refine ⟨?_, Nat.le_succ_of_le h2, h3⟩
      intro y b' hy hb'
      simp only at hy
      split at hy
      · injection hy with hy
        subst hy
        exact absurd hb' (Nat.not_lt.mpr h2)
      · exact h1 y b' hy hb'
  | write x =>
    have hemp : (r.get x).isEmpty = true := List.all_eq_true.mp hw _ hs
    simp only [AState.exec]
    split
    · rename_i b hb
      refine ⟨h1, h2, ?_⟩
      intro c' hc'
      simp only
      split
      · rename_i hcb
        subst hcb
        have hin := h1 x c' hb hc'
        rw [List.isEmpty_iff.mp hemp] at hin
        cases hin
      · exact h3 c' hc'
    · exact ⟨h1, h2, h3⟩

private theorem inv_run (p : AProg) (r : Roots) (hc : Roots.closed p r = true)
    (hw : Roots.writesSafe p r = true) :
    ∀ (tr : List (AStmt × Nat)) (st : AState), Inv p r st → TraceOf p tr → Inv p r (st.run tr) := by
  intro tr
  induction tr with
  | nil => intro st hi _; exact hi
  | cons sc tr ih =>
    intro st hi htr
    show Inv p r ((st.exec sc.1 sc.2).run tr)
    apply ih
    · exact inv_step p r hc hw st hi sc.1 (htr sc (List.mem_cons_self ..)) sc.2
    · intro sc' hsc'
      exact htr sc' (List.mem_cons_of_mem _ hsc')

/-- **C20 (soundness of the may-alias check).** If the generated obligation holds, then along EVERY
execution – any finite sequence of the function's statements, any resolution of which source a view
shares memory with – no protected buffer (caller-supplied array, stored basis) is ever written:
its version counter stays 0. -/
theorem analysis_sound (p : AProg) (h : p.check = true) (hv : p.nProt ≤ p.nVars)
    (tr : List (AStmt × Nat)) (htr : TraceOf p tr) (b : Nat) (hb : b < p.nProt) :
    ((AState.init p).run tr).ver b = 0 := by
  have _ := hv
  unfold AProg.check at h
  simp only [Bool.and_eq_true] at h
  exact (inv_run p (inferRoots p) h.1 h.2 tr _ (inv_init p _ h.1) htr).2.2 b hb

/-- the check really rejects: a view of an argument that is written through -/
theorem check_rejects_write_through_view :
    ({ nProt := 1, nVars := 2, stmts := [.assign 1 [0], .write 1] } : AProg).check = false := by
  decide

/-- … and accepts the same program once a copy is taken -/
theorem check_accepts_copy :
    ({ nProt := 1, nVars := 3, stmts := [.assign 1 [0], .assign 2 [], .write 2] } : AProg).check = true := by
  decide

end PsVerif
