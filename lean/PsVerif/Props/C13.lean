/-
  C13 — box, coordinate and user-defined constraint helpers map sensors correctly.
  Property theorems only (model: Model/Geometry.lean).
-/
import PsVerif.Model.Geometry
import PsVerif.Model.GeomExpr
import Mathlib.Algebra.Order.Field.Rat
import Mathlib.Data.Rat.Cast.Order
import Mathlib.Tactic.Linarith
namespace PsVerif

/-- transposition of a pixel index on an `n × n` grid -/
def transposeIdx (n s : Nat) : Nat := (s % n) * n + s / n


private theorem transposeIdx_aux (n s : Nat) (hs : s < n * n) :
    transposeIdx n s % n = s / n ∧ transposeIdx n s / n = s % n ∧ transposeIdx n s < n * n := by
  have hn : 0 < n := by
    rcases Nat.eq_zero_or_pos n with h | h
    · subst h; simp at hs
    · exact h
  have hb : s / n < n := Nat.div_lt_of_lt_mul hs
  have ha : s % n < n := Nat.mod_lt _ hn
  unfold transposeIdx
  refine ⟨?_, ?_, ?_⟩
  · rw [Nat.mul_comm, Nat.mul_add_mod, Nat.mod_eq_of_lt hb]
  · rw [Nat.mul_comm, Nat.mul_add_div hn, Nat.div_eq_of_lt hb, Nat.add_zero]
  · calc s % n * n + s / n < s % n * n + n := Nat.add_lt_add_left hb _
      _ = (s % n + 1) * n := by rw [Nat.add_mul, Nat.one_mul]
      _ ≤ n * n := Nat.mul_le_mul_right n ha

/-- the box helper returns, in ranking order, the transposed index of every ranked pixel whose
C-order coordinates lie in the closed box -/
theorem box_order (xmin xmax ymin ymax : Rat) (n : Nat) (rk : List Nat) :
    boxIndices xmin xmax ymin ymax n rk =
      (rk.filter fun s => decide (xmin ≤ ((s / n : Nat) : Rat) ∧ ((s / n : Nat) : Rat) ≤ xmax ∧
          ymin ≤ ((s % n : Nat) : Rat) ∧ ((s % n : Nat) : Rat) ≤ ymax)).map (transposeIdx n) := by
  rfl

theorem transposeIdx_involutive (n s : Nat) (hs : s < n * n) :
    transposeIdx n (transposeIdx n s) = s ∧ transposeIdx n s < n * n := by
  obtain ⟨h1, h2, h3⟩ := transposeIdx_aux n s hs
  refine ⟨?_, h3⟩
  show transposeIdx n s % n * n + transposeIdx n s / n = s
  rw [h1, h2]
  exact Nat.div_add_mod' s n

/-- **C13 (box).** When `all_sensors` is a full permutation of the `n²` pixels, the returned *set*
is exactly the set of pixels `t` with `x_min ≤ x ≤ x_max` and `y_min ≤ y ≤ y_max`, where
`x = t mod n`, `y = t div n`. -/
theorem box_set (xmin xmax ymin ymax : Rat) (n : Nat) (rk : List Nat)
    (hp : rk.Perm (List.range (n * n))) (t : Nat) :
    t ∈ boxIndices xmin xmax ymin ymax n rk ↔
      (t < n * n ∧ xmin ≤ ((t % n : Nat) : Rat) ∧ ((t % n : Nat) : Rat) ≤ xmax ∧
        ymin ≤ ((t / n : Nat) : Rat) ∧ ((t / n : Nat) : Rat) ≤ ymax) := by
  have key : ∀ s, s < n * n → transposeIdx n (transposeIdx n s) = s := fun s hs =>
    (transposeIdx_involutive n s hs).1
  rw [box_order]
  simp only [List.mem_map, List.mem_filter, hp.mem_iff, List.mem_range, decide_eq_true_eq]
  constructor
  · rintro ⟨s, ⟨hs, hbox⟩, rfl⟩
    obtain ⟨h1, h2, h3⟩ := transposeIdx_aux n s hs
    rw [h1, h2]
    exact ⟨h3, hbox⟩
  · rintro ⟨ht, hbox⟩
    obtain ⟨h1, h2, h3⟩ := transposeIdx_aux n t ht
    refine ⟨transposeIdx n t, ⟨h3, ?_⟩, key t ht⟩
    rw [h1, h2]
    exact hbox

/-- **C13 (dataframe box).** Row positions (after dropping incomplete rows) with
`x_min ≤ x < x_max` and `y_min ≤ y < y_max`. -/
theorem dfBox_mem (xmin xmax ymin ymax : Rat) (rows : List (Option Rat × Option Rat)) (i : Nat) :
    i ∈ dfBoxIndices xmin xmax ymin ymax rows ↔
      ∃ x y, (rows.filterMap fun r => match r with | (some x, some y) => some (x, y) | _ => none)[i]? = some (x, y) ∧
        xmin ≤ x ∧ x < xmax ∧ ymin ≤ y ∧ y < ymax := by
  unfold dfBoxIndices
  simp only [List.mem_filter, List.mem_range]
  generalize (rows.filterMap fun r => match r with | (some x, some y) => some (x, y) | _ => none) = kept
  constructor
  · rintro ⟨hi, h⟩
    refine ⟨(kept[i]).1, (kept[i]).2, by simp [hi], ?_⟩
    simpa [List.getD_eq_getElem?_getD, hi] using h
  · rintro ⟨x, y, hxy, h⟩
    obtain ⟨hi, hget⟩ := List.getElem?_eq_some_iff.mp hxy
    refine ⟨hi, ?_⟩
    simpa [List.getD_eq_getElem?_getD, hxy] using h

/-- **C13 (index ↔ coordinate).** The two conversions are inverse to each other. -/
theorem ravel_unravel (side idx : Nat) (hs : 0 < side) : ravelF side (idx % side) (idx / side) = idx := by
  unfold ravelF
  rw [Nat.mul_comm]
  exact Nat.mod_add_div idx side

theorem unravel_ravel (side x y : Nat) (hx : x < side) :
    ravelF side x y % side = x ∧ ravelF side x y / side = y := by
  unfold ravelF
  have hs : 0 < side := Nat.lt_of_le_of_lt (Nat.zero_le _) hx
  refine ⟨?_, ?_⟩
  · rw [Nat.add_mul_mod_self_right, Nat.mod_eq_of_lt hx]
  · rw [Nat.add_mul_div_right _ _ hs, Nat.div_eq_of_lt hx, Nat.zero_add]

/-- **C13 (loader).** For every identifier (non-empty, no dot) the module name derived from
`<identifier>.py` is the identifier. -/
theorem module_name_spec (ident : List Char) (hne : ident ≠ []) (hdot : '.' ∉ ident) :
    moduleName (ident ++ ['.', 'p', 'y']) = ident := by
  cases ident with
  | nil => exact absurd rfl hne
  | cons c cs =>
    have hc : c ≠ '.' := fun h => hdot (by simp [h])
    have hdw : ∀ l : List Char, (l ++ ['.', 'p', 'y']).reverse.dropWhile (· != '.') = '.' :: l.reverse := by
      intro l
      simp
    unfold moduleName splitextStem
    have htw : ((c :: cs) ++ ['.', 'p', 'y']).takeWhile (· == '.') = [] := by
      simp [hc]
    simp only [htw, List.length_nil, List.drop_zero, List.take_zero, hdw, List.nil_append,
      List.reverse_reverse]

/-- witness of the repaired defect: the old derivation mangled names that begin or end with
`p`, `y` or a dot -/
theorem module_name_old_wrong :
    moduleNameOld "happy.py".toList = "ha".toList ∧ moduleNameOld "python_fn.py".toList = "thon_fn".toList := by
  decide

example : boxIndices 0 1 1 2 3 [0, 1, 2, 3, 4, 5, 6, 7, 8] = [3, 6, 4, 7] := by decide +kernel

/-- **C13 (translation tie, pixel box).** If the regenerated membership test of the loop in
`get_constrained_sensors_indices` is the model's condition (`box_Box` of `Generated/Boxes.lean`), filtering the ranking
with it and transposing the kept pixels is the model's `boxIndices`. -/
theorem translated_box (cond : GB) (h : ∀ env p, cond.holds env p ↔ specBoxCond env = true)
    (xmin xmax ymin ymax : Rat) (n : Nat) (rk : List Nat) :
    (rk.filter fun s => cond.eval (boxEnv xmin xmax ymin ymax n s) { x := 0, y := 0 }).map (fun s => (s % n) * n + s / n)
      = boxIndices xmin xmax ymin ymax n rk := by
  unfold boxIndices
  congr 1
  apply List.filter_congr
  intro s _
  have h1 := h (boxEnv xmin xmax ymin ymax n s) { x := 0, y := 0 }
  rw [← GB.eval_iff] at h1
  have h2 : specBoxCond (boxEnv xmin xmax ymin ymax n s) =
      decide (xmin ≤ ((s / n : Nat) : Rat) ∧ ((s / n : Nat) : Rat) ≤ xmax ∧
              ymin ≤ ((s % n : Nat) : Rat) ∧ ((s % n : Nat) : Rat) ≤ ymax) := by
    simp [specBoxCond, boxEnv]
  rw [h2] at h1
  cases hg : cond.eval (boxEnv xmin xmax ymin ymax n s) { x := 0, y := 0 } <;> simp_all

end PsVerif
