/-
  C09 — classifier predictions match the most recent fit or sensor update.
  Property theorems only (model: Model/Sspoc.lean).  Core Lean.
-/
import PsVerif.Model.Sspoc
namespace PsVerif

/-- every `update_sensors` call of the history passes training data (as the property states) -/
def AllWithData : List SspocOp → Prop
  | [] => True
  | .update _ _ xy _ :: ops => xy = true ∧ AllWithData ops
  | .fit .. :: ops => AllWithData ops
  | .updateRefused .. :: _ => False      -- … and none of them ends in the classifier refusing the data (finding F16, below)

theorem init_consistent (ns : Option PyCount) (thr : Option Rat) : (Sspoc.init ns thr).Consistent := by
  simp [Sspoc.init, Sspoc.Consistent, Sspoc.predictKind]


theorem consistent_iff (st : Sspoc) : st.Consistent ↔
    (st.fitted = true → st.nSensors ≠ some (.int 0) →
      (if st.refit then st.trained = .sensorCols st.fitNo st.sel else st.trained = .basisCoords st.fitNo)) := by
  unfold Sspoc.Consistent Sspoc.predictKind
  by_cases hf : st.fitted = true
  · by_cases h0 : st.nSensors = some (.int 0)
    · simp [hf, h0]
    · by_cases hr : st.refit = true <;> simp [hf, h0, hr]
  · simp [hf]

theorem update_consistent (st : Sspoc) (n : Option PyCount) (thr : Option Rat) (mag : List Rat)
    (d : Option (List Nat)) (h : st.Consistent) :
    (st.updateSensors n thr true mag d).1.Consistent := by
  unfold Sspoc.updateSensors
  split
  · exact h
  · split
    · exact h
    · split
      · exact h
      · dsimp only
        split
        · exact h
        · split
          · exact h
          · rw [consistent_iff]
            split
            · simp
            · rename_i z _ _ hk
              have : z = 0 := by simp at hk; omega
              subst this
              simp
    · dsimp only
      rw [consistent_iff]
      split
      · simp
      · rename_i hk
        simp at hk
        simp [hk]
    · dsimp only
      rw [consistent_iff]
      split
      · simp
      · rename_i hk
        simp at hk
        simp [hk]

theorem update_consistent_noxy (st : Sspoc) (n : Option PyCount) (thr : Option Rat) (mag : List Rat)
    (d : Option (List Nat)) (hr : st.refit = false) (h : st.trained = .basisCoords st.fitNo) :
    (st.updateSensors n thr false mag d).1.Consistent := by
  unfold Sspoc.updateSensors
  split
  · rw [consistent_iff]; simp_all
  · split
    · rw [consistent_iff]; simp_all
    · split
      · rw [consistent_iff]; simp_all
      · dsimp only
        split
        · rw [consistent_iff]; simp_all
        · split
          · rw [consistent_iff]; simp_all
          · rw [consistent_iff]
            simp_all
    · dsimp only
      rw [consistent_iff]
      simp_all
    · dsimp only
      rw [consistent_iff]
      simp_all

theorem fit_consistent (st : Sspoc) (nf : Nat) (r : Bool) (mag : List Rat) (d : List Nat) :
    (st.fit nf r mag d).1.Consistent := by
  unfold Sspoc.fit
  dsimp only
  cases r
  · split
    · exact update_consistent_noxy _ _ _ _ _ rfl rfl
    · split
      · exact update_consistent_noxy _ _ _ _ _ rfl rfl
      · exact update_consistent_noxy _ _ _ _ _ rfl rfl
  · have h1 : ∀ s : Sspoc, s.refit = false → s.trained = .basisCoords s.fitNo → s.Consistent := by
      intro s h1 h2; rw [consistent_iff]; simp [h1, h2]
    split
    · exact update_consistent _ _ _ _ _ (h1 _ rfl rfl)
    · split
      · exact update_consistent _ _ _ _ _ (h1 _ rfl rfl)
      · exact update_consistent _ _ _ _ _ (h1 _ rfl rfl)

/-- one step preserves the invariant -/
theorem step_consistent (st : Sspoc) (op : SspocOp) (h : st.Consistent)
    (hop : match op with | .update _ _ xy _ => xy = true | .fit .. => True | .updateRefused .. => False) :
    (st.step op).1.Consistent := by
  cases op with
  | fit nf r mag d =>
    simp only [Sspoc.step]
    exact fit_consistent st nf r mag d
  | update n thr xy mag =>
    simp only [Sspoc.step]
    simp only at hop
    subst hop
    exact update_consistent st n thr mag none h
  | updateRefused n thr mag => exact absurd hop id

/-- **C09.** After any sequence of `fit(refit=True/False)`, `update_sensors(…, xy)` and
`update_n_basis_modes` (a `fit` for this machine) calls – accepted or rejected – the dispatch of
`predict` matches what the classifier was last trained on: sensor columns of the current
selection when it treats its input as sensor measurements, basis coordinates of the most recent
fit when it projects full-state input.  Never a stale one. -/
theorem dispatch_consistent (ns : Option PyCount) (thr : Option Rat) (ops : List SspocOp)
    (h : AllWithData ops) : ((Sspoc.init ns thr).run ops).Consistent := by
  have key : ∀ (ops : List SspocOp) (st : Sspoc), st.Consistent → AllWithData ops →
      (st.run ops).Consistent := by
    intro ops
    induction ops with
    | nil => intro st hst _; simpa [Sspoc.run] using hst
    | cons op ops ih =>
      intro st hst hall
      have : (st.run (op :: ops)) = ((st.step op).1).run ops := by
        simp [Sspoc.run, List.foldl_cons]
      rw [this]
      cases op with
      | fit nf r mag d =>
        exact ih _ (step_consistent st _ hst trivial) hall
      | update n thr xy mag =>
        exact ih _ (step_consistent st _ hst hall.1) hall.2
      | updateRefused n thr mag => exact absurd hall id
  exact key ops _ (init_consistent ns thr) h

/-- a model fitted with three sensors and refitted on them -/
def f16State : Sspoc :=
  { nSensors := some (.int 3), threshold := none, refit := true, fitted := true, fitNo := 1,
    trained := .sensorCols 1 [2, 0, 1], sel := [2, 0, 1], nFeat := 4 }

/-- **finding F16, machine-checked on the model of the code as it is.**  `update_sensors(n_sensors=2, xy=…)` whose refit data the
classifier refuses is rejected – but the selection and the count have changed, and the dispatch invariant is gone: `predict` will
hand two sensor columns to a classifier trained on three.  (This is why `AllWithData` excludes refused refits.) -/
theorem refused_refit_is_not_atomic :
    f16State.Consistent ∧ (f16State.updateRefused (some (.int 2)) none [1, 2, 3, 0]).2 = some .valueError ∧
      (f16State.updateRefused (some (.int 2)) none [1, 2, 3, 0]).1.sel ≠ f16State.sel ∧
      ¬ (f16State.updateRefused (some (.int 2)) none [1, 2, 3, 0]).1.Consistent := by
  decide

/-- with zero sensors the dummy classifier is used -/
theorem zero_sensors_dummy (st : Sspoc) (hf : st.fitted = true) (h0 : st.nSensors = some (.int 0)) :
    st.predictKind = .dummy := by
  simp [Sspoc.predictKind, hf, h0]

/-- the machine WITHOUT the reset of `refit_` in `fit` (the code before fix 8968a58) -/
def Sspoc.fitStale (st : Sspoc) (nFeat : Nat) (refitArg : Bool) (mag : List Rat) (dfltSel : List Nat) :
    Sspoc × Option Err :=
  let r := st.fit nFeat refitArg mag dfltSel
  -- refit_ keeps its old value unless update_sensors set it
  ({ r.1 with refit := r.1.refit || st.refit }, r.2)

/-- the invariant discriminates: on the unrepaired machine the two-call history
`fit(refit=True); fit(refit=False)` ends in an inconsistent state (stale `refit_`) -/
theorem stale_flag_breaks_invariant :
    let st0 := Sspoc.init (some (.int 2)) none
    let st1 := (st0.fitStale 4 true [1, 3, 0, 2] []).1
    let st2 := (st1.fitStale 4 false [1, 3, 0, 2] []).1
    st1.Consistent ∧ ¬ st2.Consistent := by
  decide

end PsVerif
