/-
  C16 — the seed only orders the unranked tail; equal seeds give equal rankings.
  Property theorems only.  Core Lean.  `σ` stands for numpy's seeded permutation of the tail.
-/
import PsVerif.Props.C01
namespace PsVerif

/-- **C16.** The leading `m` sensors are the same for every seed. -/
theorem lead_seed_independent (σ₁ σ₂ : List Nat → List Nat) (m : Nat) (r : List Nat)
    (hm : m ≤ r.length) : (tailShuffle σ₁ m r).take m = (tailShuffle σ₂ m r).take m := by
  rw [tailShuffle_take σ₁ m r hm, tailShuffle_take σ₂ m r hm]

/-- … and they are the optimizer's own leading sensors, position by position -/
theorem lead_untouched (σ : List Nat → List Nat) (m : Nat) (r : List Nat) (hm : m ≤ r.length)
    (i : Nat) (hi : i < m) : (tailShuffle σ m r)[i]? = r[i]? := by
  have h := tailShuffle_take σ m r hm
  have h1 : ((tailShuffle σ m r).take m)[i]? = (r.take m)[i]? := by rw [h]
  simpa [List.getElem?_take, hi] using h1

theorem tailShuffle_drop (σ : List Nat → List Nat) (m : Nat) (r : List Nat) (hm : m ≤ r.length) :
    (tailShuffle σ m r).drop m = σ (r.drop m) := by
  unfold tailShuffle
  rw [List.drop_append_of_le_length (by simp [hm])]
  simp [List.drop_take_self]

/-- **C16.** The *set* (indeed multiset) of trailing sensors is the same for every seed. -/
theorem tail_set_seed_independent (σ₁ σ₂ : List Nat → List Nat) (h₁ : ∀ l, (σ₁ l).Perm l)
    (h₂ : ∀ l, (σ₂ l).Perm l) (m : Nat) (r : List Nat) (hm : m ≤ r.length) :
    ((tailShuffle σ₁ m r).drop m).Perm ((tailShuffle σ₂ m r).drop m) := by
  rw [tailShuffle_drop σ₁ m r hm, tailShuffle_drop σ₂ m r hm]
  exact (h₁ _).trans (h₂ _).symm

/-- **C16.** Equal seeds give the identical full ranking (for any seeded family of rearrangements
and any deterministic optimizer ranking `r`). -/
theorem same_seed_same_ranking {Seed : Type} (perm : Seed → List Nat → List Nat) (s₁ s₂ : Seed)
    (h : s₁ = s₂) (m : Nat) (r : List Nat) :
    tailShuffle (perm s₁) m r = tailShuffle (perm s₂) m r := by
  rw [h]

/-- with no more sensors than modes there is no tail: the seed changes nothing -/
theorem no_tail_seed_irrelevant (σ : List Nat → List Nat) (hσ : σ [] = []) (m : Nat) (r : List Nat)
    (hm : r.length ≤ m) : tailShuffle σ m r = r := by
  unfold tailShuffle
  rw [List.take_of_length_le hm, List.drop_eq_nil_of_le hm, hσ, List.append_nil]

example : tailShuffle List.reverse 2 [4, 1, 0, 3, 2] = [4, 1, 2, 3, 0] := by decide

end PsVerif
