/-
  C02 — signals in the span of the basis are reconstructed exactly.
  Property theorems only.  `B` = basis matrix (n sensors × m modes), `σ` = the selected sensors,
  `B.submatrix σ id` = the selected sensor rows.
-/
import PsVerif.Lemmas.LeastSquares
import PsVerif.Lemmas.GramAlg
import PsVerif.Model.Recon
import Mathlib.LinearAlgebra.Matrix.NonsingularInverse
import PsVerif.Lemmas.RankLink
namespace PsVerif
open Matrix

variable {p m n : ℕ}

/-- the certifying square solver only returns exact solutions of `M · X = Y` -/
theorem solveExact_sound (M Y X : RMat) (h : solveExact M Y = some X) : (M.mul X).beq Y = true := by
  unfold solveExact at h
  simp only [bind, Option.bind] at h
  split at h
  · exact absurd h (by simp)
  · split at h
    · exact absurd h (by simp)
    · rename_i R f _
      simp only at h
      split at h
      · rename_i hb
        simp only [Option.some.injEq] at h
        subst h
        exact hb
      · exact absurd h (by simp)

/-- the certifying least-squares solver returns either an exact solution of the normal equations
or a minimum-norm representation `X = Mᵀ Z` with `M Mᵀ Z = Y` -/
theorem lstsqExact_sound (M Y X : RMat) (h : lstsqExact M Y = some X) :
    ((M.transpose.mul M).mul X).beq (M.transpose.mul Y) = true ∨
      ∃ Z, X = M.transpose.mul Z ∧ ((M.mul M.transpose).mul Z).beq Y = true := by
  unfold lstsqExact at h
  simp only at h
  split at h
  · rename_i X' hX
    simp only [Option.some.injEq] at h
    subst h
    exact Or.inl (solveExact_sound _ _ _ hX)
  · split at h
    · rename_i Z hZ
      simp only [Option.some.injEq] at h
      subst h
      exact Or.inr ⟨Z, rfl, solveExact_sound _ _ _ hZ⟩
    · exact absurd h (by simp)

/-- **C02 (rectangular case, at least as many sensors as modes).** If the selected sensor rows
have full column rank, the least-squares reconstruction of an in-span signal `B a` from its values
at the sensors is `B a` itself – at every location, for every coefficient vector. -/
theorem recon_exact (B : Matrix (Fin n) (Fin m) ℚ) (σ : Fin p → Fin n)
    (hinj : Function.Injective (B.submatrix σ id).mulVec) (a c : Fin m → ℚ)
    (h : NormalEq (B.submatrix σ id) ((B.submatrix σ id) *ᵥ a) c) : B *ᵥ c = B *ᵥ a := by
  rw [ls_recovers _ hinj a c h]

/-- **C02 (square case, `n_sensors = n_modes`: `solve`).** -/
theorem recon_exact_square (B : Matrix (Fin n) (Fin m) ℚ) (σ : Fin p → Fin n)
    (hinj : Function.Injective (B.submatrix σ id).mulVec) (a c : Fin m → ℚ)
    (h : (B.submatrix σ id) *ᵥ c = (B.submatrix σ id) *ᵥ a) : B *ᵥ c = B *ᵥ a := by
  rw [hinj h]

/-- the values of the signal at the sensors are the sensor rows applied to the coefficients
(what is fed to `predict` is `x[sensors]` for `x = B a`) -/
theorem measurements_eq (B : Matrix (Fin n) (Fin m) ℚ) (σ : Fin p → Fin n) (a : Fin m → ℚ) :
    (fun i => (B *ᵥ a) (σ i)) = (B.submatrix σ id) *ᵥ a := by
  ext i
  rfl

/-- using more sensors keeps full column rank: if the rows `σ` already determine the
coefficients, so do the rows `τ` whenever every `σ`-sensor is among the `τ`-sensors -/
theorem more_sensors_injective {q : ℕ} (B : Matrix (Fin n) (Fin m) ℚ) (σ : Fin p → Fin n)
    (τ : Fin q → Fin n) (ι : Fin p → Fin q) (hι : ∀ i, τ (ι i) = σ i)
    (hinj : Function.Injective (B.submatrix σ id).mulVec) :
    Function.Injective (B.submatrix τ id).mulVec := by
  intro c c' h
  apply hinj
  ext i
  have := congrFun h (ι i)
  simpa [Matrix.mulVec, dotProduct, hι] using this

/-- **C02 (default QR optimizer needs no further assumption).** `m` sensor rows that are linearly
independent (the first `m` greedy picks of a full-column-rank basis matrix are, by
`leading_rows_independent` / `zero_pick_all_zero` of C03) have full column rank. -/
theorem independent_rows_injective (B : Matrix (Fin n) (Fin m) ℚ) (σ : Fin m → Fin n)
    (hli : LinearIndependent ℚ (fun i : Fin m => B (σ i))) :
    Function.Injective (B.submatrix σ id).mulVec := by
  rw [Matrix.mulVec_injective_iff_isUnit, ← Matrix.linearIndependent_rows_iff_isUnit]
  exact hli

/-- **C02 (default QR optimizer needs no further assumption), rank link.** If the sensor rows of `B` span
a space of dimension at least `r` (rank ≥ r; `r = n_basis_modes` for a basis matrix of full column rank),
each of the first `r` picks of the default exact run has non-zero residual when it is ranked – so by
`leading_rows_independent` the picked rows are independent and by `independent_rows_injective` /
`more_sensors_injective` every selection of at least `n_basis_modes` sensors determines the coefficients. -/
theorem qr_picks_nonzero_of_rank (B : RMat) (m : Nat) (hB : B.WF B.size m) (r : Nat)
    (hr : r ≤ Module.finrank ℚ (Submodule.span ℚ (Set.range fun a : Fin B.size => B.vec m a)))
    (j : Nat) (hj : j < r) (hjn : j < B.size) (q : Nat)
    (hq : (greedyRun (fun _ => 0) noMask B (j + 1)).p[j]? = some q) :
    let picks := (greedyRun (fun _ => 0) noMask B j).p.toList.take j
    mgsResid (B.vec m) picks q ⬝ᵥ mgsResid (B.vec m) picks q ≠ 0 :=
  full_rank_picks_nonzero B m hB r hr j hj hjn q hq

end PsVerif
