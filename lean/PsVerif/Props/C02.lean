/-
  C02 — signals in the span of the basis are reconstructed exactly.
  Property theorems only.  `B` = basis matrix (n sensors × m modes), `σ` = the selected sensors,
  `B.submatrix σ id` = the selected sensor rows.
-/
import PsVerif.Lemmas.LeastSquares
import PsVerif.Lemmas.GramAlg
import PsVerif.Model.Recon
import Mathlib.LinearAlgebra.Matrix.NonsingularInverse
import PsVerif.Lemmas.RankLink
import PsVerif.Lemmas.RankLinkFull
import Mathlib.LinearAlgebra.Matrix.Rank
import Mathlib.Tactic.FinCases
namespace PsVerif
open Matrix

variable {p m n : ℕ}

/-- the certifying square solver only returns exact solutions of `M · X = Y` -/
theorem solveExact_sound (M Y X : RMat) (h : solveExact M Y = some X) : (M.mul X).beq Y = true := by
  unfold solveExact at h
  simp only [bind, Option.bind] at h
  split at h
  · exact absurd h (by simp)
  · split at h
    · exact absurd h (by simp)
    · rename_i R f _
      simp only at h
      split at h
      · rename_i hb
        simp only [Option.some.injEq] at h
        subst h
        exact hb
      · exact absurd h (by simp)

/-- the certifying least-squares solver returns either an exact solution of the normal equations
or a minimum-norm representation `X = Mᵀ Z` with `M Mᵀ Z = Y` -/
theorem lstsqExact_sound (M Y X : RMat) (h : lstsqExact M Y = some X) :
    ((M.transpose.mul M).mul X).beq (M.transpose.mul Y) = true ∨
      ∃ Z, X = M.transpose.mul Z ∧ ((M.mul M.transpose).mul Z).beq Y = true := by
  unfold lstsqExact at h
  simp only at h
  split at h
  · rename_i X' hX
    simp only [Option.some.injEq] at h
    subst h
    exact Or.inl (solveExact_sound _ _ _ hX)
  · split at h
    · rename_i Z hZ
      simp only [Option.some.injEq] at h
      subst h
      exact Or.inr ⟨Z, rfl, solveExact_sound _ _ _ hZ⟩
    · exact absurd h (by simp)

/-- **C02 (rectangular case, at least as many sensors as modes).** If the selected sensor rows
have full column rank, the least-squares reconstruction of an in-span signal `B a` from its values
at the sensors is `B a` itself – at every location, for every coefficient vector. -/
theorem recon_exact (B : Matrix (Fin n) (Fin m) ℚ) (σ : Fin p → Fin n)
    (hinj : Function.Injective (B.submatrix σ id).mulVec) (a c : Fin m → ℚ)
    (h : NormalEq (B.submatrix σ id) ((B.submatrix σ id) *ᵥ a) c) : B *ᵥ c = B *ᵥ a := by
  rw [ls_recovers _ hinj a c h]

/-- **C02 (square case, `n_sensors = n_modes`: `solve`).** -/
theorem recon_exact_square (B : Matrix (Fin n) (Fin m) ℚ) (σ : Fin p → Fin n)
    (hinj : Function.Injective (B.submatrix σ id).mulVec) (a c : Fin m → ℚ)
    (h : (B.submatrix σ id) *ᵥ c = (B.submatrix σ id) *ᵥ a) : B *ᵥ c = B *ᵥ a := by
  rw [hinj h]

/-- the values of the signal at the sensors are the sensor rows applied to the coefficients
(what is fed to `predict` is `x[sensors]` for `x = B a`) -/
theorem measurements_eq (B : Matrix (Fin n) (Fin m) ℚ) (σ : Fin p → Fin n) (a : Fin m → ℚ) :
    (fun i => (B *ᵥ a) (σ i)) = (B.submatrix σ id) *ᵥ a := by
  ext i
  rfl

/-- using more sensors keeps full column rank: if the rows `σ` already determine the
coefficients, so do the rows `τ` whenever every `σ`-sensor is among the `τ`-sensors -/
theorem more_sensors_injective {q : ℕ} (B : Matrix (Fin n) (Fin m) ℚ) (σ : Fin p → Fin n)
    (τ : Fin q → Fin n) (ι : Fin p → Fin q) (hι : ∀ i, τ (ι i) = σ i)
    (hinj : Function.Injective (B.submatrix σ id).mulVec) :
    Function.Injective (B.submatrix τ id).mulVec := by
  intro c c' h
  apply hinj
  ext i
  have := congrFun h (ι i)
  simpa [Matrix.mulVec, dotProduct, hι] using this

/-- **C02 (default QR optimizer needs no further assumption).** `m` sensor rows that are linearly
independent (the first `m` greedy picks of a full-column-rank basis matrix are, by
`leading_rows_independent` / `zero_pick_all_zero` of C03) have full column rank. -/
theorem independent_rows_injective (B : Matrix (Fin n) (Fin m) ℚ) (σ : Fin m → Fin n)
    (hli : LinearIndependent ℚ (fun i : Fin m => B (σ i))) :
    Function.Injective (B.submatrix σ id).mulVec := by
  rw [Matrix.mulVec_injective_iff_isUnit, ← Matrix.linearIndependent_rows_iff_isUnit]
  exact hli

/-- **C02 (default QR optimizer needs no further assumption), rank link.** If the sensor rows of `B` span
a space of dimension at least `r` (rank ≥ r; `r = n_basis_modes` for a basis matrix of full column rank),
each of the first `r` picks of the default exact run has non-zero residual when it is ranked – so by
`leading_rows_independent` the picked rows are independent and by `independent_rows_injective` /
`more_sensors_injective` every selection of at least `n_basis_modes` sensors determines the coefficients. -/
theorem qr_picks_nonzero_of_rank (B : RMat) (m : Nat) (hB : B.WF B.size m) (r : Nat)
    (hr : r ≤ Module.finrank ℚ (Submodule.span ℚ (Set.range fun a : Fin B.size => B.vec m a)))
    (j : Nat) (hj : j < r) (hjn : j < B.size) (q : Nat)
    (hq : (greedyRun (fun _ => 0) noMask B (j + 1)).p[j]? = some q) :
    let picks := (greedyRun (fun _ => 0) noMask B j).p.toList.take j
    mgsResid (B.vec m) picks q ⬝ᵥ mgsResid (B.vec m) picks q ≠ 0 :=
  full_rank_picks_nonzero B m hB r hr j hj hjn q hq

/-- **C02 (default QR optimizer, one run).** The first `r ≤ rank B` sensors ranked by ONE default exact run of
`k ≥ r` steps (the code makes `k = min(n, m)`; see `qrModel_leading_rows_independent`) have linearly independent
rows. -/
theorem qr_leading_independent (B : RMat) (m : Nat) (hB : B.WF B.size m) (r : Nat)
    (hr : r ≤ Module.finrank ℚ (Submodule.span ℚ (Set.range fun a : Fin B.size => B.vec m a)))
    (hrn : r ≤ B.size) (k : Nat) (hrk : r ≤ k) :
    let picks := (greedyRun (fun _ => 0) noMask B k).p.toList.take r
    LinearIndependent ℚ (fun i : Fin picks.length => B.vec m picks[i]) :=
  qr_leading_rows_independent_of_le B m hB r hr hrn k hrk

/-- **C02 (default QR optimizer needs no further assumption), end to end.** `B` an `n × m` basis matrix of rank
≥ `m` (full column rank), `Bm` the same matrix as a Mathlib matrix, `σ` any list of `p ≥ m` sensors whose first `m`
entries are the first `m` entries of the default ranking (ONE exact run of `k ≥ m` steps; `qrSensors` is such a `σ`,
see `qr_default_recon_exact_run`).  Then the selected rows have full column rank, so the least-squares
reconstruction (normal equations) – and the square solve – of every in-span signal `Bm a` from its values at the
sensors is `Bm a` itself. -/
theorem qr_default_recon_exact (B : RMat) (m : Nat) (hB : B.WF B.size m)
    (hr : m ≤ Module.finrank ℚ (Submodule.span ℚ (Set.range fun a : Fin B.size => B.vec m a)))
    (k : Nat) (hk : m ≤ k) (p : Nat) (hmp : m ≤ p) (σ : Fin p → Fin B.size)
    (hσ : ∀ i (hi : i < m),
      (greedyRun (fun _ => 0) noMask B k).p[i]? = some (σ ⟨i, Nat.lt_of_lt_of_le hi hmp⟩).val) :
    let Bm : Matrix (Fin B.size) (Fin m) ℚ := fun a j => B.vec m a j
    Function.Injective (Bm.submatrix σ id).mulVec ∧
      (∀ a c : Fin m → ℚ, NormalEq (Bm.submatrix σ id) ((Bm.submatrix σ id) *ᵥ a) c → Bm *ᵥ c = Bm *ᵥ a) ∧
      (∀ a c : Fin m → ℚ, (Bm.submatrix σ id) *ᵥ c = (Bm.submatrix σ id) *ᵥ a → Bm *ᵥ c = Bm *ᵥ a) := by
  intro Bm
  have hmn : m ≤ B.size := by
    have h2 := finrank_range_le_card (R := ℚ) (fun a : Fin B.size => B.vec m a)
    rw [Fintype.card_fin] at h2
    exact hr.trans h2
  have hli : LinearIndependent ℚ (fun i : Fin m => Bm (σ (Fin.castLE hmp i))) :=
    qr_leading_rows_independent_fn B m hB m hr hmn k hk (fun i => (σ (Fin.castLE hmp i)).val)
      (fun i => hσ i.val i.2)
  have h0 := independent_rows_injective Bm (fun i => σ (Fin.castLE hmp i)) hli
  have hinj := more_sensors_injective Bm (fun i => σ (Fin.castLE hmp i)) σ (Fin.castLE hmp) (fun _ => rfl) h0
  exact ⟨hinj, fun a c h => recon_exact Bm σ hinj a c h, fun a c h => recon_exact_square Bm σ hinj a c h⟩

/-- **C02, end to end, for the ranking the default optimizer returns.** `σ = qrSensors B (kOf B) p` = the first
`p` entries (`m ≤ p ≤ n`) of `qrModel B`, the exact default run of `min(n, m)` steps: the hypothesis on `σ` of
`qr_default_recon_exact` is satisfied, the sensors are distinct, and reconstruction of in-span signals is exact. -/
theorem qr_default_recon_exact_run (B : RMat) (m : Nat) (hB : B.WF B.size m)
    (hr : m ≤ Module.finrank ℚ (Submodule.span ℚ (Set.range fun a : Fin B.size => B.vec m a)))
    (p : Nat) (hmp : m ≤ p) (hpn : p ≤ B.size) :
    let Bm : Matrix (Fin B.size) (Fin m) ℚ := fun a j => B.vec m a j
    let σ : Fin p → Fin B.size := qrSensors B (kOf B) p hpn
    (∀ i : Fin p, (qrModel B)[i.val]? = some (σ i).val) ∧ Function.Injective σ ∧
      Function.Injective (Bm.submatrix σ id).mulVec ∧
      (∀ a c : Fin m → ℚ, NormalEq (Bm.submatrix σ id) ((Bm.submatrix σ id) *ᵥ a) c → Bm *ᵥ c = Bm *ᵥ a) ∧
      (∀ a c : Fin m → ℚ, (Bm.submatrix σ id) *ᵥ c = (Bm.submatrix σ id) *ᵥ a → Bm *ᵥ c = Bm *ᵥ a) := by
  intro Bm σ
  have hspec : ∀ i (hi : i < p), (greedyRun (fun _ => 0) noMask B (kOf B)).p[i]? = some (σ ⟨i, hi⟩).val :=
    fun i hi => qrSensors_spec B (kOf B) p hpn i hi
  refine ⟨fun i => ?_, qrSensors_injective B (kOf B) p hpn, ?_⟩
  · unfold qrModel
    rw [Array.getElem?_toList]
    exact hspec i.val i.2
  · exact qr_default_recon_exact B m hB hr (kOf B) (le_kOf B m hB (le_trans hmp hpn)) p hmp σ
      (fun i hi => hspec i (Nat.lt_of_lt_of_le hi hmp))

/-- a matrix with independent columns (`mulVec` injective, full column rank `m`) has row space of dimension `m` -/
theorem finrank_rowspace_of_mulVec_injective (M : Matrix (Fin n) (Fin m) ℚ)
    (hinj : Function.Injective M.mulVec) :
    m ≤ Module.finrank ℚ (Submodule.span ℚ (Set.range M.row)) := by
  rw [← Matrix.rank_eq_finrank_span_row]
  unfold Matrix.rank
  rw [LinearMap.finrank_range_of_inj (by rw [Matrix.coe_mulVecLin]; exact hinj)]
  simp

/-- the rank hypothesis in Mathlib's terms: a basis matrix with independent columns (`Bm.mulVec` injective, full
column rank) has row space of dimension `m` -/
theorem finrank_rows_of_mulVec_injective (B : RMat) (m : Nat)
    (hinj : Function.Injective (Matrix.mulVec (fun a j => B.vec m a j : Matrix (Fin B.size) (Fin m) ℚ))) :
    m ≤ Module.finrank ℚ (Submodule.span ℚ (Set.range fun a : Fin B.size => B.vec m a)) :=
  finrank_rowspace_of_mulVec_injective (Matrix.of fun a j => B.vec m a j) hinj

/-- **C02, end to end, hypothesis = "the basis matrix has independent columns".** -/
theorem qr_default_recon_exact_of_injective (B : RMat) (m : Nat) (hB : B.WF B.size m)
    (hcol : Function.Injective (Matrix.mulVec (fun a j => B.vec m a j : Matrix (Fin B.size) (Fin m) ℚ)))
    (p : Nat) (hmp : m ≤ p) (hpn : p ≤ B.size) :
    let Bm : Matrix (Fin B.size) (Fin m) ℚ := fun a j => B.vec m a j
    let σ : Fin p → Fin B.size := qrSensors B (kOf B) p hpn
    Function.Injective (Bm.submatrix σ id).mulVec ∧
      ∀ a c : Fin m → ℚ, NormalEq (Bm.submatrix σ id) ((Bm.submatrix σ id) *ᵥ a) c → Bm *ᵥ c = Bm *ᵥ a := by
  intro Bm σ
  have h := qr_default_recon_exact_run B m hB (finrank_rows_of_mulVec_injective B m hcol) p hmp hpn
  exact ⟨h.2.2.1, h.2.2.2.1⟩

/-- a concrete 3 × 2 basis matrix for the non-vacuity check below -/
def c02ExampleBasis : RMat := #[#[1, 0], #[0, 2], #[3, 1]]

/-- non-vacuity: `c02ExampleBasis` meets every hypothesis of `qr_default_recon_exact_run` (well formed, independent
columns hence rank ≥ 2); its default ranking is `[2, 1, 0]`, the two leading sensors are `2, 1`, and they reconstruct
every in-span signal exactly -/
example :
    let B := c02ExampleBasis
    let Bm : Matrix (Fin B.size) (Fin 2) ℚ := fun a j => B.vec 2 a j
    let σ : Fin 2 → Fin B.size := qrSensors B (kOf B) 2 (by decide)
    qrModel B = [2, 1, 0] ∧ (∀ i : Fin 2, (σ i).val = [2, 1].getD i.val 0) ∧
      ∀ a c : Fin 2 → ℚ, NormalEq (Bm.submatrix σ id) ((Bm.submatrix σ id) *ᵥ a) c → Bm *ᵥ c = Bm *ᵥ a := by
  intro B Bm σ
  have hB : c02ExampleBasis.WF c02ExampleBasis.size 2 := ⟨rfl, by decide⟩
  have hr : 2 ≤ Module.finrank ℚ (Submodule.span ℚ
      (Set.range fun a : Fin c02ExampleBasis.size => c02ExampleBasis.vec 2 a)) := by
    apply finrank_rows_of_mulVec_injective
    intro c c' h
    have h0 := congrFun h ⟨0, by decide⟩
    have h1 := congrFun h ⟨1, by decide⟩
    simp [Matrix.mulVec, dotProduct, Fin.sum_univ_two, RMat.vec, RMat.get, c02ExampleBasis] at h0 h1
    ext i
    fin_cases i
    · exact h0
    · exact h1
  exact ⟨by decide +kernel, by decide +kernel,
    (qr_default_recon_exact_run c02ExampleBasis 2 hB hr 2 (le_refl _) (by decide)).2.2.2.1⟩

end PsVerif
