/-
  C18 — the ranking depends only on the geometry of the sensor rows.
  Property theorems only.
-/
import PsVerif.Lemmas.Greedy
import PsVerif.Lemmas.SqrtOrder
import PsVerif.Lemmas.GramAlg
import PsVerif.Lemmas.Relabel
import Mathlib.Data.Matrix.Mul
import Mathlib.Tactic.FieldSimp
import Mathlib.Tactic.Ring
namespace PsVerif
open Matrix

variable {σ τ : Type}

/-- **C18 (only the Gram matrix matters).** The exact model of every optimizer (any costs, any mask)
reads the basis matrix only through the number of sensors and the Gram matrix of the sensor rows. -/
theorem run_depends_on_gram_only (B B' : RMat) (hs : B.size = B'.size) (hg : gram B = gram B')
    (costs : Nat → Rat) (mask : Mask) (k : Nat) :
    greedyRun costs mask B k = greedyRun costs mask B' k := by
  unfold greedyRun; rw [hs, hg]

/-- **C18 (right-orthogonal mixing).** Multiplying the basis matrix on the right by an orthogonal
matrix (reordering training examples, flipping mode signs, rotating modes) leaves the Gram matrix of
the sensor rows unchanged. -/
theorem gram_mul_orthogonal {n m : ℕ} (B : Matrix (Fin n) (Fin m) ℚ) (Q : Matrix (Fin m) (Fin m) ℚ)
    (hQ : Q * Qᵀ = 1) : (B * Q) * (B * Q)ᵀ = B * Bᵀ := by
  rw [Matrix.transpose_mul, Matrix.mul_assoc, ← Matrix.mul_assoc Q, hQ, Matrix.one_mul]

/-- entrywise: the dot product of two sensor rows is unchanged -/
theorem row_dot_mul_orthogonal {n m : ℕ} (B : Matrix (Fin n) (Fin m) ℚ) (Q : Matrix (Fin m) (Fin m) ℚ)
    (hQ : Q * Qᵀ = 1) (a b : Fin n) : (B * Q) a ⬝ᵥ (B * Q) b = B a ⬝ᵥ B b := by
  have := congrFun (congrFun (gram_mul_orthogonal B Q hQ) a) b
  rw [Matrix.mul_apply, Matrix.mul_apply] at this
  simpa only [dotProduct, Matrix.transpose_apply] using this

/-- the array-level Gram matrix is determined by the dot products of the rows -/
theorem gram_eq_of_dots (B B' : RMat) (hs : B.size = B'.size)
    (h : ∀ a b, a < B.size → b < B.size → dotL (B.row a) (B.row b) = dotL (B'.row a) (B'.row b)) :
    gram B = gram B' := by
  unfold gram
  rw [← hs]
  unfold RMat.ofFn
  congr 1
  funext i
  congr 1
  funext j
  exact h i.val j.val i.isLt j.isLt

/-- A *simulation* between two residual systems: related states give the same comparison outcome for
every pair of candidates (under the respective cost vectors), and eliminating the same sensor keeps
the states related. -/
structure ScoreSim (S : ResidSys σ) (S' : ResidSys τ) (costs costs' : Nat → Rat) (R : σ → τ → Prop) : Prop where
  cmp : ∀ s s', R s s' → ∀ (a b : Nat) (za zb : Bool),
    scoreGe ((if za then 0 else S'.norm2 s' a), costs' a) ((if zb then 0 else S'.norm2 s' b), costs' b) =
    scoreGe ((if za then 0 else S.norm2 s a), costs a) ((if zb then 0 else S.norm2 s b), costs b)
  elim : ∀ s s', R s s' → ∀ q, R (S.elim s q) (S'.elim s' q)

/-- both score lists are maps of the same (candidate, mask-bit) list, and a simulation preserves
every pairwise comparison: same first argmax -/
theorem candScores_argmax_sim (S : ResidSys σ) (S' : ResidSys τ) (costs costs' : Nat → Rat)
    (R : σ → τ → Prop) (hsim : ScoreSim S S' costs costs' R) (mask : Mask)
    (st : GState σ) (st' : GState τ) (hp : st'.p = st.p) (hR : R st.lin st'.lin) (j : Nat) :
    firstArgmaxBy scoreGe (candScores S' st' costs' mask j) =
      firstArgmaxBy scoreGe (candScores S st costs mask j) := by
  unfold candScores
  rw [hp]
  let f : Nat × Bool → Score := fun x => ((if x.2 then 0 else S.norm2 st.lin x.1), costs x.1)
  let f' : Nat × Bool → Score := fun x => ((if x.2 then 0 else S'.norm2 st'.lin x.1), costs' x.1)
  let gez : Nat × Bool → Nat × Bool → Bool := fun x y => scoreGe (f x) (f y)
  have e1 : ∀ (l : List Nat) (l' : List Bool),
      List.zipWith (fun c z => ((if z then 0 else S.norm2 st.lin c), costs c)) l l' = (l.zip l').map f :=
    fun l l' => (List.map_zip_eq_zipWith (f := f)).symm
  have e2 : ∀ (l : List Nat) (l' : List Bool),
      List.zipWith (fun c z => ((if z then 0 else S'.norm2 st'.lin c), costs' c)) l l' = (l.zip l').map f' :=
    fun l l' => (List.map_zip_eq_zipWith (f := f')).symm
  rw [e1, e2]
  generalize (st.p.toList.drop j).zip (mask j st.p ++ List.replicate st.p.size false) = zs
  have h1 : firstArgmaxBy scoreGe (zs.map f) = firstArgmaxBy gez zs :=
    firstArgmaxBy_map gez scoreGe f zs (fun _ _ _ _ => rfl)
  have h2 : firstArgmaxBy scoreGe (zs.map f') = firstArgmaxBy gez zs :=
    firstArgmaxBy_map gez scoreGe f' zs (fun x _ y _ => hsim.cmp _ _ hR x.1 y.1 x.2 y.2)
  exact h2.trans h1.symm

theorem greedyStep_sim (S : ResidSys σ) (S' : ResidSys τ) (costs costs' : Nat → Rat)
    (R : σ → τ → Prop) (hsim : ScoreSim S S' costs costs' R) (mask : Mask)
    (st : GState σ) (st' : GState τ) (hp : st'.p = st.p) (hR : R st.lin st'.lin) (j : Nat) :
    (greedyStep S' costs' mask st' j).p = (greedyStep S costs mask st j).p ∧
      R (greedyStep S costs mask st j).lin (greedyStep S' costs' mask st' j).lin := by
  unfold greedyStep
  rw [candScores_argmax_sim S S' costs costs' R hsim mask st st' hp hR j]
  generalize j + firstArgmaxBy scoreGe (candScores S st costs mask j) = i
  obtain ⟨lin, p⟩ := st
  obtain ⟨lin', p'⟩ := st'
  simp only at hp hR
  subst hp
  unfold applyPivot
  simp only
  split
  · exact ⟨rfl, hsim.elim _ _ hR _⟩
  · exact ⟨rfl, hR⟩

/-- **C18 (general invariance principle).** Two runs whose states stay related by a score-preserving
simulation make the same choices: identical permutations after every number of steps. -/
theorem greedy_simulation (S : ResidSys σ) (S' : ResidSys τ) (costs costs' : Nat → Rat)
    (R : σ → τ → Prop) (hsim : ScoreSim S S' costs costs' R) (mask : Mask) (s0 : σ) (s0' : τ)
    (h0 : R s0 s0') (n k : Nat) :
    (greedyRunFrom S' costs' mask s0' n k).p = (greedyRunFrom S costs mask s0 n k).p ∧
      R (greedyRunFrom S costs mask s0 n k).lin (greedyRunFrom S' costs' mask s0' n k).lin := by
  induction k with
  | zero => exact ⟨rfl, h0⟩
  | succ k ih =>
    rw [greedyRunFrom_succ, greedyRunFrom_succ]
    exact greedyStep_sim S S' costs costs' R hsim mask _ _ ih.1 ih.2 k

/-- scaling every entry of a matrix -/
def RMat.scale (t : Rat) (G : RMat) : RMat := G.map fun r => r.map fun x => t * x

theorem RMat.get_scale (t : Rat) (G : RMat) (i j : Nat) :
    (RMat.scale t G).get i j = t * G.get i j := by
  unfold RMat.scale RMat.get
  simp only [Array.getD_eq_getD_getElem?, Array.getElem?_map]
  cases G[i]? with
  | none => simp
  | some r =>
    simp only [Option.map_some, Option.getD_some, Array.getElem?_map]
    cases r[j]? <;> simp

theorem RMat.scale_ofFn (t : Rat) (n m : Nat) (f : Nat → Nat → Rat) :
    RMat.scale t (RMat.ofFn n m f) = RMat.ofFn n m (fun a b => t * f a b) := by
  unfold RMat.scale RMat.ofFn
  simp [Array.map_ofFn, Function.comp_def]

theorem schur_scale (t : Rat) (ht : t ≠ 0) (G : RMat) (q : Nat) :
    schur (RMat.scale t G) q = RMat.scale t (schur G q) := by
  unfold schur
  simp only [RMat.get_scale]
  have hsz : (RMat.scale t G).size = G.size := by simp [RMat.scale]
  by_cases hd : G.get q q = 0
  · simp [hd]
  · have hd' : t * G.get q q ≠ 0 := mul_ne_zero ht hd
    rw [if_neg hd, if_neg hd', RMat.scale_ofFn, hsz]
    congr 1
    funext a b
    field_simp

/-- **C18 (positive rescaling).** Rescaling the basis matrix by `s > 0` (Gram matrix by `s²`) and the
costs by `s` leaves every choice unchanged, for every mask: same ranking after every number of steps. -/
theorem scale_invariant (G : RMat) (n : Nat) (hG : G.WF n n) (hnn : ∀ picks : List Nat, ∀ c, 0 ≤ (picks.foldl schur G).get c c)
    (s : Rat) (hs : 0 < s) (costs : Nat → Rat) (mask : Mask) (k : Nat) :
    (greedyRunFrom gramSys (fun c => s * costs c) mask (RMat.scale (s * s) G) n k).p =
      (greedyRunFrom gramSys costs mask G n k).p := by
  have _ := hG -- well-formedness is not needed: `schur_scale` holds for every array
  have hs0 : s * s ≠ 0 := by positivity
  have hsim : ScoreSim gramSys gramSys costs (fun c => s * costs c)
      (fun G₁ G₂ => (∃ picks : List Nat, G₁ = picks.foldl schur G) ∧ G₂ = RMat.scale (s * s) G₁) := by
    constructor
    · rintro G₁ G₂ ⟨⟨picks, rfl⟩, rfl⟩ a b za zb
      have e : ∀ (z : Bool) (c : Nat),
          (if z then (0 : Rat) else gramSys.norm2 (RMat.scale (s * s) (picks.foldl schur G)) c) =
            s * s * (if z then 0 else gramSys.norm2 (picks.foldl schur G) c) := by
        intro z c
        cases z
        · simp [gramSys, RMat.get_scale]
        · simp
      have nn : ∀ (z : Bool) (c : Nat), 0 ≤ (if z then (0 : Rat) else gramSys.norm2 (picks.foldl schur G) c) := by
        intro z c
        cases z
        · simpa [gramSys] using hnn picks c
        · simp
      unfold scoreGe
      simp only [e]
      exact geSqrt_scale _ _ _ _ s hs (nn za a) (nn zb b)
    · rintro G₁ G₂ ⟨⟨picks, rfl⟩, rfl⟩ q
      refine ⟨⟨picks ++ [q], ?_⟩, ?_⟩
      · rw [List.foldl_append]; rfl
      · exact schur_scale (s * s) hs0 _ q
  exact (greedy_simulation gramSys gramSys costs (fun c => s * costs c) _ hsim mask G
    (RMat.scale (s * s) G) ⟨⟨[], rfl⟩, rfl⟩ n k).1

/-- **C18 (strict rankings are position-free).** Tie-breaking in the code is positional (first maximiser), but a
sequence of picks each of which *strictly* beats every other unranked sensor is what the exact model produces,
whatever the positions: `StrictGreedy` mentions sensors, residuals and costs only. -/
theorem strict_ranking_unique (S : ResidSys σ) (costs : Nat → Rat) (s0 : σ) (n : Nat) (qs : List Nat)
    (hnn : ∀ (picks : List Nat) (c : Nat), 0 ≤ S.norm2 (picks.foldl S.elim s0) c)
    (h : StrictGreedy S costs s0 n qs) :
    (greedyRunFrom S costs noMask s0 n qs.length).p.toList.take qs.length = qs :=
  strict_greedy_unique S costs s0 n qs hnn h

/-- **C18 (relabelling the sensors).** `B'` is `B` with its sensor rows relabelled (`B'` row `c` = `B` row `π c`) and
the costs relabelled alike.  If the exact picks `qs` on `B` are strict at every step (no ties), the exact model's
ranking of `B'` starts with the relabelled picks `qs.map π⁻¹`: selections are relabelled alike. -/
theorem ranking_relabel_equivariant (B B' : RMat) (m : Nat) (hB : B.WF B.size m) (hB' : B'.WF B.size m)
    (costs : Nat → Rat) (π πinv : Nat → Nat)
    (hπ : ∀ c, c < B.size → π c < B.size ∧ πinv (π c) = c)
    (hπ' : ∀ c, c < B.size → πinv c < B.size ∧ π (πinv c) = c)
    (hrows : ∀ c, c < B.size → B'.row c = B.row (π c))
    (qs : List Nat) (h : StrictGreedy gramSys costs (gram B) B.size qs) :
    (greedyRunFrom gramSys (fun c => costs (π c)) noMask (gram B') B.size qs.length).p.toList.take qs.length
      = qs.map πinv :=
  relabel_equivariant_gram B B' m hB hB' costs π πinv hπ hπ' hrows qs h

/-- where every choice of the model's own run is strict, its leading picks form a strictly greedy sequence – so the
hypothesis of `ranking_relabel_equivariant` is exactly "the base run has no ties" (what the correspondence check
decides with the exact model before comparing a relabelled pair) -/
theorem run_without_ties_is_strict (S : ResidSys σ) (costs : Nat → Rat) (s0 : σ) (n k : Nat) (hk : k ≤ n)
    (hnn : ∀ (picks : List Nat) (c : Nat), 0 ≤ S.norm2 (picks.foldl S.elim s0) c)
    (hstrict : ∀ j, j < k → ∀ c, c < n →
      c ∉ (greedyRunFrom S costs noMask s0 n k).p.toList.take (j + 1) →
      scoreGe (S.norm2 (((greedyRunFrom S costs noMask s0 n k).p.toList.take j).foldl S.elim s0) c, costs c)
              (S.norm2 (((greedyRunFrom S costs noMask s0 n k).p.toList.take j).foldl S.elim s0)
                ((greedyRunFrom S costs noMask s0 n k).p.toList.getD j 0),
               costs ((greedyRunFrom S costs noMask s0 n k).p.toList.getD j 0)) = false) :
    StrictGreedy S costs s0 n ((greedyRunFrom S costs noMask s0 n k).p.toList.take k) :=
  greedy_run_strict S costs s0 n k hk hnn hstrict

/-- non-vacuity: the rows (3,0), (0,2), (1,1) with zero costs have the strict greedy sequence [0, 1]
(squared norms 9, 4, 2; after removing the direction of sensor 0 the residuals are 0, 4, 1) -/
example : StrictGreedy gramSys (fun _ => 0) (gram #[#[3, 0], #[0, 2], #[1, 1]]) 3 [0, 1] := by
  unfold StrictGreedy
  refine ⟨by decide, by decide, ?_⟩
  decide +kernel

end PsVerif
