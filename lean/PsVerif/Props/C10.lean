/-
  C10 — sparse sensor weights reproduce the full-state discriminant.
  Property theorems only.  The minimisers are computed by scikit-learn (not verified); these theorems
  say what the numeric certificates checked on every real output imply.
-/
import Mathlib.Data.Matrix.Mul
import Mathlib.LinearAlgebra.Matrix.DotProduct
import Mathlib.Analysis.Real.Sqrt
import Mathlib.Algebra.Order.Field.Rat
import Mathlib.Algebra.BigOperators.Field
import Mathlib.Tactic.Ring
import Mathlib.Tactic.Linarith
import Mathlib.Tactic.FieldSimp
namespace PsVerif
open Matrix

/-- **C10 (two classes).** Orthogonal matching pursuit with an intercept fits the *centred* system.
If that fit is exact – `(Ψ − 1·x̄ᵀ) s = w − w̄·1` – then the sensor weights map through the basis
onto the classifier's weight vector up to ONE common offset `b = w̄ − x̄·s`. -/
theorem binary_offset {r n : ℕ} (Ψ : Matrix (Fin r) (Fin n) ℚ) (w : Fin r → ℚ) (s : Fin n → ℚ)
    (xbar : Fin n → ℚ) (wbar : ℚ)
    (hfit : ∀ i, ∑ j, (Ψ i j - xbar j) * s j = w i - wbar) :
    ∀ i, (Ψ *ᵥ s) i + (wbar - xbar ⬝ᵥ s) = w i := by
  intro i
  have h := hfit i
  have e : ∑ j, (Ψ i j - xbar j) * s j = ∑ j, Ψ i j * s j - ∑ j, xbar j * s j := by
    rw [← Finset.sum_sub_distrib]
    exact Finset.sum_congr rfl fun j _ => sub_mul _ _ _
  rw [e] at h
  simp only [Matrix.mulVec, dotProduct]
  linarith

/-- the offset is the same for every coordinate, so the spread (max − min) of `Ψ s − w` is zero -/
theorem binary_offset_spread {r n : ℕ} (Ψ : Matrix (Fin r) (Fin n) ℚ) (w : Fin r → ℚ) (s : Fin n → ℚ)
    (xbar : Fin n → ℚ) (wbar : ℚ)
    (hfit : ∀ i, ∑ j, (Ψ i j - xbar j) * s j = w i - wbar) (i i' : Fin r) :
    (Ψ *ᵥ s) i - w i = (Ψ *ᵥ s) i' - w i' := by
  have h1 := binary_offset Ψ w s xbar wbar hfit i
  have h2 := binary_offset Ψ w s xbar wbar hfit i'
  linarith

/-- Euclidean norm of a row of the weight matrix (one row per sensor, one column per class) -/
noncomputable def rowNorm {c : ℕ} (v : Fin c → ℝ) : ℝ := Real.sqrt (∑ k, v k ^ 2)

/-- the row-sparse (group-lasso) least-squares objective with sparsity weight `α`:
`(1/2r)·‖W − X S‖²_F + α·Σ_j ‖S_j‖₂` -/
noncomputable def groupLasso {r n c : ℕ} (X : Matrix (Fin r) (Fin n) ℝ) (W : Matrix (Fin r) (Fin c) ℝ)
    (α : ℝ) (S : Matrix (Fin n) (Fin c) ℝ) : ℝ :=
  (1 / (2 * (r : ℝ))) * (∑ i, ∑ k, (W i k - (X * S) i k) ^ 2) + α * ∑ j, rowNorm (S j)

/-- gradient of the smooth part with respect to row `j` -/
noncomputable def glGrad {r n c : ℕ} (X : Matrix (Fin r) (Fin n) ℝ) (W : Matrix (Fin r) (Fin c) ℝ)
    (S : Matrix (Fin n) (Fin c) ℝ) (j : Fin n) (k : Fin c) : ℝ :=
  -(1 / (r : ℝ)) * ∑ i, X i j * (W i k - (X * S) i k)

theorem rowNorm_nonneg {c : ℕ} (v : Fin c → ℝ) : 0 ≤ rowNorm v := Real.sqrt_nonneg _

theorem rowNorm_sq {c : ℕ} (v : Fin c → ℝ) : rowNorm v ^ 2 = ∑ k, v k ^ 2 :=
  Real.sq_sqrt (Finset.sum_nonneg fun _ _ => sq_nonneg _)

/-- Cauchy–Schwarz for rows -/
theorem cs_rowNorm {c : ℕ} (a b : Fin c → ℝ) : ∑ k, a k * b k ≤ rowNorm a * rowNorm b :=
  Real.sum_mul_le_sqrt_mul_sqrt _ a b

theorem rowNorm_neg {c : ℕ} (v : Fin c → ℝ) : rowNorm (fun k => -v k) = rowNorm v := by
  unfold rowNorm
  simp only [neg_sq]

theorem rowNorm_eq_zero {c : ℕ} (v : Fin c → ℝ) (h : rowNorm v = 0) (k : Fin c) : v k = 0 := by
  have h0 : ∑ k, v k ^ 2 = 0 := by
    have := rowNorm_sq v
    rw [h] at this
    simpa using this.symm
  have := (Finset.sum_eq_zero_iff_of_nonneg (fun k _ => sq_nonneg (v k))).1 h0 k (Finset.mem_univ k)
  exact pow_eq_zero_iff (two_ne_zero) |>.1 this

/-- convexity of the smooth part: it lies above its linearisation at `S` -/
theorem smooth_lower_bound {r n c : ℕ} (hr : 0 < r) (X : Matrix (Fin r) (Fin n) ℝ)
    (W : Matrix (Fin r) (Fin c) ℝ) (S S' : Matrix (Fin n) (Fin c) ℝ) :
    (1 / (2 * (r : ℝ))) * (∑ i, ∑ k, (W i k - (X * S) i k) ^ 2)
        + ∑ j, ∑ k, glGrad X W S j k * (S' j k - S j k)
      ≤ (1 / (2 * (r : ℝ))) * (∑ i, ∑ k, (W i k - (X * S') i k) ^ 2) := by
  have hr' : (0 : ℝ) < r := by exact_mod_cast hr
  have hδ : ∀ i k, (X * S') i k = (X * S) i k + ∑ j, X i j * (S' j k - S j k) := by
    intro i k
    simp only [Matrix.mul_apply, ← Finset.sum_add_distrib]
    exact Finset.sum_congr rfl fun j _ => by ring
  have hterm : ∀ j k, glGrad X W S j k * (S' j k - S j k) =
      ∑ i, -(1 / (r : ℝ)) * ((W i k - (X * S) i k) * (X i j * (S' j k - S j k))) := by
    intro j k
    unfold glGrad
    rw [Finset.mul_sum, Finset.sum_mul]
    exact Finset.sum_congr rfl fun i _ => by ring
  have hgrad : ∑ j, ∑ k, glGrad X W S j k * (S' j k - S j k) =
      -(1 / (r : ℝ)) * ∑ i, ∑ k, (W i k - (X * S) i k) * ∑ j, X i j * (S' j k - S j k) := by
    simp only [hterm, Finset.mul_sum]
    calc ∑ j, ∑ k, ∑ i, -(1 / (r : ℝ)) * ((W i k - (X * S) i k) * (X i j * (S' j k - S j k)))
        = ∑ j, ∑ i, ∑ k, -(1 / (r : ℝ)) * ((W i k - (X * S) i k) * (X i j * (S' j k - S j k))) :=
          Finset.sum_congr rfl fun j _ => Finset.sum_comm
      _ = ∑ i, ∑ j, ∑ k, -(1 / (r : ℝ)) * ((W i k - (X * S) i k) * (X i j * (S' j k - S j k))) :=
          Finset.sum_comm
      _ = ∑ i, ∑ k, ∑ j, -(1 / (r : ℝ)) * ((W i k - (X * S) i k) * (X i j * (S' j k - S j k))) :=
          Finset.sum_congr rfl fun i _ => Finset.sum_comm
  rw [hgrad]
  have hpt : ∀ i k, (W i k - (X * S) i k) ^ 2
      - 2 * ((W i k - (X * S) i k) * ∑ j, X i j * (S' j k - S j k)) ≤ (W i k - (X * S') i k) ^ 2 := by
    intro i k
    rw [hδ]
    nlinarith [sq_nonneg (∑ j, X i j * (S' j k - S j k))]
  have hsum : ∑ i, ∑ k, (W i k - (X * S) i k) ^ 2
      - 2 * ∑ i, ∑ k, (W i k - (X * S) i k) * ∑ j, X i j * (S' j k - S j k)
      ≤ ∑ i, ∑ k, (W i k - (X * S') i k) ^ 2 := by
    rw [Finset.mul_sum, ← Finset.sum_sub_distrib]
    apply Finset.sum_le_sum
    intro i _
    rw [Finset.mul_sum, ← Finset.sum_sub_distrib]
    exact Finset.sum_le_sum fun k _ => hpt i k
  have h2r : 0 ≤ 1 / (2 * (r : ℝ)) := by positivity
  have hmul := mul_le_mul_of_nonneg_left hsum h2r
  refine le_trans (le_of_eq ?_) hmul
  field_simp
  ring

/-- the subgradient inequality of `α‖·‖₂` on one row, from the KKT certificate -/
theorem row_bound {r n c : ℕ} (X : Matrix (Fin r) (Fin n) ℝ)
    (W : Matrix (Fin r) (Fin c) ℝ) (α : ℝ) (hα : 0 ≤ α) (S : Matrix (Fin n) (Fin c) ℝ)
    (hact : ∀ j, rowNorm (S j) ≠ 0 → ∀ k, glGrad X W S j k + α * S j k / rowNorm (S j) = 0)
    (hzero : ∀ j, rowNorm (S j) = 0 → rowNorm (glGrad X W S j) ≤ α)
    (S' : Matrix (Fin n) (Fin c) ℝ) (j : Fin n) :
    -∑ k, glGrad X W S j k * (S' j k - S j k) ≤ α * (rowNorm (S' j) - rowNorm (S j)) := by
  by_cases h : rowNorm (S j) = 0
  · have hS : ∀ k, S j k = 0 := rowNorm_eq_zero _ h
    have e : -∑ k, glGrad X W S j k * (S' j k - S j k) = ∑ k, (-glGrad X W S j k) * S' j k := by
      rw [← Finset.sum_neg_distrib]
      exact Finset.sum_congr rfl fun k _ => by rw [hS k]; ring
    rw [e, h, sub_zero]
    have cs := cs_rowNorm (fun k => -glGrad X W S j k) (S' j)
    rw [rowNorm_neg] at cs
    exact cs.trans (mul_le_mul_of_nonneg_right (hzero j h) (rowNorm_nonneg _))
  · have hN : 0 < rowNorm (S j) := lt_of_le_of_ne (rowNorm_nonneg _) (Ne.symm h)
    have hg : ∀ k, glGrad X W S j k = -(α * S j k / rowNorm (S j)) := fun k => by
      linarith [hact j h k]
    have e : -∑ k, glGrad X W S j k * (S' j k - S j k) =
        (α / rowNorm (S j)) * (∑ k, S j k * S' j k - ∑ k, S j k ^ 2) := by
      rw [← Finset.sum_sub_distrib, Finset.mul_sum, ← Finset.sum_neg_distrib]
      exact Finset.sum_congr rfl fun k _ => by rw [hg k]; ring
    rw [e, ← rowNorm_sq]
    have cs := cs_rowNorm (S j) (S' j)
    have hq : 0 ≤ α / rowNorm (S j) := div_nonneg hα hN.le
    calc α / rowNorm (S j) * (∑ k, S j k * S' j k - rowNorm (S j) ^ 2)
        ≤ α / rowNorm (S j) * (rowNorm (S j) * rowNorm (S' j) - rowNorm (S j) ^ 2) :=
          mul_le_mul_of_nonneg_left (by linarith) hq
      _ = α * (rowNorm (S' j) - rowNorm (S j)) := by
          field_simp

/-- **C10 (more classes).** The KKT certificate implies global optimality: if on every active row
the gradient is `−α·S_j/‖S_j‖` and on every zero row its norm is at most `α`, then `S` minimises the
group-lasso objective whose sparsity weight is `α` (= `l1_penalty`). -/
theorem group_lasso_kkt_sufficient {r n c : ℕ} (hr : 0 < r) (X : Matrix (Fin r) (Fin n) ℝ)
    (W : Matrix (Fin r) (Fin c) ℝ) (α : ℝ) (hα : 0 ≤ α) (S : Matrix (Fin n) (Fin c) ℝ)
    (hact : ∀ j, rowNorm (S j) ≠ 0 → ∀ k, glGrad X W S j k + α * S j k / rowNorm (S j) = 0)
    (hzero : ∀ j, rowNorm (S j) = 0 → rowNorm (glGrad X W S j) ≤ α)
    (S' : Matrix (Fin n) (Fin c) ℝ) : groupLasso X W α S ≤ groupLasso X W α S' := by
  have h1 := smooth_lower_bound hr X W S S'
  have h2 : ∑ j, -∑ k, glGrad X W S j k * (S' j k - S j k) ≤
      ∑ j, α * (rowNorm (S' j) - rowNorm (S j)) :=
    Finset.sum_le_sum fun j _ => row_bound X W α hα S hact hzero S' j
  rw [Finset.sum_neg_distrib, ← Finset.mul_sum, Finset.sum_sub_distrib, mul_sub] at h2
  unfold groupLasso
  linarith

/-- **C10 (units do not matter – the repair of `constrained_binary_solve`).** The binary solve is now carried out on the
normalised problem `Ψ' = Ψ / p`, `w' = w / q` (`p, q ≠ 0`) and the result is scaled back, `s = (q / p) · s'`.  If the
normalised fit is exact for the centred system, the scaled-back weights are exact for the original centred system
(with `x̄' = x̄ / p`, `w̄' = w̄ / q`), so `binary_offset` applies to them: units cannot change the property. -/
theorem binary_fit_rescales {r n : ℕ} (Ψ : Matrix (Fin r) (Fin n) ℚ) (w : Fin r → ℚ) (s' : Fin n → ℚ)
    (xbar : Fin n → ℚ) (wbar p q : ℚ) (hp : p ≠ 0) (hq : q ≠ 0)
    (hfit : ∀ i, ∑ j, (Ψ i j / p - xbar j / p) * s' j = w i / q - wbar / q) :
    ∀ i, ∑ j, (Ψ i j - xbar j) * ((q / p) * s' j) = w i - wbar := by
  intro i
  have h := hfit i
  have e : ∑ j, (Ψ i j - xbar j) * ((q / p) * s' j) = q * ∑ j, (Ψ i j / p - xbar j / p) * s' j := by
    rw [Finset.mul_sum]
    refine Finset.sum_congr rfl fun j _ => ?_
    field_simp
  rw [e, h]
  field_simp

/-- … hence the offset identity for the weights the repaired code returns -/
theorem binary_offset_any_units {r n : ℕ} (Ψ : Matrix (Fin r) (Fin n) ℚ) (w : Fin r → ℚ) (s' : Fin n → ℚ)
    (xbar : Fin n → ℚ) (wbar p q : ℚ) (hp : p ≠ 0) (hq : q ≠ 0)
    (hfit : ∀ i, ∑ j, (Ψ i j / p - xbar j / p) * s' j = w i / q - wbar / q) :
    ∀ i, (Ψ *ᵥ fun j => (q / p) * s' j) i + (wbar - xbar ⬝ᵥ fun j => (q / p) * s' j) = w i :=
  binary_offset Ψ w (fun j => (q / p) * s' j) xbar wbar (binary_fit_rescales Ψ w s' xbar wbar p q hp hq hfit)

end PsVerif
