/-
  C06 — constrained selection stays greedy among permitted sensors; reduces to QR / CCQR.
  Property theorems only.
-/
import PsVerif.Props.C05
import PsVerif.Lemmas.RegionC
namespace PsVerif

variable {σ : Type}

/-- the feasibility clause of the property for option `o` -/
def FeasibleFor (o : COption) (n N s : Nat) (L : List Nat) : Prop :=
  match o with
  | .unconstrained => True
  | .maxN => N - s ≤ n - L.length
  | .exactN => s ≤ N ∧ s ≤ L.length ∧ N - s ≤ n - L.length
  | .predetermined => s ≤ N ∧ s ≤ L.length ∧ N - s ≤ n - L.length

/-- **C06, own-class maximality.** Under every option each of the first `N` chosen sensors has
the largest squared residual norm among the not-yet-chosen sensors of its own class (inside or
outside the region). -/
theorem gqr_own_class_max (o : COption) (S : ResidSys σ) (s0 : σ) (n N s : Nat) (L A : List Nat)
    (h : GqrSetup S s0 n N L A) (hf : FeasibleFor o n N s L)
    (hnn : NonnegRun S (cfgOf o L s A N).mask s0 n N)
    (hpos : PosCands S (cfgOf o L s A N).mask s0 n N)
    (j : Nat) (hj : j < N) (q : Nat)
    (hq : (greedyRunFrom S zc (cfgOf o L s A N).mask s0 n (j + 1)).p[j]? = some q) :
    let st := greedyRunFrom S zc (cfgOf o L s A N).mask s0 n j
    q ∈ st.p.toList.drop j ∧
      ∀ c ∈ st.p.toList.drop j, inL L c = inL L q → S.norm2 st.lin c ≤ S.norm2 st.lin q := by
  have hjn : j < n := Nat.lt_of_lt_of_le hj h.hNn
  cases o with
  | unconstrained =>
    exact own_class_max_unc S (cfgOf .unconstrained L s A N).masked s0 n L (fun _ _ => rfl) j hjn
      (hnn j hj) q hq
  | maxN =>
    exact own_class_max_maxN S (cfgOf .maxN L s A N).masked s0 n N s L A h.hNn h.hL h.hLn h.hAp
      h.hA h.hnn0 (fun i c => masked_maxN_eq L A s N i c h.hN) hf hnn hpos j hj q hq
  | exactN =>
    exact own_class_max_exactN S (cfgOf .exactN L s A N).masked s0 n N s L A h.hNn h.hL h.hLn
      h.hAp h.hA h.hnn0 (fun i c => masked_exactN_eq L A s N i c h.hN) hf.2.1 hf.2.2 hnn hpos
      j hj q hq
  | predetermined =>
    obtain ⟨h1, -, -, -, h5⟩ := pred_step S (cfgOf .predetermined L s A N).masked s0 n N s L
      h.hNn h.hL h.hLn (fun _ _ => rfl) hf.1 hf.2.1 hf.2.2 hnn hpos j hj q hq
    exact ⟨h1, h5⟩

/-- the unconstrained ranking already satisfies the constraint of option `o` -/
def MetBy (o : COption) (N s : Nat) (L A : List Nat) : Prop :=
  match o with
  | .unconstrained => True
  | .maxN => (A.take N).countP (inL L) ≤ s
  | .exactN => (A.take N).countP (inL L) = s
  | .predetermined => s ≤ N ∧ (∀ x ∈ (A.take N).take (N - s), inL L x = false) ∧
      (∀ x ∈ (A.take N).drop (N - s), inL L x = true)

/-- **C06, inactive constraint.** When the unconstrained ranking already satisfies the constraint,
the first `N` sensors equal the unconstrained (QR) ranking. -/
theorem gqr_inactive_eq_qr (o : COption) (S : ResidSys σ) (s0 : σ) (n N s k : Nat) (L A : List Nat)
    (h : GqrSetup S s0 n N L A) (hmet : MetBy o N s L A) (hk : N ≤ k) :
    (greedyRunFrom S zc (cfgOf o L s A N).mask s0 n k).p.toList.take N = A.take N := by
  apply inactive_eq_unc S (cfgOf o L s A N).masked s0 n N k A h.hNn h.hA h.hnn0 hk
  intro j hj q hq
  cases o with
  | unconstrained => rfl
  | maxN => exact masked_inactive_maxN L A s N j q h.hN hmet
  | exactN => exact masked_inactive_exactN L A s N j q h.hN hmet
  | predetermined => exact masked_inactive_pred L A s N j q hmet.1 hj hq hmet.2.1 hmet.2.2

/-- cost vector that makes every region sensor prohibitive -/
def prohibitiveCosts (L : List Nat) (C : Rat) : Nat → Rat := fun c => if inL L c then C else 0

/-- **C06, allowance zero.** With `s = 0` the first `N` sensors equal the CCQR ranking obtained by
giving every region sensor a cost `C` that exceeds every residual norm. -/
theorem gqr_s0_eq_ccqr_prohibitive (o : COption) (ho : o ≠ .unconstrained) (S : ResidSys σ) (s0 : σ)
    (n N k : Nat) (L A : List Nat) (C : Rat)
    (h : GqrSetup S s0 n N L A) (hout : N ≤ n - L.length) (hk : N ≤ k)
    (hnn : NonnegRun S (cfgOf o L 0 A N).mask s0 n N)
    (hpos : PosCands S (cfgOf o L 0 A N).mask s0 n N)
    (hC0 : 0 < C)
    (hC : ∀ j < N, ∀ c, S.norm2 (greedyRunFrom S zc (cfgOf o L 0 A N).mask s0 n j).lin c < C * C) :
    (greedyRunFrom S zc (cfgOf o L 0 A N).mask s0 n k).p.toList.take N =
      (greedyRunFrom S (prohibitiveCosts L C) noMask s0 n k).p.toList.take N := by
  rw [greedyRunFrom_take _ _ _ _ _ _ _ hk, greedyRunFrom_take _ _ noMask _ _ _ _ hk]
  have hrun := prohibitive_run_eq S (cfgOf o L 0 A N).masked s0 n N L C h.hNn hnn hC0 hC
  have key : greedyRunFrom S (prohibitiveCosts L C) noMask s0 n N =
      greedyRunFrom S zc (cfgOf o L 0 A N).mask s0 n N := by
    apply hrun _ N (Nat.le_refl _)
    intro j hj q hq
    cases o with
    | unconstrained => exact absurd rfl ho
    | maxN =>
      exact s0_step_maxN S (cfgOf .maxN L 0 A N).masked s0 n N L A h.hNn h.hL h.hLn h.hAp h.hA
        h.hnn0 (fun i c => masked_maxN_eq L A 0 N i c h.hN) hout hnn hpos j hj q hq
    | exactN =>
      exact s0_step_exactN S (cfgOf .exactN L 0 A N).masked s0 n N L A h.hNn h.hL h.hLn h.hAp
        h.hA h.hnn0 (fun i c => masked_exactN_eq L A 0 N i c h.hN) hout hnn hpos j hj q hq
    | predetermined =>
      exact s0_step_pred S (cfgOf .predetermined L 0 A N).masked s0 n N L h.hNn h.hL h.hLn
        (fun _ _ => rfl) hout hnn hpos j hj q hq
  rw [key]

end PsVerif
