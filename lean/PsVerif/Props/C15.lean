/-
  C15 — refitting and mode updates leave no trace of earlier fits.
  Property theorems only (model: Model/Sspor.lean).  Core Lean.
-/
import PsVerif.Model.Sspor
namespace PsVerif

/-- the sensor count the user chose (none = never chosen: constructor default, no setter call) -/
def Sspor.explicitN (st : Sspor) : Option Nat := if st.defaulted then none else st.nSensors

/-- Two models are *configured alike*: same basis kind and mode-count attribute, same SSPOR
mode count, same user-chosen sensor count.  Everything else (what the basis was fitted on before,
the previous ranking, the previous basis matrix, a previously defaulted sensor count) may differ. -/
structure SameSettings (a b : Sspor) : Prop where
  kind : a.basis.kind = b.basis.kind
  modes : a.basis.nModes = b.basis.nModes
  snm : a.nBasisModes = b.nBasisModes
  ns : a.explicitN = b.explicitN

/-! ### auxiliary lemmas: what `BasisSt.fit` / `BasisSt.rep` / `Sspor.fit` read and write -/

theorem BasisSt.fit_kind (b : BasisSt) (ne nf : Nat) : (b.fit ne nf).1.kind = b.kind := by
  grind [BasisSt.fit]

theorem BasisSt.fit_nModes (b : BasisSt) (ne nf : Nat) (h : b.nModes.isSome) :
    (b.fit ne nf).1.nModes = b.nModes := by
  grind [BasisSt.fit]

/-- `BasisSt.fit` reads only `kind` and `nModes` -/
theorem BasisSt.fit_congr (b c : BasisSt) (ne nf : Nat) (hk : b.kind = c.kind)
    (hm : b.nModes = c.nModes) :
    (b.fit ne nf).2 = (c.fit ne nf).2 ∧ (b.fit ne nf).1.nModes = (c.fit ne nf).1.nModes ∧
      ((b.fit ne nf).2 = none → (b.fit ne nf).1.fitted = (c.fit ne nf).1.fitted) := by
  grind [BasisSt.fit]

/-- `BasisSt.rep` reads only `fitted` and `nModes` -/
theorem BasisSt.rep_congr (b c : BasisSt) (k : Option Nat) (hf : b.fitted = c.fitted)
    (hm : b.nModes = c.nModes) : b.rep k = c.rep k := by
  simp [BasisSt.rep, hf, hm]

/-- proof device: the part of `Sspor.fit` after the basis step, flattened, as a function of the
basis step's result `p = (basis', error)` -/
def Sspor.fitTail (st : Sspor) (p : BasisSt × Option Err) (o : List Nat) : Sspor × Option Err :=
  match p.2 with
  | some e => ({ st with basis := p.1 }, some e)
  | none =>
  match p.1.rep st.nBasisModes with
  | .error e => ({ st with basis := p.1 }, some e)
  | .ok shape =>
    match st.nSensors with
    | none => ({ st with basis := p.1, bm := some shape, nSensors := some shape.1, defaulted := true,
                         ranking := some o }, none)
    | some k =>
      if st.defaulted then
        ({ st with basis := p.1, bm := some shape, nSensors := some shape.1, defaulted := true,
                   ranking := some o }, none)
      else if k > shape.1 then ({ st with basis := p.1, bm := some shape }, some .valueError)
      else ({ st with basis := p.1, bm := some shape, ranking := some o }, none)

theorem Sspor.fit_eq_tail (st : Sspor) (ne nf : Nat) (pf : Bool) (o : List Nat) :
    st.fit ne nf pf o = st.fitTail (if pf then
      (st.basis, if st.basis.fitted.isSome then none else some Err.notFitted)
    else st.basis.fit ne nf) o := by
  unfold Sspor.fit Sspor.fitTail
  generalize (if pf = true then
      (st.basis, if st.basis.fitted.isSome then none else some Err.notFitted)
    else st.basis.fit ne nf) = p
  obtain ⟨b, e1⟩ := p
  cases e1 with
  | some e => rfl
  | none =>
    simp only []
    cases b.rep st.nBasisModes with
    | error e => rfl
    | ok shape =>
      simp only []
      cases st.nSensors with
      | none => rfl
      | some k =>
        simp only []
        cases st.defaulted with
        | true => rfl
        | false =>
          by_cases h : k > shape.1 <;> simp [h]

/-- **C15 (fit is a reset), partial.** Fitting two models that are configured alike on the same
data (same optimizer ranking) gives the same outcome and, when the fit succeeds, the same observable
state, whatever each had been fitted on before.
`_partial`: the hypothesis `modes` compares the basis attribute `n_basis_modes` itself; for
`Identity()` constructed with `n_basis_modes=None` that attribute is overwritten by the first fit, so
a previously fitted default Identity and a fresh one are NOT configured alike in this sense – that is
the known finding F7 (see `identity_default_freezes`).

STATEMENT CHANGED: the original second conjunct claimed equality of the observable states
unconditionally.  That is false when the fit raises: a failed fit does not reset anything, the model
keeps the `ranked_sensors_` (and, if the basis step already failed, the `basis_matrix_`) of its
EARLIER fit, which `SameSettings` deliberately leaves unconstrained.  Machine-checked counterexample:
`fit_failed_is_not_reset` below.  Minimal correction: the observable states agree whenever the fit
succeeds (the error outcome agrees always). -/
theorem fit_is_reset_partial (a b : Sspor) (h : SameSettings a b) (ne nf : Nat) (o : List Nat) :
    (a.fit ne nf false o).2 = (b.fit ne nf false o).2 ∧
      ((a.fit ne nf false o).2 = none →
        (a.fit ne nf false o).1.observe = (b.fit ne nf false o).1.observe) := by
  obtain ⟨hk, hm, hs, hn⟩ := h
  rw [Sspor.fit_eq_tail, Sspor.fit_eq_tail]
  simp only [Bool.false_eq_true, if_false]
  obtain ⟨h1, h2, h3⟩ := BasisSt.fit_congr a.basis b.basis ne nf hk hm
  generalize a.basis.fit ne nf = p at *
  generalize b.basis.fit ne nf = q at *
  obtain ⟨p1, p2⟩ := p
  obtain ⟨q1, q2⟩ := q
  simp only at h1 h2 h3
  subst h1
  cases p2 with
  | some e => simp [Sspor.fitTail]
  | none =>
    have hrep := BasisSt.rep_congr p1 q1 a.nBasisModes (h3 rfl) h2
    rw [hs] at hrep
    simp only [Sspor.fitTail, hs, hrep]
    cases q1.rep b.nBasisModes with
    | error e => simp
    | ok shape =>
      simp only [Sspor.explicitN] at hn
      cases ha : a.nSensors <;> cases hb : b.nSensors <;> cases ha' : a.defaulted <;>
        cases hb' : b.defaulted <;> simp [ha, hb, ha', hb'] at hn ⊢ <;>
        (try subst hn) <;> (try split) <;> simp_all [Sspor.observe, Sspor.selected]

/-- the settings survive a successful or failed fit, so the statement lifts to every history:
after any history the next fit behaves like the first fit of a model configured alike -/
theorem fit_preserves_settings (a : Sspor) (ne nf : Nat) (pf : Bool) (o : List Nat)
    (hm : a.basis.nModes.isSome) :
    SameSettings (a.fit ne nf pf o).1 a := by
  rw [Sspor.fit_eq_tail]
  have h1 := BasisSt.fit_kind a.basis ne nf
  have h2 := BasisSt.fit_nModes a.basis ne nf hm
  generalize a.basis.fit ne nf = q at *
  constructor <;> grind [Sspor.fitTail, Sspor.explicitN]

/-- a fit that raises keeps the ranking and the sensor count the model had before – it is NOT a
reset (this is why `fit_is_reset_partial` / `fit_after_history_is_reset` need the success guard) -/
theorem fit_failed_keeps_ranking (a : Sspor) (ne nf : Nat) (pf : Bool) (o : List Nat)
    (hfail : (a.fit ne nf pf o).2 ≠ none) :
    (a.fit ne nf pf o).1.ranking = a.ranking ∧ (a.fit ne nf pf o).1.nSensors = a.nSensors := by
  rw [Sspor.fit_eq_tail] at hfail ⊢
  generalize (if pf = true then
      (a.basis, if a.basis.fitted.isSome then none else some Err.notFitted)
    else a.basis.fit ne nf) = p at *
  grind [Sspor.fitTail]

/-- **counterexample to the original (unguarded) statements.** `SSPOR(Identity(n_basis_modes=3),
n_sensors=4)` fitted on 5×6 data and a fresh such model are configured alike; refitting both on 2×6
data raises the same ValueError (3 modes > 2 examples) in both, but the first still shows the ranking
of its earlier fit while the fresh one shows none. -/
theorem fit_failed_is_not_reset :
    let bs : BasisSt := { kind := .identity, nModes := some 3, fitted := none }
    let o6 := [0, 1, 2, 3, 4, 5]
    ∃ st0, Sspor.init bs (some (.int 4)) = some st0 ∧
      SameSettings (st0.fit 5 6 false o6).1 st0 ∧
      ((st0.fit 5 6 false o6).1.fit 2 6 false o6).2 = (st0.fit 2 6 false o6).2 ∧
      ((st0.fit 5 6 false o6).1.fit 2 6 false o6).1.observe ≠ (st0.fit 2 6 false o6).1.observe := by
  refine ⟨_, rfl, ?_, ?_, ?_⟩
  · exact fit_preserves_settings _ 5 6 false _ rfl
  · decide
  · decide

/-- full strength (fresh-object form) for every basis whose mode count was chosen by the user:
after ANY history of calls, a successful fit behaves exactly like the same fit on any other model
configured alike – in particular on a fresh one.

STATEMENT CHANGED: hypothesis `hok` (the fit succeeds) added; without it the statement is false, see
`fit_failed_is_not_reset`.  For a failing fit only the error outcome agrees
(`fit_is_reset_partial`, first conjunct) and the model keeps its old ranking
(`fit_failed_keeps_ranking`). -/
theorem fit_after_history_is_reset (a b : Sspor) (h : SameSettings a b) (ne nf : Nat) (o : List Nat)
    (hok : (a.fit ne nf false o).2 = none) :
    ((a.fit ne nf false o).1.observe, (a.fit ne nf false o).2) =
      ((b.fit ne nf false o).1.observe, (b.fit ne nf false o).2) := by
  obtain ⟨h1, h2⟩ := fit_is_reset_partial a b h ne nf o
  rw [h2 hok, h1]

/-- **F7 on the model (witness).** `Identity()` fitted on 4 examples and then on 7 keeps 4 modes,
whereas a fresh `Identity()` fitted on the 7 examples has 7. -/
theorem identity_default_freezes :
    let b : BasisSt := { kind := .identity, nModes := none, fitted := none }
    let o5 := [0, 1, 2, 3, 4]
    ∃ st0, Sspor.init b none = some st0 ∧
      ((st0.fit 4 5 false o5).1.fit 7 5 false o5).1.observe ≠ (st0.fit 7 5 false o5).1.observe := by
  refine ⟨_, rfl, ?_⟩; decide

/-- **C15 (update_n_basis_modes).** Asking for `k` modes, `k` no larger than the fitted basis,
re-ranks with the first `k` modes and does not alter the basis object. -/
theorem update_modes_prefix (st : Sspor) (k nm nf cols : Nat) (o : List Nat) (hk : 0 < k)
    (hnm : st.basis.nModes = some nm) (hf : st.basis.fitted = some (nf, cols)) (hle : k ≤ nm) :
    (st.updateModes (.int k) none o).1.basis = st.basis ∧
      ((st.updateModes (.int k) none o).2 = none →
        (st.updateModes (.int k) none o).1.bm = some (nf, min k cols) ∧
        (st.updateModes (.int k) none o).1.ranking = some o) := by
  have hpos : k ≠ 0 := by omega
  have hupd : st.updateModes (.int k) none o =
      ({ st with nBasisModes := some k } : Sspor).fit 0 0 true o := by
    simp [Sspor.updateModes, hpos, hnm, hf, hle]
  have hrep : st.basis.rep (some k) = .ok (nf, min k cols) := by
    have : ¬ k > nm := by omega
    simp [BasisSt.rep, hnm, hf, this]
  rw [hupd, Sspor.fit_eq_tail]
  simp only [if_true, hf, Option.isSome_some]
  unfold Sspor.fitTail
  simp only [hrep]
  cases st.nSensors with
  | none => simp
  | some n =>
    cases st.defaulted with
    | true => simp
    | false =>
      by_cases h : n > nf <;> simp [h]

/-- **C15 / C01 (a basis fitted behind the model's back).**  When the basis object is fitted by somebody else, nothing the
model itself holds changes (ranking, count, its own basis matrix stay those of ITS last fit) … -/
theorem outside_basis_fit_keeps_model (st : Sspor) (ne nf : Nat) :
    (st.step (.basisFit ne nf)).1.observe = st.observe ∧ (st.step (.basisFit ne nf)).1.nBasisModes = st.nBasisModes := by
  simp [Sspor.step, Sspor.observe, Sspor.selected]

/-- … and the next `update_n_basis_modes(k)` on the cheap path ranks the basis as it is NOW: the ranking is the optimizer's
answer for this call (`o`), the basis matrix has the new number of sensor rows – whatever `k` was asked for before. -/
theorem update_after_outside_basis_fit (st : Sspor) (ne nf k nm nf' cols : Nat) (o : List Nat) (hk : 0 < k)
    (hnm : (st.step (.basisFit ne nf)).1.basis.nModes = some nm)
    (hf : (st.step (.basisFit ne nf)).1.basis.fitted = some (nf', cols)) (hle : k ≤ nm)
    (hok : ((st.step (.basisFit ne nf)).1.updateModes (.int k) none o).2 = none) :
    ((st.step (.basisFit ne nf)).1.updateModes (.int k) none o).1.bm = some (nf', min k cols) ∧
    ((st.step (.basisFit ne nf)).1.updateModes (.int k) none o).1.ranking = some o :=
  (update_modes_prefix _ k nm nf' cols o hk hnm hf hle).2 hok

/-- a copy of the model (pickle / deepcopy) is the model: every later call answers alike -/
theorem round_trip_is_identity (st : Sspor) (ops : List SsporOp) :
    ((st.step .roundTrip).1).run ops = st.run ops ∧ (st.step .roundTrip).1.observe = st.observe := ⟨rfl, rfl⟩

example : ∃ st : Sspor, ∃ o1 o2 : List Nat,
    let s1 := (st.fit 3 4 false o1).1
    let s2 := (s1.step (.basisFit 3 2)).1
    s2.observe = s1.observe ∧ (s2.updateModes (.int 2) none o2).1.bm = some (2, 2) ∧ s1.bm = some (4, 3) :=
  ⟨{ nSensors := none, defaulted := false, nBasisModes := none, basis := { kind := .identity, nModes := none, fitted := none },
     ranking := none, bm := none }, [0, 1, 2, 3], [1, 0], by decide⟩

/-- a rejected `update_n_basis_modes` whose value is not a positive integer changes nothing -/
theorem update_modes_invalid_unchanged (st : Sspor) (v : PyCount) (x : Option (Nat × Nat))
    (o : List Nat) (hv : v = .other ∨ ∃ z : Int, v = .int z ∧ z ≤ 0) :
    st.updateModes v x o = (st, some .valueError) := by
  grind [Sspor.updateModes]

end PsVerif
