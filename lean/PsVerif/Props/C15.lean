/-
  C15 — refitting and mode updates leave no trace of earlier fits.
  Property theorems only (model: Model/Sspor.lean).  Core Lean.
-/
import PsVerif.Model.Sspor
namespace PsVerif

/-- the sensor count the user chose (none = never chosen: constructor default, no setter call) -/
def Sspor.explicitN (st : Sspor) : Option Nat := if st.defaulted then none else st.nSensors

/-- Two models are *configured alike*: same basis kind and mode-count attribute, same SSPOR
mode count, same user-chosen sensor count.  Everything else (what the basis was fitted on before,
the previous ranking, the previous basis matrix, a previously defaulted sensor count) may differ. -/
structure SameSettings (a b : Sspor) : Prop where
  kind : a.basis.kind = b.basis.kind
  modes : a.basis.nModes = b.basis.nModes
  snm : a.nBasisModes = b.nBasisModes
  ns : a.explicitN = b.explicitN

/-- **C15 (fit is a reset), partial.** Fitting two models that are configured alike on the same
data (same optimizer ranking) gives the same outcome and the same observable state, whatever each
had been fitted on before.
`_partial`: the hypothesis `modes` compares the basis attribute `n_basis_modes` itself; for
`Identity()` constructed with `n_basis_modes=None` that attribute is overwritten by the first fit, so
a previously fitted default Identity and a fresh one are NOT configured alike in this sense – that is
the known finding F7 (see `identity_default_freezes`). -/
theorem fit_is_reset_partial (a b : Sspor) (h : SameSettings a b) (ne nf : Nat) (o : List Nat) :
    (a.fit ne nf false o).2 = (b.fit ne nf false o).2 ∧
      (a.fit ne nf false o).1.observe = (b.fit ne nf false o).1.observe := by
  sorry

/-- the settings survive a successful or failed fit, so the statement lifts to every history:
after any history the next fit behaves like the first fit of a model configured alike -/
theorem fit_preserves_settings (a : Sspor) (ne nf : Nat) (pf : Bool) (o : List Nat)
    (hm : a.basis.nModes.isSome) :
    SameSettings (a.fit ne nf pf o).1 a := by
  sorry

/-- full strength (fresh-object form) for every basis whose mode count was chosen by the user:
after ANY history of calls, a fit behaves exactly like the same fit on any other model configured alike
– in particular on a fresh one. -/
theorem fit_after_history_is_reset (a b : Sspor) (h : SameSettings a b) (ne nf : Nat) (o : List Nat) :
    ((a.fit ne nf false o).1.observe, (a.fit ne nf false o).2) =
      ((b.fit ne nf false o).1.observe, (b.fit ne nf false o).2) := by
  sorry

/-- **F7 on the model (witness).** `Identity()` fitted on 4 examples and then on 7 keeps 4 modes,
whereas a fresh `Identity()` fitted on the 7 examples has 7. -/
theorem identity_default_freezes :
    let b : BasisSt := { kind := .identity, nModes := none, fitted := none }
    let o5 := [0, 1, 2, 3, 4]
    ∃ st0, Sspor.init b none = some st0 ∧
      ((st0.fit 4 5 false o5).1.fit 7 5 false o5).1.observe ≠ (st0.fit 7 5 false o5).1.observe := by
  sorry

/-- **C15 (update_n_basis_modes).** Asking for `k` modes, `k` no larger than the fitted basis,
re-ranks with the first `k` modes and does not alter the basis object. -/
theorem update_modes_prefix (st : Sspor) (k nm nf cols : Nat) (o : List Nat) (hk : 0 < k)
    (hnm : st.basis.nModes = some nm) (hf : st.basis.fitted = some (nf, cols)) (hle : k ≤ nm) :
    (st.updateModes (.int k) none o).1.basis = st.basis ∧
      ((st.updateModes (.int k) none o).2 = none →
        (st.updateModes (.int k) none o).1.bm = some (nf, min k cols) ∧
        (st.updateModes (.int k) none o).1.ranking = some o) := by
  sorry

/-- a rejected `update_n_basis_modes` whose value is not a positive integer changes nothing -/
theorem update_modes_invalid_unchanged (st : Sspor) (v : PyCount) (x : Option (Nat × Nat))
    (o : List Nat) (hv : v = .other ∨ ∃ z : Int, v = .int z ∧ z ≤ 0) :
    st.updateModes v x o = (st, some .valueError) := by
  sorry

end PsVerif
